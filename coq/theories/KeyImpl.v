(* C09 -- model of what the generated `from_dict` does with input keys, built around the
   three functions translated from /repo on every run (VerifGen.K4):

     get_field_alias  alias of a field from its three sources
     key_plan         the keys the emitted `d.get(...)` lines read, in order
     allowed_keys     the set subtracted from set(d.keys()) under forbid_extra_keys

   Hand-written here (and tied by the correspondence on every run): the order of the emitted
   statements (extra-key check first, then the fields in definition order), `d.get`, the
   MISSING fall-through between the reads of one field, MissingField for a field without
   default. *)
From Coq Require Import List String Ascii ZArith Bool.
From Verif Require Import Regex PyK PyK_alias KeyModel.
From VerifGen Require Import K4.
Import ListNotations.
Open Scope string_scope.

Definition enc_ostr (o: option string) : kv := match o with Some s => KStr s | None => KNone end.

(* an instance of mashumaro.types.Alias / any other annotation object *)
Definition enc_ann (a: ann) : kv :=
  match a with
  | AAlias s => KNs [("__class__", KStr "Alias"); ("name", KStr s)]
  | AOther => KObj 0
  end.

Definition enc_meta (f: fld) : kv :=
  KDict (match f_meta f with Some a => [(KStr "alias", KStr a)] | None => [] end).

Definition enc_aliases (l: list (string * string)) : kv :=
  KDict (map (fun p => (KStr (fst p), KStr (snd p))) l).

(* a Discriminator instance found in the MRO, or None *)
Definition enc_discr (o: option (option string)) : kv :=
  match o with
  | None => KNone
  | Some fo => KNs [("__class__", KStr "Discriminator"); ("field", enc_ostr fo)]
  end.

Definition impl_alias (c: cls) (f: fld) : res kv :=
  get_field_alias (KStr (f_name f)) (enc_meta f)
    (KBool (match f_ann f with Some _ => true | None => false end))
    (match f_ann f with Some l => KTuple (map enc_ann l) | None => KNone end)
    (enc_aliases (c_aliases c)).

(* filtered_fields: (fname, alias, ftype) *)
Fixpoint impl_filtered (c: cls) (fs: list fld) : res (list (fld * kv)) :=
  match fs with
  | [] => Ok []
  | f :: r => a <- impl_alias c f ;; rest <- impl_filtered c r ;; Ok ((f, a) :: rest)
  end.

Definition enc_filtered (ff: list (fld * kv)) : kv :=
  KList (map (fun p => KTuple [KStr (f_name (fst p)); snd p; KObj 1]) ff).

Definition key_of_kv (v: kv) : option key :=
  match v with
  | KStr s => Some (KeyS s)
  | KNone => Some KeyNone
  | KInt z => Some (KeyI z)
  | _ => None
  end.

Definition kv_of_key (k: key) : kv :=
  match k with KeyS s => KStr s | KeyNone => KNone | KeyI z => KInt z end.

(* value = d.get(k1, MISSING); if value is MISSING: value = d.get(k2, MISSING); ... *)
Fixpoint impl_reads (d: dict) (plan: list kv) : res (option (key * Z)) :=
  match plan with
  | [] => Ok None
  | k :: r => match key_of_kv k with
              | None => Raise TypeError
              | Some k' => match dget d k' with
                           | Some v => Ok (Some (k', v))
                           | None => impl_reads d r end
              end
  end.

Definition impl_field_read (c: cls) (d: dict) (fa: fld * kv) : res (option (key * Z)) :=
  p <- key_plan (KBool (c_allow c)) (snd fa) (KStr (f_name (fst fa))) ;;
  match p with
  | KTuple plan => impl_reads d plan
  | _ => Raise TypeError
  end.

Fixpoint impl_fields (c: cls) (d: dict) (ff: list (fld * kv)) : res outcome :=
  match ff with
  | [] => Ok (OInst [])
  | fa :: r =>
      x <- impl_field_read c d fa ;;
      match x with
      | None => if f_dflt (fst fa) then
                  o <- impl_fields c d r ;;
                  Ok (match o with OInst vs => OInst ((f_name (fst fa), None) :: vs) | _ => o end)
                else Ok (OMissing (f_name (fst fa)))
      | Some kv => o <- impl_fields c d r ;;
                   Ok (match o with OInst vs => OInst ((f_name (fst fa), Some kv) :: vs) | _ => o end)
      end
  end.

Definition impl_forbidden (allowed: kv) (d: dict) : list key :=
  filter (fun k => negb (k_set_mem allowed (kv_of_key k))) (keys d).

Definition impl_from_dict (c: cls) (d: dict) : res outcome :=
  ff <- impl_filtered c (c_fields c) ;;
  if c_forbid c then
    al <- allowed_keys (enc_discr (c_discr c)) (KBool (c_allow c)) (enc_filtered ff) ;;
    match impl_forbidden al d with
    | (_ :: _) as ks => Ok (OExtra ks)
    | [] => impl_fields c d ff
    end
  else impl_fields c d ff.

Definition res_outcome_eqb (r: res outcome) (o: outcome) : bool :=
  match r with Ok x => outcome_eqb x o | Raise _ => false end.
