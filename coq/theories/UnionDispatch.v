(* C11: the dispatch at Union / Optional / TypeVar positions.

   Vocabulary of the translated kernel K43 (coq/gen/K43.v, re-translated on every run from
     mashumaro/core/meta/helpers.py      is_optional, not_none_type_arg, is_type_var_any
     mashumaro/core/meta/types/common.py expr_or_maybe_none
     mashumaro/core/meta/types/unpack.py unpack_special_typing_primitive (union / type variable branches)
     mashumaro/core/meta/types/pack.py   pack_special_typing_primitive   (union / type variable branches)):
   types as these functions look at them, the expression they return, and the meaning of that
   expression in terms of UnionModel (opt_dec, union_dec, pack_union, typevar_dec).
   No proofs here.  Proofs: K43Proofs.v. *)
From Coq Require Import List String ZArith Bool Arith.
From Verif Require Import UnionModel.
Import ListNotations.

(* a type as the dispatch sees it *)
Inductive dty :=
| DScalar (k: skind)                  (* int / float / bool / str / NoneType *)
| DAny                                (* typing.Any *)
| DPlain (n: nat)                     (* any other type that is not a union or a type variable *)
| DUnion (args: list dty)             (* typing.Union[args] as typing leaves it (flattened, >= 2 args) *)
| DTypeVar (n: nat) (anystr: bool)    (* TypeVar number n; anystr: it is typing.AnyStr *)
           (cs: list dty)             (* __constraints__ *)
           (bound: option dty)        (* __bound__ *)
           (dflt: option dty).        (* __default__ when has_default() *)

Definition is_nonetype (t: dty) : bool := match t with DScalar KNone => true | _ => false end.
Definition is_union (t: dty) : bool := match t with DUnion _ => true | _ => false end.
Definition get_args (t: dty) : list dty := match t with DUnion l => l | _ => [] end.
Definition is_type_var (t: dty) : bool := match t with DTypeVar _ _ _ _ _ => true | _ => false end.
Definition is_anystr (t: dty) : bool := match t with DTypeVar _ a _ _ _ => a | _ => false end.
Definition tv_constraints (t: dty) : list dty := match t with DTypeVar _ _ cs _ _ => cs | _ => [] end.
Definition tv_bound (t: dty) : option dty := match t with DTypeVar _ _ _ b _ => b | _ => None end.
Definition tv_default (t: dty) : option dty := match t with DTypeVar _ _ _ _ d => d | _ => None end.
Definition type_var_has_default (t: dty) : bool := match tv_default t with Some _ => true | None => false end.
(* `typ.__bound__ not in (None, Any)` *)
Definition bound_not_none_or_any (t: dty) : bool :=
  match tv_bound t with None => false | Some DAny => false | Some _ => true end.
Definition nonempty {A} (l: list A) : bool := match l with [] => false | _ => true end.

(* `resolved_type_params.get(arg, arg)`: the dict is keyed by the type variables of the class *)
Definition rtp_t := nat -> option dty.
Definition dict_get (rtp: rtp_t) (key dflt: dty) : dty :=
  match key with
  | DTypeVar n _ _ _ _ => match rtp n with Some t => t | None => dflt end
  | _ => dflt end.
Definition no_rtp : rtp_t := fun _ => None.

(* what the dispatch reads of a ValueSpec *)
Record dspec := DS {
  ds_type : dty;           (* spec.type *)
  ds_cbn : bool;           (* spec.could_be_none *)
  ds_discr : bool          (* some element of spec.annotations is a Discriminator (C12's territory) *)
}.

(* the expression the dispatch returns *)
Inductive dexpr :=
| XReg (t: option dty)                    (* <Registry>.get(spec.copy(type=t)); None = Python None *)
| XOrNone (e: dexpr)                      (* f"{e} if {spec.expression} is not None else None" *)
| XUnion (args: list dty)                 (* UnionUnpackerBuilder(args).build(spec) / pack_union(spec, args) *)
| XTypeVar (cs: list dty)                 (* TypeVarUnpackerBuilder(cs).build(spec) / pack_union(spec, cs, "type_var") *)
| XDiscr (variants: list dty)             (* DiscriminatedUnionUnpackerBuilder(annotation, variants).build(spec) *)
| XValue                                  (* spec.expression *)
| XRaise                                  (* raise UnserializableDataError *)
| XNext.                                  (* none of the union / type variable branches applies *)

(* ------------------------------------------------------------------ *)
(* meaning of the returned expression, decode side.
   [D t]: behaviour of the unpacker the registry returns for type t (for a scalar k it is the
   coercion `co k`, see [dwf]); [eid]: identity of that expression (UnionModel.member). *)
Section Denote.
  Variable co : skind -> uv -> option uv.
  Variable D : option dty -> uv -> option uv.
  Variable eid : dty -> nat.

  Definition dmember (t: dty) : member :=
    match t with DScalar k => MS k | _ => MN (eid t) (D (Some t)) end.

  Fixpoint xden (e: dexpr) : uv -> option uv :=
    match e with
    | XReg t => D t
    | XOrNone e' => opt_dec (xden e')
    | XUnion args => union_dec co (map dmember args)
    | XTypeVar cs => union_dec co (map dmember cs)
    | XValue => Some
    | XDiscr _ | XRaise | XNext => fun _ => None
    end.

  (* dataclass field plumbing (CodeBuilder._unpack_method_set_value, hand-modelled): a nullable
     field is compiled with could_be_none=False and its assignment is wrapped in
     `if value is not None: ... else: <field> = None` *)
  Definition field_dec (nullable: bool) (f: uv -> option uv) : uv -> option uv :=
    if nullable then opt_dec f else f.
End Denote.

(* ------------------------------------------------------------------ *)
(* meaning, encode side: [P t] = behaviour of the packer of t, [pcls t] = class named in the class
   check of pack_union, [pid t] = packer expression is "value" *)
Section DenoteP.
  Variable P : option dty -> uv -> option uv.
  Variable pcls : dty -> string.
  Variable pid : dty -> bool.
  Variable eid : dty -> nat.

  Definition dpmember (t: dty) : pmember :=
    PM (pcls t) (if pid t then None else Some (eid t)) (P (Some t)).

  Fixpoint pden (e: dexpr) : uv -> option uv :=
    match e with
    | XReg t => P t
    | XOrNone e' => opt_dec (pden e')
    | XUnion args => pack_union (map dpmember args)
    | XTypeVar cs => pack_union (map dpmember cs)
    | XValue => Some
    | XDiscr _ | XRaise | XNext => fun _ => None
    end.
End DenoteP.

(* ------------------------------------------------------------------ *)
(* observation codes for the per-run comparison with the real dispatch (harness: k43_part) *)
Inductive xcode :=
| OReg (i: option nat) (ornone: bool)   (* registry expression of argument number i (None: type None), with / without the None test *)
| OUnion (n: nat)                       (* union method over n arguments *)
| OTypeVar (n: nat)
| OValue | ORaise | ONext | ODiscr.

Definition xcode_eqb (a b: xcode) : bool :=
  match a, b with
  | OReg i o, OReg j p => Bool.eqb o p && match i, j with Some x, Some y => Nat.eqb x y | None, None => true | _, _ => false end
  | OUnion n, OUnion m | OTypeVar n, OTypeVar m => Nat.eqb n m
  | OValue, OValue | ORaise, ORaise | ONext, ONext | ODiscr, ODiscr => true
  | _, _ => false end.

(* the harness numbers the distinct types of a case, so positions are found by number *)
Definition dnum (t: dty) : option nat :=
  (match t with
  | DAny => Some 0
  | DScalar KInt => Some 1 | DScalar KFloat => Some 2 | DScalar KBool => Some 3 | DScalar KStr => Some 4 | DScalar KNone => Some 5
  | DPlain n => Some (10 + n) | DTypeVar n _ _ _ _ => Some (10 + n)
  | DUnion _ => None end)%nat.
Fixpoint pos_of (t: dty) (l: list dty) (i: nat) : option nat :=
  match l with
  | [] => None
  | x :: r => match dnum t, dnum x with
              | Some a, Some b => if Nat.eqb a b then Some i else pos_of t r (S i)
              | _, _ => pos_of t r (S i) end
  end.

(* candidates among which the registry argument is located: union arguments, or [bound; default] *)
Definition code_of (cands: list dty) (e: dexpr) : xcode :=
  let reg t := match t with Some t' => pos_of t' cands 0 | None => None end in
  match e with
  | XReg t => OReg (reg t) false
  | XOrNone (XReg t) => OReg (reg t) true
  | XOrNone (XDiscr _) | XDiscr _ => ODiscr
  | XOrNone _ => ONext
  | XUnion a => OUnion (List.length a)
  | XTypeVar a => OTypeVar (List.length a)
  | XValue => OValue | XRaise => ORaise | XNext => ONext
  end.
