(* C18: where the labels of a result come from, and two calls.
   Every label of a packed / unpacked result is either a label of the argument (old) or was drawn
   from the fresh supply [n, n') of that call; hence two calls on disjoint supplies have nothing in
   common but the argument's own containers.  No conformance hypothesis is needed. *)
From Coq Require Import List Arith Bool ZArith Lia.
From Verif Require Import Share ShareProofs.
Import ListNotations.

Section IrInd.
  Variable P : ir -> Prop.
  Hypothesis Hid : P IId.
  Hypothesis Hconv : P IConv.
  Hypothesis Hstr : P IStr.
  Hypothesis Hopt : forall e, P e -> P (IOpt e).
  Hypothesis Hcopy : P ICopy.
  Hypothesis Hseq : forall e, P e -> P (ISeqComp e).
  Hypothesis Hmap : forall ke, P ke -> forall ve, P ve -> P (IMapComp ke ve).
  Hypothesis Htup : forall es, Forall P es -> P (ITup es).
  Hypothesis Hcall : forall c fw, P (ICall c fw).
  Hypothesis Hlit : P ILit.
  Hypothesis Hrec : forall es, Forall P es -> P (IRec es).
  Hypothesis Hunion : forall idc es, Forall P es -> P (IUnion idc es).
  Fixpoint ir_ind' (e: ir) : P e :=
    let go := fix go (es: list ir) : Forall P es :=
                match es with [] => Forall_nil _ | x :: r => Forall_cons _ (ir_ind' x) (go r) end in
    match e with
    | IId => Hid | IConv => Hconv | IStr => Hstr
    | IOpt e' => Hopt e' (ir_ind' e')
    | ICopy => Hcopy
    | ISeqComp e' => Hseq e' (ir_ind' e')
    | IMapComp ke ve => Hmap ke (ir_ind' ke) ve (ir_ind' ve)
    | ITup es => Htup es (go es)
    | ICall c fw => Hcall c fw
    | ILit => Hlit
    | IRec es => Hrec es (go es)
    | IUnion idc es => Hunion idc es (go es)
    end.
End IrInd.

Definition lab_ok (n0 n n': nat) (r: lv) : Prop :=
  forall l, In l (labels r) -> l < n0 \/ (n <= l /\ l < n').

Lemma all_old_labels n0 : forall v, all_old n0 v = true -> forall l, In l (labels v) -> l < n0.
Proof.
  induction v as [z | | z | l0 | k l0 xs IH | k l0 kvs IH | c l0 fs IH] using lv_ind'; simpl; intros Ho l Hl;
    try contradiction.
  - destruct Hl as [<- | []]. now apply Nat.ltb_lt.
  - apply andb_prop in Ho. destruct Ho as [H0 Ho]. destruct Hl as [<- | Hl]; [now apply Nat.ltb_lt |].
    apply in_flat_map in Hl. destruct Hl as [x [Hx Hl]]. rewrite Forall_forall in IH.
    rewrite forallb_forall in Ho. eapply IH; eauto.
  - apply andb_prop in Ho. destruct Ho as [H0 Ho]. destruct Hl as [<- | Hl]; [now apply Nat.ltb_lt |].
    apply in_flat_map in Hl. destruct Hl as [[a b] [Hx Hl]]. rewrite Forall_forall in IH.
    rewrite forallb_forall in Ho. specialize (Ho (a, b) Hx). apply andb_prop in Ho. destruct Ho as [Ha Hb].
    destruct (IH (a, b) Hx) as [IHa IHb]. simpl in *. apply in_app_or in Hl. destruct Hl; [eapply IHa | eapply IHb]; eauto.
  - apply andb_prop in Ho. destruct Ho as [H0 Ho]. destruct Hl as [<- | Hl]; [now apply Nat.ltb_lt |].
    apply in_flat_map in Hl. destruct Hl as [x [Hx Hl]]. rewrite Forall_forall in IH.
    rewrite forallb_forall in Ho. eapply IH; eauto.
Qed.

Lemma ret_old n0 n v : all_old n0 v = true -> n <= n /\ lab_ok n0 n n v.
Proof. intros Ho. split; [lia |]. intros l Hl. left. eapply all_old_labels; eauto. Qed.

Lemma lab_ok_widen n0 a b a' b' r : lab_ok n0 a b r -> a' <= a -> b <= b' -> lab_ok n0 a' b' r.
Proof. intros H Ha Hb l Hl. destruct (H l Hl) as [H1 | [H1 H2]]; [left; exact H1 | right; lia]. Qed.

(* state threading over lists keeps the invariant *)
Lemma map_st_labels {A} (f: A -> nat -> lv * nat) n0 xs :
  Forall (fun x => forall m, n0 <= m -> let (y, m') := f x m in m <= m' /\ lab_ok n0 m m' y) xs ->
  forall m, n0 <= m ->
  let (ys, m') := map_st f xs m in
  m <= m' /\ forall l, In l (flat_map labels ys) -> l < n0 \/ (m <= l /\ l < m').
Proof.
  induction 1 as [| x r Hx Hr IH]; intros m Hm; simpl.
  - split; [lia | intros l []].
  - specialize (Hx m Hm). destruct (f x m) as [y m1]. destruct Hx as [H1 Hy].
    specialize (IH m1 ltac:(lia)). destruct (map_st f r m1) as [ys m2]. destruct IH as [H2 Hys].
    split; [lia |]. simpl. intros l Hl. apply in_app_or in Hl. destruct Hl as [Hl | Hl].
    + destruct (Hy l Hl) as [? | [? ?]]; [left; assumption | right; lia].
    + destruct (Hys l Hl) as [? | [? ?]]; [left; assumption | right; lia].
Qed.

Lemma zip_st_labels {A B} (f: A -> B -> nat -> lv * nat) n0 xs :
  Forall (fun x => forall e m, n0 <= m -> let (y, m') := f x e m in m <= m' /\ lab_ok n0 m m' y) xs ->
  forall es m, n0 <= m ->
  let (ys, m') := zip_st f es xs m in
  m <= m' /\ forall l, In l (flat_map labels ys) -> l < n0 \/ (m <= l /\ l < m').
Proof.
  induction 1 as [| x r Hx Hr IH]; intros es m Hm; destruct es as [| e es]; simpl; try (split; [lia | intros l []]).
  specialize (Hx e m Hm). destruct (f x e m) as [y m1]. destruct Hx as [H1 Hy].
  specialize (IH es m1 ltac:(lia)). destruct (zip_st f es r m1) as [ys m2]. destruct IH as [H2 Hys].
  split; [lia |]. simpl. intros l Hl. apply in_app_or in Hl. destruct Hl as [Hl | Hl].
  + destruct (Hy l Hl) as [? | [? ?]]; [left; assumption | right; lia].
  + destruct (Hys l Hl) as [? | [? ?]]; [left; assumption | right; lia].
Qed.

Section PackLabels.
  Variable E : env.
  Variable n0 : nat.

  Definition P_lab (v: lv) : Prop :=
    forall call e n, all_old n0 v = true -> n0 <= n ->
      let (r, n') := run_pack E v call e n in n <= n' /\ lab_ok n0 n n' r.

  Lemma fresh_node_ok n n' (l: nat) :
    S n <= n' -> l = n -> l < n0 \/ (n <= l /\ l < n').
  Proof. intros. right. lia. Qed.

  Lemma union_lab v call idc es n :
    Forall (fun e => forall n, all_old n0 v = true -> n0 <= n ->
              let (r, n') := run_pack E v call e n in n <= n' /\ lab_ok n0 n n' r) es ->
    all_old n0 v = true -> n0 <= n ->
    let (r, n') := run_pack E v call (IUnion idc es) n in n <= n' /\ lab_ok n0 n n' r.
  Proof.
    intros HF Ho Hn. rewrite rp_union. destruct (in_idc idc v); [apply ret_old; assumption |].
    induction HF as [| e1 r1 H1 Hr1 IHr1]; simpl; [apply ret_old; assumption |].
    destruct (negb (is_id e1) && accepts v e1); [apply H1; assumption | apply IHr1].
  Qed.

  (* a freshly built node: its own label is n, the labels below satisfy the invariant on [S n, n') *)
  Lemma node_ok n n' (sub: list nat) :
    S n <= n' ->
    (forall l, In l sub -> l < n0 \/ (S n <= l /\ l < n')) ->
    forall l, In l (n :: sub) -> l < n0 \/ (n <= l /\ l < n').
  Proof.
    intros Hn Hs l [<- | Hl]; [right; lia |]. destruct (Hs l Hl) as [? | [? ?]]; [left; assumption | right; lia].
  Qed.

  Lemma pack_labels_all : forall v, P_lab v.
  Proof.
    induction v as [z | | z | l0 | k l0 xs IH | k l0 kvs IH | c l0 fs IH] using lv_ind';
      intros call e; induction e as [| | | e' IHe | | e' IHe | ke IHk ve IHv | es IHes | c' fw | | res IHres | idc es IHes] using ir_ind';
      intros n Ho Hn;
      try (rewrite rp_id; apply ret_old; assumption);
      try (rewrite rp_opt; first [apply ret_old; reflexivity | apply IHe; assumption]; fail);
      try (apply union_lab; assumption);
      try (simpl; apply ret_old; assumption; fail);
      try (simpl; split; [lia | intros l []]; fail).
    - (* VSeq, ICopy *)
      pose proof (all_old_labels n0 _ Ho) as Hall. simpl in Hall.
      simpl. destruct k; try (split; [lia |]; unfold lab_ok; cbn [labels]; apply node_ok; [lia |]; intros l Hl; left; apply Hall; right; exact Hl).
      apply ret_old; assumption.
    - (* VSeq, ISeqComp *)
      simpl.
      assert (Hxs: Forall (fun x => forall m, n0 <= m ->
                 let (y, m') := run_pack E x call e' m in m <= m' /\ lab_ok n0 m m' y) xs).
      { simpl in Ho. apply andb_prop in Ho. destruct Ho as [_ Ho]. apply forallb_Forall in Ho.
        pose proof (Forall_and _ _ _ IH Ho) as H. eapply Forall_impl; [| exact H]. intros x [Hx Hox] m Hm. apply Hx; auto. }
      pose proof (map_st_labels (fun x => run_pack E x call e') n0 xs Hxs (S n) ltac:(lia)) as HM.
      destruct (map_st (fun x => run_pack E x call e') xs (S n)) as [ys n']. destruct HM as [H1 H2].
      split; [lia |]. unfold lab_ok; cbn [labels]; apply node_ok; [lia | exact H2].
    - (* VSeq, ITup *)
      simpl.
      assert (Hxs: Forall (fun x => forall (e: ir) m, n0 <= m ->
                 let (y, m') := run_pack E x call e m in m <= m' /\ lab_ok n0 m m' y) xs).
      { simpl in Ho. apply andb_prop in Ho. destruct Ho as [_ Ho]. apply forallb_Forall in Ho.
        pose proof (Forall_and _ _ _ IH Ho) as H. eapply Forall_impl; [| exact H]. intros x [Hx Hox] e m Hm. apply Hx; auto. }
      pose proof (zip_st_labels (fun x e' => run_pack E x call e') n0 xs Hxs es (S n) ltac:(lia)) as HM.
      destruct (zip_st (fun x e' => run_pack E x call e') es xs (S n)) as [ys n']. destruct HM as [H1 H2].
      split; [lia |]. unfold lab_ok; cbn [labels]; apply node_ok; [lia | exact H2].
    - (* VMap, ICopy *)
      pose proof (all_old_labels n0 _ Ho) as Hall. simpl in Hall.
      simpl. split; [lia |]. unfold lab_ok; cbn [labels]; apply node_ok; [lia |]. intros l Hl. left. apply Hall. right. exact Hl.
    - (* VMap, ISeqComp: the keys *)
      simpl.
      assert (Hxs: Forall (fun kv : lv * lv => forall m, n0 <= m ->
                 let (y, m') := (let (k0, _) := kv in run_pack E k0 call e') m in m <= m' /\ lab_ok n0 m m' y) kvs).
      { simpl in Ho. apply andb_prop in Ho. destruct Ho as [_ Ho]. apply forallb_Forall in Ho.
        pose proof (Forall_and _ _ _ IH Ho) as H. eapply Forall_impl; [| exact H].
        intros [k0 x] [[Hk Hx] Hox] m Hm. simpl in *. apply andb_prop in Hox. destruct Hox as [Hok _]. apply Hk; auto. }
      pose proof (map_st_labels _ n0 kvs Hxs (S n) ltac:(lia)) as HM.
      match goal with |- context [map_st ?f kvs (S n)] => destruct (map_st f kvs (S n)) as [ys n'] end.
      destruct HM as [H1 H2]. split; [lia |]. unfold lab_ok; cbn [labels]; apply node_ok; [lia | exact H2].
    - (* VMap, IMapComp *)
      simpl.
      assert (Hxs: Forall (fun kv : lv * lv => forall m, n0 <= m ->
                 let (y, m') := (let (k0, x) := kv in
                                 let (k', m1) := run_pack E k0 call ke m in
                                 let (x', m2) := run_pack E x call ve m1 in ((k', x'), m2)) in
                 m <= m' /\ (forall l, In l (let (a, b) := y in labels a ++ labels b) -> l < n0 \/ (m <= l /\ l < m'))) kvs).
      { simpl in Ho. apply andb_prop in Ho. destruct Ho as [_ Ho]. apply forallb_Forall in Ho.
        pose proof (Forall_and _ _ _ IH Ho) as H. eapply Forall_impl; [| exact H].
        intros [k0 x] [[Hk Hx] Hox] m Hm. simpl in *. apply andb_prop in Hox. destruct Hox as [Hok Hox].
        specialize (Hk call ke m Hok Hm). destruct (run_pack E k0 call ke m) as [k' m1]. destruct Hk as [Hk1 Hk2].
        specialize (Hx call ve m1 Hox ltac:(lia)). destruct (run_pack E x call ve m1) as [x' m2]. destruct Hx as [Hx1 Hx2].
        split; [lia |]. intros l Hl. apply in_app_or in Hl. destruct Hl as [Hl | Hl].
        - destruct (Hk2 l Hl) as [? | [? ?]]; [left; assumption | right; lia].
        - destruct (Hx2 l Hl) as [? | [? ?]]; [left; assumption | right; lia]. }
      match goal with |- context [map_st ?f kvs (S n)] => set (F := f) end.
      assert (HM: let (ys, m') := map_st F kvs (S n) in
                  S n <= m' /\ forall l, In l (flat_map (fun kv : lv * lv => let (a, b) := kv in labels a ++ labels b) ys) ->
                                         l < n0 \/ (S n <= l /\ l < m')).
      { clear -Hxs Hn. assert (Hm: n0 <= S n) by lia. revert Hm. generalize (S n) as m.
        induction Hxs as [| kv r Hx Hr IHr]; intros m Hm; simpl; [split; [lia | intros l []] |].
        specialize (Hx m Hm). subst F. cbv beta in *. destruct kv as [k0 x].
        destruct (run_pack E k0 call ke m) as [k' m1]. destruct (run_pack E x call ve m1) as [x' m2].
        destruct Hx as [H1 Hy]. specialize (IHr m2 ltac:(lia)).
        match goal with |- context [map_st ?f r m2] => destruct (map_st f r m2) as [ys m3] end.
        destruct IHr as [H2 Hys]. split; [lia |]. simpl. intros l Hl. apply in_app_or in Hl. destruct Hl as [Hl | Hl].
        - destruct (Hy l Hl) as [? | [? ?]]; [left; assumption | right; lia].
        - destruct (Hys l Hl) as [? | [? ?]]; [left; assumption | right; lia]. }
      destruct (map_st F kvs (S n)) as [ys n']. destruct HM as [H1 H2].
      split; [lia |]. unfold lab_ok; cbn [labels]; apply node_ok; [lia | exact H2].
    - (* VMap, IRec *)
      simpl.
      assert (Hxs: Forall (fun kv : lv * lv => forall (e: ir) m, n0 <= m ->
                 let (y, m') := (let (k0, x) := kv in let (y0, m1) := run_pack E x call e m in ((k0, y0), m1)) in
                 m <= m' /\ (forall l, In l (let (a, b) := y in labels a ++ labels b) -> l < n0 \/ (m <= l /\ l < m'))) kvs).
      { simpl in Ho. apply andb_prop in Ho. destruct Ho as [_ Ho]. apply forallb_Forall in Ho.
        pose proof (Forall_and _ _ _ IH Ho) as H. eapply Forall_impl; [| exact H].
        intros [k0 x] [[Hk Hx] Hox] e m Hm. simpl in *. apply andb_prop in Hox. destruct Hox as [Hok Hox].
        specialize (Hx call e m Hox Hm). destruct (run_pack E x call e m) as [y0 m1]. destruct Hx as [Hx1 Hx2].
        split; [lia |]. intros l Hl. apply in_app_or in Hl. destruct Hl as [Hl | Hl].
        - left. exact (all_old_labels n0 k0 Hok l Hl).
        - destruct (Hx2 l Hl) as [? | [? ?]]; [left; assumption | right; lia]. }
      match goal with |- context [zip_st ?f res kvs (S n)] => set (F := f) end.
      assert (HM: let (ys, m') := zip_st F res kvs (S n) in
                  S n <= m' /\ forall l, In l (flat_map (fun kv : lv * lv => let (a, b) := kv in labels a ++ labels b) ys) ->
                                         l < n0 \/ (S n <= l /\ l < m')).
      { clear -Hxs Hn. assert (Hm: n0 <= S n) by lia. revert Hm. generalize (S n) as m. revert res.
        induction Hxs as [| kv r Hx Hr IHr]; intros res m Hm; destruct res as [| e res]; simpl; try (split; [lia | intros l []]).
        specialize (Hx e m Hm). subst F. cbv beta in *. destruct kv as [k0 x].
        destruct (run_pack E x call e m) as [y0 m1]. destruct Hx as [H1 Hy]. specialize (IHr res m1 ltac:(lia)).
        match goal with |- context [zip_st ?f res r m1] => destruct (zip_st f res r m1) as [ys m3] end.
        destruct IHr as [H2 Hys]. split; [lia |]. simpl. intros l Hl. apply in_app_or in Hl. destruct Hl as [Hl | Hl].
        - destruct (Hy l Hl) as [? | [? ?]]; [left; assumption | right; lia].
        - destruct (Hys l Hl) as [? | [? ?]]; [left; assumption | right; lia]. }
      destruct (zip_st F res kvs (S n)) as [ys n']. destruct HM as [H1 H2].
      split; [lia |]. unfold lab_ok; cbn [labels]; apply node_ok; [lia | exact H2].
    - (* VObj, ICall *)
      simpl.
      set (call' := if fw then call else None). set (kc := e_ct E c). set (N' := effN E call' kc).
      assert (Hxs: Forall (fun x => forall (t: ty) m, n0 <= m ->
                 let (y, m') := run_pack E x call' (cp E N' (c_sup kc) t) m in m <= m' /\ lab_ok n0 m m' y) fs).
      { simpl in Ho. apply andb_prop in Ho. destruct Ho as [_ Ho]. apply forallb_Forall in Ho.
        pose proof (Forall_and _ _ _ IH Ho) as H. eapply Forall_impl; [| exact H]. intros x [Hx Hox] t m Hm. apply Hx; auto. }
      pose proof (zip_st_labels (fun x t => run_pack E x call' (cp E N' (c_sup kc) t)) n0 fs Hxs (c_fields kc) (S n) ltac:(lia)) as HM.
      destruct (zip_st (fun x t => run_pack E x call' (cp E N' (c_sup kc) t)) (c_fields kc) fs (S n)) as [ys n'].
      destruct HM as [H1 H2]. split; [lia |]. simpl. unfold lab_ok; cbn [labels]; apply node_ok; [lia |].
      intros l Hl. apply H2. clear -Hl. unfold as_items in Hl. induction ys as [| y r IHr]; simpl in *; [exact Hl |].
      apply in_app_or in Hl. apply in_or_app. destruct Hl as [Hl | Hl]; [left; exact Hl | right; apply IHr; exact Hl].
  Qed.
End PackLabels.

Section UnpackLabels.
  Variable E : env.
  Variable n0 : nat.

  Definition U_lab (w: lv) : Prop :=
    forall t n, all_old n0 w = true -> n0 <= n ->
      let (r, n') := run_unpack E w (cu t) n in n <= n' /\ lab_ok n0 n n' r.

  Lemma unpack_labels_all : forall w, U_lab w.
  Proof.
    induction w as [z | | z | l0 | k l0 xs IH | k l0 kvs IH | c l0 fs IH] using lv_ind';
      intros t; induction t as [| lk | | | t' IHt | o t' IHt | t' IHt | ts IHts | o kt IHk vt IHv | c0 | tw IHw | us IHus | | | dd | kk tc IHc | rk IHrk rv IHrv | rs IHrs] using ty_ind';
      intros n Ho Hn;
      try (apply IHw; assumption);
      try (cbn [cu]; rewrite ru_opt; first [apply ret_old; reflexivity | apply IHt; assumption]; fail);
      try (cbn [cu]; rewrite ru_union;
           induction IHus as [| t1 r1 H1 Hr1 IHr1]; simpl; [split; [lia | intros l []] |];
           match goal with |- context [cls_fits ?a ?b] => destruct (cls_fits a b) end;
           [apply H1; assumption | apply IHr1]; fail);
      try (simpl; apply ret_old; assumption; fail);
      try (simpl; split; [lia | intros l []]; fail);
      try (destruct dd as [| kk]; [| destruct kk]; simpl;
           (split; [lia | intros l Hl; simpl in Hl; first [contradiction | destruct Hl as [<- | []]; right; lia]]); fail).
    - (* VSeq, TSeq *)
      simpl.
      assert (Hxs: Forall (fun x => forall m, n0 <= m ->
                 let (y, m') := run_unpack E x (cu t') m in m <= m' /\ lab_ok n0 m m' y) xs).
      { simpl in Ho. apply andb_prop in Ho. destruct Ho as [_ Ho]. apply forallb_Forall in Ho.
        pose proof (Forall_and _ _ _ IH Ho) as H. eapply Forall_impl; [| exact H]. intros x [Hx Hox] m Hm. apply Hx; auto. }
      pose proof (map_st_labels (fun x => run_unpack E x (cu t')) n0 xs Hxs (S n) ltac:(lia)) as HM.
      destruct (map_st (fun x => run_unpack E x (cu t')) xs (S n)) as [ys n']. destruct HM as [H1 H2].
      split; [lia |]. unfold lab_ok; cbn [labels]; apply node_ok; [lia | exact H2].
    - (* VSeq, TTupV *)
      simpl.
      assert (Hxs: Forall (fun x => forall m, n0 <= m ->
                 let (y, m') := run_unpack E x (cu t') m in m <= m' /\ lab_ok n0 m m' y) xs).
      { simpl in Ho. apply andb_prop in Ho. destruct Ho as [_ Ho]. apply forallb_Forall in Ho.
        pose proof (Forall_and _ _ _ IH Ho) as H. eapply Forall_impl; [| exact H]. intros x [Hx Hox] m Hm. apply Hx; auto. }
      pose proof (map_st_labels (fun x => run_unpack E x (cu t')) n0 xs Hxs (S n) ltac:(lia)) as HM.
      destruct (map_st (fun x => run_unpack E x (cu t')) xs (S n)) as [ys n']. destruct HM as [H1 H2].
      split; [lia |]. unfold lab_ok; cbn [labels]; apply node_ok; [lia | exact H2].
    - (* VSeq, TTup *)
      simpl.
      assert (Hxs: Forall (fun x => forall (e: uir) m, n0 <= m ->
                 let (y, m') := run_unpack E x e m in m <= m' /\ lab_ok n0 m m' y) xs -> True) by auto.
      assert (Hxt: Forall (fun x => forall (t: ty) m, n0 <= m ->
                 let (y, m') := run_unpack E x (cu t) m in m <= m' /\ lab_ok n0 m m' y) xs).
      { simpl in Ho. apply andb_prop in Ho. destruct Ho as [_ Ho]. apply forallb_Forall in Ho.
        pose proof (Forall_and _ _ _ IH Ho) as H. eapply Forall_impl; [| exact H]. intros x [Hx Hox] t m Hm. apply Hx; auto. }
      assert (Hz: forall m, zip_st (fun x e' => run_unpack E x e') (map cu ts) xs m
                         = zip_st (fun x t => run_unpack E x (cu t)) ts xs m).
      { clear. revert ts. induction xs as [| x r IHr]; intros ts m; destruct ts as [| t ts]; simpl; try reflexivity.
        destruct (run_unpack E x (cu t) m) as [y m1]. now rewrite IHr. }
      rewrite Hz.
      pose proof (zip_st_labels (fun x t => run_unpack E x (cu t)) n0 xs Hxt ts (S n) ltac:(lia)) as HM.
      destruct (zip_st (fun x t => run_unpack E x (cu t)) ts xs (S n)) as [ys n']. destruct HM as [H1 H2].
      split; [lia |]. unfold lab_ok; cbn [labels]; apply node_ok; [lia | exact H2].
    - (* VSeq, TComp *)
      simpl.
      assert (Hxs: Forall (fun x => forall m, n0 <= m ->
                 let (y, m') := run_unpack E x (cu tc) m in m <= m' /\ lab_ok n0 m m' y) xs).
      { simpl in Ho. apply andb_prop in Ho. destruct Ho as [_ Ho]. apply forallb_Forall in Ho.
        pose proof (Forall_and _ _ _ IH Ho) as H. eapply Forall_impl; [| exact H]. intros x [Hx Hox] m Hm. apply Hx; auto. }
      pose proof (map_st_labels (fun x => run_unpack E x (cu tc)) n0 xs Hxs (S n) ltac:(lia)) as HM.
      destruct (map_st (fun x => run_unpack E x (cu tc)) xs (S n)) as [ys n']. destruct HM as [H1 H2].
      split; [lia |]. unfold lab_ok; cbn [labels]; apply node_ok; [lia | exact H2].
    - (* VMap, TMap *)
      simpl.
      assert (Hxs: Forall (fun kv : lv * lv => forall m, n0 <= m ->
                 let (y, m') := (let (k0, x) := kv in
                                 let (k', m1) := run_unpack E k0 (cu kt) m in
                                 let (x', m2) := run_unpack E x (cu vt) m1 in ((k', x'), m2)) in
                 m <= m' /\ (forall l, In l (let (a, b) := y in labels a ++ labels b) -> l < n0 \/ (m <= l /\ l < m'))) kvs).
      { simpl in Ho. apply andb_prop in Ho. destruct Ho as [_ Ho]. apply forallb_Forall in Ho.
        pose proof (Forall_and _ _ _ IH Ho) as H. eapply Forall_impl; [| exact H].
        intros [k0 x] [[Hk Hx] Hox] m Hm. simpl in *. apply andb_prop in Hox. destruct Hox as [Hok Hox].
        specialize (Hk kt m Hok Hm). destruct (run_unpack E k0 (cu kt) m) as [k' m1]. destruct Hk as [Hk1 Hk2].
        specialize (Hx vt m1 Hox ltac:(lia)). destruct (run_unpack E x (cu vt) m1) as [x' m2]. destruct Hx as [Hx1 Hx2].
        split; [lia |]. intros l Hl. apply in_app_or in Hl. destruct Hl as [Hl | Hl].
        - destruct (Hk2 l Hl) as [? | [? ?]]; [left; assumption | right; lia].
        - destruct (Hx2 l Hl) as [? | [? ?]]; [left; assumption | right; lia]. }
      match goal with |- context [map_st ?f kvs (S n)] => set (F := f) end.
      assert (HM: let (ys, m') := map_st F kvs (S n) in
                  S n <= m' /\ forall l, In l (flat_map (fun kv : lv * lv => let (a, b) := kv in labels a ++ labels b) ys) ->
                                         l < n0 \/ (S n <= l /\ l < m')).
      { clear -Hxs Hn. assert (Hm: n0 <= S n) by lia. revert Hm. generalize (S n) as m.
        induction Hxs as [| kv r Hx Hr IHr]; intros m Hm; simpl; [split; [lia | intros l []] |].
        specialize (Hx m Hm). subst F. cbv beta in *. destruct kv as [k0 x].
        destruct (run_unpack E k0 (cu kt) m) as [k' m1]. destruct (run_unpack E x (cu vt) m1) as [x' m2].
        destruct Hx as [H1 Hy]. specialize (IHr m2 ltac:(lia)).
        match goal with |- context [map_st ?f r m2] => destruct (map_st f r m2) as [ys m3] end.
        destruct IHr as [H2 Hys]. split; [lia |]. simpl. intros l Hl. apply in_app_or in Hl. destruct Hl as [Hl | Hl].
        - destruct (Hy l Hl) as [? | [? ?]]; [left; assumption | right; lia].
        - destruct (Hys l Hl) as [? | [? ?]]; [left; assumption | right; lia]. }
      destruct (map_st F kvs (S n)) as [ys n']. destruct HM as [H1 H2].
      split; [lia |]. unfold lab_ok; cbn [labels]; apply node_ok; [lia | exact H2].
    - (* VMap, TDC *)
      simpl.
      assert (Hxs: Forall (fun kv : lv * lv => forall (t: ty) m, n0 <= m ->
                 let (y, m') := (let (_, x) := kv in run_unpack E x (cu t)) m in m <= m' /\ lab_ok n0 m m' y) kvs).
      { simpl in Ho. apply andb_prop in Ho. destruct Ho as [_ Ho]. apply forallb_Forall in Ho.
        pose proof (Forall_and _ _ _ IH Ho) as H. eapply Forall_impl; [| exact H].
        intros [k0 x] [[Hk Hx] Hox] t m Hm. simpl in *. apply andb_prop in Hox. destruct Hox as [_ Hox]. apply Hx; auto. }
      pose proof (zip_st_labels (fun (kv: lv * lv) t => let (_, x) := kv in run_unpack E x (cu t)) n0 kvs Hxs
                    (c_fields (e_ct E c0)) (S n) ltac:(lia)) as HM.
      match goal with |- context [zip_st ?f ?a kvs (S n)] => destruct (zip_st f a kvs (S n)) as [ys n'] end.
      destruct HM as [H1 H2]. split; [lia |]. unfold lab_ok; cbn [labels]; apply node_ok; [lia | exact H2].
    - (* VMap, TRMap *)
      simpl.
      assert (Hxs: Forall (fun kv : lv * lv => forall m, n0 <= m ->
                 let (y, m') := (let (k0, x) := kv in
                                 let (k', m1) := run_unpack E k0 (cu rk) m in
                                 let (x', m2) := run_unpack E x (cu rv) m1 in ((k', x'), m2)) in
                 m <= m' /\ (forall l, In l (let (a, b) := y in labels a ++ labels b) -> l < n0 \/ (m <= l /\ l < m'))) kvs).
      { simpl in Ho. apply andb_prop in Ho. destruct Ho as [_ Ho]. apply forallb_Forall in Ho.
        pose proof (Forall_and _ _ _ IH Ho) as H. eapply Forall_impl; [| exact H].
        intros [k0 x] [[Hk Hx] Hox] m Hm. simpl in *. apply andb_prop in Hox. destruct Hox as [Hok Hox].
        specialize (Hk rk m Hok Hm). destruct (run_unpack E k0 (cu rk) m) as [k' m1]. destruct Hk as [Hk1 Hk2].
        specialize (Hx rv m1 Hox ltac:(lia)). destruct (run_unpack E x (cu rv) m1) as [x' m2]. destruct Hx as [Hx1 Hx2].
        split; [lia |]. intros l Hl. apply in_app_or in Hl. destruct Hl as [Hl | Hl].
        - destruct (Hk2 l Hl) as [? | [? ?]]; [left; assumption | right; lia].
        - destruct (Hx2 l Hl) as [? | [? ?]]; [left; assumption | right; lia]. }
      match goal with |- context [map_st ?f kvs (S n)] => set (F := f) end.
      assert (HM: let (ys, m') := map_st F kvs (S n) in
                  S n <= m' /\ forall l, In l (flat_map (fun kv : lv * lv => let (a, b) := kv in labels a ++ labels b) ys) ->
                                         l < n0 \/ (S n <= l /\ l < m')).
      { clear -Hxs Hn. assert (Hm: n0 <= S n) by lia. revert Hm. generalize (S n) as m.
        induction Hxs as [| kv r Hx Hr IHr]; intros m Hm; simpl; [split; [lia | intros l []] |].
        specialize (Hx m Hm). subst F. cbv beta in *. destruct kv as [k0 x].
        destruct (run_unpack E k0 (cu rk) m) as [k' m1]. destruct (run_unpack E x (cu rv) m1) as [x' m2].
        destruct Hx as [H1 Hy]. specialize (IHr m2 ltac:(lia)).
        match goal with |- context [map_st ?f r m2] => destruct (map_st f r m2) as [ys m3] end.
        destruct IHr as [H2 Hys]. split; [lia |]. simpl. intros l Hl. apply in_app_or in Hl. destruct Hl as [Hl | Hl].
        - destruct (Hy l Hl) as [? | [? ?]]; [left; assumption | right; lia].
        - destruct (Hys l Hl) as [? | [? ?]]; [left; assumption | right; lia]. }
      destruct (map_st F kvs (S n)) as [ys n']. destruct HM as [H1 H2].
      split; [lia |]. unfold lab_ok; cbn [labels]; apply node_ok; [lia | exact H2].
    - (* VMap, TRec *)
      simpl.
      assert (Hxs: Forall (fun kv : lv * lv => forall (t: ty) m, n0 <= m ->
                 let (y, m') := (let (k0, x) := kv in let (y0, m1) := run_unpack E x (cu t) m in ((k0, y0), m1)) in
                 m <= m' /\ (forall l, In l (let (a, b) := y in labels a ++ labels b) -> l < n0 \/ (m <= l /\ l < m'))) kvs).
      { simpl in Ho. apply andb_prop in Ho. destruct Ho as [_ Ho]. apply forallb_Forall in Ho.
        pose proof (Forall_and _ _ _ IH Ho) as H. eapply Forall_impl; [| exact H].
        intros [k0 x] [[Hk Hx] Hox] t m Hm. simpl in *. apply andb_prop in Hox. destruct Hox as [Hok Hox].
        specialize (Hx t m Hox Hm). destruct (run_unpack E x (cu t) m) as [y0 m1]. destruct Hx as [Hx1 Hx2].
        split; [lia |]. intros l Hl. apply in_app_or in Hl. destruct Hl as [Hl | Hl].
        - left. exact (all_old_labels n0 k0 Hok l Hl).
        - destruct (Hx2 l Hl) as [? | [? ?]]; [left; assumption | right; lia]. }
      assert (Hz: forall m,
                 zip_st (fun (kv: lv * lv) e' m => let (k0, x) := kv in
                           let (y0, m1) := run_unpack E x e' m in ((k0, y0), m1)) (map cu rs) kvs m
                 = zip_st (fun (kv: lv * lv) t m => let (k0, x) := kv in
                           let (y0, m1) := run_unpack E x (cu t) m in ((k0, y0), m1)) rs kvs m).
      { clear. revert rs. induction kvs as [| [k0 x] r IHr]; intros rs m; destruct rs as [| t ts]; simpl; try reflexivity.
        destruct (run_unpack E x (cu t) m) as [y m1]. now rewrite IHr. }
      rewrite Hz.
      match goal with |- context [zip_st ?f rs kvs (S n)] => set (F := f) end.
      assert (HM: let (ys, m') := zip_st F rs kvs (S n) in
                  S n <= m' /\ forall l, In l (flat_map (fun kv : lv * lv => let (a, b) := kv in labels a ++ labels b) ys) ->
                                         l < n0 \/ (S n <= l /\ l < m')).
      { clear -Hxs Hn. assert (Hm: n0 <= S n) by lia. revert Hm. generalize (S n) as m. revert rs.
        induction Hxs as [| kv r Hx Hr IHr]; intros rs m Hm; destruct rs as [| t rs]; simpl; try (split; [lia | intros l []]).
        specialize (Hx t m Hm). subst F. cbv beta in *. destruct kv as [k0 x].
        destruct (run_unpack E x (cu t) m) as [y0 m1]. destruct Hx as [H1 Hy]. specialize (IHr rs m1 ltac:(lia)).
        match goal with |- context [zip_st ?f rs r m1] => destruct (zip_st f rs r m1) as [ys m3] end.
        destruct IHr as [H2 Hys]. split; [lia |]. simpl. intros l Hl. apply in_app_or in Hl. destruct Hl as [Hl | Hl].
        - destruct (Hy l Hl) as [? | [? ?]]; [left; assumption | right; lia].
        - destruct (Hys l Hl) as [? | [? ?]]; [left; assumption | right; lia]. }
      destruct (zip_st F rs kvs (S n)) as [ys n']. destruct HM as [H1 H2].
      split; [lia |]. unfold lab_ok; cbn [labels]; apply node_ok; [lia | exact H2].
  Qed.
End UnpackLabels.

(* ------------------------------------------------------------------ *)
(* two calls on disjoint fresh supplies *)
Lemma pack_twice_disjoint E n0 call N t v :
  all_old n0 v = true ->
  let (r1, n1) := pack_top E call N t v n0 in
  let (r2, n2) := pack_top E call N t v n1 in
  forall l, In l (labels r1) -> In l (labels r2) -> l < n0.
Proof.
  intros Ho. unfold pack_top.
  pose proof (pack_labels_all E n0 v call (cp E N true t) n0 Ho (le_n _)) as H1.
  destruct (run_pack E v call (cp E N true t) n0) as [r1 n1]. destruct H1 as [Hn1 H1].
  pose proof (pack_labels_all E n0 v call (cp E N true t) n1 Ho Hn1) as H2.
  destruct (run_pack E v call (cp E N true t) n1) as [r2 n2]. destruct H2 as [Hn2 H2].
  intros l Hl1 Hl2. destruct (H1 l Hl1) as [? | [? ?]]; [assumption |].
  destruct (H2 l Hl2) as [? | [? ?]]; [assumption | lia].
Qed.

Lemma unpack_twice_disjoint E n0 t w :
  all_old n0 w = true ->
  let (r1, n1) := unpack_top E t w n0 in
  let (r2, n2) := unpack_top E t w n1 in
  forall l, In l (labels r1) -> In l (labels r2) -> l < n0.
Proof.
  intros Ho. unfold unpack_top.
  pose proof (unpack_labels_all E n0 w t n0 Ho (le_n _)) as H1.
  destruct (run_unpack E w (cu t) n0) as [r1 n1]. destruct H1 as [Hn1 H1].
  pose proof (unpack_labels_all E n0 w t n1 Ho Hn1) as H2.
  destruct (run_unpack E w (cu t) n1) as [r2 n2]. destruct H2 as [Hn2 H2].
  intros l Hl1 Hl2. destruct (H1 l Hl1) as [? | [? ?]]; [assumption |].
  destruct (H2 l Hl2) as [? | [? ?]]; [assumption | lia].
Qed.
