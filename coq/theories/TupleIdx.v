(* Universe for kernel K7 (translated arg_indexes loop of pack_tuple / unpack_tuple):
   index descriptors, loop state, the enumerate-driver, and the meaning of a descriptor as
   the list of positions of a tuple of length L it selects (Python indexing / slicing with
   negative bounds). *)
From Coq Require Import List ZArith Bool Lia.
Import ListNotations.
Open Scope Z_scope.

Inductive aidx := AI (i: Z) | ASl (i: Z) (j: option Z).
Record st := { idxs : list aidx; uidx : option Z }.
Definition st0 : st := {| idxs := []; uidx := None |}.

(* for arg_idx, type_arg in enumerate(args): ... *)
Fixpoint run_from (step: st -> Z -> bool -> option st) (flags: list bool) (i: Z) (s: st) : option st :=
  match flags with
  | [] => Some s
  | f :: r => match step s i f with Some s' => run_from step r (i + 1) s' | None => None end
  end.
Definition run_loop (step: st -> Z -> bool -> option st) (flags: list bool) : option st := run_from step flags 0 st0.

(* positions a descriptor reads from a sequence of length L *)
Definition zrange (a b: Z) : list Z := map (fun k => a + Z.of_nat k) (seq 0 (Z.to_nat (b - a))).
Definition clamp (L i: Z) : Z := let j := if i <? 0 then L + i else i in if j <? 0 then 0 else if L <? j then L else j.
Definition select (L: Z) (a: aidx) : option (list Z) :=
  match a with
  | AI i => let j := if i <? 0 then L + i else i in
            if (0 <=? j) && (j <? L) then Some [j] else None        (* IndexError otherwise *)
  | ASl i j => Some (zrange (clamp L i) (match j with Some j' => clamp L j' | None => L end))
  end.

Fixpoint select_all (L: Z) (l: list aidx) : option (list Z) :=
  match l with
  | [] => Some []
  | a :: r => match select L a, select_all L r with
              | Some x, Some y => Some (x ++ y)
              | _, _ => None end
  end.
