(* C03, second half: whatever the reference decoder (hence, by C03_unpack_ref, the generated
   unpacker) returns conforms to the annotation: every field and element is built from the
   very class named there (Any positions unconstrained). *)
From Coq Require Import List String Ascii ZArith Bool Lia.
From Verif Require Import Core TupleIdx TyModel TyTuple TyProofs.
Import ListNotations.
Open Scope string_scope.
Open Scope Z_scope.
Open Scope list_scope.

(* ---- dict_of_pairs always yields pairwise distinct keys ---- *)
Lemma existsb_d_insert (q: pv -> bool) acc k v :
  existsb (fun p => q (fst p)) (d_insert acc k v) = true ->
  existsb (fun p => q (fst p)) acc = true \/ q k = true.
Proof.
  induction acc as [|[k' x] acc IH]; cbn [d_insert existsb fst].
  - rewrite orb_false_r. intros H. right. exact H.
  - destruct (py_eq k' k); cbn [existsb fst].
    + intros H. left. exact H.
    + intros H. apply orb_prop in H. destruct H as [H|H].
      * left. rewrite H. reflexivity.
      * destruct (IH H) as [H'|H']; [left; rewrite H'; apply orb_true_r | right; exact H'].
Qed.

Lemma nodup_d_insert acc k v : nodup_keys acc = true -> nodup_keys (d_insert acc k v) = true.
Proof.
  induction acc as [|[k' x] acc IH]; intros H; [reflexivity|].
  cbn [nodup_keys] in H. apply andb_prop in H. destruct H as [Hk Hr].
  cbn [d_insert]. destruct (py_eq k' k) eqn:Ek.
  - cbn [nodup_keys]. rewrite Hk, Hr. reflexivity.
  - cbn [nodup_keys]. rewrite (IH Hr). rewrite andb_true_r.
    apply negb_true_iff. apply negb_true_iff in Hk.
    destruct (existsb (fun p => py_eq k' (fst p)) (d_insert acc k v)) eqn:Ex; [|reflexivity].
    destruct (existsb_d_insert (py_eq k') acc k v Ex) as [H|H].
    + rewrite H in Hk. discriminate.
    + rewrite H in Ek. discriminate.
Qed.

Lemma nodup_dict_of_pairs l : nodup_keys (dict_of_pairs l) = true.
Proof.
  unfold dict_of_pairs. assert (H: nodup_keys [] = true) by reflexivity. revert H. generalize (@nil (pv * pv)).
  induction l as [|[k v] l IH]; intros acc H; [exact H|].
  cbn [fold_left fst snd]. apply IH. apply nodup_d_insert. exact H.
Qed.

Lemma forallb_mapM_res {A B} (f: A -> res B) (q: B -> bool) l r :
  (forall x y, In x l -> f x = Ok y -> q y = true) -> mapM f l = Ok r -> forallb q r = true.
Proof.
  revert r. induction l as [|a l IH]; intros r H Hm.
  - cbn in Hm. inversion Hm. reflexivity.
  - cbn [mapM] in Hm. destruct (f a) as [y|] eqn:Ea; [|discriminate].
    destruct (mapM f l) as [ys|] eqn:El; [|discriminate]. inversion Hm; subst.
    cbn [forallb]. rewrite (H a y (or_introl eq_refl) Ea).
    apply IH; [|reflexivity]. intros x y' Hx. apply H. right. exact Hx.
Qed.

Lemma forallb_set_of_list (q: pv -> bool) l : forallb q l = true -> forallb q (set_of_list l) = true.
Proof.
  unfold set_of_list. assert (H: forallb q [] = true) by reflexivity. revert H. generalize (@nil pv).
  induction l as [|x l IH]; intros acc Ha Hl; [exact Ha|].
  cbn [forallb] in Hl. apply andb_prop in Hl. destruct Hl as [Hx Hl].
  cbn [fold_left]. apply IH; [|exact Hl].
  clear - Ha Hx. induction acc as [|y acc IHa]; cbn [s_insert forallb].
  - rewrite Hx. reflexivity.
  - cbn [forallb] in Ha. apply andb_prop in Ha. destruct Ha as [Hy Ha].
    destruct (py_eq y x); cbn [forallb]; rewrite Hy; [exact Ha | apply IHa; exact Ha].
Qed.

Lemma forallb_dict_of_pairs (q: pv * pv -> bool) l :
  (* the predicate only looks at components, and replacing a value keeps it true *)
  (forall k v v', q (k, v) = true -> q (k, v') = true \/ True) ->
  forall qk qv, (forall k v, q (k, v) = qk k && qv v) ->
  forallb q l = true -> forallb q (dict_of_pairs l) = true.
Proof.
  intros _ qk qv Hq. unfold dict_of_pairs.
  assert (H: forallb q [] = true) by reflexivity. revert H. generalize (@nil (pv * pv)).
  induction l as [|[k v] l IH]; intros acc Ha Hl; [exact Ha|].
  cbn [forallb] in Hl. apply andb_prop in Hl. destruct Hl as [Hx Hl].
  cbn [fold_left fst snd]. apply IH; [|exact Hl].
  clear - Ha Hx Hq. induction acc as [|[k' x] acc IHa]; cbn [d_insert forallb].
  - rewrite Hx. reflexivity.
  - cbn [forallb] in Ha. apply andb_prop in Ha. destruct Ha as [Hy Ha].
    destruct (py_eq k' k); cbn [forallb].
    + rewrite Ha, andb_true_r. rewrite Hq in *. apply andb_prop in Hy. destruct Hy as [Hk' _].
      apply andb_prop in Hx. destruct Hx as [_ Hv]. rewrite Hk', Hv. reflexivity.
    + rewrite Hy. apply IHa. exact Ha.
Qed.

(* exact-length positional facts about NamedTuple walks *)
Lemma nt_defaults_all (q: sfield -> pv -> bool) rest r :
  Forall (fun f => forall dv, sf_default f = Some dv -> q f dv = true) rest ->
  nt_defaults rest = Ok r -> nt_all q rest r = true.
Proof.
  intros HF. revert r. induction HF as [|f rest Hf HF IH]; intros r H.
  - inversion H. reflexivity.
  - cbn [nt_defaults] in H. destruct (sf_default f) as [dv|] eqn:Ed; [|discriminate H].
    destruct (nt_defaults rest) as [ys|]; [|discriminate H]. cbn [bind] in H. inversion H; subst.
    cbn [nt_all]. rewrite (Hf dv eq_refl). apply (IH ys eq_refl).
Qed.

Section NtConf.
  Context {X: Type}.
  Variable q : sfield -> pv -> bool.
  Variable G : sfield -> Prop.
  Variable run : sfield -> X -> res pv.
  Variable konst : sfield -> option pv.
  Variable miss : list sfield -> res (list pv).
  Hypothesis konst_ok : forall f c, konst f = Some c -> q f c = true.
  Hypothesis miss_ok : forall rest r, Forall G rest -> miss rest = Ok r -> nt_all q rest r = true.

  Lemma nt_tail_all fds r : Forall G fds -> nt_tail konst miss fds = Ok r -> nt_all q fds r = true.
  Proof.
    intros HG. revert r. induction HG as [|f rest Hf HG IH]; intros r H.
    - inversion H. reflexivity.
    - cbn [nt_tail] in H. destruct (konst f) as [c|] eqn:Ek.
      + destruct (nt_tail konst miss rest) as [ys|]; [|discriminate H]. inversion H; subst.
        cbn [nt_all]. rewrite (konst_ok f c Ek). apply (IH ys eq_refl).
      + apply (miss_ok (f :: rest) r (Forall_cons f Hf HG) H).
  Qed.

  Lemma nt_items_all fds (l: list X) r :
    Forall G fds -> (forall f x y, In x l -> run f x = Ok y -> q f y = true) ->
    nt_items run konst miss fds l = Ok r -> nt_all q fds r = true.
  Proof.
    revert fds r. induction l as [|x l IH]; intros fds r HG Hr H.
    - destruct fds as [|f rest]; [inversion H; reflexivity|]. cbn [nt_items] in H. apply (nt_tail_all _ _ HG H).
    - destruct fds as [|f rest]; [inversion H; reflexivity|]. cbn [nt_items] in H.
      destruct (run f x) as [y|] eqn:Ey; [|discriminate H].
      destruct (nt_items run konst miss rest l) as [ys|] eqn:Eys; [|discriminate H]. inversion H; subst.
      inversion HG as [|? ? Hf HG']; subst.
      cbn [nt_all]. rewrite (Hr f x y (or_introl eq_refl) Ey).
      apply (IH rest ys HG'); [|exact Eys]. intros f0 x0 y0 Hx0. apply Hr. right. exact Hx0.
  Qed.
End NtConf.

Section Conform.
  Variable o : bool.
  Variable E : senv.
  Variable P : prims.

  (* class table well-formedness: field names pairwise distinct; declared defaults conform to
     their field -- for a dataclass a field whose default is None is nullable, for a NamedTuple
     the default itself must be an instance of the annotation, a TypedDict has no defaults *)
  Definition default_ok (kd: ckind) (f: sfield) : bool :=
    match f.(sf_default) with
    | None => true
    | Some dv =>
        match kd with
        | KData => (sfield_nullable f && is_none dv) || conf_g o E dv f.(sf_ty)
        | KNamed => conf_g o E dv f.(sf_ty)
        | KTyped => true end
    end.
  Definition cls_wf (c: scls) : bool :=
    names_nodup c.(sc_fields) && forallb (default_ok c.(sc_kind)) c.(sc_fields).
  Hypothesis env_wf : forallb cls_wf E = true.

  Lemma coerce_conf s d r : coerce_s P s d = Ok r ->
    conf_g o E r (match s with SInt => SIntT | SFloat => SFloatT | SBool => SBoolT | SStr => SStrT | SNone => SNoneT end) = true.
  Proof.
    destruct s; cbn [coerce_s]; intros H.
    - destruct d; try (destruct (p_int P _); cbn [lift bind] in H; [|discriminate]); inversion H; reflexivity.
    - destruct d; try (destruct (p_float P _); cbn [lift bind] in H; [|discriminate]); inversion H; reflexivity.
    - inversion H. reflexivity.
    - destruct d; try (destruct (p_str P _); cbn [lift bind] in H; [|discriminate]); inversion H; reflexivity.
    - inversion H. reflexivity.
  Qed.

  Lemma omapM_nt_all {B} (g: sfield -> option B) (q: sfield -> B -> bool) fds cs :
    (forall f c, In f fds -> g f = Some c -> q f c = true) -> omapM g fds = Some cs -> nt_all q fds cs = true.
  Proof.
    revert cs. induction fds as [|f r IH]; intros cs Hq H.
    - inversion H. reflexivity.
    - cbn [omapM] in H. destruct (g f) as [c|] eqn:Eg; [|discriminate H].
      destruct (omapM g r) as [ys|] eqn:Er; [|discriminate H]. inversion H; subst.
      cbn [nt_all]. rewrite (Hq f c (or_introl eq_refl) Eg). apply IH; [|reflexivity].
      intros f0 c0 Hf0. apply Hq. right. exact Hf0.
  Qed.

  Lemma omapM_tuple_conf (g: sty -> option pv) ts cs :
    Forall (fun t => forall c, g t = Some c -> conf_g o E c t = true) ts -> omapM g ts = Some cs ->
    (fix go (ts: list sty) (l: list pv) {struct l} : bool :=
       match ts, l with
       | [], [] => true
       | t' :: ts', x :: l' => conf_g o E x t' && go ts' l'
       | _, _ => false end) ts cs = true.
  Proof.
    intros HF. revert cs. induction HF as [|t1 ts H1 Hts IH]; intros cs Em.
    - inversion Em. reflexivity.
    - cbn [omapM] in Em. destruct (g t1) as [c1|] eqn:E1; [|discriminate Em].
      destruct (omapM g ts) as [cs1|] eqn:E2; [|discriminate Em]. inversion Em.
      rewrite (H1 c1 eq_refl). apply (IH cs1 eq_refl).
  Qed.

  (* conformance of a tuple with an unpacked segment from its three parts *)
  Definition mid_conf (mid: sty) (m: list pv) : Prop :=
    match mid with
    | STupleVar t' => forallb (fun x => conf_g o E x t') m = true
    | STupleFix ts => pos_all (fun t' x => conf_g o E x t') ts m = true
    | _ => False end.

  Lemma conf_tupleu_of_parts a m b pre mid post :
    pos_all (fun t' x => conf_g o E x t') pre a = true -> mid_conf mid m ->
    pos_all (fun t' x => conf_g o E x t') post b = true ->
    conf_g o E (VTuple (a ++ m ++ b)) (STupleU pre mid post) = true.
  Proof.
    intros Ha Hm Hb. pose proof (pos_all_length _ _ _ Ha) as La. pose proof (pos_all_length _ _ _ Hb) as Lb.
    destruct (app3_parts a m b) as [P1 [P2 P3]]. rewrite La in P1, P2. rewrite Lb in P2, P3.
    apply conf_tupleu_intro.
    - rewrite !app_length. lia.
    - rewrite P1. exact Ha.
    - rewrite P2. destruct mid; try contradiction; exact Hm.
    - rewrite P3. exact Hb.
  Qed.

  (* a constant is an instance of its type *)
  Lemma const_ty_conf_n n : forall t c, const_ty_n E n t = Some c -> conf_g o E c t = true.
  Proof.
    induction n as [|n IHn].
    all: induction t as [ | | | | | | m' | k' | e' | t' IHt | fr' t' IHt | t' IHt | ts IHts | pre IHpre mid IHmid IHmide post IHpost | kt IHkt vt IHvt | t' IHt | c' | c' | c' | t' IHt | kt IHkt vt IHvt | bx t' IHt | ls ]
      using sty_ind'; intros c H; rewrite const_ty_n_unfold in H; try discriminate H.
    all: try (inversion H; reflexivity).
    all: try solve [
      destruct (omapM (const_ty_n E _) pre) as [a|] eqn:Ea; [|discriminate H];
      destruct mid; try discriminate H;
      match type of H with (match omapM ?g ?l with _ => _ end = _) => destruct (omapM g l) as [m|] eqn:Em end; [|discriminate H];
      destruct (omapM (const_ty_n E _) post) as [b|] eqn:Eb; [|discriminate H];
      inversion H; apply conf_tupleu_of_parts;
      [ apply (omapM_pos_all _ _ _ _ IHpre Ea) | apply (omapM_pos_all _ _ _ _ IHmide Em) | apply (omapM_pos_all _ _ _ _ IHpost Eb) ] ].
    all: try (match type of H with (match omapM ?g ?l with _ => _ end = _) => destruct (omapM g l) as [cs|] eqn:Em end; [|discriminate H];
              inversion H; rewrite conf_unfold; apply (omapM_tuple_conf _ _ _ IHts Em)).
    destruct (sfind E KNamed c') as [k|] eqn:Ef; [|discriminate H].
    destruct (has_default (sc_fields k)); [discriminate H|].
    match type of H with (match ?X with _ => _ end = _) => destruct X as [cs|] eqn:Em end; [|discriminate H].
    inversion H. rewrite conf_unfold, String.eqb_refl, Ef. cbn [andb].
    refine (omapM_nt_all _ _ _ _ _ Em). intros f c0 _ Hc. apply (IHn _ _ Hc).
  Qed.

  Lemma const_ty_conf t c : const_ty E t = Some c -> conf_g o E c t = true.
  Proof. apply const_ty_conf_n. Qed.

  Lemma none_tail_conf ts : forall r, none_tail_t E ts = Ok r ->
    (fix go (ts: list sty) (l: list pv) {struct l} : bool :=
       match ts, l with
       | [], [] => true
       | t' :: ts', x :: l' => conf_g o E x t' && go ts' l'
       | _, _ => false end) ts r = true.
  Proof.
    induction ts as [|t ts IH]; intros r H.
    - cbn in H. inversion H. reflexivity.
    - cbn [none_tail_t] in H. destruct (const_ty E t) as [c|] eqn:Ec; [|discriminate].
      destruct (none_tail_t E ts) as [ys|]; [|discriminate]. cbn [bind] in H. inversion H; subst.
      rewrite (IH ys eq_refl). rewrite andb_true_r. apply (const_ty_conf _ _ Ec).
  Qed.

  Lemma none_tail_pos_all ds r : none_tail_t E ds = Ok r -> pos_all (fun t' x => conf_g o E x t') ds r = true.
  Proof.
    revert r. induction ds as [|t ts IH]; intros r H.
    - inversion H. reflexivity.
    - cbn [none_tail_t] in H. destruct (const_ty E t) as [c|] eqn:Ec; [|discriminate].
      destruct (none_tail_t E ts) as [ys|]; [|discriminate]. cbn [bind] in H. inversion H; subst.
      cbn [pos_all]. rewrite (IH ys eq_refl), andb_true_r. apply (const_ty_conf _ _ Ec).
  Qed.

  (* whatever a walk over a tuple with an unpacked segment returns conforms, given that the item decoders do *)
  Lemma tu_mid_conf {X} (run: sty -> X -> res pv) (items: option (list X)) mid (restricted: bool) sl m :
    (forall d x y, In d (mid_elems mid) -> In_opt x items -> run d x = Ok y -> conf_g o E y d = true) ->
    (forall x, In_opt x sl -> In_opt x items) ->
    (match mid with
     | STupleVar t' => if restricted then fun _ => Exn XTypeError else mid_var run t'
     | STupleFix ts => mid_fix run (const_ty E) (none_tail_t E) ts
     | _ => fun _ => Exn XTypeError end) sl = Ok m -> mid_conf mid m.
  Proof.
    intros Hr Hs H. destruct mid; try discriminate H.
    - destruct restricted; [discriminate H|]. cbn [mid_conf].
      apply (mid_var_all run (fun t' y => conf_g o E y t') _ sl m); [|exact H].
      intros x y Hx. apply Hr; [left; reflexivity | apply Hs; exact Hx].
    - cbn [mid_conf].
      apply (mid_fix_all run (const_ty E) (none_tail_t E) (fun t' y => conf_g o E y t') const_ty_conf none_tail_pos_all _ sl m); [|exact H].
      intros d x y Hd Hx. apply Hr; [exact Hd | apply Hs; exact Hx].
  Qed.

  Lemma tu_walk_conf {X} (run: sty -> X -> res pv) (items: option (list X)) pre mid post (restricted: bool) r0 :
    (forall d x y, In d (pre ++ mid_elems mid ++ post) -> In_opt x items -> run d x = Ok y -> conf_g o E y d = true) ->
    tu_walk run (const_ty E) items (tu_plan (List.length pre) (List.length post)) pre post
      (match mid with
       | STupleVar t' => if restricted then fun _ => Exn XTypeError else mid_var run t'
       | STupleFix ts => mid_fix run (const_ty E) (none_tail_t E) ts
       | _ => fun _ => Exn XTypeError end) = Ok r0 ->
    conf_g o E (VTuple r0) (STupleU pre mid post) = true.
  Proof.
    intros Hr H.
    assert (Hrr: forall d x y, In d (pre ++ post) -> In_opt x items -> run d x = Ok y -> conf_g o E y d = true).
    { intros d x y Hd. apply Hr. apply in_app_or in Hd. apply in_or_app.
      destruct Hd as [Hd|Hd]; [left; exact Hd | right; apply in_or_app; right; exact Hd]. }
    assert (Hmm: forall sl m, (forall x, In_opt x sl -> In_opt x items) ->
              (match mid with
               | STupleVar t' => if restricted then fun _ => Exn XTypeError else mid_var run t'
               | STupleFix ts => mid_fix run (const_ty E) (none_tail_t E) ts
               | _ => fun _ => Exn XTypeError end) sl = Ok m -> mid_conf mid m).
    { intros sl m Hs Hmid. apply (tu_mid_conf run items mid restricted sl m); [|exact Hs|exact Hmid].
      intros d x y Hd. apply Hr. apply in_or_app. right. apply in_or_app. left. exact Hd. }
    destruct (tu_walk_parts run (const_ty E) (fun t' y => conf_g o E y t') const_ty_conf items _ pre post _ r0 (mid_conf mid) Hrr Hmm H)
      as [a [m [b [Hr0 [Ha [Hm Hb]]]]]].
    subst r0. apply conf_tupleu_of_parts; assumption.
  Qed.

  Lemma sfind_wf kd c k : sfind E kd c = Some k ->
    names_nodup k.(sc_fields) = true /\ forallb (default_ok kd) k.(sc_fields) = true.
  Proof.
    intros H. destruct (sfind_In E kd c k H) as [Hin Hk].
    rewrite forallb_forall in env_wf. pose proof (env_wf k Hin) as Hw. unfold cls_wf in Hw.
    apply andb_prop in Hw. rewrite Hk in Hw. exact Hw.
  Qed.

  (* a successful TypedDict walk returns a conforming dict, keys in canonical order *)
  Lemma td_conf {D} (run: sfield -> D -> res pv) ms es fds R :
    names_nodup fds = true ->
    (forall f d y, In f fds -> look es (sf_name f) = Some d -> run f d = Ok y -> conf_g o E y (sf_ty f) = true) ->
    td_go run (konst_t E) ms es (td_order fds) = Ok R ->
    nodup_keys R && forallb (fun p => key_declared fds (fst p)) R &&
    (let cs : list (pv * (sty -> bool)) := map (fun p => match p with (key, x) => (key, conf_g o E x) end) R in
     forallb (fun f => match look cs (sf_name f) with Some cx => cx (sf_ty f) | None => sf_opt f end) fds) &&
    (if o then td_sorted (td_order fds) R else true) = true.
  Proof.
    intros Hn Hrun HR. pose proof (names_nodup_td_order fds Hn) as Hno.
    repeat (apply andb_true_intro; split).
    - apply (td_go_nodup _ _ _ _ _ _ Hno HR).
    - apply forallb_forall. intros p Hp. destruct (td_go_keys _ _ _ _ _ _ HR p Hp) as [f [Hf Hk]].
      rewrite Hk. cbn [key_declared]. apply existsb_exists. exists f. split; [apply In_td_order; exact Hf | apply String.eqb_refl].
    - cbv zeta. apply forallb_forall. intros f Hf. rewrite (look_map (conf_g o E) R).
      destruct (td_go_look _ _ _ _ _ _ Hno HR f (In_td_order_iff f fds Hf)) as [[Hnone Hl] | [y [Hsome Hl]]];
        rewrite Hl; cbn [option_map]; unfold td_field in *.
      + destruct (sf_opt f); [reflexivity|]. destruct ((konst_t E) f); [discriminate Hnone|].
        destruct (look es (sf_name f)); discriminate Hnone.
      + destruct (sf_opt f).
        * destruct (look es (sf_name f)) as [d|] eqn:El; [|discriminate Hsome]. inversion Hsome as [Hy].
          apply (Hrun f d y Hf El Hy).
        * destruct ((konst_t E) f) as [c|] eqn:Ek.
          -- inversion Hsome; subst. apply const_ty_conf. exact Ek.
          -- destruct (look es (sf_name f)) as [d|] eqn:El; [|discriminate Hsome]. inversion Hsome as [Hy].
             apply (Hrun f d y Hf El Hy).
    - destruct o; [|reflexivity]. apply (td_go_sorted _ _ _ _ _ _ Hno HR).
  Qed.

  Lemma td_nondict_conf c k r : sfind E KTyped c = Some k ->
    td_nondict (konst_t E) k.(sc_fields) = Ok r -> conf_g o E r (STyped c) = true.
  Proof.
    intros Ef H. unfold td_nondict in H.
    match type of H with (bind ?X _ = _) => destruct X as [R|] eqn:Em end; [|discriminate H]. cbn [bind] in H.
    destruct (existsb _ _); [discriminate H|]. inversion H.
    rewrite conf_unfold, Ef. destruct (sfind_wf _ _ _ Ef) as [Hn _].
    refine (td_conf _ _ _ _ _ Hn _ Em). intros f d y _ Hl. discriminate Hl.
  Qed.

  Lemma nt_miss_ok rest r : Forall (fun f => default_ok KNamed f = true) rest ->
    forall hd, nt_exhausted hd rest = Ok r -> nt_all (fun f y => conf_g o E y (sf_ty f)) rest r = true.
  Proof.
    intros HG hd Hm. unfold nt_exhausted in Hm. destruct hd; [|discriminate Hm].
    apply (nt_defaults_all _ rest r); [|exact Hm].
    apply Forall_forall. intros f Hf dv Hdv. pose proof (Forall_In _ _ HG f Hf) as Hd. cbv beta in Hd.
    unfold default_ok in Hd. rewrite Hdv in Hd. exact Hd.
  Qed.

  Lemma nt_fields_ok c k : sfind E KNamed c = Some k -> Forall (fun f => default_ok KNamed f = true) k.(sc_fields).
  Proof.
    intros Ef. destruct (sfind_wf _ _ _ Ef) as [_ Hd]. apply Forall_forall. intros f Hf.
    rewrite forallb_forall in Hd. apply Hd. exact Hf.
  Qed.

  (* boxed collections: the class around a conforming list / dict conforms (the content [[{}]] of a ChainMap is
     normalised to [[]]: an empty list conforms wherever a list does) *)
  Lemma conf_vlist_nil l : forall t, conf_g o E (VList l) t = true -> conf_g o E (VList []) t = true.
  Proof.
    induction t; intros H; rewrite conf_unfold in H; rewrite conf_unfold; try discriminate H; try reflexivity.
    - cbn [is_none orb] in *. apply IHt. exact H.
    - exfalso. clear - H. induction ls as [|a ls IH]; cbn in H; [discriminate H | exact (IH H)].
  Qed.

  Lemma box_conf b r0 t : conf_g o E r0 t = true -> conf_g o E (box_val b r0) (SBox b t) = true.
  Proof.
    intros H. unfold box_val. rewrite conf_unfold. rewrite !String.eqb_refl. cbn [andb]. unfold chain_canon.
    destruct b; cbn [is_chain andb negb]; try exact H.
    destruct r0 as [ | | | | | | l | | | | | | | | ]; try exact H.
    destruct l as [|x l']; try exact H. destruct x as [ | | | | | | | | | kvs | | | | | ]; destruct l'; try exact H.
    all: destruct kvs; try exact H. apply (conf_vlist_nil _ _ H).
  Qed.

  (* Literal: the result is one of the literals *)
  Lemma exact_eq_eq a b : exact_eq a b = true -> a = b.
  Proof.
    destruct a, b; cbn; intros H; try discriminate H; try reflexivity.
    - apply Bool.eqb_prop in H. subst. reflexivity.
    - apply Z.eqb_eq in H. subst. reflexivity.
    - apply String.eqb_eq in H. subst. reflexivity.
  Qed.

  Lemma lit_find_conf ls d r : lit_find ls d = Ok r -> conf_g o E r (SLit ls) = true.
  Proof.
    unfold lit_find. destruct (find (exact_eq d) ls) as [l|] eqn:Ef; intros H; [|discriminate H]. inversion H; subst r.
    apply find_some in Ef. destruct Ef as [Hin He]. rewrite conf_unfold. apply existsb_exists. exists l. split; [exact Hin|].
    rewrite <- (exact_eq_eq _ _ He) at 1. exact He.
  Qed.

  Lemma dec_str_conf_gen n :
    (forall n', n = S n' -> forall t s r, ref_dec_str_l E P n' t s = Ok r -> conf_g o E r t = true) ->
    forall t s r, ref_dec_str_l E P n t s = Ok r -> conf_g o E r t = true.
  Proof.
    intros Hprev.
    induction t as [ | | | | | | m' | k' | e' | t' IHt | fr' t' IHt | t' IHt | ts IHts | pre IHpre mid IHmid IHmide post IHpost | kt IHkt vt IHvt | t' IHt | c' | c' | c' | t' IHt | kt IHkt vt IHvt | bx t' IHt | ls ]
      using sty_ind'; intros s r H; rewrite (ref_dec_str_unfold E P false) in H.
    - rewrite conf_unfold. reflexivity.
    - inversion H. reflexivity.
    - apply (coerce_conf SInt _ _ H).
    - apply (coerce_conf SFloat _ _ H).
    - apply (coerce_conf SBool _ _ H).
    - inversion H. reflexivity.
    - destruct (p_b64dec P _); cbn [lift bind] in H; [|discriminate]. inversion H. cbn. apply eqb_reflx.
    - destruct (p_parse P _ _); cbn [lift bind] in H; [|discriminate]. inversion H. cbn. apply String.eqb_refl.
    - destruct (p_enum_of P _ _); cbn [lift bind] in H; [|discriminate]. inversion H. cbn. apply String.eqb_refl.
    - destruct (mapM _ _) as [l|] eqn:Em; [|discriminate]. cbn [bind] in H. inversion H. rewrite conf_unfold.
      apply (forallb_mapM_res _ _ _ _ (fun x y _ Hy => IHt x y Hy) Em).
    - destruct (mapM _ _) as [l|] eqn:Em; [|discriminate]. cbn [bind] in H.
      destruct (forallb hashable l); [|discriminate]. inversion H. rewrite conf_unfold. rewrite eqb_reflx. cbn [andb].
      apply forallb_set_of_list. apply (forallb_mapM_res _ _ _ _ (fun x y _ Hy => IHt x y Hy) Em).
    - destruct (mapM _ _) as [l|] eqn:Em; [|discriminate]. cbn [bind] in H. inversion H. rewrite conf_unfold.
      apply (forallb_mapM_res _ _ _ _ (fun x y _ Hy => IHt x y Hy) Em).
    - match type of H with (bind ?X _ = _) => destruct X as [l|] eqn:Em end; [|discriminate]. cbn [bind] in H. inversion H.
      rewrite conf_unfold. clear H H1. revert l Em. generalize (utf8_chars s) as cs.
      induction IHts as [|t1 ts H1 Hts IH]; intros cs l Em.
      + inversion Em. reflexivity.
      + destruct cs as [|c0 cs].
        * apply (none_tail_conf (t1 :: ts) l Em).
        * destruct (ref_dec_str_l E P n t1 c0) as [y|] eqn:Ey; [|discriminate]. cbn [bind] in Em.
          match type of Em with (bind ?X _ = _) => destruct X as [ys|] eqn:Eys end; [|discriminate].
          inversion Em; subst. rewrite (H1 c0 y Ey). cbn [andb]. apply (IH cs ys Eys).
    - (* tuple with an unpacked segment from a str *)
      match type of H with (bind ?X _ = _) => destruct X as [r0|] eqn:Em end; [|discriminate]. cbn [bind] in H. inversion H.
      unfold tu_ref in Em.
      apply (tu_walk_conf (ref_dec_str_l E P n) (Some (utf8_chars s)) pre mid post false r0); [|destruct mid; exact Em].
      intros d x y Hd _. apply in_app_or in Hd. destruct Hd as [Hd|Hd]; [apply (Forall_In _ _ IHpre d Hd)|].
      apply in_app_or in Hd. destruct Hd as [Hd|Hd]; [apply (Forall_In _ _ IHmide d Hd) | apply (Forall_In _ _ IHpost d Hd)].
    - discriminate.
    - rewrite conf_unfold. rewrite (IHt s r H). apply orb_true_r.
    - destruct (sfind E _ c') as [k|] eqn:Ef; discriminate.
    - (* NamedTuple from a str *)
      destruct (sfind E _ c') as [k|] eqn:Ef; [|discriminate H].
      destruct n as [|n']; [discriminate H|].
      match type of H with (bind ?X _ = _) => destruct X as [l|] eqn:Em end; [|discriminate H]. cbn [bind] in H. inversion H.
      rewrite conf_unfold. rewrite String.eqb_refl, Ef. cbn [andb].
      refine (nt_items_all (fun f y => conf_g o E y (sf_ty f)) (fun f => default_ok KNamed f = true) _ (konst_t E) _ _ _ _ _ _ (nt_fields_ok _ _ Ef) _ Em).
      + intros f c Hc. apply const_ty_conf. exact Hc.
      + intros rest r0 HG Hm. apply (nt_miss_ok rest r0 HG _ Hm).
      + intros f x y _ Hy. apply (Hprev n' eq_refl _ _ _ Hy).
    - (* TypedDict from a str *)
      destruct (sfind E _ c') as [k|] eqn:Ef; [|discriminate H]. apply (td_nondict_conf _ _ _ Ef H).
    - (* Sequence *)
      destruct (mapM _ _) as [l|] eqn:Em; [|discriminate]. cbn [bind] in H. inversion H. rewrite conf_unfold.
      apply (forallb_mapM_res _ _ _ _ (fun x y _ Hy => IHt x y Hy) Em).
    - discriminate.
    - (* boxed collection *)
      destruct (ref_dec_str_l E P n t' s) as [r0|] eqn:Er; [|discriminate H]. cbn [bind] in H. inversion H.
      apply box_conf. apply (IHt s r0 Er).
    - apply (lit_find_conf _ _ _ H).
  Qed.

  Lemma dec_str_conf n : forall t s r, ref_dec_str_l E P n t s = Ok r -> conf_g o E r t = true.
  Proof.
    induction n as [|n IHn]; apply dec_str_conf_gen.
    - intros n' Hc. discriminate Hc.
    - intros n' Hc. inversion Hc; subst. exact IHn.
  Qed.

  Definition conf_ok (d: pv) : Prop := forall t r, ref_dec_l E P d t = Ok r -> conf_g o E r t = true.

  Lemma named_conf d c r :
    (forall x, In x (match d with VList l | VTuple l => l | _ => [] end) -> conf_ok x) ->
    ref_dec_l E P d (SNamed c) = Ok r -> conf_g o E r (SNamed c) = true.
  Proof.
    intros IH H. rewrite (ref_dec_unfold E P false) in H.
    destruct (sfind E _ c) as [k|] eqn:Ef; [|discriminate H].
    assert (Hseq: forall l, (forall x, In x l -> conf_ok x) ->
              (r0 <- nt_items (fun f x => ref_dec_l E P x (sf_ty f)) (konst_t E) (nt_exhausted (has_default (sc_fields k))) (sc_fields k) l ;;
               Ok (VNT c r0)) = Ok r -> conf_g o E r (SNamed c) = true).
    { intros l IHl H0.
      match type of H0 with (bind ?X _ = _) => destruct X as [l0|] eqn:Em end; [|discriminate H0]. cbn [bind] in H0. inversion H0.
      rewrite conf_unfold. rewrite String.eqb_refl, Ef. cbn [andb].
      refine (nt_items_all (fun f y => conf_g o E y (sf_ty f)) (fun f => default_ok KNamed f = true) _ (konst_t E) _ _ _ _ _ _ (nt_fields_ok _ _ Ef) _ Em).
      + intros f c0 Hc. apply const_ty_conf. exact Hc.
      + intros rest r0 HG Hm. apply (nt_miss_ok rest r0 HG _ Hm).
      + intros f x y Hx Hy. apply (IHl x Hx _ _ Hy). }
    assert (Hoth: (r0 <- nt_tail (konst_t E) (fun _ => Exn XTypeError) (sc_fields k) ;; Ok (VNT c r0)) = Ok r ->
                  conf_g o E r (SNamed c) = true).
    { intros H0.
      match type of H0 with (bind ?X _ = _) => destruct X as [l0|] eqn:Em end; [|discriminate H0]. cbn [bind] in H0. inversion H0.
      rewrite conf_unfold. rewrite String.eqb_refl, Ef. cbn [andb].
      refine (nt_tail_all (fun f y => conf_g o E y (sf_ty f)) (fun f => default_ok KNamed f = true) (konst_t E) _ _ _ _ _ (nt_fields_ok _ _ Ef) Em).
      + intros f c0 Hc. apply const_ty_conf. exact Hc.
      + intros rest r0 _ Hm. discriminate Hm. }
    destruct d; try (apply Hoth; exact H).
    - apply (dec_str_conf _ (SNamed c) _ _ H).
    - apply (Hseq l IH H).
    - apply (Hseq l IH H).
  Qed.

  Lemma tupleu_conf d pre mid post r :
    (forall x, In x (match d with VList l | VTuple l => l | _ => [] end) -> conf_ok x) ->
    ref_dec_l E P d (STupleU pre mid post) = Ok r -> conf_g o E r (STupleU pre mid post) = true.
  Proof.
    intros IH H. rewrite (ref_dec_unfold E P false) in H.
    assert (Hseq: forall l, (forall x, In x l -> conf_ok x) ->
              (r0 <- tu_ref E false (fun (t': sty) (dx: sty -> res pv) => dx t') (none_tail_t E)
                       (map (fun x => ref_dec_l E P x) l) pre mid post ;; Ok (VTuple r0)) = Ok r ->
              conf_g o E r (STupleU pre mid post) = true).
    { intros l IHl H0.
      match type of H0 with (bind ?X _ = _) => destruct X as [r0|] eqn:Em end; [|discriminate H0]. cbn [bind] in H0. inversion H0.
      unfold tu_ref in Em.
      apply (tu_walk_conf (fun (t': sty) (dx: sty -> res pv) => dx t') (Some (map (fun x => ref_dec_l E P x) l)) pre mid post false r0);
        [|destruct mid; exact Em].
      intros d0 dx y _ Hx Hy. cbn in Hx. apply in_map_iff in Hx. destruct Hx as [x [Hdx Hx]]. subst dx.
      apply (IHl x Hx d0 y Hy). }
    assert (Hoth:
      (r0 <- tu_walk (fun (t': sty) (dx: sty -> res pv) => dx t') (const_ty E) None
               (tu_plan (List.length pre) (List.length post)) pre post
               (match mid with
                | STupleFix ts => mid_fix (fun (t': sty) (dx: sty -> res pv) => dx t') (const_ty E) (none_tail_t E) ts
                | _ => fun _ => Exn XTypeError end) ;; Ok (VTuple r0)) = Ok r ->
      conf_g o E r (STupleU pre mid post) = true).
    { intros H0.
      match type of H0 with (bind ?X _ = _) => destruct X as [r0|] eqn:Em end; [|discriminate H0]. cbn [bind] in H0. inversion H0.
      apply (tu_walk_conf (fun (t': sty) (dx: sty -> res pv) => dx t') None pre mid post true r0);
        [intros d0 dx y _ [] | destruct mid; exact Em]. }
    destruct d; try (apply Hoth; exact H).
    - apply (dec_str_conf _ (STupleU pre mid post) _ _ H).
    - apply (Hseq l IH H).
    - apply (Hseq l IH H).
  Qed.

  Lemma typed_conf d c r :
    (forall x, In x (match d with VDict kvs => map snd kvs | _ => [] end) -> conf_ok x) ->
    ref_dec_l E P d (STyped c) = Ok r -> conf_g o E r (STyped c) = true.
  Proof.
    intros IH H. rewrite (ref_dec_unfold E P false) in H.
    destruct (sfind E _ c) as [k|] eqn:Ef; [|discriminate H].
    destruct d; try (apply (td_nondict_conf _ _ _ Ef H)).
    cbv zeta in H.
    match type of H with (bind ?X _ = _) => destruct X as [R|] eqn:Em end; [|discriminate H]. cbn [bind] in H. inversion H.
    rewrite conf_unfold, Ef. destruct (sfind_wf _ _ _ Ef) as [Hn _].
    refine (td_conf _ _ _ _ _ Hn _ Em).
    intros f d y _ Hl Hy. rewrite (look_map (ref_dec_l E P) kvs) in Hl.
    destruct (look kvs (sf_name f)) as [x|] eqn:El; [|discriminate Hl]. cbn [option_map] in Hl. inversion Hl; subst d.
    destruct (look_In _ _ _ El) as [key [Hin _]].
    apply (IH x); [|exact Hy]. apply in_map_iff. exists (key, x). split; [reflexivity | exact Hin].
  Qed.

  Theorem ref_dec_conforms : forall d, conf_ok d.
  Proof.
    induction d as [ | b | z | f | s | m b | l IHl | l IHl | fr l IHl | kvs IHk | c fs IHf | e m | k w | c l IHl | tg ]
      using pv_rect'; unfold conf_ok.
    all: intros t; induction t as [ | | | | | | m' | k' | e' | t' IHt | fr' t' IHt | t' IHt | ts | pre mid IHmid post | kt IHkt vt IHvt | t' IHt | c' | c' | c' | t' IHt | kt IHkt vt IHvt | bx t' IHt | ls ];
      intros r H; pose proof H as H0; rewrite (ref_dec_unfold E P false) in H.
    (* NamedTuple / TypedDict *)
    all: try solve [ refine (named_conf _ c' r _ H0); cbn; intros x Hx; first [ destruct Hx | apply (Forall_In _ _ IHl x Hx) ] ].
    all: try solve [ refine (tupleu_conf _ pre mid post r _ H0); cbn; intros x Hx; first [ destruct Hx | apply (Forall_In _ _ IHl x Hx) ] ].
    all: try solve [ refine (typed_conf _ c' r _ H0); cbn; intros x Hx; try (destruct Hx; fail);
                     apply in_map_iff in Hx; destruct Hx as [p [Hp1 Hp2]]; subst x;
                     apply (proj2 (Forall_In _ _ IHk p Hp2)) ].
    all: clear H0.
    (* scalars, leaves *)
    all: try (inversion H; reflexivity).
    all: try (apply (coerce_conf SInt _ _ H)).
    all: try (apply (coerce_conf SFloat _ _ H)).
    all: try (apply (coerce_conf SBool _ _ H)).
    all: try (apply (coerce_conf SStr _ _ H)).
    all: try solve [ destruct (p_b64dec P _); cbn [lift bind] in H; [|discriminate]; inversion H; cbn; apply eqb_reflx ].
    all: try solve [ destruct (p_parse P _ _); cbn [lift bind] in H; [|discriminate]; inversion H; cbn; apply String.eqb_refl ].
    all: try solve [ destruct (p_enum_of P _ _); cbn [lift bind] in H; [|discriminate]; inversion H; cbn; apply String.eqb_refl ].
    all: try discriminate H.
    (* Optional *)
    all: try solve [ rewrite conf_unfold; cbn [is_none] in H;
                     first [ inversion H; reflexivity | rewrite (IHt r H); apply orb_true_r ] ].
    (* str inputs *)
    all: try solve [ first [ apply (dec_str_conf _ (SList t') _ _ H) | apply (dec_str_conf _ (SSet fr' t') _ _ H)
                           | apply (dec_str_conf _ (STupleVar t') _ _ H) | apply (dec_str_conf _ (STupleFix ts) _ _ H) | apply (dec_str_conf _ (SSeq t') _ _ H) ] ].
    (* fixed tuple / dataclass given a non-sequence / non-mapping *)
    all: try solve [ destruct (none_tail_t E ts) as [r0|] eqn:En; [|discriminate H]; cbn [bind] in H; inversion H;
                     rewrite conf_unfold; apply (none_tail_conf ts r0 En) ].
    all: try solve [ destruct (sfind E _ c') as [k0|] eqn:Ef; [|discriminate H];
                     first [ apply (dec_str_conf _ (SData c') _ _ H) | discriminate H ] ].
    (* homogeneous containers over list-like inputs *)
    all: try solve [ destruct (mapM _ _) as [l0|] eqn:Em; [|discriminate H]; cbn [bind] in H;
                     try (destruct (forallb hashable l0); [|discriminate H]); inversion H; rewrite conf_unfold;
                     try (rewrite eqb_reflx; cbn [andb]; apply forallb_set_of_list);
                     apply (forallb_mapM_res _ _ _ _ (fun x y Hx Hy => Forall_In _ _ IHl x Hx t' y Hy) Em) ].
    (* ... and over a dict input (its keys) *)
    all: try solve [ destruct (mapM _ _) as [l0|] eqn:Em; [|discriminate H]; cbn [bind] in H;
                     try (destruct (forallb hashable l0); [|discriminate H]); inversion H; rewrite conf_unfold;
                     try (rewrite eqb_reflx; cbn [andb]; apply forallb_set_of_list);
                     apply (forallb_mapM_res _ _ _ _ (fun (p: pv * pv) y Hp => match p as p0 return In p0 kvs -> (let (k, _) := p0 in ref_dec_l E P k t') = Ok y -> conf_g o E y t' = true with (k, x) => fun Hp' Hy => proj1 (Forall_In _ _ IHk (k, x) Hp') t' y Hy end Hp) Em) ].
    (* dict / Mapping *)
    all: try solve [
      match type of H with (bind ?X _ = _) => destruct X as [r0|] eqn:Em end; [|discriminate H]; cbn [bind] in H; inversion H;
      rewrite conf_unfold; rewrite nodup_dict_of_pairs; cbn [andb];
      apply (forallb_dict_of_pairs _ r0 (fun _ _ _ _ => or_intror I) (fun k => conf_g o E k kt) (fun x => conf_g o E x vt) (fun k v => eq_refl));
      refine (forallb_mapM_res _ _ _ _ _ Em); intros [k x] [k' x'] Hp Hy;
      destruct (Forall_In _ _ IHk (k, x) Hp) as [Qk Qx]; cbn [fst snd] in Qk, Qx;
      destruct (ref_dec_l E P k kt) as [k1|] eqn:Ek; [|discriminate Hy]; cbn [bind] in Hy;
      destruct (ref_dec_l E P x vt) as [x1|] eqn:Ex; [|discriminate Hy]; cbn [bind] in Hy;
      destruct (hashable k1); [|discriminate Hy]; inversion Hy; subst;
      rewrite (Qk kt k' Ek), (Qx vt x' Ex); reflexivity ].
    (* boxed collections *)
    all: try solve [
      match type of H with (bind ?X _ = _) => destruct X as [r0|] eqn:Er end; [|discriminate H]; cbn [bind] in H; inversion H;
      apply box_conf; apply (IHt r0 eq_refl) ].
    (* literals *)
    all: try solve [ apply (lit_find_conf _ _ _ H) ].
    - (* VList, STupleFix *)
      match type of H with (bind ?X _ = _) => destruct X as [r0|] eqn:Em end; [|discriminate H]. cbn [bind] in H. inversion H.
      rewrite conf_unfold. clear H H1. revert ts r0 Em. induction l as [|x l IHl']; intros ts r0 Em.
      + destruct ts as [|t1 ts]; [inversion Em; reflexivity | apply (none_tail_conf (t1 :: ts) r0 Em)].
      + destruct ts as [|t1 ts]; [inversion Em; reflexivity|].
        inversion IHl as [|? ? Qx Ql]; subst.
        destruct (ref_dec_l E P x t1) as [y|] eqn:Ey; [|discriminate Em]. cbn [bind] in Em.
        match type of Em with (bind ?X _ = _) => destruct X as [ys|] eqn:Eys end; [|discriminate Em].
        inversion Em; subst. rewrite (Qx t1 y Ey). cbn [andb]. apply (IHl' Ql ts ys Eys).
    - (* VTuple, STupleFix *)
      match type of H with (bind ?X _ = _) => destruct X as [r0|] eqn:Em end; [|discriminate H]. cbn [bind] in H. inversion H.
      rewrite conf_unfold. clear H H1. revert ts r0 Em. induction l as [|x l IHl']; intros ts r0 Em.
      + destruct ts as [|t1 ts]; [inversion Em; reflexivity | apply (none_tail_conf (t1 :: ts) r0 Em)].
      + destruct ts as [|t1 ts]; [inversion Em; reflexivity|].
        inversion IHl as [|? ? Qx Ql]; subst.
        destruct (ref_dec_l E P x t1) as [y|] eqn:Ey; [|discriminate Em]. cbn [bind] in Em.
        match type of Em with (bind ?X _ = _) => destruct X as [ys|] eqn:Eys end; [|discriminate Em].
        inversion Em; subst. rewrite (Qx t1 y Ey). cbn [andb]. apply (IHl' Ql ts ys Eys).
    - (* VDict, SData *)
      destruct (sfind E _ c') as [k0|] eqn:Ef; [|discriminate H]. cbv zeta in H.
      match type of H with (bind ?X _ = _) => destruct X as [r0|] eqn:Em end; [|discriminate H]. cbn [bind] in H. inversion H.
      rewrite conf_unfold. rewrite String.eqb_refl, Ef. cbn [andb].
      destruct (sfind_wf _ _ _ Ef) as [_ Hdef]. clear H H1 Ef.
      revert r0 Em Hdef. generalize (sc_fields k0) as fds.
      induction fds as [|f fds IHfds]; intros r0 Em Hdef.
      + inversion Em. reflexivity.
      + cbn [forallb] in Hdef. apply andb_prop in Hdef. destruct Hdef as [Hd Hdr].
        match type of Em with (bind ?X _ = _) => destruct X as [y|] eqn:Ey end; [|discriminate Em]. cbn [bind] in Em.
        match type of Em with (bind ?X _ = _) => destruct X as [tl|] eqn:Etl end; [|discriminate Em]. cbn [bind] in Em.
        inversion Em; subst. rewrite String.eqb_refl. rewrite (IHfds tl eq_refl Hdr). rewrite andb_true_r. cbn [andb].
        (* where does y come from? *)
        clear Em Etl IHfds.
        assert (Hlook: forall oo,
                  (fix look (es: list (pv * (pv * (sty -> res pv)))) : option (pv * (sty -> res pv)) :=
                     match es with
                     | [] => None
                     | (key, xd) :: er => if py_eq key (VStr f.(sf_name)) then Some xd else look er
                     end) (map (fun p : pv * pv => match p with (key, x) => (key, (x, ref_dec_l E P x)) end) kvs) = oo ->
                  match oo with
                  | Some (x, dx) => conf_ok x /\ dx = ref_dec_l E P x
                  | None => True end).
        { clear Ey. induction kvs as [|[key x] kvs IHkvs]; intros oo Ho.
          - cbn in Ho. subst oo. exact I.
          - cbn [map] in Ho. destruct (py_eq key (VStr (sf_name f))).
            + subst oo. inversion IHk as [|? ? [_ Qx] _]; subst. cbn [snd] in Qx. split; [exact Qx | reflexivity].
            + apply IHkvs; [inversion IHk; assumption | exact Ho]. }
        match type of Ey with (match ?X with _ => _ end = _) => specialize (Hlook X eq_refl); destruct X as [[x dx]|] end.
        * destruct Hlook as [Qx Hdx]. subst dx.
          destruct (is_none x && sfield_nullable f) eqn:Hn.
          -- inversion Ey; subst. apply andb_prop in Hn. destruct Hn as [_ Hn]. rewrite Hn. reflexivity.
          -- rewrite (Qx (sf_ty f) y Ey). apply orb_true_r.
        * unfold default_ok in Hd. destruct (sf_default f) as [dv|]; [|discriminate Ey]. inversion Ey; subst. exact Hd.
  Qed.
End Conform.
