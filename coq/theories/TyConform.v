(* C03, second half: whatever the reference decoder (hence, by C03_unpack_ref, the generated
   unpacker) returns conforms to the annotation: every field and element is built from the
   very class named there (Any positions unconstrained). *)
From Coq Require Import List String Ascii ZArith Bool Lia.
From Verif Require Import Core TyModel TyProofs.
Import ListNotations.
Open Scope string_scope.
Open Scope Z_scope.
Open Scope list_scope.

(* ---- dict_of_pairs always yields pairwise distinct keys ---- *)
Lemma existsb_d_insert (q: pv -> bool) acc k v :
  existsb (fun p => q (fst p)) (d_insert acc k v) = true ->
  existsb (fun p => q (fst p)) acc = true \/ q k = true.
Proof.
  induction acc as [|[k' x] acc IH]; cbn [d_insert existsb fst].
  - rewrite orb_false_r. intros H. right. exact H.
  - destruct (py_eq k' k); cbn [existsb fst].
    + intros H. left. exact H.
    + intros H. apply orb_prop in H. destruct H as [H|H].
      * left. rewrite H. reflexivity.
      * destruct (IH H) as [H'|H']; [left; rewrite H'; apply orb_true_r | right; exact H'].
Qed.

Lemma nodup_d_insert acc k v : nodup_keys acc = true -> nodup_keys (d_insert acc k v) = true.
Proof.
  induction acc as [|[k' x] acc IH]; intros H; [reflexivity|].
  cbn [nodup_keys] in H. apply andb_prop in H. destruct H as [Hk Hr].
  cbn [d_insert]. destruct (py_eq k' k) eqn:Ek.
  - cbn [nodup_keys]. rewrite Hk, Hr. reflexivity.
  - cbn [nodup_keys]. rewrite (IH Hr). rewrite andb_true_r.
    apply negb_true_iff. apply negb_true_iff in Hk.
    destruct (existsb (fun p => py_eq k' (fst p)) (d_insert acc k v)) eqn:Ex; [|reflexivity].
    destruct (existsb_d_insert (py_eq k') acc k v Ex) as [H|H].
    + rewrite H in Hk. discriminate.
    + rewrite H in Ek. discriminate.
Qed.

Lemma nodup_dict_of_pairs l : nodup_keys (dict_of_pairs l) = true.
Proof.
  unfold dict_of_pairs. assert (H: nodup_keys [] = true) by reflexivity. revert H. generalize (@nil (pv * pv)).
  induction l as [|[k v] l IH]; intros acc H; [exact H|].
  cbn [fold_left fst snd]. apply IH. apply nodup_d_insert. exact H.
Qed.

Lemma forallb_mapM_res {A B} (f: A -> res B) (q: B -> bool) l r :
  (forall x y, In x l -> f x = Ok y -> q y = true) -> mapM f l = Ok r -> forallb q r = true.
Proof.
  revert r. induction l as [|a l IH]; intros r H Hm.
  - cbn in Hm. inversion Hm. reflexivity.
  - cbn [mapM] in Hm. destruct (f a) as [y|] eqn:Ea; [|discriminate].
    destruct (mapM f l) as [ys|] eqn:El; [|discriminate]. inversion Hm; subst.
    cbn [forallb]. rewrite (H a y (or_introl eq_refl) Ea).
    apply IH; [|reflexivity]. intros x y' Hx. apply H. right. exact Hx.
Qed.

Lemma forallb_set_of_list (q: pv -> bool) l : forallb q l = true -> forallb q (set_of_list l) = true.
Proof.
  unfold set_of_list. assert (H: forallb q [] = true) by reflexivity. revert H. generalize (@nil pv).
  induction l as [|x l IH]; intros acc Ha Hl; [exact Ha|].
  cbn [forallb] in Hl. apply andb_prop in Hl. destruct Hl as [Hx Hl].
  cbn [fold_left]. apply IH; [|exact Hl].
  clear - Ha Hx. induction acc as [|y acc IHa]; cbn [s_insert forallb].
  - rewrite Hx. reflexivity.
  - cbn [forallb] in Ha. apply andb_prop in Ha. destruct Ha as [Hy Ha].
    destruct (py_eq y x); cbn [forallb]; rewrite Hy; [exact Ha | apply IHa; exact Ha].
Qed.

Lemma forallb_dict_of_pairs (q: pv * pv -> bool) l :
  (* the predicate only looks at components, and replacing a value keeps it true *)
  (forall k v v', q (k, v) = true -> q (k, v') = true \/ True) ->
  forall qk qv, (forall k v, q (k, v) = qk k && qv v) ->
  forallb q l = true -> forallb q (dict_of_pairs l) = true.
Proof.
  intros _ qk qv Hq. unfold dict_of_pairs.
  assert (H: forallb q [] = true) by reflexivity. revert H. generalize (@nil (pv * pv)).
  induction l as [|[k v] l IH]; intros acc Ha Hl; [exact Ha|].
  cbn [forallb] in Hl. apply andb_prop in Hl. destruct Hl as [Hx Hl].
  cbn [fold_left fst snd]. apply IH; [|exact Hl].
  clear - Ha Hx Hq. induction acc as [|[k' x] acc IHa]; cbn [d_insert forallb].
  - rewrite Hx. reflexivity.
  - cbn [forallb] in Ha. apply andb_prop in Ha. destruct Ha as [Hy Ha].
    destruct (py_eq k' k); cbn [forallb].
    + rewrite Ha, andb_true_r. rewrite Hq in *. apply andb_prop in Hy. destruct Hy as [Hk' _].
      apply andb_prop in Hx. destruct Hx as [_ Hv]. rewrite Hk', Hv. reflexivity.
    + rewrite Hy. apply IHa. exact Ha.
Qed.

Section Conform.
  Variable E : senv.
  Variable P : prims.

  (* class table well-formedness: declared defaults conform to their field *)
  Definition default_ok (f: sfield) : bool :=
    match f.(sf_default) with
    | None => true
    | Some dv => (sfield_nullable f && is_none dv) || conf E dv f.(sf_ty) end.
  Hypothesis env_defaults : forallb (fun c => forallb default_ok c.(sc_fields)) E = true.

  Lemma coerce_conf s d r : coerce_s P s d = Ok r ->
    conf E r (match s with SInt => SIntT | SFloat => SFloatT | SBool => SBoolT | SStr => SStrT | SNone => SNoneT end) = true.
  Proof.
    destruct s; cbn [coerce_s]; intros H.
    - destruct d; try (destruct (p_int P _); cbn [lift bind] in H; [|discriminate]); inversion H; reflexivity.
    - destruct d; try (destruct (p_float P _); cbn [lift bind] in H; [|discriminate]); inversion H; reflexivity.
    - inversion H. reflexivity.
    - destruct d; try (destruct (p_str P _); cbn [lift bind] in H; [|discriminate]); inversion H; reflexivity.
    - inversion H. reflexivity.
  Qed.

  Lemma none_tail_conf ts : forall r, none_tail_t ts = Ok r ->
    (fix go (ts: list sty) (l: list pv) {struct l} : bool :=
       match ts, l with
       | [], [] => true
       | t' :: ts', x :: l' => conf E x t' && go ts' l'
       | _, _ => false end) ts r = true.
  Proof.
    induction ts as [|t ts IH]; intros r H.
    - cbn in H. inversion H. reflexivity.
    - cbn [none_tail_t] in H. destruct (const_ty t) as [c|] eqn:Ec; [|discriminate].
      destruct (none_tail_t ts) as [ys|]; [|discriminate]. cbn [bind] in H. inversion H; subst.
      rewrite (IH ys eq_refl). rewrite andb_true_r.
      destruct t; try discriminate; [inversion Ec; reflexivity|].
      destruct ts0; [|discriminate]. inversion Ec. reflexivity.
  Qed.

  Lemma dec_str_conf t : forall s r, ref_dec_str E P t s = Ok r -> conf E r t = true.
  Proof.
    induction t as [ | | | | | | m' | k' | e' | t' IHt | fr' t' IHt | t' IHt | ts IHts | kt IHkt vt IHvt | t' IHt | c' ]
      using sty_ind'; intros s r H; cbn [ref_dec_str] in H.
    - rewrite conf_unfold. reflexivity.
    - inversion H. reflexivity.
    - apply (coerce_conf SInt _ _ H).
    - apply (coerce_conf SFloat _ _ H).
    - apply (coerce_conf SBool _ _ H).
    - inversion H. reflexivity.
    - destruct (p_b64dec P _); cbn [lift bind] in H; [|discriminate]. inversion H. cbn. apply eqb_reflx.
    - destruct (p_parse P _ _); cbn [lift bind] in H; [|discriminate]. inversion H. cbn. apply String.eqb_refl.
    - destruct (p_enum_of P _ _); cbn [lift bind] in H; [|discriminate]. inversion H. cbn. apply String.eqb_refl.
    - destruct (mapM _ _) as [l|] eqn:Em; [|discriminate]. cbn [bind] in H. inversion H. rewrite conf_unfold.
      apply (forallb_mapM_res _ _ _ _ (fun x y _ Hy => IHt x y Hy) Em).
    - destruct (mapM _ _) as [l|] eqn:Em; [|discriminate]. cbn [bind] in H.
      destruct (forallb hashable l); [|discriminate]. inversion H. rewrite conf_unfold. rewrite eqb_reflx. cbn [andb].
      apply forallb_set_of_list. apply (forallb_mapM_res _ _ _ _ (fun x y _ Hy => IHt x y Hy) Em).
    - destruct (mapM _ _) as [l|] eqn:Em; [|discriminate]. cbn [bind] in H. inversion H. rewrite conf_unfold.
      apply (forallb_mapM_res _ _ _ _ (fun x y _ Hy => IHt x y Hy) Em).
    - match type of H with (bind ?X _ = _) => destruct X as [l|] eqn:Em end; [|discriminate]. cbn [bind] in H. inversion H.
      rewrite conf_unfold. clear H H1. revert l Em. generalize (utf8_chars s) as cs.
      induction IHts as [|t1 ts H1 Hts IH]; intros cs l Em.
      + inversion Em. reflexivity.
      + destruct cs as [|c0 cs].
        * apply (none_tail_conf (t1 :: ts) l Em).
        * destruct (ref_dec_str E P t1 c0) as [y|] eqn:Ey; [|discriminate]. cbn [bind] in Em.
          match type of Em with (bind ?X _ = _) => destruct X as [ys|] eqn:Eys end; [|discriminate].
          inversion Em; subst. rewrite (H1 c0 y Ey). cbn [andb]. apply (IH cs ys Eys).
    - discriminate.
    - rewrite conf_unfold. rewrite (IHt s r H). apply orb_true_r.
    - destruct (sfind E c') as [k|] eqn:Ef; discriminate.
  Qed.

  Definition conf_ok (d: pv) : Prop := forall t r, ref_dec E P d t = Ok r -> conf E r t = true.

  Lemma sfind_defaults c k : sfind E c = Some k -> forallb default_ok k.(sc_fields) = true.
  Proof.
    intros H. rewrite forallb_forall in env_defaults. apply (env_defaults k).
    clear - H. induction E as [|x E' IH]; cbn [sfind] in H; [discriminate|].
    destruct (String.eqb (sc_name x) c); [inversion H; left; reflexivity | right; apply IH; exact H].
  Qed.

  Theorem ref_dec_conforms : forall d, conf_ok d.
  Proof.
    induction d as [ | b | z | f | s | m b | l IHl | l IHl | fr l IHl | kvs IHk | c fs IHf | e m | k w | c l IHl | tg ]
      using pv_rect'; unfold conf_ok.
    all: intros t; induction t as [ | | | | | | m' | k' | e' | t' IHt | fr' t' IHt | t' IHt | ts | kt IHkt vt IHvt | t' IHt | c' ];
      intros r H; rewrite ref_dec_unfold in H.
    (* scalars, leaves *)
    all: try (inversion H; reflexivity).
    all: try (apply (coerce_conf SInt _ _ H)).
    all: try (apply (coerce_conf SFloat _ _ H)).
    all: try (apply (coerce_conf SBool _ _ H)).
    all: try (apply (coerce_conf SStr _ _ H)).
    all: try solve [ destruct (p_b64dec P _); cbn [lift bind] in H; [|discriminate]; inversion H; cbn; apply eqb_reflx ].
    all: try solve [ destruct (p_parse P _ _); cbn [lift bind] in H; [|discriminate]; inversion H; cbn; apply String.eqb_refl ].
    all: try solve [ destruct (p_enum_of P _ _); cbn [lift bind] in H; [|discriminate]; inversion H; cbn; apply String.eqb_refl ].
    all: try discriminate H.
    (* Optional *)
    all: try solve [ rewrite conf_unfold; cbn [is_none] in H;
                     first [ inversion H; reflexivity | rewrite (IHt r H); apply orb_true_r ] ].
    (* str inputs *)
    all: try solve [ first [ apply (dec_str_conf (SList t') _ _ H) | apply (dec_str_conf (SSet fr' t') _ _ H)
                           | apply (dec_str_conf (STupleVar t') _ _ H) | apply (dec_str_conf (STupleFix ts) _ _ H) ] ].
    (* fixed tuple / dataclass given a non-sequence / non-mapping *)
    all: try solve [ destruct (none_tail_t ts) as [r0|] eqn:En; [|discriminate H]; cbn [bind] in H; inversion H;
                     rewrite conf_unfold; apply (none_tail_conf ts r0 En) ].
    all: try solve [ destruct (sfind E c') as [k0|] eqn:Ef; [|discriminate H];
                     first [ apply (dec_str_conf (SData c') _ _ H) | discriminate H ] ].
    (* homogeneous containers over list-like inputs *)
    all: try solve [ destruct (mapM _ _) as [l0|] eqn:Em; [|discriminate H]; cbn [bind] in H;
                     try (destruct (forallb hashable l0); [|discriminate H]); inversion H; rewrite conf_unfold;
                     try (rewrite eqb_reflx; cbn [andb]; apply forallb_set_of_list);
                     apply (forallb_mapM_res _ _ _ _ (fun x y Hx Hy => Forall_In _ _ IHl x Hx t' y Hy) Em) ].
    (* ... and over a dict input (its keys) *)
    all: try solve [ destruct (mapM _ _) as [l0|] eqn:Em; [|discriminate H]; cbn [bind] in H;
                     try (destruct (forallb hashable l0); [|discriminate H]); inversion H; rewrite conf_unfold;
                     try (rewrite eqb_reflx; cbn [andb]; apply forallb_set_of_list);
                     apply (forallb_mapM_res _ _ _ _ (fun (p: pv * pv) y Hp => match p as p0 return In p0 kvs -> (let (k, _) := p0 in ref_dec E P k t') = Ok y -> conf E y t' = true with (k, x) => fun Hp' Hy => proj1 (Forall_In _ _ IHk (k, x) Hp') t' y Hy end Hp) Em) ].
    - (* VList, STupleFix *)
      match type of H with (bind ?X _ = _) => destruct X as [r0|] eqn:Em end; [|discriminate H]. cbn [bind] in H. inversion H.
      rewrite conf_unfold. clear H H1. revert ts r0 Em. induction l as [|x l IHl']; intros ts r0 Em.
      + destruct ts as [|t1 ts]; [inversion Em; reflexivity | apply (none_tail_conf (t1 :: ts) r0 Em)].
      + destruct ts as [|t1 ts]; [inversion Em; reflexivity|].
        inversion IHl as [|? ? Qx Ql]; subst.
        destruct (ref_dec E P x t1) as [y|] eqn:Ey; [|discriminate Em]. cbn [bind] in Em.
        match type of Em with (bind ?X _ = _) => destruct X as [ys|] eqn:Eys end; [|discriminate Em].
        inversion Em; subst. rewrite (Qx t1 y Ey). cbn [andb]. apply (IHl' Ql ts ys Eys).
    - (* VTuple, STupleFix *)
      match type of H with (bind ?X _ = _) => destruct X as [r0|] eqn:Em end; [|discriminate H]. cbn [bind] in H. inversion H.
      rewrite conf_unfold. clear H H1. revert ts r0 Em. induction l as [|x l IHl']; intros ts r0 Em.
      + destruct ts as [|t1 ts]; [inversion Em; reflexivity | apply (none_tail_conf (t1 :: ts) r0 Em)].
      + destruct ts as [|t1 ts]; [inversion Em; reflexivity|].
        inversion IHl as [|? ? Qx Ql]; subst.
        destruct (ref_dec E P x t1) as [y|] eqn:Ey; [|discriminate Em]. cbn [bind] in Em.
        match type of Em with (bind ?X _ = _) => destruct X as [ys|] eqn:Eys end; [|discriminate Em].
        inversion Em; subst. rewrite (Qx t1 y Ey). cbn [andb]. apply (IHl' Ql ts ys Eys).
    - (* VDict, SDict *)
      match type of H with (bind ?X _ = _) => destruct X as [r0|] eqn:Em end; [|discriminate H]. cbn [bind] in H. inversion H.
      rewrite conf_unfold. rewrite nodup_dict_of_pairs. cbn [andb].
      apply (forallb_dict_of_pairs _ r0 (fun _ _ _ _ => or_intror I) (fun k => conf E k kt) (fun x => conf E x vt) (fun k v => eq_refl)).
      refine (forallb_mapM_res _ _ _ _ _ Em). intros [k x] [k' x'] Hp Hy.
      destruct (Forall_In _ _ IHk (k, x) Hp) as [Qk Qx]. cbn [fst snd] in Qk, Qx.
      destruct (ref_dec E P k kt) as [k1|] eqn:Ek; [|discriminate Hy]. cbn [bind] in Hy.
      destruct (ref_dec E P x vt) as [x1|] eqn:Ex; [|discriminate Hy]. cbn [bind] in Hy.
      destruct (hashable k1); [|discriminate Hy]. inversion Hy; subst.
      rewrite (Qk kt k' Ek), (Qx vt x' Ex). reflexivity.
    - (* VDict, SData *)
      destruct (sfind E c') as [k0|] eqn:Ef; [|discriminate H]. cbv zeta in H.
      match type of H with (bind ?X _ = _) => destruct X as [r0|] eqn:Em end; [|discriminate H]. cbn [bind] in H. inversion H.
      rewrite conf_unfold. rewrite String.eqb_refl, Ef. cbn [andb].
      pose proof (sfind_defaults c' k0 Ef) as Hdef. clear H H1 Ef.
      revert r0 Em Hdef. generalize (sc_fields k0) as fds.
      induction fds as [|f fds IHfds]; intros r0 Em Hdef.
      + inversion Em. reflexivity.
      + cbn [forallb] in Hdef. apply andb_prop in Hdef. destruct Hdef as [Hd Hdr].
        match type of Em with (bind ?X _ = _) => destruct X as [y|] eqn:Ey end; [|discriminate Em]. cbn [bind] in Em.
        match type of Em with (bind ?X _ = _) => destruct X as [tl|] eqn:Etl end; [|discriminate Em]. cbn [bind] in Em.
        inversion Em; subst. rewrite String.eqb_refl. rewrite (IHfds tl eq_refl Hdr). rewrite andb_true_r. cbn [andb].
        (* where does y come from? *)
        clear Em Etl IHfds.
        assert (Hlook: forall o,
                  (fix look (es: list (pv * (pv * (sty -> res pv)))) : option (pv * (sty -> res pv)) :=
                     match es with
                     | [] => None
                     | (key, xd) :: er => if py_eq key (VStr f.(sf_name)) then Some xd else look er
                     end) (map (fun p : pv * pv => match p with (key, x) => (key, (x, ref_dec E P x)) end) kvs) = o ->
                  match o with
                  | Some (x, dx) => conf_ok x /\ dx = ref_dec E P x
                  | None => True end).
        { clear Ey. induction kvs as [|[key x] kvs IHkvs]; intros o Ho.
          - cbn in Ho. subst o. exact I.
          - cbn [map] in Ho. destruct (py_eq key (VStr (sf_name f))).
            + subst o. inversion IHk as [|? ? [_ Qx] _]; subst. cbn [snd] in Qx. split; [exact Qx | reflexivity].
            + apply IHkvs; [inversion IHk; assumption | exact Ho]. }
        match type of Ey with (match ?X with _ => _ end = _) => specialize (Hlook X eq_refl); destruct X as [[x dx]|] end.
        * destruct Hlook as [Qx Hdx]. subst dx.
          destruct (is_none x && sfield_nullable f) eqn:Hn.
          -- inversion Ey; subst. apply andb_prop in Hn. destruct Hn as [_ Hn]. rewrite Hn. reflexivity.
          -- rewrite (Qx (sf_ty f) y Ey). apply orb_true_r.
        * unfold default_ok in Hd. destruct (sf_default f) as [dv|]; [|discriminate Ey]. inversion Ey; subst. exact Hd.
  Qed.
End Conform.
