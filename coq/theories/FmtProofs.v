(* C04: proofs about the format-layer model (Fmt.v).
   The format libraries are section variables with an assumed law (fmt_law); the stdlib leaf codecs
   and the user strategies are section variables with assumed laws (leaf_law, user_law).
   All theorems are closed after the sections (the laws become premises). *)
From Coq Require Import List String Ascii ZArith Bool Lia.
From Verif Require Import Fmt.
Import ListNotations.
Open Scope string_scope.

(* ------------------------------------------------------------------ *)
(* induction principles for the nested value universes *)
Section PvInd.
  Variable P : pv -> Prop.
  Hypothesis HNone : P VNone.
  Hypothesis HBool : forall b, P (VBool b).
  Hypothesis HInt : forall z, P (VInt z).
  Hypothesis HFloat : forall f, P (VFloat f).
  Hypothesis HStr : forall s, P (VStr s).
  Hypothesis HLeaf : forall k p, P (VLeaf k p).
  Hypothesis HList : forall l, Forall P l -> P (VList l).
  Hypothesis HDict : forall kvs, Forall (fun kv => P (snd kv)) kvs -> P (VDict kvs).
  Hypothesis HObj : forall c fs, Forall (fun kv => P (snd kv)) fs -> P (VObj c fs).
  Hypothesis HColl : forall ck l, Forall P l -> P (VColl ck l).
  Hypothesis HEnum : forall e m, P (VEnum e m).
  Hypothesis HNT : forall c l, Forall P l -> P (VNT c l).

  Fixpoint pv_ind' (v: pv) : P v :=
    let go := fix go (l: list (string * pv)) : Forall (fun kv => P (snd kv)) l :=
                match l with
                | [] => Forall_nil _
                | kv :: r => Forall_cons kv
                               (match kv as kv0 return P (snd kv0) with (k, x) => pv_ind' x end) (go r)
                end in
    let gol := fix gol (l: list pv) : Forall P l :=
                 match l with [] => Forall_nil _ | x :: r => Forall_cons x (pv_ind' x) (gol r) end in
    match v with
    | VNone => HNone | VBool b => HBool b | VInt z => HInt z | VFloat f => HFloat f
    | VStr s => HStr s | VLeaf k p => HLeaf k p
    | VList l => HList l (gol l)
    | VDict kvs => HDict kvs (go kvs)
    | VObj c fs => HObj c fs (go fs)
    | VColl ck l => HColl ck l (gol l)
    | VEnum e m => HEnum e m
    | VNT c l => HNT c l (gol l)
    end.
End PvInd.

Section BvInd.
  Variable P : bv -> Prop.
  Hypothesis HNone : P BNone.
  Hypothesis HBool : forall b, P (BBool b).
  Hypothesis HInt : forall z, P (BInt z).
  Hypothesis HFloat : forall f, P (BFloat f).
  Hypothesis HStr : forall s, P (BStr s).
  Hypothesis HNat : forall k p, P (BNat k p).
  Hypothesis HList : forall l, Forall P l -> P (BList l).
  Hypothesis HDict : forall kvs, Forall (fun kv => P (snd kv)) kvs -> P (BDict kvs).

  Fixpoint bv_ind' (b: bv) : P b :=
    match b with
    | BNone => HNone | BBool x => HBool x | BInt z => HInt z | BFloat f => HFloat f
    | BStr s => HStr s | BNat k p => HNat k p
    | BList l =>
        HList l ((fix go (l: list bv) : Forall P l :=
                    match l with [] => Forall_nil _ | x :: r => Forall_cons x (bv_ind' x) (go r) end) l)
    | BDict kvs =>
        HDict kvs ((fix go (l: list (string * bv)) : Forall (fun kv => P (snd kv)) l :=
                      match l with
                      | [] => Forall_nil _
                      | kv :: r => Forall_cons kv
                                     (match kv as kv0 return P (snd kv0) with (k, x) => bv_ind' x end) (go r)
                      end) kvs)
    end.
End BvInd.

(* ------------------------------------------------------------------ *)
(* small facts *)

Lemma bind_ok {A B} (r: res A) (f: A -> res B) b :
  (x <- r ;; f x) = Ok b -> exists a, r = Ok a /\ f a = Ok b.
Proof. destruct r as [a|e]; simpl; intro H; [eauto | discriminate]. Qed.

Lemma lookup_app_none {A} n (pre l: list (string * A)) :
  lookup n pre = None -> lookup n (pre ++ l) = lookup n l.
Proof.
  induction pre as [|[k x] r IH]; simpl; intro H; [reflexivity|].
  destruct (String.eqb k n); [discriminate | auto].
Qed.

Lemma lookup_notin {A} n (l: list (string * A)) : ~ In n (map fst l) -> lookup n l = None.
Proof.
  induction l as [|[k x] r IH]; simpl; intro H; [reflexivity|].
  destruct (String.eqb k n) eqn:E.
  - apply String.eqb_eq in E. exfalso. apply H. left. exact E.
  - apply IH. intro Hin. apply H. right. exact Hin.
Qed.

Lemma lookup_in {A} n (x: A) (l: list (string * A)) : lookup n l = Some x -> In (n, x) l.
Proof.
  induction l as [|[k y] r IH]; simpl; intro H; [discriminate|].
  destruct (String.eqb k n) eqn:E.
  - apply String.eqb_eq in E. inversion H; subst. left. reflexivity.
  - right. apply IH. exact H.
Qed.

Lemma lookup_app_snoc_other {A} n m (x: A) pre :
  lookup n pre = None -> m <> n -> lookup n (pre ++ [(m, x)]) = None.
Proof.
  intros H Hne. rewrite lookup_app_none by exact H. simpl.
  destruct (String.eqb m n) eqn:E; [apply String.eqb_eq in E; contradiction | reflexivity].
Qed.

Lemma nodupb_cons x r : nodupb (x :: r) = true -> ~ In x r /\ nodupb r = true.
Proof.
  simpl. intro H. apply andb_true_iff in H. destruct H as [H1 H2]. split; [|exact H2].
  intro Hin. apply negb_true_iff in H1.
  assert (existsb (String.eqb x) r = true) as E.
  { apply existsb_exists. exists x. split; [exact Hin | apply String.eqb_refl]. }
  rewrite E in H1. discriminate.
Qed.

Lemma lookup_nodup_in {A} n (x: A) (l: list (string * A)) :
  nodupb (map fst l) = true -> In (n, x) l -> lookup n l = Some x.
Proof.
  induction l as [|[k y] r IH]; simpl; intros Hnd Hin; [contradiction|].
  apply nodupb_cons in Hnd. destruct Hnd as [Hnin Hnd].
  destruct Hin as [Heq|Hin].
  - inversion Heq; subst. rewrite String.eqb_refl. reflexivity.
  - destruct (String.eqb k n) eqn:E.
    + apply String.eqb_eq in E. subst k. exfalso. apply Hnin.
      apply in_map_iff. exists (n, x). split; [reflexivity | exact Hin].
    + apply IH; assumption.
Qed.

Lemma mapM_rt {A B} (f: A -> res B) (g: B -> res A) (h: B -> B) (l: list A) :
  forall bs,
  (forall x b, In x l -> f x = Ok b -> g (h b) = Ok x) ->
  mapM f l = Ok bs -> mapM g (map h bs) = Ok l.
Proof.
  induction l as [|x r IH]; simpl; intros bs Hf H.
  - inversion H. reflexivity.
  - apply bind_ok in H. destruct H as [y [Hy H]].
    apply bind_ok in H. destruct H as [ys [Hys H]]. inversion H; subst. simpl.
    rewrite (Hf x y (or_introl eq_refl) Hy). simpl.
    rewrite (IH ys); [reflexivity | | exact Hys].
    intros x' b' Hin. apply Hf. right. exact Hin.
Qed.

(* ------------------------------------------------------------------ *)
(* Any positions *)

Fixpoint nonatb (b: bv) : bool :=
  match b with
  | BNat _ _ => false
  | BList l => forallb nonatb l
  | BDict kvs => forallb (fun kv => match kv with (_, x) => nonatb x end) kvs
  | _ => true
  end.

Lemma any_pack_nonat : forall v b, any_pack v = Ok b -> nonatb b = true.
Proof.
  induction v as [|b0|z0|f0|s0|k p|l IHl|kvs IHk|c fs _|ck cl _|en em|nc ni _] using pv_ind'; intros b H; simpl in H;
    try (inversion H; reflexivity); try discriminate.
  - apply bind_ok in H. destruct H as [bs [Hbs H]]. inversion H; subst b; clear H. simpl.
    revert bs Hbs. induction IHl as [|x r Hx _ IHr]; intros bs Hbs; simpl in Hbs.
    + inversion Hbs. reflexivity.
    + apply bind_ok in Hbs. destruct Hbs as [y [Hy Hbs]].
      apply bind_ok in Hbs. destruct Hbs as [ys [Hys Hbs]]. inversion Hbs; subst. simpl.
      rewrite (Hx y Hy). simpl. apply IHr. exact Hys.
  - apply bind_ok in H. destruct H as [bs [Hbs H]]. inversion H; subst b; clear H. simpl.
    revert bs Hbs. induction IHk as [|[k x] r Hx _ IHr]; intros bs Hbs; simpl in Hbs.
    + inversion Hbs. reflexivity.
    + apply bind_ok in Hbs. destruct Hbs as [y [Hy Hbs]].
      apply bind_ok in Hbs. destruct Hbs as [ys [Hys Hbs]]. inversion Hbs; subst.
      apply bind_ok in Hy. destruct Hy as [bx [Hbx Hy]]. inversion Hy; subst. simpl.
      simpl in Hx. rewrite (Hx bx Hbx). simpl. apply IHr. exact Hys.
Qed.

Lemma any_rt : forall v b, any_pack v = Ok b -> any_unpack b = Ok v.
Proof.
  induction v as [|b0|z0|f0|s0|k p|l IHl|kvs IHk|c fs _|ck cl _|en em|nc ni _] using pv_ind'; intros b H; simpl in H;
    try (inversion H; reflexivity); try discriminate.
  - apply bind_ok in H. destruct H as [bs [Hbs H]]. inversion H; subst b; clear H. simpl.
    assert (Hm : mapM any_unpack bs = Ok l).
    { revert bs Hbs. induction IHl as [|x r Hx _ IHr]; intros bs Hbs; simpl in Hbs.
      - inversion Hbs. reflexivity.
      - apply bind_ok in Hbs. destruct Hbs as [y [Hy Hbs]].
        apply bind_ok in Hbs. destruct Hbs as [ys [Hys Hbs]]. inversion Hbs; subst. simpl.
        rewrite (Hx y Hy). simpl. rewrite (IHr ys Hys). reflexivity. }
    rewrite Hm. reflexivity.
  - apply bind_ok in H. destruct H as [bs [Hbs H]]. inversion H; subst b; clear H. simpl.
    assert (Hm : mapM (on_snd any_unpack) bs = Ok kvs).
    { revert bs Hbs. induction IHk as [|[k x] r Hx _ IHr]; intros bs Hbs; simpl in Hbs.
      - inversion Hbs. reflexivity.
      - apply bind_ok in Hbs. destruct Hbs as [y [Hy Hbs]].
        apply bind_ok in Hbs. destruct Hbs as [ys [Hys Hbs]]. inversion Hbs; subst.
        apply bind_ok in Hy. destruct Hy as [bx [Hbx Hy]]. inversion Hy; subst. simpl.
        simpl in Hx. rewrite (Hx bx Hbx). simpl. rewrite (IHr ys Hys). reflexivity. }
    rewrite Hm. reflexivity.
Qed.

Lemma all_kinds_complete k : In k all_kinds.
Proof. destruct k; simpl; tauto. Qed.

Lemma coherent_pair F ls k : coherentb F ls = true -> pair_ok F (ser_mode ls k) (de_mode ls k) k = true.
Proof. intro H. unfold coherentb in H. rewrite forallb_forall in H. apply H. apply all_kinds_complete. Qed.

(* ------------------------------------------------------------------ *)
Section Model.
  Variable render : lkind -> string -> string.
  Variable parse_leaf : lkind -> string -> option string.
  Variable urender : nat -> lkind -> string -> string.
  Variable uparse : nat -> lkind -> string -> option string.
  Variable leaf_ok : lkind -> string -> bool.
  Variable E : env.
  Variable EN : enums.

  (* assumed laws of the stdlib leaf codecs and of the user's strategy pairs *)
  Hypothesis leaf_law : forall k p, leaf_ok k p = true -> parse_leaf k (render k p) = Some p.
  Hypothesis user_law : forall u k p, leaf_ok k p = true -> uparse u k (urender u k p) = Some p.
  (* bytes and bytearray share one rendering *)
  Hypothesis render_wire : forall k p, render (wire k) p = render k p.

  Notation pack := (pack render urender E EN).
  Notation unpack := (unpack parse_leaf uparse E EN).
  Notation pack_leaf := (pack_leaf render urender).
  Notation unpack_leaf := (unpack_leaf parse_leaf uparse).
  Notation pack_data := (pack_data E).
  Notation unpack_data := (unpack_data E).
  Notation norm := (norm render).
  Notation render_natives := (render_natives render).
  Notation leaves_okb := (leaves_okb leaf_ok).

  (* -- unfolding equations ------------------------------------------------------- *)
  Lemma pack_eq ls v self t :
    pack ls v self t =
    match t with
    | TInt => match v with VInt z => Ok (BInt z) | _ => Err EBad end
    | TFloat => match v with VFloat f => Ok (BFloat f) | _ => Err EBad end
    | TBool => match v with VBool b => Ok (BBool b) | _ => Err EBad end
    | TStr => match v with VStr s => Ok (BStr s) | _ => Err EBad end
    | TLeaf k => match v with
                 | VLeaf k' p => if lkind_eqb k k' then Ok (pack_leaf ls k p) else Err EBad
                 | _ => Err EBad end
    | TLit s => match v with VStr s' => if String.eqb s s' then Ok (BStr s) else Err EBad | _ => Err EBad end
    | TAny => any_pack v
    | TList t' => match v with
                  | VList l => bs <- mapM (fun x => pack ls x self t') l ;; Ok (BList bs)
                  | _ => Err EBad end
    | TDict t' => match v with
                  | VDict kvs => bs <- mapM (on_snd (fun x => pack ls x self t')) kvs ;; Ok (BDict bs)
                  | _ => Err EBad end
    | TOpt t' => match v with VNone => Ok BNone | _ => pack ls v self t' end
    | TData c => pack_data (pack ls) ls.(omit_none) v c
    | TSelf => pack_data (pack ls) ls.(omit_none) v self
    | TDiscr _ vs => match v with
                     | VObj c' _ => if is_variant vs c' then pack_data (pack ls) ls.(omit_none) v c' else Err EBad
                     | _ => Err EBad end
    | TColl ck t' => match v with
                     | VColl ck' l => if ckind_eqb ck ck'
                                      then bs <- mapM (fun x => pack ls x self t') l ;; Ok (BList bs)
                                      else Err EBad
                     | _ => Err EBad end
    | TEnum e => match v with
                 | VEnum e' m => if String.eqb e e' then
                                   match lookup e EN with
                                   | Some ms => match lookup m ms with Some x => Ok (ev_to_bv x) | None => Err EBad end
                                   | None => Err EBad end
                                 else Err EBad
                 | _ => Err EBad end
    | TNamed c => match v with
                  | VNT c' items => if String.eqb c c' then
                                      match lookup c E with
                                      | Some ds => bs <- pack_items (fun x ft => pack ls x c ft) items ds ;; Ok (BList bs)
                                      | None => Err EBad end
                                    else Err EBad
                  | _ => Err EBad end
    | TTyped c => match v with
                  | VDict kvs => match lookup c E with
                                 | Some ds => bs <- pack_fields (fun x ft => pack ls x c ft) false kvs ds ;; Ok (BDict bs)
                                 | None => Err EBad end
                  | _ => Err EBad end
    | TFix c => match v with
                | VColl CTuple items => match lookup c E with
                                        | Some ds => bs <- pack_items (fun x ft => pack ls x self ft) items ds ;; Ok (BList bs)
                                        | None => Err EBad end
                | _ => Err EBad end
    end.
  Proof. destruct v as [| | | | | | | | |ck ? | |]; try destruct ck; destruct t; reflexivity. Qed.

  Lemma unpack_eq ls b self t :
    unpack ls b self t =
    match t with
    | TInt => match b with BInt z => Ok (VInt z) | _ => Err EBad end
    | TFloat => match b with BFloat f => Ok (VFloat f) | _ => Err EBad end
    | TBool => match b with BBool x => Ok (VBool x) | _ => Err EBad end
    | TStr => match b with BStr s => Ok (VStr s) | _ => Err EBad end
    | TLeaf k => unpack_leaf ls k b
    | TLit s => match b with BStr s' => if String.eqb s s' then Ok (VStr s) else Err EBad | _ => Err EBad end
    | TAny => any_unpack b
    | TList t' => match b with
                  | BList l => vs <- mapM (fun x => unpack ls x self t') l ;; Ok (VList vs)
                  | _ => Err EBad end
    | TDict t' => match b with
                  | BDict kvs => vs <- mapM (on_snd (fun x => unpack ls x self t')) kvs ;; Ok (VDict vs)
                  | _ => Err EBad end
    | TOpt t' => match b with BNone => Ok VNone | _ => unpack ls b self t' end
    | TData c => unpack_data (unpack ls) b c
    | TSelf => unpack_data (unpack ls) b self
    | TDiscr fld vs =>
        match b with
        | BDict kvs => match lookup fld kvs with
                       | Some (BStr tag) => match lookup tag vs with
                                            | Some c => unpack_data (unpack ls) b c
                                            | None => Err EBad end
                       | _ => Err EBad end
        | _ => Err EBad end
    | TColl ck t' => match b with
                     | BList l => vs <- mapM (fun x => unpack ls x self t') l ;; Ok (VColl ck vs)
                     | _ => Err EBad end
    | TEnum e => match lookup e EN, bv_to_ev b with
                 | Some ms, Some x => match enum_find ms x with Some m => Ok (VEnum e m) | None => Err EBad end
                 | _, _ => Err EBad end
    | TNamed c => match b with
                  | BList l => match lookup c E with
                               | Some ds => vs <- unpack_items (fun x ft => unpack ls x c ft) l ds ;; Ok (VNT c vs)
                               | None => Err EBad end
                  | _ => Err EBad end
    | TTyped c => match b with
                  | BDict kvs => match lookup c E with
                                 | Some ds => vs <- unpack_fields (map (bind_clos (unpack ls) c) kvs) ds ;; Ok (VDict vs)
                                 | None => Err EBad end
                  | _ => Err EBad end
    | TFix c => match b with
                | BList l => match lookup c E with
                             | Some ds => vs <- unpack_items (fun x ft => unpack ls x self ft) l ds ;; Ok (VColl CTuple vs)
                             | None => Err EBad end
                | _ => Err EBad end
    end.
  Proof. destruct b; destruct t; reflexivity. Qed.

  (* -- None ------------------------------------------------------------------ *)
  Lemma any_pack_none_inv v : any_pack v = Ok BNone -> v = VNone.
  Proof.
    destruct v; simpl; intro H; try reflexivity; try discriminate.
    - destruct (mapM any_pack l); discriminate.
    - destruct (mapM (on_snd any_pack) kvs); discriminate.
  Qed.

  Lemma pack_data_not_none P omit v c : pack_data P omit v c <> Ok BNone.
  Proof.
    unfold Fmt.pack_data. destruct v; try discriminate. destruct (String.eqb c c0); [|discriminate].
    destruct (lookup c E); [|discriminate].
    destruct (pack_fields (fun x ft => P x c ft) omit fs l); discriminate.
  Qed.

  Lemma pack_none_inv ls self : forall t v, pack ls v self t = Ok BNone -> v = VNone.
  Proof.
    induction t; intros v H; rewrite pack_eq in H.
    - destruct v; discriminate.
    - destruct v; discriminate.
    - destruct v; discriminate.
    - destruct v; discriminate.
    - destruct v; try discriminate. destruct (lkind_eqb k k0); [|discriminate].
      unfold Fmt.pack_leaf in H. destruct (ser_mode ls k); discriminate.
    - destruct v; try discriminate. destruct (String.eqb s s0); discriminate.
    - apply any_pack_none_inv. exact H.
    - destruct v; try discriminate. destruct (mapM (fun x => pack ls x self t) l); discriminate.
    - destruct v; try discriminate. destruct (mapM (on_snd (fun x => pack ls x self t)) kvs); discriminate.
    - destruct v; try reflexivity; apply IHt in H; exact H.
    - exfalso. eapply pack_data_not_none. exact H.
    - exfalso. eapply pack_data_not_none. exact H.
    - destruct v; try discriminate. destruct (is_variant vs c); [|discriminate].
      exfalso. eapply pack_data_not_none. exact H.
    - destruct v; try discriminate. destruct (ckind_eqb ck ck0); [|discriminate].
      destruct (mapM (fun x => pack ls x self t) l); discriminate.
    - destruct v; try discriminate. destruct (String.eqb e e0); [|discriminate].
      destruct (lookup e EN); [|discriminate]. destruct (lookup m l) as [x|]; [|discriminate].
      destruct x; discriminate.
    - destruct v; try discriminate. destruct (String.eqb c c0); [|discriminate].
      destruct (lookup c E); [|discriminate].
      destruct (pack_items (fun x ft => pack ls x c ft) items l); discriminate.
    - destruct v; try discriminate. destruct (lookup c E); [|discriminate].
      destruct (pack_fields (fun x ft => pack ls x c ft) false kvs l); discriminate.
    - destruct v as [| | | | | | | | |ck items| |]; try discriminate. destruct ck; try discriminate.
      destruct (lookup c E); [|discriminate].
      destruct (pack_items (fun x ft => pack ls x self ft) items l); discriminate.
  Qed.

  Lemma pack_vnone ls self : forall t b, pack ls VNone self t = Ok b -> b = BNone.
  Proof.
    induction t; intros b H; rewrite pack_eq in H; simpl in H; try discriminate.
    - inversion H. reflexivity.
    - inversion H. reflexivity.
  Qed.

  Lemma norm_none F b : norm F b = BNone -> b = BNone.
  Proof. destruct b; simpl; try discriminate; try reflexivity. destruct F; discriminate. Qed.

  Lemma unpack_opt_notnone ls self t b : b <> BNone -> unpack ls b self (TOpt t) = unpack ls b self t.
  Proof. intro H. rewrite (unpack_eq ls b self (TOpt t)). destruct b; try reflexivity. contradiction. Qed.

  Lemma norm_nonat F : forall b, nonatb b = true -> norm F b = b.
  Proof.
    induction b as [| | | | |k p|l IHl|kvs IHk] using bv_ind'; simpl; intro H; try reflexivity; try discriminate.
    - f_equal. induction IHl as [|x r Hx _ IHr]; simpl in *; [reflexivity|].
      apply andb_true_iff in H. destruct H as [H1 H2]. rewrite (Hx H1), (IHr H2). reflexivity.
    - f_equal. induction IHk as [|[k x] r Hx _ IHr]; simpl in *; [reflexivity|].
      apply andb_true_iff in H. destruct H as [H1 H2]. rewrite (Hx H1), (IHr H2). reflexivity.
  Qed.

  (* -- leaves ---------------------------------------------------------------- *)
  Lemma leaf_rt F ls k p :
    pair_ok F (ser_mode ls k) (de_mode ls k) k = true -> leaf_ok k p = true ->
    unpack_leaf ls k (norm F (pack_leaf ls k p)) = Ok (VLeaf k p).
  Proof.
    intros Hp Hok. unfold Fmt.unpack_leaf, Fmt.pack_leaf.
    destruct (ser_mode ls k) as [| | |u]; destruct (de_mode ls k) as [| | |u']; simpl in Hp; try discriminate.
    - simpl. rewrite (leaf_law _ _ Hok). reflexivity.
    - destruct F; try discriminate. simpl. rewrite (leaf_law _ _ Hok). reflexivity.
    - destruct F; try discriminate; apply lkind_eqb_eq in Hp; simpl; try rewrite Hp; reflexivity.
    - destruct F; try discriminate. destruct k; try discriminate. reflexivity.
    - apply Nat.eqb_eq in Hp. subst u'. simpl. rewrite (user_law _ _ _ Hok). reflexivity.
  Qed.

  (* -- class table facts -------------------------------------------------------- *)
  Lemma wf_env_class c ds :
    wf_env E = true -> lookup c E = Some ds ->
    nodupb (map fst ds) = true /\
    forallb (fun d => match d with (_, (ft, _)) => wf_ty E ft end) ds = true.
  Proof.
    intros Hwf Hl. unfold wf_env in Hwf. rewrite forallb_forall in Hwf.
    specialize (Hwf (c, ds) (lookup_in _ _ _ Hl)). simpl in Hwf. apply andb_true_iff in Hwf. exact Hwf.
  Qed.

  Lemma defaults_class c ds :
    defaults_okb E = true -> lookup c E = Some ds ->
    forallb (fun d => match d with (_, (ft, dn)) => negb (is_opt ft) || dn end) ds = true.
  Proof.
    intros Hd Hl. unfold defaults_okb in Hd. rewrite forallb_forall in Hd.
    exact (Hd (c, ds) (lookup_in _ _ _ Hl)).
  Qed.

  (* -- record fields ----------------------------------------------------------- *)
  Definition normkv (F: fmt) (kv: string * bv) : string * bv := match kv with (k, x) => (k, norm F x) end.

  Lemma map_fst_normkv F l : map fst (map (normkv F) l) = map fst l.
  Proof. induction l as [|[k x] r IH]; simpl; [reflexivity | rewrite IH; reflexivity]. Qed.

  Lemma map_fst_clos (U: bv -> string -> ty -> res pv) c l : map fst (map (bind_clos U c) l) = map fst l.
  Proof. induction l as [|[k x] r IH]; simpl; [reflexivity | rewrite IH; reflexivity]. Qed.

  Lemma pack_fields_keys (P: pv -> ty -> res bv) omit :
    forall vs ds bs, pack_fields P omit vs ds = Ok bs ->
    forall n, In n (map fst bs) -> In n (map fst ds).
  Proof.
    induction vs as [|[n' x] vs' IH]; intros ds bs H m Hin.
    - destruct ds; simpl in H; [inversion H; subst; exact Hin | discriminate].
    - destruct ds as [|[n [ft d]] ds']; simpl in H; [discriminate|].
      destruct (String.eqb n n'); [|discriminate].
      apply bind_ok in H. destruct H as [b [Hb H]].
      apply bind_ok in H. destruct H as [r [Hr H]]. inversion H; subst; clear H.
      simpl. destruct (omit && is_opt ft && is_vnone x).
      + right. eapply IH; eauto.
      + simpl in Hin. destruct Hin as [<-|Hin]; [left; reflexivity | right; eapply IH; eauto].
  Qed.

  Definition rt_at (F: fmt) (ls: lsem) (v: pv) : Prop :=
    forall self t b, wf_ty E t = true -> leaves_okb v = true ->
                     pack ls v self t = Ok b -> unpack ls (norm F b) self t = Ok v.

  Lemma fields_rt F ls c om :
    forall fs ds bs pre,
    Forall (fun kv => rt_at F ls (snd kv)) fs ->
    nodupb (map fst ds) = true ->
    (forall n, In n (map fst ds) -> lookup n pre = None) ->
    (om = true ->
     forallb (fun d => match d with (_, (ft, dn)) => negb (is_opt ft) || dn end) ds = true) ->
    forallb (fun d => match d with (_, (ft, _)) => wf_ty E ft end) ds = true ->
    forallb (fun kv => match kv with (_, x) => leaves_okb x end) fs = true ->
    pack_fields (fun x ft => pack ls x c ft) om fs ds = Ok bs ->
    unpack_fields (pre ++ map (bind_clos (unpack ls) c) (map (normkv F) bs)) ds = Ok fs.
  Proof.
    induction fs as [|[n' x] fs' IH]; intros ds bs pre HF Hnd Hpre Hdef Hwf Hlv H.
    - destruct ds; simpl in H; [reflexivity | discriminate].
    - destruct ds as [|[n [ft d]] ds']; simpl in H; [discriminate|].
      destruct (String.eqb n n') eqn:En; [|discriminate].
      apply String.eqb_eq in En. subst n'.
      apply bind_ok in H. destruct H as [b [Hb H]].
      apply bind_ok in H. destruct H as [r [Hr H]]. inversion H; subst bs; clear H.
      inversion HF as [|? ? Hhd Htl]; subst. simpl in Hhd.
      simpl in Hnd. apply nodupb_cons in Hnd. destruct Hnd as [Hnin Hnd].
      simpl in Hlv. apply andb_true_iff in Hlv. destruct Hlv as [Hlx Hlv].
      simpl in Hwf. apply andb_true_iff in Hwf. destruct Hwf as [Hwft Hwf].
      assert (Hpre_n : lookup n pre = None) by (apply Hpre; left; reflexivity).
      destruct (om && is_opt ft && is_vnone x) eqn:Eom.
      + (* the key was omitted: lookup misses, the default (None) is taken *)
        apply andb_true_iff in Eom. destruct Eom as [Eom Evn].
        apply andb_true_iff in Eom. destruct Eom as [Eomit Eopt].
        destruct x; try discriminate.
        assert (Hd : d = true).
        { specialize (Hdef Eomit). simpl in Hdef. apply andb_true_iff in Hdef. destruct Hdef as [Hd _].
          rewrite Eopt in Hd. simpl in Hd. exact Hd. }
        subst d. simpl.
        assert (Hmiss : lookup n (pre ++ map (bind_clos (unpack ls) c) (map (normkv F) r)) = None).
        { rewrite lookup_app_none by exact Hpre_n. apply lookup_notin.
          rewrite map_fst_clos, map_fst_normkv.
          intro Hin. apply Hnin. eapply pack_fields_keys; eauto. }
        rewrite Hmiss.
        rewrite (IH ds' r pre); simpl; auto.
        * intros m Hm. apply Hpre. right. exact Hm.
        * intro Ho. specialize (Hdef Ho). simpl in Hdef. apply andb_true_iff in Hdef. tauto.
      + simpl. rewrite lookup_app_none by exact Hpre_n. simpl. rewrite String.eqb_refl.
        rewrite (Hhd c ft b Hwft Hlx Hb). simpl.
        replace (pre ++ (n, unpack ls (norm F b) c) :: map (bind_clos (unpack ls) c) (map (normkv F) r))%list
          with ((pre ++ [(n, unpack ls (norm F b) c)]) ++ map (bind_clos (unpack ls) c) (map (normkv F) r))%list
          by (rewrite <- app_assoc; reflexivity).
        rewrite (IH ds' r (pre ++ [(n, unpack ls (norm F b) c)])%list); simpl; auto.
        * intros m Hm. apply lookup_app_snoc_other.
          -- apply Hpre. right. exact Hm.
          -- intro Heq. subst m. contradiction.
        * intro Ho. specialize (Hdef Ho). simpl in Hdef. apply andb_true_iff in Hdef. tauto.
  Qed.

  (* the dataclass-level round trip, given the round trip of the field values *)
  Lemma data_rt F ls c c' fs b :
    wf_env E = true -> (omit_none ls = true -> defaults_okb E = true) ->
    Forall (fun kv => rt_at F ls (snd kv)) fs ->
    forallb (fun kv => match kv with (_, x) => leaves_okb x end) fs = true ->
    pack_data (pack ls) (omit_none ls) (VObj c' fs) c = Ok b ->
    unpack_data (unpack ls) (norm F b) c = Ok (VObj c' fs).
  Proof.
    intros Hwf Hdef HF Hlv H. unfold Fmt.pack_data in H.
    destruct (String.eqb c c') eqn:Ec; [|discriminate]. apply String.eqb_eq in Ec. subst c'.
    destruct (lookup c E) as [ds|] eqn:El; [|discriminate].
    apply bind_ok in H. destruct H as [bs [Hbs H]]. inversion H; subst b; clear H.
    destruct (wf_env_class c ds Hwf El) as [Hnd Hwt].
    unfold Fmt.unpack_data. simpl. rewrite El.
    replace (map (fun kv => match kv with (k, x) => (k, norm F x) end) bs) with (map (normkv F) bs) by reflexivity.
    assert (Hfs : unpack_fields ([] ++ map (bind_clos (unpack ls) c) (map (normkv F) bs)) ds = Ok fs).
    { apply (fields_rt F ls c (omit_none ls) fs ds bs []); auto.
      intro Ho. apply (defaults_class c ds (Hdef Ho) El). }
    simpl in Hfs. rewrite Hfs. reflexivity.
  Qed.

  (* the tag field of a discriminated variant is present in its packed form *)
  Lemma pack_fields_lookup_lit (P: pv -> ty -> res bv) omit fld tag :
    (forall x b, P x (TLit tag) = Ok b -> b = BStr tag) ->
    forall vs ds bs dn,
    nodupb (map fst ds) = true -> lookup fld ds = Some (TLit tag, dn) ->
    pack_fields P omit vs ds = Ok bs -> lookup fld bs = Some (BStr tag).
  Proof.
    intros HP. induction vs as [|[n' x] vs' IH]; intros ds bs dn Hnd Hl H.
    - destruct ds; simpl in H; [discriminate Hl | discriminate].
    - destruct ds as [|[n [ft d]] ds']; simpl in H; [discriminate|].
      destruct (String.eqb n n') eqn:En; [|discriminate].
      apply bind_ok in H. destruct H as [b [Hb H]].
      apply bind_ok in H. destruct H as [r [Hr H]]. inversion H; subst bs; clear H.
      simpl in Hnd. apply nodupb_cons in Hnd. destruct Hnd as [Hnin Hnd].
      simpl in Hl. destruct (String.eqb n fld) eqn:Ef.
      + inversion Hl; subst ft d. simpl. rewrite andb_false_r. simpl. rewrite Ef.
        rewrite (HP x b Hb). reflexivity.
      + assert (Hr' : lookup fld r = Some (BStr tag)) by (eapply IH; eauto).
        destruct (omit && is_opt ft && is_vnone x); [exact Hr'|]. simpl. rewrite Ef. exact Hr'.
  Qed.

  Lemma lookup_normkv F n bs : lookup n (map (normkv F) bs) = option_map (norm F) (lookup n bs).
  Proof.
    induction bs as [|[k x] r IH]; simpl; [reflexivity|].
    destruct (String.eqb k n); [reflexivity | exact IH].
  Qed.

  Lemma is_variant_in vs c : is_variant vs c = true -> exists tag, In (tag, c) vs.
  Proof.
    unfold is_variant. intro H. apply existsb_exists in H. destruct H as [[tag c'] [Hin Heq]].
    apply String.eqb_eq in Heq. subst c'. exists tag. exact Hin.
  Qed.

  Lemma items_rt F ls c :
    forall items ds bs,
    Forall (rt_at F ls) items ->
    forallb (fun d => match d with (_, (ft, _)) => wf_ty E ft end) ds = true ->
    forallb leaves_okb items = true ->
    pack_items (fun x ft => pack ls x c ft) items ds = Ok bs ->
    unpack_items (fun x ft => unpack ls x c ft) (map (norm F) bs) ds = Ok items.
  Proof.
    induction items as [|x r IH]; intros ds bs HF Hwf Hlv H.
    - destruct ds; simpl in H; [inversion H; reflexivity | discriminate].
    - destruct ds as [|[n [ft d]] ds']; simpl in H; [discriminate|].
      apply bind_ok in H. destruct H as [b [Hb H]].
      apply bind_ok in H. destruct H as [rs [Hr H]]. inversion H; subst bs; clear H.
      inversion HF as [|? ? Hx Ht]; subst.
      simpl in Hwf. apply andb_true_iff in Hwf. destruct Hwf as [Hw1 Hw2].
      simpl in Hlv. apply andb_true_iff in Hlv. destruct Hlv as [Hl1 Hl2].
      simpl. rewrite (Hx c ft b Hw1 Hl1 Hb). simpl. rewrite (IH ds' rs Ht Hw2 Hl2 Hr). reflexivity.
  Qed.

  Lemma enum_find_lookup : forall ms m x,
    ev_nodupb (map snd ms) = true -> lookup m ms = Some x -> enum_find ms x = Some m.
  Proof.
    induction ms as [|[m' x'] r IH]; intros m x Hnd Hl; simpl in *; [discriminate|].
    apply andb_true_iff in Hnd. destruct Hnd as [Hni Hnd].
    destruct (String.eqb m' m) eqn:Em.
    - inversion Hl; subst. apply String.eqb_eq in Em. subst.
      assert (Er : ev_eqb x x = true) by (destruct x; simpl; [apply String.eqb_refl | apply Z.eqb_refl]).
      rewrite Er. reflexivity.
    - destruct (ev_eqb x' x) eqn:Ex.
      + exfalso. apply negb_true_iff in Hni.
        assert (existsb (ev_eqb x') (map snd r) = true) as Hex.
        { apply existsb_exists. exists x. split; [|exact Ex].
          apply in_map_iff. exists (m, x). split; [reflexivity | apply lookup_in; exact Hl]. }
        rewrite Hex in Hni. discriminate.
      + apply IH; assumption.
  Qed.

  Lemma wf_enums_class e ms : wf_enums EN = true -> lookup e EN = Some ms -> ev_nodupb (map snd ms) = true.
  Proof.
    intros Hwf Hl. unfold wf_enums in Hwf. rewrite forallb_forall in Hwf.
    specialize (Hwf (e, ms) (lookup_in _ _ _ Hl)). simpl in Hwf. apply andb_true_iff in Hwf. tauto.
  Qed.

  Lemma ev_bv_rt F x : bv_to_ev (norm F (ev_to_bv x)) = Some x.
  Proof. destruct x; reflexivity. Qed.

  (* -- the round trip on trees ---------------------------------------------------- *)
  Theorem rt_tree F ls :
    coherentb F ls = true -> wf_env E = true -> wf_enums EN = true ->
    (omit_none ls = true -> defaults_okb E = true) ->
    forall v, rt_at F ls v.
  Proof.
    intros Hco Hwf Hwe Hdef.
    induction v as [|b0|z0|f0|s0|k0 p0|l IHl|kvs IHk|c0 fs IHf|ck0 cl IHc|en em|nc ni IHn] using pv_ind'; unfold rt_at;
      intros self t; revert self;
      induction t as [| | | |k|s| |t IHt|t IHt|t IHt|c| |fld vs|ck t IHt|e|c|c|c]; intros self b Hwt Hlv H;
      rewrite pack_eq in H; try discriminate;
      try (inversion H; subst b; rewrite unpack_eq; reflexivity).
    all: try (simpl in H; inversion H; subst b; reflexivity).
    all: try (rewrite unpack_opt_notnone;
              [apply IHt; assumption
              | intro En; apply norm_none in En; subst b; apply pack_none_inv in H; discriminate]).
    all: try (rewrite unpack_eq; apply any_rt; rewrite (norm_nonat F b (any_pack_nonat _ _ H)); exact H).
    all: try (exfalso; unfold Fmt.pack_data in H; discriminate).
    - (* TLit *) destruct (String.eqb s s0) eqn:Es; [|discriminate]. apply String.eqb_eq in Es. subst s0.
      inversion H; subst b. rewrite unpack_eq. simpl. rewrite String.eqb_refl. reflexivity.
    - (* TLeaf *) destruct (lkind_eqb k k0) eqn:Ek; [|discriminate]. apply lkind_eqb_eq in Ek. subst k0.
      inversion H; subst b. rewrite unpack_eq. apply leaf_rt; [apply coherent_pair; exact Hco | exact Hlv].
    - (* TList *) apply bind_ok in H. destruct H as [bs [Hbs H]]. inversion H; subst b. rewrite unpack_eq. simpl.
      rewrite (mapM_rt (fun x => pack ls x self t) (fun x => unpack ls x self t) (norm F) l bs); auto.
      intros x bx Hin Hx. rewrite Forall_forall in IHl. apply (IHl x Hin); auto.
      simpl in Hlv. rewrite forallb_forall in Hlv. apply Hlv. exact Hin.
    - (* TDict *) apply bind_ok in H. destruct H as [bs [Hbs H]]. inversion H; subst b. rewrite unpack_eq. simpl.
      rewrite (mapM_rt (on_snd (fun x => pack ls x self t)) (on_snd (fun x => unpack ls x self t))
                 (fun kv => match kv with (k, x) => (k, norm F x) end) kvs bs); auto.
      intros [k x] [k' bx] Hin Hx. simpl in Hx.
      apply bind_ok in Hx. destruct Hx as [y [Hy Hx]]. inversion Hx; subst. simpl.
      rewrite Forall_forall in IHk. rewrite (IHk (k', x) Hin self t bx); auto.
      simpl in Hlv. rewrite forallb_forall in Hlv. apply (Hlv (k', x)). exact Hin.
    - (* TTyped *)
      destruct (lookup c E) as [ds|] eqn:El; [|discriminate].
      apply bind_ok in H. destruct H as [bs [Hbs H]]. inversion H; subst b; clear H.
      destruct (wf_env_class c ds Hwf El) as [Hnd Hwtd].
      rewrite unpack_eq. simpl. rewrite El.
      replace (map (fun kv => match kv with (k, x) => (k, norm F x) end) bs) with (map (normkv F) bs) by reflexivity.
      assert (Hfs : unpack_fields ([] ++ map (bind_clos (unpack ls) c) (map (normkv F) bs)) ds = Ok kvs).
      { apply (fields_rt F ls c false kvs ds bs []); auto. discriminate. }
      simpl in Hfs. rewrite Hfs. reflexivity.
    - (* TData *) rewrite unpack_eq. apply data_rt; auto.
    - (* TSelf *) rewrite unpack_eq. apply data_rt; auto.
    - (* TDiscr *)
      destruct (is_variant vs c0) eqn:Ev; [|discriminate].
      destruct (is_variant_in vs c0 Ev) as [tag Hin].
      simpl in Hwt. unfold discr_okb in Hwt. apply andb_true_iff in Hwt. destruct Hwt as [Hnd Hall].
      rewrite forallb_forall in Hall. specialize (Hall (tag, c0) Hin). simpl in Hall.
      destruct (lookup c0 E) as [ds|] eqn:El; [|discriminate].
      destruct (lookup fld ds) as [[ft dn]|] eqn:Elf; [|discriminate].
      destruct ft; try discriminate. apply String.eqb_eq in Hall. subst s.
      assert (Hdata := data_rt F ls c0 c0 fs b Hwf Hdef IHf Hlv H).
      (* the document carries the tag *)
      assert (Htag : exists bs, b = BDict bs /\ lookup fld bs = Some (BStr tag)).
      { unfold Fmt.pack_data in H. rewrite String.eqb_refl, El in H.
        apply bind_ok in H. destruct H as [bs [Hbs H]]. inversion H; subst b. exists bs. split; [reflexivity|].
        destruct (wf_env_class c0 ds Hwf El) as [Hndd _].
        eapply (pack_fields_lookup_lit (fun x ft => pack ls x c0 ft) (omit_none ls) fld tag); eauto.
        intros x bx Hx. rewrite pack_eq in Hx. destruct x; try discriminate.
        destruct (String.eqb tag s); [inversion Hx; reflexivity | discriminate]. }
      destruct Htag as [bs [Eb Hlt]]. subst b.
      rewrite unpack_eq. simpl.
      replace (map (fun kv => match kv with (k, x) => (k, norm F x) end) bs) with (map (normkv F) bs) by reflexivity.
      rewrite lookup_normkv, Hlt. simpl.
      rewrite (lookup_nodup_in tag c0 vs Hnd Hin).
      exact Hdata.
    - (* TColl *) destruct (ckind_eqb ck ck0) eqn:Ek; [|discriminate].
      assert (ck = ck0) by (destruct ck, ck0; try discriminate; reflexivity). subst ck0.
      apply bind_ok in H. destruct H as [bs [Hbs H]]. inversion H; subst b. rewrite unpack_eq. simpl.
      rewrite (mapM_rt (fun x => pack ls x self t) (fun x => unpack ls x self t) (norm F) cl bs); auto.
      intros x bx Hin Hx. rewrite Forall_forall in IHc. apply (IHc x Hin); auto.
      simpl in Hlv. rewrite forallb_forall in Hlv. apply Hlv. exact Hin.
    - (* TFix *) destruct ck0; try discriminate.
      destruct (lookup c E) as [ds|] eqn:El; [|discriminate].
      apply bind_ok in H. destruct H as [bs [Hbs H]]. inversion H; subst b; clear H.
      destruct (wf_env_class c ds Hwf El) as [_ Hwtd].
      rewrite unpack_eq. simpl. rewrite El.
      rewrite (items_rt F ls self cl ds bs IHc Hwtd Hlv Hbs). reflexivity.
    - (* TEnum *) destruct (String.eqb e en) eqn:Ee; [|discriminate]. apply String.eqb_eq in Ee. subst en.
      destruct (lookup e EN) as [ms|] eqn:El; [|discriminate].
      destruct (lookup em ms) as [x|] eqn:Em; [|discriminate]. inversion H; subst b.
      rewrite unpack_eq. rewrite El, ev_bv_rt.
      rewrite (enum_find_lookup ms em x (wf_enums_class e ms Hwe El) Em). reflexivity.
    - (* TNamed *) destruct (String.eqb c nc) eqn:Ec; [|discriminate]. apply String.eqb_eq in Ec. subst nc.
      destruct (lookup c E) as [ds|] eqn:El; [|discriminate].
      apply bind_ok in H. destruct H as [bs [Hbs H]]. inversion H; subst b; clear H.
      destruct (wf_env_class c ds Hwf El) as [_ Hwtd].
      rewrite unpack_eq. simpl. rewrite El.
      rewrite (items_rt F ls c ni ds bs IHn Hwtd Hlv Hbs). reflexivity.
  Qed.

  (* -- the document versus the basic form ------------------------------------------ *)
  Lemma pack_bnone_agree ls1 ls2 self t v b1 b2 :
    pack ls1 v self t = Ok b1 -> pack ls2 v self t = Ok b2 -> is_bnone b1 = is_bnone b2.
  Proof.
    intros H1 H2. destruct (is_bnone b1) eqn:E1; destruct (is_bnone b2) eqn:E2; try reflexivity.
    - destruct b1; try discriminate. apply pack_none_inv in H1. subst v. apply pack_vnone in H2. subst b2. discriminate.
    - destruct b2; try discriminate. apply pack_none_inv in H2. subst v. apply pack_vnone in H1. subst b1. discriminate.
  Qed.

  Definition rn (F: fmt) (b: bv) : bv := render_natives (norm F b).
  Definition side (o: bool) (bb: bv) : bv := if o then drop_nulls bb else bb.
  Definition nn (o: bool) (b: bv) : Prop := o = true -> nonullb b = true.

  Lemma rn_leaf F ls k p : rn F (pack_leaf ls k p) = pack_leaf (basic_of ls) k p.
  Proof.
    unfold rn, Fmt.pack_leaf. simpl. destruct (ser_mode ls k); simpl; try reflexivity.
    - destruct F; simpl; try reflexivity. rewrite render_wire. reflexivity.
    - destruct F; simpl; try reflexivity. rewrite render_wire. reflexivity.
  Qed.

  Lemma render_natives_nonat : forall b, nonatb b = true -> render_natives b = b.
  Proof.
    induction b as [| | | | |k p|l IHl|kvs IHk] using bv_ind'; simpl; intro H; try reflexivity; try discriminate.
    - f_equal. induction IHl as [|x r Hx _ IHr]; simpl in *; [reflexivity|].
      apply andb_true_iff in H. destruct H as [H1 H2]. rewrite (Hx H1), (IHr H2). reflexivity.
    - f_equal. induction IHk as [|[k x] r Hx _ IHr]; simpl in *; [reflexivity|].
      apply andb_true_iff in H. destruct H as [H1 H2]. rewrite (Hx H1), (IHr H2). reflexivity.
  Qed.

  Lemma drop_nulls_nonull : forall b, nonullb b = true -> drop_nulls b = b.
  Proof.
    induction b as [| | | | |k p|l IHl|kvs IHk] using bv_ind'; simpl; intro H; try reflexivity; try discriminate.
    - f_equal. induction IHl as [|x r Hx _ IHr]; simpl in *; [reflexivity|].
      apply andb_true_iff in H. destruct H as [H1 H2]. rewrite (Hx H1), (IHr H2). reflexivity.
    - f_equal. induction IHk as [|[k x] r Hx _ IHr]; simpl in *; [reflexivity|].
      apply andb_true_iff in H. destruct H as [H1 H2].
      assert (En : is_bnone x = false) by (destruct x; try reflexivity; discriminate).
      rewrite En, (Hx H1), (IHr H2). reflexivity.
  Qed.

  Lemma side_scalar o bb : (forall l, bb <> BList l) -> (forall l, bb <> BDict l) -> side o bb = bb.
  Proof.
    intros H1 H2. unfold side. destruct o; [|reflexivity].
    destruct bb; try reflexivity; [exfalso; eapply H1; reflexivity | exfalso; eapply H2; reflexivity].
  Qed.

  Lemma side_list o l : side o (BList l) = BList (map (side o) l).
  Proof. unfold side. destruct o; simpl; [reflexivity|]. rewrite map_id. reflexivity. Qed.

  Lemma nn_list o l : nn o (BList l) -> Forall (nn o) l.
  Proof.
    unfold nn. intro H. apply Forall_forall. intros x Hin Ho. specialize (H Ho). simpl in H.
    rewrite forallb_forall in H. apply H. exact Hin.
  Qed.

  Lemma nn_dict o l : nn o (BDict l) -> Forall (fun kv => nn o (snd kv)) l.
  Proof.
    unfold nn. intro H. apply Forall_forall. intros [k x] Hin Ho. specialize (H Ho). simpl in H.
    rewrite forallb_forall in H. apply (H (k, x)). exact Hin.
  Qed.

  Definition doc_at (F: fmt) (ls: lsem) (v: pv) : Prop :=
    forall self t b, nn (omit_none ls) b -> pack ls v self t = Ok b ->
    exists bb, pack (basic_of ls) v self t = Ok bb /\ rn F b = side (omit_none ls) bb.

  Lemma list_doc F ls self t (l: list pv) :
    Forall (doc_at F ls) l ->
    forall bs, Forall (nn (omit_none ls)) bs ->
    mapM (fun x => pack ls x self t) l = Ok bs ->
    exists bbs, mapM (fun x => pack (basic_of ls) x self t) l = Ok bbs /\
                map (rn F) bs = map (side (omit_none ls)) bbs.
  Proof.
    induction 1 as [|x r Hx _ IHr]; intros bs HQ H; simpl in H.
    - inversion H. exists []. split; reflexivity.
    - apply bind_ok in H. destruct H as [y [Hy H]].
      apply bind_ok in H. destruct H as [ys [Hys H]]. inversion H; subst; clear H.
      inversion HQ as [|? ? Hq1 Hq2]; subst.
      destruct (Hx self t y Hq1 Hy) as [bb [Hbb Hrel]].
      destruct (IHr ys Hq2 Hys) as [bbs [Hbbs Hrels]].
      exists (bb :: bbs). simpl. rewrite Hbb. simpl. rewrite Hbbs. simpl. rewrite Hrel, Hrels. split; reflexivity.
  Qed.

  Lemma dict_doc F ls self t (kvs: list (string * pv)) :
    Forall (fun kv => doc_at F ls (snd kv)) kvs ->
    forall bs, Forall (fun kv => nn (omit_none ls) (snd kv)) bs ->
    mapM (on_snd (fun x => pack ls x self t)) kvs = Ok bs ->
    exists bbs, mapM (on_snd (fun x => pack (basic_of ls) x self t)) kvs = Ok bbs /\
                rn F (BDict bs) = side (omit_none ls) (BDict bbs).
  Proof.
    induction 1 as [|[k x] r Hx _ IHr]; intros bs HQ H; simpl in H.
    - inversion H. exists []. split; [reflexivity|]. unfold rn, side. simpl. destruct (omit_none ls); reflexivity.
    - apply bind_ok in H. destruct H as [y [Hy H]].
      apply bind_ok in H. destruct H as [ys [Hys H]]. inversion H; subst; clear H.
      apply bind_ok in Hy. destruct Hy as [b [Hb Hy]]. inversion Hy; subst; clear Hy.
      inversion HQ as [|? ? Hq1 Hq2]; subst. simpl in Hq1. simpl in Hx.
      destruct (Hx self t b Hq1 Hb) as [bb [Hbb Hrel]].
      destruct (IHr ys Hq2 Hys) as [bbs [Hbbs Hrels]].
      exists ((k, bb) :: bbs). simpl. rewrite Hbb. simpl. rewrite Hbbs. simpl. split; [reflexivity|].
      unfold rn, side in *. simpl in *.
      destruct (omit_none ls) eqn:Eo.
      + simpl. assert (Enn : is_bnone bb = false).
        { rewrite <- (pack_bnone_agree _ _ _ _ _ _ _ Hb Hbb).
          unfold nn in Hq1. specialize (Hq1 eq_refl). destruct b; try reflexivity. discriminate. }
        rewrite Enn. inversion Hrels as [Hr]. rewrite Hrel. reflexivity.
      + inversion Hrels as [Hr]. rewrite Hrel. reflexivity.
  Qed.

  Lemma fields_doc F ls c om :
    (om = true -> omit_none ls = true) ->
    forall fs, Forall (fun kv => doc_at F ls (snd kv)) fs ->
    forall ds bs, Forall (fun kv => nn (omit_none ls) (snd kv)) bs ->
    pack_fields (fun x ft => pack ls x c ft) om fs ds = Ok bs ->
    exists bbs, pack_fields (fun x ft => pack (basic_of ls) x c ft) false fs ds = Ok bbs /\
                rn F (BDict bs) = side (omit_none ls) (BDict bbs).
  Proof.
    intro Hom. induction 1 as [|[n' x] fs' Hx _ IH]; intros ds bs HQ H.
    - destruct ds; simpl in H; [|discriminate]. inversion H. exists []. split; [reflexivity|].
      unfold rn, side. simpl. destruct (omit_none ls); reflexivity.
    - destruct ds as [|[n [ft d]] ds']; simpl in H; [discriminate|].
      destruct (String.eqb n n') eqn:En; [|discriminate].
      apply bind_ok in H. destruct H as [b [Hb H]].
      apply bind_ok in H. destruct H as [r [Hr H]]. inversion H; subst bs; clear H.
      simpl in Hx.
      destruct (om && is_opt ft && is_vnone x) eqn:Eom.
      + (* omitted key: the basic form has it with value None, which ~ drops *)
        apply andb_true_iff in Eom. destruct Eom as [Eom Evn].
        apply andb_true_iff in Eom. destruct Eom as [Eomit Eopt]. apply Hom in Eomit.
        destruct x; try discriminate.
        destruct (IH ds' r HQ Hr) as [bbs [Hbbs Hrels]].
        exists ((n, BNone) :: bbs).
        destruct ft; try discriminate; simpl; rewrite En; simpl; rewrite Hbbs; simpl; (split; [reflexivity|]);
          unfold rn, side in *; rewrite Eomit in *; simpl; simpl in Hrels; exact Hrels.
      + inversion HQ as [|? ? Hq1 Hq2]; subst. simpl in Hq1.
        destruct (Hx c ft b Hq1 Hb) as [bb [Hbb Hrel]].
        destruct (IH ds' r Hq2 Hr) as [bbs [Hbbs Hrels]].
        exists ((n, bb) :: bbs). simpl. rewrite En. rewrite Hbb. simpl. rewrite Hbbs. simpl.
        split; [reflexivity|].
        unfold rn, side in *. simpl in *.
        destruct (omit_none ls) eqn:Eo.
        * simpl. assert (Enn : is_bnone bb = false).
          { rewrite <- (pack_bnone_agree _ _ _ _ _ _ _ Hb Hbb).
            unfold nn in Hq1. specialize (Hq1 eq_refl). destruct b; try reflexivity. discriminate. }
          rewrite Enn. inversion Hrels as [Hr']. rewrite Hrel. reflexivity.
        * inversion Hrels as [Hr']. rewrite Hrel. reflexivity.
  Qed.

  Lemma data_doc F ls c c' fs b :
    Forall (fun kv => doc_at F ls (snd kv)) fs ->
    nn (omit_none ls) b ->
    pack_data (pack ls) (omit_none ls) (VObj c' fs) c = Ok b ->
    exists bb, pack_data (pack (basic_of ls)) false (VObj c' fs) c = Ok bb /\ rn F b = side (omit_none ls) bb.
  Proof.
    intros HF Hnn H. unfold Fmt.pack_data in *.
    destruct (String.eqb c c'); [|discriminate].
    destruct (lookup c E) as [ds|]; [|discriminate].
    apply bind_ok in H. destruct H as [bs [Hbs H]]. inversion H; subst b; clear H.
    destruct (fields_doc F ls c (omit_none ls) (fun H => H) fs HF ds bs (nn_dict _ _ Hnn) Hbs) as [bbs [Hb Hrel]].
    exists (BDict bbs). rewrite Hb. simpl. split; [reflexivity | exact Hrel].
  Qed.

  Lemma items_doc F ls c :
    forall items, Forall (doc_at F ls) items ->
    forall ds bs, Forall (nn (omit_none ls)) bs ->
    pack_items (fun x ft => pack ls x c ft) items ds = Ok bs ->
    exists bbs, pack_items (fun x ft => pack (basic_of ls) x c ft) items ds = Ok bbs /\
                map (rn F) bs = map (side (omit_none ls)) bbs.
  Proof.
    induction 1 as [|x r Hx _ IH]; intros ds bs HQ H.
    - destruct ds; simpl in H; [|discriminate]. inversion H. exists []. split; reflexivity.
    - destruct ds as [|[n [ft d]] ds']; simpl in H; [discriminate|].
      apply bind_ok in H. destruct H as [b [Hb H]].
      apply bind_ok in H. destruct H as [rs [Hr H]]. inversion H; subst bs; clear H.
      inversion HQ as [|? ? Hq1 Hq2]; subst.
      destruct (Hx c ft b Hq1 Hb) as [bb [Hbb Hrel]].
      destruct (IH ds' rs Hq2 Hr) as [bbs [Hbbs Hrels]].
      exists (bb :: bbs). simpl. rewrite Hbb. simpl. rewrite Hbbs. simpl. rewrite Hrel, Hrels. split; reflexivity.
  Qed.

  Theorem doc_tree F ls : forall v, doc_at F ls v.
  Proof.
    induction v as [|b0|z0|f0|s0|k0 p0|l IHl|kvs IHk|c0 fs IHf|ck0 cl IHc|en em|nc ni IHn] using pv_ind'; unfold doc_at;
      intros self t; revert self;
      induction t as [| | | |k|s| |t IHt|t IHt|t IHt|c| |fld vs|ck t IHt|e|c|c|c]; intros self b Hnn H;
      rewrite pack_eq in H; try discriminate;
      rewrite (pack_eq (basic_of ls));
      try (inversion H; subst b; eexists; split; [reflexivity|];
           rewrite side_scalar; [reflexivity | discriminate | discriminate]).
    all: try (apply IHt; assumption).
    all: try (exfalso; unfold Fmt.pack_data in H; discriminate).
    all: try (match goal with
              | H : any_pack ?v = Ok ?b |- _ =>
                  exists b; split; [exact H|];
                  unfold rn; rewrite (norm_nonat F b (any_pack_nonat _ _ H));
                  rewrite (render_natives_nonat b (any_pack_nonat _ _ H));
                  unfold side; destruct (omit_none ls) eqn:Eo; [|reflexivity];
                  symmetry; apply drop_nulls_nonull; apply Hnn; reflexivity
              end).
    - (* TLit *) destruct (String.eqb s s0); [|discriminate]. inversion H; subst b.
      eexists. split; [reflexivity|]. rewrite side_scalar; [reflexivity | discriminate | discriminate].
    - (* TLeaf *) destruct (lkind_eqb k k0); [|discriminate]. inversion H; subst b.
      eexists. split; [reflexivity|]. rewrite rn_leaf.
      rewrite side_scalar; [reflexivity | | ]; unfold Fmt.pack_leaf; simpl;
        destruct (demote (ser_mode ls k)); discriminate.
    - (* TList *) apply bind_ok in H. destruct H as [bs [Hbs H]]. inversion H; subst b.
      destruct (list_doc F ls self t l IHl bs (nn_list _ _ Hnn) Hbs) as [bbs [Hb Hm]].
      exists (BList bbs). rewrite Hb. simpl. split; [reflexivity|].
      rewrite side_list. rewrite <- Hm. unfold rn. simpl. rewrite map_map. reflexivity.
    - (* TDict *) apply bind_ok in H. destruct H as [bs [Hbs H]]. inversion H; subst b.
      destruct (dict_doc F ls self t kvs IHk bs (nn_dict _ _ Hnn) Hbs) as [bbs [Hb Hrel]].
      exists (BDict bbs). rewrite Hb. simpl. split; [reflexivity | exact Hrel].
    - (* TTyped *)
      destruct (lookup c E) as [ds|]; [|discriminate].
      apply bind_ok in H. destruct H as [bs [Hbs H]]. inversion H; subst b; clear H.
      destruct (fields_doc F ls c false (fun H => False_ind _ (Bool.diff_false_true H)) kvs IHk ds bs (nn_dict _ _ Hnn) Hbs)
        as [bbs [Hb Hrel]].
      exists (BDict bbs). rewrite Hb. simpl. split; [reflexivity | exact Hrel].
    - (* TData *) apply data_doc; assumption.
    - (* TSelf *) apply data_doc; assumption.
    - (* TDiscr *) destruct (is_variant vs c0); [|discriminate]. apply data_doc; assumption.
    - (* TColl *) destruct (ckind_eqb ck ck0); [|discriminate].
      apply bind_ok in H. destruct H as [bs [Hbs H]]. inversion H; subst b.
      destruct (list_doc F ls self t cl IHc bs (nn_list _ _ Hnn) Hbs) as [bbs [Hb Hm]].
      exists (BList bbs). rewrite Hb. simpl. split; [reflexivity|].
      rewrite side_list. rewrite <- Hm. unfold rn. simpl. rewrite map_map. reflexivity.
    - (* TFix *) destruct ck0; try discriminate.
      destruct (lookup c E) as [ds|]; [|discriminate].
      apply bind_ok in H. destruct H as [bs [Hbs H]]. inversion H; subst b; clear H.
      destruct (items_doc F ls self cl IHc ds bs (nn_list _ _ Hnn) Hbs) as [bbs [Hb Hm]].
      exists (BList bbs). rewrite Hb. simpl. split; [reflexivity|].
      rewrite side_list. rewrite <- Hm. unfold rn. simpl. rewrite map_map. reflexivity.
    - (* TEnum *) destruct (String.eqb e en); [|discriminate].
      destruct (lookup e EN) as [ms|]; [|discriminate].
      destruct (lookup em ms) as [x|]; [|discriminate]. inversion H; subst b.
      eexists. split; [reflexivity|].
      destruct x; (rewrite side_scalar; [reflexivity | discriminate | discriminate]).
    - (* TNamed *) destruct (String.eqb c nc); [|discriminate].
      destruct (lookup c E) as [ds|]; [|discriminate].
      apply bind_ok in H. destruct H as [bs [Hbs H]]. inversion H; subst b; clear H.
      destruct (items_doc F ls c ni IHn ds bs (nn_list _ _ Hnn) Hbs) as [bbs [Hb Hm]].
      exists (BList bbs). rewrite Hb. simpl. split; [reflexivity|].
      rewrite side_list. rewrite <- Hm. unfold rn. simpl. rewrite map_map. reflexivity.
  Qed.

  (* for json / yaml / orjson nothing at all is ignored: the parsed document IS the basic form *)
  Lemma rn_idem_orjson b : render_natives (norm FOrjson b) = norm FOrjson b.
  Proof.
    induction b as [| | | | |k p|l IHl|kvs IHk] using bv_ind'; simpl; try reflexivity.
    - f_equal. induction IHl as [|x r Hx _ IHr]; simpl; [reflexivity|]. rewrite Hx, IHr. reflexivity.
    - f_equal. induction IHk as [|[k x] r Hx _ IHr]; simpl; [reflexivity|]. simpl in Hx. rewrite Hx, IHr. reflexivity.
  Qed.

  Definition exact_fmt (F: fmt) : bool := match F with FJson | FYaml | FOrjson => true | _ => false end.

  (* ------------------------------------------------------------------ *)
  Section Format.
    Variable doc : Type.
    Variable ser : fmt -> bv -> doc.
    Variable parse : fmt -> doc -> option bv.
    Variable leaf_repr : fmt -> lkind -> string -> bool.

    (* the assumed law of the five format libraries (json, orjson, yaml, msgpack, tomli_w/tomllib);
       validated on every generated document, never proved *)
    Hypothesis fmt_law : forall F b, representable leaf_repr F b = true -> parse F (ser F b) = Some (norm F b).

    (* ls = effective dialect (format dialect merged with the caller's dialect) *)
    Definition encode (ls: lsem) (F: fmt) (t: ty) (v: pv) : res doc :=
      b <- pack ls v "" t ;; Ok (ser F b).
    Definition decode (ls: lsem) (F: fmt) (t: ty) (d: doc) : res pv :=
      match parse F d with Some b => unpack ls b "" t | None => Err EBad end.

    (* F's representable subset *)
    Definition in_subset (ls: lsem) (F: fmt) (t: ty) (v: pv) : Prop :=
      wf_env E = true /\ wf_enums EN = true /\ wf_ty E t = true /\ leaves_okb v = true /\
      exists b, pack ls v "" t = Ok b /\ representable leaf_repr F b = true.

    Definition defaults_ok (ls: lsem) : Prop := omit_none ls = true -> defaults_okb E = true.

    Theorem roundtrip ls F t v d :
      coherentb F ls = true -> in_subset ls F t v -> defaults_ok ls ->
      encode ls F t v = Ok d -> decode ls F t d = Ok v.
    Proof.
      intros Hco [Hwf [Hwe [Hwt [Hlv [b [Hb Hr]]]]]] Hdef He. unfold encode in He. rewrite Hb in He. simpl in He.
      inversion He; subst d. unfold decode. rewrite (fmt_law F b Hr).
      apply (rt_tree F ls Hco Hwf Hwe Hdef v "" t b Hwt Hlv Hb).
    Qed.

    Lemma repr_nonull b : repr_in leaf_repr FToml b = true -> nonullb b = true.
    Proof.
      induction b as [| | | | |k p|l IHl|kvs IHk] using bv_ind'; simpl; intro H; try reflexivity; try discriminate.
      - induction IHl as [|x r Hx _ IHr]; simpl in *; [reflexivity|].
        apply andb_true_iff in H. destruct H as [H1 H2]. rewrite (Hx H1). simpl. apply IHr. exact H2.
      - induction IHk as [|[k x] r Hx _ IHr]; simpl in *; [reflexivity|].
        apply andb_true_iff in H. destruct H as [H1 H2]. rewrite (Hx H1). simpl. apply IHr. exact H2.
    Qed.

    Lemma repr_nonat F b : (forall k, fmt_native F k = false) -> repr_in leaf_repr F b = true -> nonatb b = true.
    Proof.
      intro HF. induction b as [| | | | |k p|l IHl|kvs IHk] using bv_ind'; simpl; intro H; try reflexivity.
      - rewrite (HF k) in H. discriminate.
      - induction IHl as [|x r Hx _ IHr]; simpl in *; [reflexivity|].
        apply andb_true_iff in H. destruct H as [H1 H2]. rewrite (Hx H1). simpl. apply IHr. exact H2.
      - induction IHk as [|[k x] r Hx _ IHr]; simpl in *; [reflexivity|].
        apply andb_true_iff in H. destruct H as [H1 H2]. rewrite (Hx H1). simpl. apply IHr. exact H2.
    Qed.

    Theorem doc_is_basic ls F t v d :
      (omit_none ls = true -> F = FToml) ->
      in_subset ls F t v -> encode ls F t v = Ok d ->
      exists pd bb, parse F d = Some pd /\ pack (basic_of ls) v "" t = Ok bb /\
                    approx render (omit_none ls) pd bb.
    Proof.
      intros Hom [Hwf [Hwe [Hwt [Hlv [b [Hb Hr]]]]]] He. unfold encode in He. rewrite Hb in He. simpl in He.
      inversion He; subst d.
      destruct (doc_tree F ls v "" t b) as [bb [Hbb Hrel]]; auto.
      { unfold nn. intro Ho. specialize (Hom Ho). subst F.
        unfold representable in Hr. apply andb_true_iff in Hr. destruct Hr as [Hr _].
        apply repr_nonull. exact Hr. }
      exists (norm F b), bb. split; [apply fmt_law; exact Hr|]. split; [exact Hbb|].
      unfold approx. exact Hrel.
    Qed.

    Theorem doc_exact ls F t v d :
      exact_fmt F = true -> omit_none ls = false ->
      in_subset ls F t v -> encode ls F t v = Ok d ->
      exists bb, pack (basic_of ls) v "" t = Ok bb /\ parse F d = Some bb.
    Proof.
      intros HF Ho Hin He.
      destruct (doc_is_basic ls F t v d) as [pd [bb [Hp [Hbb Hap]]]]; auto.
      { rewrite Ho. discriminate. }
      exists bb. split; [exact Hbb|]. rewrite Hp. f_equal.
      unfold approx in Hap. rewrite Ho in Hap. rewrite <- Hap.
      destruct Hin as [_ [_ [_ [_ [b [Hb Hr]]]]]]. unfold encode in He. rewrite Hb in He. simpl in He.
      inversion He; subst d. rewrite (fmt_law F b Hr) in Hp. inversion Hp; subst pd.
      clear Hp He. unfold representable in Hr. apply andb_true_iff in Hr. destruct Hr as [Hr _].
      destruct F; try discriminate.
      - assert (Hn : nonatb b = true) by (apply (repr_nonat FJson); [intro; reflexivity | exact Hr]).
        rewrite (norm_nonat FJson b Hn). symmetry. apply render_natives_nonat. exact Hn.
      - symmetry. apply rn_idem_orjson.
      - assert (Hn : nonatb b = true) by (apply (repr_nonat FYaml); [intro; reflexivity | exact Hr]).
        rewrite (norm_nonat FYaml b Hn). symmetry. apply render_natives_nonat. exact Hn.
    Qed.
  End Format.
End Model.

(* ------------------------------------------------------------------ *)
(* the round trip WITHOUT the side condition on defaults is false for TOML: a required
   Optional field holding None is omitted by to_toml and from_toml then misses it
   (reproduced on the real code: known finding C04/toml-omitted-none-field-without-none-default) *)

Definition id_render (k: lkind) (p: string) : string := p.
Definition id_parse_leaf (k: lkind) (s: string) : option string := Some s.
Definition id_urender (u: nat) (k: lkind) (p: string) : string := p.
Definition id_uparse (u: nat) (k: lkind) (s: string) : option string := Some s.
Definition all_ok (k: lkind) (p: string) : bool := true.
Definition all_repr (F: fmt) (k: lkind) (p: string) : bool := true.

Definition roundtrip_full : Prop :=
  forall (render: lkind -> string -> string) (parse_leaf: lkind -> string -> option string)
         (urender: nat -> lkind -> string -> string) (uparse: nat -> lkind -> string -> option string)
         (leaf_ok: lkind -> string -> bool) (E: env) (EN: enums),
    (forall k p, leaf_ok k p = true -> parse_leaf k (render k p) = Some p) ->
    (forall u k p, leaf_ok k p = true -> uparse u k (urender u k p) = Some p) ->
    forall (doc: Type) (ser: fmt -> bv -> doc) (parse: fmt -> doc -> option bv)
           (leaf_repr: fmt -> lkind -> string -> bool),
    (forall F b, representable leaf_repr F b = true -> parse F (ser F b) = Some (norm render F b)) ->
    forall ls F t v d,
      coherentb F ls = true ->
      in_subset render urender leaf_ok E EN leaf_repr ls F t v ->
      encode render urender E EN doc ser ls F t v = Ok d ->
      decode parse_leaf uparse E EN doc parse ls F t d = Ok v.

Definition witness_env : env := [("A", [("x", (TOpt TInt, false))])].
Definition witness_ty : ty := TData "A".
Definition witness_val : pv := VObj "A" [("x", VNone)].

Lemma witness_in_subset :
  in_subset id_render id_urender all_ok witness_env [] all_repr (lsem_of FToml) FToml witness_ty witness_val.
Proof.
  unfold in_subset. split; [reflexivity|]. split; [reflexivity|]. split; [reflexivity|]. split; [reflexivity|].
  exists (BDict []). split; reflexivity.
Qed.

Theorem roundtrip_refuted : ~ roundtrip_full.
Proof.
  intro H.
  specialize (H id_render id_parse_leaf id_urender id_uparse all_ok witness_env []
                (fun k p _ => eq_refl) (fun u k p _ => eq_refl) bv (fun F b => b)
                (fun F d => Some (norm id_render F d)) all_repr (fun F b _ => eq_refl)
                (lsem_of FToml) FToml witness_ty witness_val (BDict []) eq_refl witness_in_subset eq_refl).
  vm_compute in H. discriminate.
Qed.

(* ------------------------------------------------------------------ *)
(* effective dialects *)

Lemma eff_lsem_no_user F k :
  ser_mode (eff_lsem F no_user) k = ser_mode (lsem_of F) k /\
  de_mode (eff_lsem F no_user) k = de_mode (lsem_of F) k /\
  omit_none (eff_lsem F no_user) = omit_none (lsem_of F).
Proof. destruct F, k; repeat split; reflexivity. Qed.

(* without a caller's dialect every format dialect is coherent (computed) *)
Lemma formats_coherent F : coherentb F (eff_lsem F no_user) = true.
Proof. destruct F; reflexivity. Qed.

(* a caller's dialect that gives both directions for the types it mentions keeps the dialect coherent *)
Definition both_dirs (X: udialect) : bool :=
  forallb (fun k => match X k with
                    | None => true
                    | Some (EObj i) => Nat.leb 2 i
                    | Some (EDict (Some s) (Some d)) => Nat.leb 2 s && Nat.eqb s d
                    | Some (EDict _ _) => false end) all_kinds.

Lemma user_coherent F X : both_dirs X = true -> coherentb F (eff_lsem F X) = true.
Proof.
  intro H. unfold coherentb. apply forallb_forall. intros k _.
  unfold both_dirs in H. rewrite forallb_forall in H. specialize (H k (all_kinds_complete k)).
  unfold eff_lsem; simpl. destruct (X k) as [[i|[s|] [d|]]|] eqn:EX; try discriminate.
  - simpl. destruct i as [|[|u]]; try discriminate. simpl. apply Nat.eqb_refl.
  - apply andb_true_iff in H. destruct H as [H1 H2]. apply Nat.eqb_eq in H2. subst d.
    simpl. destruct s as [|[|u]]; try discriminate. simpl. apply Nat.eqb_refl.
  - pose proof (formats_coherent F) as HF. unfold coherentb in HF. rewrite forallb_forall in HF.
    specialize (HF k (all_kinds_complete k)). unfold eff_lsem, no_user in HF. simpl in HF.
    unfold eff_id. exact HF.
Qed.

(* the dict-format counterpart of the effective dialect is the caller's dialect alone *)
Lemma basic_of_eff F X k :
  both_dirs X = true ->
  ser_mode (basic_of (eff_lsem F X)) k = ser_mode (user_lsem X) k.
Proof.
  intro H. unfold both_dirs in H. rewrite forallb_forall in H. specialize (H k (all_kinds_complete k)).
  simpl. destruct (X k) as [[i|[s|] [d|]]|] eqn:EX; try discriminate; simpl.
  - destruct i as [|[|u]]; try discriminate. reflexivity.
  - apply andb_true_iff in H. destruct H as [H1 _]. destruct s as [|[|u]]; try discriminate. reflexivity.
  - destruct F, k; reflexivity.
Qed.
