(* C14: on-demand compilation of nested dataclasses (LazyModel.deps_with) follows the source's test.
   Kernel K114b (coq/gen/K114b.v) is translated on every run from pack_dataclass / unpack_dataclass: the test of the
   `if` that creates the nested builder, the builder's dialect= argument, its allow_postponed_evaluation and whether it is
   a plain (no first_method / encoder) builder for (nested class, type arguments). *)
From Coq Require Import List Arith Bool ZArith String Lia.
From Verif Require Import Regex PyK LazyModel LazyProofs LazyK114a.
From VerifGen Require Import K114b.
Import ListNotations.
Close Scope Z_scope.
Close Scope string_scope.
Open Scope nat_scope.

(* a_not_own: the nested class does not define the method itself; a_other: the nested class is not the class being
   compiled; the compiling builder is a mixin (nailed) builder with dialect d; a_enc_name_differs: the compiling
   builder's own method name (with its encoder / decoder) differs from the nested method name, i.e. it is a top-level
   format method *)
Definition src_ondemand (pack not_own other: bool) (d: option did) (top: bool) : option bool :=
  dec ((if pack then pack_ondemand else unpack_ondemand) (KBool not_own) (KBool other) (kd d) (KBool true) (KBool top)).
Definition src_nested_dialect (pack: bool) (d: option did) : option (option did) :=
  match (if pack then pack_nested_dialect else unpack_nested_dialect) (kd d) (KBool true) with
  | Ok KNone => Some None
  | Ok (KInt z) => Some (Some (Z.to_nat z))
  | _ => None
  end.
Definition src_nested_ap (pack: bool) : bool := k_truthy (if pack then pack_nested_ap else unpack_nested_ap).
Definition src_nested_plain (pack: bool) : bool := if pack then pack_nested_plain else unpack_nested_plain.

Lemma src_ondemand_eq pack not_own other d top :
  src_ondemand pack not_own other d top =
  Some (not_own && (other || match d with None => false | Some _ => true end || top)).
Proof. destruct pack, not_own, other, d, top; reflexivity. Qed.

Lemma src_nested_dialect_eq pack d : src_nested_dialect pack d = Some None.
Proof. destruct pack, d; reflexivity. Qed.

(* the nested builder of [build]: what the source's nested-builder call says *)
Definition src_bld (F: fam) (n: nat) (m: mname) (d: option did) : state -> cid -> mname -> state * option exc :=
  fun st c' m' =>
    match src_nested_dialect (m_pack m) d, src_nested_plain (m_pack m) with
    | Some d', true => build F true n st (src_nested_ap (m_pack m)) c' m' d'
    | _, _ => (st, Some EBuildCycle)
    end.

Lemma src_bld_eq F n m d st c' m' : src_bld F n m d st c' m' = build F true n st true c' m' None.
Proof. unfold src_bld. rewrite src_nested_dialect_eq. destruct (m_pack m); reflexivity. Qed.

(* one nested position: compiled on demand iff the translated test says so, by the builder the source creates *)
Theorem deps_step_follows_source F n c m d f r st :
  let sk := match d with None => true | Some _ => false end in
  let bld := fun st c' m' => build F true n st true c' m' None in
  deps_with bld sk c m (f :: r) st =
  match src_ondemand (m_pack m)
          (match get_slot st (f_cls f) (nested m (f_spec f)) with None => true | Some _ => false end)
          (negb (Nat.eqb (f_cls f) c)) d (m_top m) with
  | Some true =>
      match src_bld F n m d st (f_cls f) (nested m (f_spec f)) with
      | (st', None) => deps_with bld sk c m r st'
      | (st', Some e) => (st', Some e)
      end
  | Some false => deps_with bld sk c m r st
  | None => (st, Some EBuildCycle)
  end.
Proof.
  cbv zeta. cbn [deps_with]. rewrite src_ondemand_eq, src_bld_eq.
  destruct (get_slot st (f_cls f) (nested m (f_spec f))); [reflexivity|].
  destruct d, (Nat.eqb (f_cls f) c), (m_top m); reflexivity.
Qed.

(* [build] as a whole, with both kernels in the deciding positions *)
Theorem build_ondemand_follows_source F n st ap c m d :
  src_lazy_first (m_pack m) (c_lazy (cls F c)) ap true d = Some false ->
  unresolved F st c = false ->
  build F true (S n) st ap c m d =
  match deps_with (src_bld F n m d) (match d with None => true | Some _ => false end) c m (c_fields (cls F c)) st with
  | (st1, None) => install F st1 c m d (Compiled c m d)
  | (st1, Some e) => (st1, Some e)
  end.
Proof.
  intros L U. rewrite build_follows_source, L, U.
  replace (src_bld F n m d) with (fun st c' m' => build F true n st true c' m' None); [reflexivity|].
  unfold src_bld. rewrite src_nested_dialect_eq. destruct (m_pack m); reflexivity.
Qed.
