(* Tie by translation: whether a nested dataclass packer receives the caller's `dialect=` (Share.cp: ICall c (hsup &&
   c_sup c); run_pack then resolves the nested class's no_copy_collections with or without the call dialect) is
   CodeBuilder.get_pack_method_flags -- kernel K8 (C08's), translated on every run: the argument list of the nested call
   names `dialect=dialect` exactly when ADD_DIALECT_SUPPORT is enabled on BOTH classes. *)
From Coq Require Import List String Ascii ZArith Bool.
From Verif Require Import Regex PyK PyK_c08 OptProj K8Proofs.
From VerifGen Require Import K8.
From Verif Require Share.
Import ListNotations.
Open Scope string_scope.

Lemma dialect_arg_iff (a b: flags) :
  In "dialect=dialect" (flag_args (both a b)) <-> a.(g_dl) && b.(g_dl) = true.
Proof.
  rewrite flag_args_in. destruct a as [a1 a2 a3 a4], b as [b1 b2 b3 b4]. cbn [both g_on g_ba g_dl g_cx].
  split.
  - intros [[H _] | [[H _] | [[_ H] | [H _]]]]; try discriminate H; exact H.
  - intro H. right. right. left. split; [reflexivity | exact H].
Qed.

(* a = code generation options of the class being built, b = those of the nested class *)
Lemma forwarding_is_source (E: Share.env) (N: list Share.origin) (hsup: bool) (c: nat) (a b: flags) :
  a.(g_dl) = hsup -> b.(g_dl) = Share.c_sup (Share.e_ct E c) ->
  get_pack_method_flags (enc_flags a) (enc_flags b) = Ok (KStr (String.concat ", " (flag_args (both a b)))) /\
  exists fw, Share.cp E N hsup (Share.TDC c) = Share.ICall c fw /\
             (fw = true <-> In "dialect=dialect" (flag_args (both a b))).
Proof.
  intros Ha Hb. split; [apply K8_forward_lemma |].
  exists (hsup && Share.c_sup (Share.e_ct E c)). split; [reflexivity |].
  rewrite dialect_arg_iff, Ha, Hb. tauto.
Qed.
