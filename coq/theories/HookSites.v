(* C19: the hook call SITES of a generated to_dict / from_dict as data, and what a method with given sites does.

   Kernel K49 (tools/kernels/k49_hook_sites.py -> coq/gen/K49.v) re-reads on every run the statements of
   CodeBuilder._add_pack_method_lines / _add_unpack_method_lines (builder.py) that emit the hook calls and
   renders the emitted method as a list of sites, as a function of what the builder asks about the class
   (get_declared_hook(...), is_code_generation_option_enabled(ADD_SERIALIZATION_CONTEXT), get_discriminator(), the
   kwargs-vs-literal decision, the encoder).  [run_ps] / [run_us] give a list of sites the meaning the hand-written
   model Hooks.body / Hooks.dbody gives to "the generated method"; theories/HookSitesProofs.v proves that the sites
   K49 reads from the source, so interpreted, ARE Hooks.body / Hooks.dbody - the trace theorems about pack / unpack
   are thereby about the method builder.py emits now (order of the hook lines, which hooks, the context keyword, the
   return value being used, a Config discriminator replacing the whole body). *)
From Coq Require Import List Arith Bool.
From Verif Require Import Hooks.
Import ListNotations.

(* ---------------------------------------------------------------- to_dict *)
Inductive psite :=
| PSPre (ctxkw: bool)
    (* self = self.__pre_serialize__([context=context]): the name self is REBOUND to what the hook returns *)
| PSFields
    (* kwargs = {} and the per-field statements kwargs[...] = <packer> (incremental form) *)
| PSRet (post: option bool) (inline: bool).
    (* return [encoder(] [self.__post_serialize__(] <dict> [, context=context)] [, ...)]
       post = Some ctxkw: wrapped in the hook call, with / without the context keyword;
       inline = true: <dict> is the literal {name: <packer>, ...} - the field packers are evaluated inside the return
       expression, AFTER the attribute lookup self.__post_serialize__ *)

Section RunP.
  Variable E : env.
  Variable stubs : bool.          (* the classes derive from DataClassDictMixin (stub hooks) *)
  Variables cr i j : nat.         (* runtime class and identity of the instance; its pre hook returns identity j *)
  Variable fields : M.            (* the field packers of the method, in order *)
  Variable kvar : ctxtok.         (* the value of the method's local name `context` *)

  Definition tokof (kw: bool) : ctxtok := if kw then kvar else CAbsent.

  (* self: identity the name self is bound to *)
  Fixpoint run_ps (sites: list psite) (self: nat) : M :=
    match sites with
    | [] => ok_ []
    | PSPre kw :: r =>
        if c_pre (cls E cr) then seq2 (ok_ [Pre cr self (tokof kw)]) (run_ps r j) else fail_
    | PSFields :: r => seq2 fields (run_ps r self)
    | PSRet post inline :: _ =>
        let fl := if inline then fields else ok_ [] in
        match post with
        | None => fl
        | Some kw =>
            if c_post (cls E cr) then seq2 fl (ok_ [Post cr self (tokof kw)])
            else if stubs then seq2 fl (negb kw, [])   (* the mixin's stub: no context keyword (TypeError), else silent *)
            else fail_                                 (* AttributeError at the lookup, before <dict> is evaluated *)
        end
    end.
End RunP.

(* the field packers of the to_dict generated for class cg (restated from Hooks.body) *)
Definition fields_M (E: env) (cg: nat) (subs: list (nat * sub)) (ck: ctxtok) : M :=
  let G := cls E cg in
  seqM (map (fun f => match assoc (f_name f) subs with
                      | Some s => s (f_ty f) (c_ctx G) (c_xf G) ck
                      | None => fail_ end) (c_fields G)).

(* the incremental form is chosen iff some field is Optional (the model's domain: no omit_none / by_alias / omit_default
   on a class without the mixin, see Hooks.early_fail) *)
Definition kwmode (E: env) (cg: nat) : bool := existsb (fun f => is_opt (f_ty f)) (c_fields (cls E cg)).

(* ---------------------------------------------------------------- from_dict *)
Inductive usite :=
| USDecode                 (* d = decoder(d): codecs with a pre-decoder; no hook, no instance *)
| USDispatch               (* return <variant dispatcher>(d): the class's own Config has a discriminator *)
| USPre                    (* d = cls.__pre_deserialize__(d) *)
| USFields                 (* try: the field blocks / except AttributeError *)
| USRet (post: bool).      (* return [cls.__post_deserialize__(] cls(...) [)] *)

Section RunU.
  Variable c : nat.                                                           (* the class the method belongs to *)
  Variable disp : D.                                                          (* the variant dispatcher *)
  Variable fields : nat -> (option (list (nat * val)) * list ev * nat).       (* the field blocks *)

  Fixpoint run_us (sites: list usite) (args: option (list (nat * val))) : D :=
    fun n =>
    match sites with
    | [] => (None, [], n)
    | USDecode :: r => run_us r args n
    | USDispatch :: _ => disp n
    | USPre :: r => match run_us r args n with (o, tr, n') => (o, PreDe c :: tr, n') end
    | USFields :: r =>
        match fields n with
        | (Some vs, tr, n1) => match run_us r (Some vs) n1 with (o, tr', n2) => (o, tr ++ tr', n2) end
        | (None, tr, n1) => (None, tr, n1)
        end
    | USRet post :: _ =>
        match args with
        | Some vs => (Some (VInst c n n vs), if post then [PostDe c n] else [], S n)
        | None => (None, [], n)
        end
    end.
End RunU.

(* builder.get_declared_hook: the class of the MRO that defines the method, unless that is DataClassDictMixin *)
Definition declared (defining: option nat) (is_mixin_cls: nat -> bool) : bool :=
  match defining with
  | Some c => negb (is_mixin_cls c)
  | None => false
  end.

(* ---------------------------------------------------------------- what the harness evaluates per generated method:
   the sites PARSED from the text the library really exec'd (top-level statements of the method) against the sites the
   kernel derives from builder.py for the same answers *)
Definition obool_eqb (a b: option bool) : bool :=
  match a, b with Some x, Some y => Bool.eqb x y | None, None => true | _, _ => false end.
Definition psite_eqb (a b: psite) : bool :=
  match a, b with
  | PSPre x, PSPre y => Bool.eqb x y
  | PSFields, PSFields => true
  | PSRet p i, PSRet p' i' => obool_eqb p p' && Bool.eqb i i'
  | _, _ => false end.
Definition usite_eqb (a b: usite) : bool :=
  match a, b with
  | USDecode, USDecode | USDispatch, USDispatch | USPre, USPre | USFields, USFields => true
  | USRet x, USRet y => Bool.eqb x y
  | _, _ => false end.
Fixpoint list_eqb {A} (eqb: A -> A -> bool) (a b: list A) : bool :=
  match a, b with
  | [], [] => true
  | x :: a', y :: b' => eqb x y && list_eqb eqb a' b'
  | _, _ => false end.
