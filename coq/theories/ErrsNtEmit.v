(* C05 over kernel K45 (the code unpack.py unpack_named_tuple emits for a NamedTuple class, translated from /repo on
   every run into coq/gen/K45.v; vocabulary and semantics: NtEmit.v, C03's): the DICT form
   (Config / dialect option namedtuple_as_dict, field option deserialize="as_dict"), executed with exception
   classes and ARBITRARY item unpackers [ev] (they may raise any class, KeyError included) and an arbitrary
   membership test [has]:

     * no silent default: every item of a returned NamedTuple is the value the item's own unpacker returned, or
       the item has a default, its key is ABSENT ('k' in value is False) and the item is that default;
     * the first item (declaration order) whose key is read and whose unpacker raises decides: its exception,
       whatever its class, leaves the helper -- in particular a KeyError raised INSIDE an item unpacker (a nested
       TypedDict without a required key, a nested dict-form NamedTuple without a key, ZoneInfoNotFoundError) is
       not taken for "key absent".

   A generator that reads defaulted items EAFP-style (try: fields['k'] = u(value['k']) / except KeyError: pass)
   is not the code translated here: the kernel refuses it or these proofs fail. *)
From Coq Require Import List Bool String Arith.
From Verif Require Import Core TyModel NtEmit.
From VerifGen Require Import K45.
Import ListNotations.

Section NtDictErrs.
  Variable ev : nt_idx -> sfield -> res pv.
  Variable has : string -> res bool.
  Variable vlen : nat.
  Variable nodef : bool.                    (* the class has no defaults at all: no helper, C(u_a(value['a']), ...) *)
  Variable in_defaults : string -> bool.

  Definition nd_run (fds: list sfield) : res (list pv) :=
    run_code ev has vlen (k45_indices true (map sf_name fds)) (k45_code true nodef in_defaults (map sf_name fds)) fds.

  Definition own (f: sfield) : res pv := ev (IName f.(sf_name)) f.

  (* the key of [f] is read: no helper, or no default, or 'name' in value *)
  Definition present (f: sfield) : Prop :=
    nodef = true \/ in_defaults f.(sf_name) = false \/ has f.(sf_name) = Ok true.
  Definition absent (f: sfield) : Prop :=
    nodef = false /\ in_defaults f.(sf_name) = true /\ has f.(sf_name) = Ok false.

  Definition item_ok (f: sfield) (y: pv) : Prop :=
    own f = Ok y \/ (absent f /\ f.(sf_default) = Some y).

  Lemma run_call_items : forall fds r,
    run_call ev (map IName (map sf_name fds)) fds = Ok r -> Forall2 (fun f y => own f = Ok y) fds r.
  Proof.
    induction fds as [|f fds IH]; simpl; intros r H.
    - inversion H; constructor.
    - unfold own. destruct (ev (IName (sf_name f)) f) as [y|e] eqn:Ey; simpl in H; [|discriminate].
      destruct (run_call ev (map IName (map sf_name fds)) fds) as [ys|e] eqn:Er; simpl in H; [|discriminate].
      inversion H; subst. constructor; auto.
  Qed.

  Definition slot_ok (f: sfield) (o: option pv) : Prop :=
    match o with
    | Some y => own f = Ok y
    | None => in_defaults f.(sf_name) = true /\ has f.(sf_name) = Ok false end.

  Lemma run_kw_slots : forall fds os,
    run_kw ev has (map (fun field => if in_defaults field then NLSetIf field else NLSet field) (map sf_name fds))
           (map IName (map sf_name fds)) fds = Ok os ->
    Forall2 slot_ok fds os.
  Proof.
    induction fds as [|f fds IH]; simpl; intros os H.
    - inversion H; constructor.
    - destruct (in_defaults (sf_name f)) eqn:Ed.
      + destruct (has (sf_name f)) as [b|e] eqn:Eh; simpl in H; [|discriminate].
        destruct b.
        * destruct (ev (IName (sf_name f)) f) as [y|e] eqn:Ey; simpl in H; [|discriminate].
          match type of H with context [run_kw ?a ?b ?c ?d ?e] => destruct (run_kw a b c d e) as [os'|e'] eqn:Er end;
            simpl in H; [|discriminate].
          inversion H; subst. constructor; [exact Ey | auto].
        * simpl in H.
          match type of H with context [run_kw ?a ?b ?c ?d ?e] => destruct (run_kw a b c d e) as [os'|e'] eqn:Er end;
            simpl in H; [|discriminate].
          inversion H; subst. constructor; [simpl; auto | auto].
      + destruct (ev (IName (sf_name f)) f) as [y|e] eqn:Ey; simpl in H; [|discriminate].
        match type of H with context [run_kw ?a ?b ?c ?d ?e] => destruct (run_kw a b c d e) as [os'|e'] eqn:Er end;
          simpl in H; [|discriminate].
        inversion H; subst. constructor; [exact Ey | auto].
  Qed.

  Lemma fill_kw_items : forall fds os r,
    nodef = false -> Forall2 slot_ok fds os -> fill_kw os fds = Ok r -> Forall2 item_ok fds r.
  Proof.
    intros fds os r Hn HF. revert r. induction HF as [|f o fds os Hs HF IH]; simpl; intros r H.
    - inversion H; constructor.
    - destruct o as [y|].
      + simpl in H. destruct (fill_kw os fds) as [ys|e] eqn:Ef; simpl in H; [|discriminate].
        inversion H; subst. constructor; [left; exact Hs | auto].
      + destruct (sf_default f) as [dv|] eqn:Edv; simpl in H; [|discriminate].
        destruct (fill_kw os fds) as [ys|e] eqn:Ef; simpl in H; [|discriminate].
        inversion H; subst. destruct Hs as [Hd Hh].
        constructor; [right; split; [repeat split; assumption | exact Edv] | auto].
  Qed.

  (* no silent default *)
  Theorem nd_no_silent_default : forall fds r, nd_run fds = Ok r -> Forall2 item_ok fds r.
  Proof.
    intros fds r H. unfold nd_run, k45_indices, k45_code in H. destruct nodef eqn:En; simpl in H.
    - apply run_call_items in H. induction H; constructor; auto. left; assumption.
    - match type of H with context [run_kw ?a ?b ?c ?d ?e] => destruct (run_kw a b c d e) as [os|e'] eqn:Er end;
        simpl in H; [|discriminate].
      apply run_kw_slots in Er. eapply fill_kw_items; eauto.
  Qed.

  Definition item_pass (f: sfield) : Prop := (present f /\ exists y, own f = Ok y) \/ absent f.

  (* the first item that is read and whose unpacker raises decides, whatever the class *)
  Theorem nd_first_exn : forall pre f post e,
    Forall item_pass pre -> present f -> own f = Exn e -> nd_run (pre ++ f :: post) = Exn e.
  Proof.
    intros pre f post e HP Hf He. unfold nd_run, k45_indices, k45_code. destruct nodef eqn:En; simpl.
    - induction HP as [|g pre Hg HP IH]; simpl.
      + unfold own in He. rewrite He. reflexivity.
      + destruct Hg as [[_ [y Hy]]|[Hn _]]; [|congruence].
        unfold own in Hy. rewrite Hy. simpl. rewrite IH. reflexivity.
    - assert (K: run_kw ev has (map (fun field => if in_defaults field then NLSetIf field else NLSet field) (map sf_name (pre ++ f :: post)))
                        (map IName (map sf_name (pre ++ f :: post))) (pre ++ f :: post) = Exn e).
      { induction HP as [|g pre Hg HP IH]; simpl.
        - unfold own in He. destruct Hf as [Hf|[Hf|Hf]]; [congruence| |].
          + rewrite Hf. rewrite He. reflexivity.
          + destruct (in_defaults (sf_name f)); [rewrite Hf; simpl|]; rewrite He; reflexivity.
        - rewrite IH. destruct Hg as [[Hp [y Hy]]|[_ [Hd Hh]]].
          + unfold own in Hy. destruct Hp as [Hp|[Hp|Hp]]; [congruence| |].
            * rewrite Hp. rewrite Hy. reflexivity.
            * destruct (in_defaults (sf_name g)); [rewrite Hp; simpl|]; rewrite Hy; reflexivity.
          + rewrite Hd, Hh. reflexivity. }
      rewrite K. reflexivity.
  Qed.

  (* in particular: a KeyError from INSIDE the unpacker of a defaulted item whose key is there *)
  Corollary nd_inner_keyerror_propagates : forall pre f post,
    nodef = false -> in_defaults f.(sf_name) = true -> has f.(sf_name) = Ok true -> own f = Exn XKeyError ->
    Forall item_pass pre -> nd_run (pre ++ f :: post) = Exn XKeyError.
  Proof. intros pre f post _ _ Hh He HP. apply nd_first_exn; auto. right; right; exact Hh. Qed.
End NtDictErrs.
