(* C11 / kernel K21: vocabulary and semantics of the code that pack.py:pack_union emits.
   The two loops of pack_union are translated to Gallina on every run (coq/gen/K21.v,
   tools/kernels/k21_pack_union_emit.py); members are abstracted to UnionModel.pmember
   (class named in the class check, packer expression, its behaviour).  K21Proofs.v proves that the
   emitted method computes UnionModel.pack_union. *)
From Coq Require Import List Bool Arith String.
From Verif Require Import UnionModel.
Import ListNotations.

(* two packer expression strings are equal *)
Definition pe_eqb (a b: pmember) : bool :=
  match p_e a, p_e b with
  | None, None => true
  | Some x, Some y => Nat.eqb x y
  | _, _ => false end.

(* state of the collecting loop: `packers` (each expression represented by the first member that
   produced it) and `packer_arg_types` (class names per expression, in order of occurrence) *)
Record pst := { ps_packers : list pmember; ps_types : list (pmember * list string) }.
Definition pst0 : pst := {| ps_packers := []; ps_types := [] |}.

Definition packers_mem (m: pmember) (s: pst) : bool := existsb (pe_eqb m) (ps_packers s).
Definition packers_insert0 (m: pmember) (s: pst) : pst := {| ps_packers := m :: ps_packers s; ps_types := ps_types s |}.
Definition packers_append (m: pmember) (s: pst) : pst := {| ps_packers := ps_packers s ++ [m]; ps_types := ps_types s |}.

Fixpoint types_add (m: pmember) (c: string) (l: list (pmember * list string)) : list (pmember * list string) :=
  match l with
  | [] => [(m, [c])]
  | p :: r => if pe_eqb m (fst p) then (fst p, app (snd p) [c]) :: r else p :: types_add m c r
  end.
(* packer_arg_types.setdefault(packer, []).append(type_arg) *)
Definition types_setdefault_append (m: pmember) (s: pst) : pst :=
  {| ps_packers := ps_packers s; ps_types := types_add m (p_cls m) (ps_types s) |}.
Definition types_get (m: pmember) (s: pst) : list string :=
  match find (fun p => pe_eqb m (fst p)) (ps_types s) with Some p => snd p | None => [] end.

Definition name_mem (n: string) (l: list string) : bool := existsb (String.eqb n) l.

(* the class test of the identity block *)
Inductive pcheck := PIn (names: list string) | PIs (name: string).
Inductive pline :=
| PLIdent (c: pcheck)            (* if value.__class__ <c>: return value *)
| PLTry (m: pmember)             (* try: return <expr> / except Exception: pass *)
| PLRaise.
Inductive pres := PIdentity | PMethod (ls: list pline).   (* `return spec.expression` | a generated method *)

Definition check_holds (c: pcheck) (v: uv) : bool :=
  match c with PIn names => name_mem (class_of v) names | PIs n => String.eqb (class_of v) n end.

Definition run_pline (l: pline) (v: uv) : option (option uv) :=
  match l with
  | PLIdent c => if check_holds c v then Some (Some v) else None
  | PLTry m => match p_enc m v with Some x => Some (Some x) | None => None end
  | PLRaise => Some None
  end.

Fixpoint run_plines (ls: list pline) (v: uv) : option uv :=
  match ls with
  | [] => None
  | l :: r => match run_pline l v with Some o => o | None => run_plines r v end
  end.

Definition run_pres (p: pres) (v: uv) : option uv :=
  match p with PIdentity => Some v | PMethod ls => run_plines ls v end.
