(* The compilation of one field along a path of positions, assembled from the functions translated from /repo:
   K5  (registry_prepare = Registry.get, pack_/unpack_type_with_overridden_* = the first handler),
   K5P (the spec.copy of the descent sites, the class handed to the flag functions, get_unpack_method_flags),
   K8  (get_pack_method_flags).
   Hand-written glue (trusted, tied by the real-class runs): a handler that declines lets the type-specific handler
   run, which re-enters the registry for the next position; a nested dataclass / Self call runs the child's method
   with `dialect` = the caller's runtime dialect iff the flag text forwards it; a dataclass field gets a fresh spec. *)
From Coq Require Import List String Ascii ZArith Bool.
From Verif Require Import Regex PyK PyK_strat PyK_c08 OptProj Strategies Positions K5Kernel.
From VerifGen Require Import K5.
From VerifGen Require K8 K5P.
Import ListNotations.
Open Scope string_scope.

Definition codegen_md (d: dir) (Sr: sources) (md An T O e: kv) : res kv :=
  match d with
  | Ser => pack_type_with_overridden_serialization (enc_dialect (t_call Sr)) (enc_cfg Sr) (enc_dialect (t_dflt Sr)) md An T O e
  | De => unpack_type_with_overridden_deserialization (enc_dialect (t_call Sr)) (enc_cfg Sr) (enc_dialect (t_dflt Sr)) md An T O e
  end.

Definition descend (d: dir) (k: tstep) : (kv -> kv) -> kv -> kv -> res kv :=
  match d, k with
  | Ser, TNewType => K5P.descend_pack_newtype
  | Ser, TOptional => K5P.descend_pack_optional
  | Ser, TElement => K5P.descend_pack_element
  | Ser, TMember => K5P.descend_pack_member
  | Ser, TTupleItem => K5P.descend_pack_tuple_item
  | Ser, TNamedField => K5P.descend_pack_named_field
  | Ser, TTypedKey => K5P.descend_pack_typed_key
  | De, TNewType => K5P.descend_unpack_newtype
  | De, TOptional => K5P.descend_unpack_optional
  | De, TElement => K5P.descend_unpack_element
  | De, TMember => K5P.descend_unpack_member
  | De, TTupleItem => K5P.descend_unpack_tuple_item
  | De, TNamedField => K5P.descend_unpack_named_field
  | De, TTypedKey => K5P.descend_unpack_typed_key
  end.

Definition site_cls (d: dir) (self: bool) : kv -> kv -> kv -> kv :=
  match d, self with
  | Ser, false => K5P.site_cls_pack_dataclass
  | Ser, true => K5P.site_cls_pack_self
  | De, false => K5P.site_cls_unpack_dataclass
  | De, true => K5P.site_cls_unpack_self
  end.

(* the argument list text of the call into the child's method *)
Definition child_flags (d: dir) (P: prims) (self: bool) (t o holder: kv) : res kv :=
  let other := enc_flags5 (p_flags P (site_cls d self t o holder)) in
  match d with
  | Ser => K8.get_pack_method_flags (enc_flags5 (p_flags P holder)) other
  | De => K5P.get_unpack_method_flags (enc_flags5 (p_flags P holder)) other
  end.

Fixpoint compile (d: dir) (P: prims) (Sr: sources) (spec holder e: kv) (path: list node) (depth: nat)
  : res (option (nat * kv)) :=
  sp <- registry_prepare (p_rt P) (p_org P) (p_isann P) spec ;;
  a <- k_getattr2 sp (KStr "annotated_type") ;;
  t <- k_getattr2 sp (KStr "type") ;;
  o <- k_getattr2 sp (KStr "origin_type") ;;
  md <- k_getattr2 sp (KStr "metadata") ;;
  r <- codegen_md d Sr md a t o e ;;
  if negb (k_is r KNone) then Ok (Some (depth, r)) else
  match path with
  | [] => Ok None
  | NType k decl :: rest =>
      sp' <- descend d k (p_org P) decl sp ;;
      md' <- k_getattr2 sp' (KStr "metadata") ;;
      let Sr' := match k with TElement => drop_fieldopts Sr | _ => Sr end in
      compile d P Sr' sp' holder e rest (S depth)
  | NField self f decl :: rest =>
      fl <- child_flags d P self t o holder ;;
      let child := if self then holder else t in
      let Sr' := {| f_ser := fo_ser f; f_de := fo_de f; f_strat := fo_strat f;
                    t_call := if forwards_dialect fl then t_call Sr else None;
                    t_cfgd := fst (p_cfg P child); t_cfg := snd (p_cfg P child); t_dflt := t_dflt Sr |} in
      compile d P Sr' (mk_spec4 decl (p_org P decl) KNone (enc_meta Sr')) child e rest (S depth)
  end.
