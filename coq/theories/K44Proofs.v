(* C17: facts about the translated kernel K44 (get_type_name_identifier / is_local_type_name and the table of
   type reference sites of the generator), re-checked against the source on every run.

   A type reference that is pasted into generated code as code has to be a NAME CHAIN  NAME ('.' NAME)*  :
   c17_translate reads exactly those as ELoad / EAttr, and Closed.check_closed / Binding.binding_ok decide
   whether the chain resolves and which object it denotes.  [chain] is that lexical shape over code points
   (word characters / digits = the tables of K42, i.e. of Python's re module).  *)
From Coq Require Import List NArith Bool String Lia.
From VerifGen Require Import K42 K44.
From Verif Require Import K42Proofs.
Import ListNotations.
Open Scope N_scope.

(* NAME ('.' NAME)* ; at_start = a NAME has to begin here *)
Fixpoint chain (at_start : bool) (s : list N) : bool :=
  match s with
  | [] => negb at_start
  | c :: r =>
      if N.eqb c 46 then negb at_start && chain true r
      else is_word c && (negb at_start || negb (is_digit c)) && chain false r
  end.

Definition name_chain (s : list N) : bool := chain true s.

Lemma dot_not_word : is_word 46 = false.
Proof. vm_compute. reflexivity. Qed.

Lemma chain_words l : Forall (fun c => is_word c = true) l -> chain false l = true.
Proof.
  induction l as [| c r IH]; intros H; [reflexivity|].
  inversion H as [| x y Hc Hr]; subst. simpl.
  destruct (N.eqb c 46) eqn:E.
  - apply N.eqb_eq in E. subst. rewrite dot_not_word in Hc. discriminate.
  - rewrite Hc. simpl. apply IH. exact Hr.
Qed.

(* an identifier (K42's sense: nonempty, word characters, no leading digit) is a name chain of length one *)
Lemma identifier_chain l :
  Forall (fun c => is_word c = true) l -> (exists c r, l = c :: r /\ is_digit c = false) -> name_chain l = true.
Proof.
  intros Hw (c & r & -> & Hd). unfold name_chain. simpl.
  inversion Hw as [| x y Hc Hr]; subst.
  destruct (N.eqb c 46) eqn:E.
  - apply N.eqb_eq in E. subst. rewrite dot_not_word in Hc. discriminate.
  - rewrite Hc, Hd. simpl. apply chain_words. exact Hr.
Qed.

Lemma clean_id_chain s : name_chain (clean_id s) = true.
Proof. apply identifier_chain; [apply clean_id_word | apply clean_id_no_leading_digit]. Qed.

(* ---- get_type_name_identifier *)

Lemma type_ident_local r :
  is_local_type_name r = true -> type_ident r = (clean_id r, Some (clean_id r)).
Proof. intros H. unfold type_ident. rewrite H. reflexivity. Qed.

Lemma type_ident_nonlocal r :
  is_local_type_name r = false -> type_ident r = (r, None).
Proof. intros H. unfold type_ident. rewrite H. reflexivity. Qed.

(* whatever is registered is registered under the very text that is pasted *)
Lemma type_ident_alias_is_text r a : snd (type_ident r) = Some a -> fst (type_ident r) = a.
Proof. unfold type_ident. destruct (is_local_type_name r); simpl; intros H; [inversion H; reflexivity | discriminate]. Qed.

(* the pasted text is a name chain whenever the rendering names a local class or is a name chain itself *)
Theorem type_ident_chain r :
  is_local_type_name r = true \/ name_chain r = true -> name_chain (fst (type_ident r)) = true.
Proof.
  intros H. unfold type_ident. destruct (is_local_type_name r) eqn:E; simpl.
  - apply clean_id_chain.
  - destruct H as [H | H]; [discriminate | exact H].
Qed.

(* a name chain never contains the marker's first character '<' : the rendering of a local class is never a chain
   (so pasting it raw can not be right: that was the defaultdict defect repaired by /repo d8ae0ee) *)
Lemma lt_not_word : is_word 60 = false.
Proof. vm_compute. reflexivity. Qed.

Lemma prefix_marker_not_chain b s : prefix locals_marker s = true -> chain b s = false.
Proof.
  destruct s as [| c r]; [discriminate|]. intros H.
  unfold locals_marker in H. cbn [prefix] in H. apply andb_true_iff in H as [E _].
  apply N.eqb_eq in E. subst c. cbn [chain]. change (N.eqb 60 46) with false. cbv iota.
  rewrite lt_not_word. reflexivity.
Qed.

Lemma contains_marker_not_chain s : forall b, contains locals_marker s = true -> chain b s = false.
Proof.
  induction s as [| c r IH]; intros b H.
  - discriminate.
  - simpl in H. apply orb_true_iff in H. destruct H as [H | H].
    + apply (prefix_marker_not_chain b (c :: r)). exact H.
    + simpl. destruct (N.eqb c 46).
      * rewrite (IH true H). apply andb_false_r.
      * rewrite (IH false H). apply andb_false_r.
Qed.

Theorem local_rendering_not_chain r : is_local_type_name r = true -> name_chain r = false.
Proof. intros H. apply contains_marker_not_chain. exact H. Qed.

(* ---- the site table *)

(* a site is harmless for closedness / identity when the rendering does not become code at all, or becomes an
   identifier reference, or is a constant the library chose *)
Definition code_safe (f : form) : bool :=
  match f with
  | FRaw ADialect | FRaw ATypeArgs | FRaw AOther => false
  | _ => true
  end.

Definition known_raw (f : form) : bool :=
  match f with FRaw ADialect => true | _ => false end.

Definition form_eqb (a b : form) : bool :=
  match a, b with
  | FIdentBody, FIdentBody | FIdentCall, FIdentCall | FClean, FClean | FBuildMsg, FBuildMsg
  | FDebugPrint, FDebugPrint | FRepr, FRepr | FQuoted, FQuoted => true
  | FRaw x, FRaw y =>
      match x, y with
      | ALibCallable, ALibCallable | ADialect, ADialect | AConstClass, AConstClass
      | ABuiltinNumber, ABuiltinNumber | ATypeArgs, ATypeArgs | AOther, AOther => true
      | _, _ => false
      end
  | _, _ => false
  end.

Lemma form_eqb_eq a b : form_eqb a b = true -> a = b.
Proof. destruct a as [| | | | | | | x], b as [| | | | | | | y]; try discriminate; try reflexivity.
       destruct x, y; try discriminate; reflexivity. Qed.

Lemma sites_partial_check : forallb (fun s => code_safe (s_form s) || known_raw (s_form s)) sites = true.
Proof. vm_compute. reflexivity. Qed.

Theorem sites_partial s : In s sites -> known_raw (s_form s) = false -> code_safe (s_form s) = true.
Proof.
  intros Hin Hk. pose proof sites_partial_check as H. rewrite forallb_forall in H.
  specialize (H s Hin). rewrite Hk, orb_false_r in H. exact H.
Qed.

Lemma sites_dialect_witness : existsb (fun s => form_eqb (s_form s) (FRaw ADialect)) sites = true.
Proof. vm_compute. reflexivity. Qed.

Theorem sites_full_refuted : ~ (forall s, In s sites -> code_safe (s_form s) = true).
Proof.
  intros H. pose proof sites_dialect_witness as W. apply existsb_exists in W as (s & Hin & E).
  apply form_eqb_eq in E. specialize (H s Hin). rewrite E in H. discriminate.
Qed.

(* every type reference of unpack_collection (the defaultdict factory among them) is an identifier reference *)
Lemma collection_sites_check :
  forallb (fun s => negb (String.eqb (s_func s) "unpack_collection") || form_eqb (s_form s) FIdentCall) sites = true.
Proof. vm_compute. reflexivity. Qed.

Theorem collection_sites s : In s sites -> s_func s = "unpack_collection"%string -> s_form s = FIdentCall.
Proof.
  intros Hin Hf. pose proof collection_sites_check as H. rewrite forallb_forall in H.
  specialize (H s Hin). rewrite Hf, String.eqb_refl in H. simpl in H. apply form_eqb_eq. exact H.
Qed.

Lemma collection_sites_nonvacuous :
  existsb (fun s => String.eqb (s_func s) "unpack_collection" && form_eqb (s_form s) FIdentCall) sites = true.
Proof. vm_compute. reflexivity. Qed.
