(* The documented reference decoder ([ref_dec] = [ref_dec_g true]: a sequence with fewer
   items than head + tail of a tuple with an unpacked segment is an error, [XTooFew]) and the
   reading the generated code implements ([ref_dec_l] = [ref_dec_g false], proved equal to
   [uk (cu t)] on every input in TyProofs.v) agree wherever the documented one does not say
   "too few items":

     ref_dec d t = ref_dec_l d t   \/   ref_dec d t = Exn XTooFew          (strict_or_same)

   Hence [uk d (cu true t) = ref_dec d t] unless [ref_dec d t = Exn XTooFew]
   (C03_unpack_ref_partial), and the full equality is refuted by a short input. *)
From Coq Require Import List String Ascii ZArith Bool Lia.
From Verif Require Import Core TupleIdx TyModel TyTuple TyProofs.
Import ListNotations.
Open Scope string_scope.
Open Scope Z_scope.
Open Scope list_scope.

Definition R {A} (r1 r2: res A) : Prop := r1 = r2 \/ r1 = Exn XTooFew.

Lemma R_refl {A} (r: res A) : R r r.
Proof. left. reflexivity. Qed.

Lemma R_bind {A B} (r1 r2: res A) (k1 k2: A -> res B) :
  R r1 r2 -> (forall a, R (k1 a) (k2 a)) -> R (bind r1 k1) (bind r2 k2).
Proof.
  intros [H|H] Hk.
  - subst r2. destruct r1 as [a|e]; cbn [bind]; [apply Hk | left; reflexivity].
  - subst r1. right. reflexivity.
Qed.

Lemma R_bind_same {A B} (r1 r2: res A) (k: A -> res B) : R r1 r2 -> R (bind r1 k) (bind r2 k).
Proof. intros H. apply R_bind; [exact H | intros a; apply R_refl]. Qed.

Lemma R_mapM {A B} (f g: A -> res B) l : (forall x, In x l -> R (f x) (g x)) -> R (mapM f l) (mapM g l).
Proof.
  induction l as [|a l IH]; intros H; [apply R_refl|].
  cbn [mapM]. destruct (H a (or_introl eq_refl)) as [Ha|Ha].
  - rewrite Ha. destruct (g a) as [y|e]; [|left; reflexivity].
    destruct (IH (fun x Hx => H x (or_intror Hx))) as [Hl|Hl].
    + rewrite Hl. left. reflexivity.
    + rewrite Hl. right. reflexivity.
  - rewrite Ha. right. reflexivity.
Qed.

(* a step "decode one item, then the rest" *)
Lemma R_step {A} (r1 r2: res A) (k1 k2: res (list A)) :
  R r1 r2 -> R k1 k2 ->
  R (match r1 with Ok y => match k1 with Ok ys => Ok (y :: ys) | Exn e => Exn e end | Exn e => Exn e end)
    (match r2 with Ok y => match k2 with Ok ys => Ok (y :: ys) | Exn e => Exn e end | Exn e => Exn e end).
Proof.
  intros [H1|H1] H2.
  - subst r2. destruct r1 as [y|e]; [|left; reflexivity].
    destruct H2 as [H2|H2]; [subst k2; left; reflexivity | subst k1; right; reflexivity].
  - subst r1. right. reflexivity.
Qed.

(* ------------------------------------------------------------------ *)
(* walkers over items obtained from one underlying list by two related item decoders *)
Section RRel.
  Context {T X1 X2 A: Type}.
  Variable g1 : A -> X1.
  Variable g2 : A -> X2.
  Variable run1 : T -> X1 -> res pv.
  Variable run2 : T -> X2 -> res pv.
  Variable konst : T -> option pv.
  Variable tail : list T -> res (list pv).

  Lemma R_pos_walk (l: list A) ds :
    (forall d x, In d ds -> In x l -> R (run1 d (g1 x)) (run2 d (g2 x))) ->
    R (pos_walk run1 konst ds (map g1 l)) (pos_walk run2 konst ds (map g2 l)).
  Proof.
    revert l. induction ds as [|d ds IH]; intros l Hr; destruct l as [|x l]; cbn [map pos_walk]; try apply R_refl.
    apply R_step.
    - destruct (konst d); [apply R_refl | apply Hr; left; reflexivity].
    - apply IH. intros d0 x0 Hd0 Hx0. apply Hr; right; assumption.
  Qed.

  Lemma R_fix_walk (l: list A) ds :
    (forall d x, In d ds -> In x l -> R (run1 d (g1 x)) (run2 d (g2 x))) ->
    R (fix_walk run1 tail ds (map g1 l)) (fix_walk run2 tail ds (map g2 l)).
  Proof.
    revert l. induction ds as [|d ds IH]; intros l Hr; destruct l as [|x l]; cbn [map fix_walk]; try apply R_refl.
    apply R_step.
    - apply Hr; left; reflexivity.
    - apply IH. intros d0 x0 Hd0 Hx0. apply Hr; right; assumption.
  Qed.

  Lemma R_mid_var (M: list A) u :
    (forall x, In x M -> R (run1 u (g1 x)) (run2 u (g2 x))) ->
    R (mid_var run1 u (Some (map g1 M))) (mid_var run2 u (Some (map g2 M))).
  Proof. intros Hr. unfold mid_var. rewrite !mapM_map. apply R_mapM. exact Hr. Qed.

  Lemma R_mid_fix (M: list A) us :
    (forall d x, In d us -> In x M -> R (run1 d (g1 x)) (run2 d (g2 x))) ->
    R (mid_fix run1 konst tail us (Some (map g1 M))) (mid_fix run2 konst tail us (Some (map g2 M))).
  Proof. intros Hr. unfold mid_fix. destruct (omapM konst us); [apply R_refl | apply R_fix_walk; exact Hr]. Qed.

  Lemma R_tu_split (l: list A) pre post mid1 mid2 :
    (forall d x, In d (pre ++ post) -> In x l -> R (run1 d (g1 x)) (run2 d (g2 x))) ->
    (forall M, (forall x, In x M -> In x l) -> R (mid1 (Some (map g1 M))) (mid2 (Some (map g2 M)))) ->
    R (tu_split run1 konst (map g1 l) pre post mid1) (tu_split run2 konst (map g2 l) pre post mid2).
  Proof.
    intros Hr Hm. unfold tu_split. rewrite !map_length. rewrite !skipn_map, !firstn_map.
    apply R_bind; [apply R_pos_walk; intros d x Hd Hx; apply Hr; [apply in_or_app; left; exact Hd | apply (in_firstn _ _ _ Hx)]|]. intros a.
    apply R_bind; [apply Hm; intros x Hx; apply (in_skipn _ _ _ (in_firstn _ _ _ Hx))|]. intros m.
    apply R_bind_same. apply R_pos_walk. intros d x Hd Hx. apply Hr; [apply in_or_app; right; exact Hd | apply (in_skipn _ _ _ Hx)].
  Qed.
End RRel.

Lemma R_nt_tail konst miss fds : R (nt_tail konst miss fds) (nt_tail konst miss fds).
Proof. apply R_refl. Qed.

Lemma R_nt_items {X1 X2 A} (g1: A -> X1) (g2: A -> X2) (run1: sfield -> X1 -> res pv) (run2: sfield -> X2 -> res pv)
      konst miss fds (l: list A) :
  (forall f x, In x l -> R (run1 f (g1 x)) (run2 f (g2 x))) ->
  R (nt_items run1 konst miss fds (map g1 l)) (nt_items run2 konst miss fds (map g2 l)).
Proof.
  revert fds. induction l as [|x l IH]; intros fds Hr; destruct fds as [|f fds]; cbn [map nt_items]; try apply R_refl.
  apply R_step; [apply Hr; left; reflexivity | apply IH; intros f0 x0 Hx0; apply Hr; right; exact Hx0].
Qed.

Lemma R_nt_items_id {X} (run1 run2: sfield -> X -> res pv) konst miss fds (l: list X) :
  (forall f x, In x l -> R (run1 f x) (run2 f x)) ->
  R (nt_items run1 konst miss fds l) (nt_items run2 konst miss fds l).
Proof.
  intros H. pose proof (R_nt_items (fun x: X => x) (fun x: X => x) run1 run2 konst miss fds l H) as HR.
  rewrite !map_id in HR. exact HR.
Qed.

Definition Ropt (o1 o2: option (res pv)) : Prop :=
  match o1, o2 with
  | None, None => True
  | Some r1, Some r2 => R r1 r2
  | _, _ => False end.

Lemma R_td_go {D1 D2} (run1: sfield -> D1 -> res pv) (run2: sfield -> D2 -> res pv) konst ms es1 es2 fds :
  (forall f, In f fds -> Ropt (td_field run1 konst ms es1 f) (td_field run2 konst ms es2 f)) ->
  R (td_go run1 konst ms es1 fds) (td_go run2 konst ms es2 fds).
Proof.
  induction fds as [|f fds IH]; intros H; [apply R_refl|].
  cbn [td_go]. pose proof (H f (or_introl eq_refl)) as Hf. pose proof (IH (fun g Hg => H g (or_intror Hg))) as Hr.
  destruct (td_field run1 konst ms es1 f) as [r1|], (td_field run2 konst ms es2 f) as [r2|]; cbn [Ropt] in Hf; try contradiction.
  - apply R_bind; [exact Hf|]. intros y. apply R_bind_same. exact Hr.
  - exact Hr.
Qed.

(* ------------------------------------------------------------------ *)
Section Strict.
  Variable E : senv.
  Variable P : prims.

  (* the unpacked-tuple node: strict = too few / head-middle-tail; lenient = plan-driven *)
  Lemma R_tu_ref {X1 X2 A} (g1: A -> X1) (g2: A -> X2) (run1: sty -> X1 -> res pv) (run2: sty -> X2 -> res pv)
        (l: list A) pre mid post :
    (forall d x, In d (pre ++ mid_elems mid ++ post) -> In x l -> R (run1 d (g1 x)) (run2 d (g2 x))) ->
    R (tu_ref E true run1 (none_tail_t E) (map g1 l) pre mid post)
      (tu_ref E false run2 (none_tail_t E) (map g2 l) pre mid post).
  Proof.
    intros Hr. unfold tu_ref. rewrite map_length.
    destruct (List.length l <? List.length pre + List.length post)%nat eqn:El; [right; reflexivity|].
    apply Nat.ltb_ge in El.
    rewrite tu_walk_split by (rewrite map_length; exact El).
    apply R_tu_split.
    - intros d x Hd Hx. apply Hr; [|exact Hx]. apply in_app_or in Hd. apply in_or_app.
      destruct Hd as [Hd|Hd]; [left; exact Hd | right; apply in_or_app; right; exact Hd].
    - intros M HM. destruct mid; try apply R_refl.
      + apply R_mid_var. intros x Hx. apply Hr; [|apply HM; exact Hx].
        apply in_or_app. right. apply in_or_app. left. left. reflexivity.
      + apply R_mid_fix. intros d x Hd Hx. apply Hr; [|apply HM; exact Hx].
        apply in_or_app. right. apply in_or_app. left. exact Hd.
  Qed.

  (* str inputs *)
  Lemma strict_str n : forall t s, R (ref_dec_str_g E P true n t s) (ref_dec_str_g E P false n t s).
  Proof.
    induction n as [|n IHn].
    all: induction t as [ | | | | | | m' | k' | e' | t' IHt | fr' t' IHt | t' IHt | ts IHts | pre IHpre mid IHmid IHmide post IHpost | kt IHkt vt IHvt | t' IHt | c' | c' | c' | t' IHt | kt IHkt vt IHvt | bx t' IHt | ls ]
      using sty_ind'; intros s; rewrite (ref_dec_str_unfold E P true), (ref_dec_str_unfold E P false); try apply R_refl; try apply IHt.
    all: try (apply R_bind_same; apply R_mapM; intros x _; apply IHt).
    all: try (apply R_bind_same; generalize (utf8_chars s) as l; induction IHts as [|t1 ts H1 Hts IH]; intros l;
              [ apply R_refl
              | destruct l as [|x l]; [apply R_refl|]; apply R_bind; [apply H1|]; intros y; apply R_bind_same; apply IH ]).
    all: try solve [ apply R_bind_same; rewrite <- (map_id (utf8_chars s));
              apply (R_tu_ref (fun x: string => x) (fun x: string => x)); intros d x Hd _;
              apply in_app_or in Hd; destruct Hd as [Hd|Hd];
              [ apply (Forall_In _ _ IHpre d Hd)
              | apply in_app_or in Hd; destruct Hd as [Hd|Hd];
                [ apply (Forall_In _ _ IHmide d Hd) | apply (Forall_In _ _ IHpost d Hd) ] ] ].
    all: try (destruct (sfind E _ c') as [k|]; apply R_refl).
    all: try solve [ apply R_bind_same; apply IHt ].
    destruct (sfind E _ c') as [k|]; [|apply R_refl].
    apply R_bind_same. apply R_nt_items_id. intros f x _. apply IHn.
  Qed.
  Definition same_ok (d: pv) : Prop := forall t, R (ref_dec_g E P true d t) (ref_dec_g E P false d t).

  Theorem strict_or_same : forall d, same_ok d.
  Proof.
    induction d as [ | b | z | f | s | m b | l IHl | l IHl | fr l IHl | kvs IHk | c fs IHf | e m | k w | c l IHl | tg ]
      using pv_rect'; unfold same_ok.
    all: intros t; induction t as [ | | | | | | m' | k' | e' | t' IHt | fr' t' IHt | t' IHt | ts | pre mid IHmid post | kt IHkt vt IHvt | t' IHt | c' | c' | c' | t' IHt | kt IHkt vt IHvt | bx t' IHt | ls ];
      rewrite (ref_dec_unfold E P true), (ref_dec_unfold E P false); try apply R_refl.
    (* Optional *)
    all: try solve [ cbn [is_none]; first [ apply R_refl | apply IHt ] ].
    (* str inputs *)
    all: try solve [ apply strict_str ].
    all: try solve [ destruct (sfind E _ c') as [kc|]; [|apply R_refl]; first [ apply strict_str | apply R_refl ] ].
    (* homogeneous containers over list-like inputs *)
    all: try solve [ apply R_bind_same; apply R_mapM; intros x Hx; apply (Forall_In _ _ IHl x Hx) ].
    (* ... over a dict: its keys *)
    all: try solve [ apply R_bind_same; apply R_mapM; intros [k x] Hp; apply (proj1 (Forall_In _ _ IHk (k, x) Hp)) ].
    (* tuple with an unpacked segment *)
    all: try solve [ apply R_bind_same; apply (R_tu_ref (fun x => ref_dec_g E P true x) (fun x => ref_dec_g E P false x));
                     intros d x _ Hx; apply (Forall_In _ _ IHl x Hx) ].
    (* NamedTuple from a sequence *)
    all: try solve [ destruct (sfind E _ c') as [kc|]; [|apply R_refl]; apply R_bind_same;
                     apply R_nt_items_id; intros f x Hx; apply (Forall_In _ _ IHl x Hx) ].
    (* dict / Mapping *)
    all: try solve [ apply R_bind_same; apply R_mapM; intros [k x] Hp;
      destruct (Forall_In _ _ IHk (k, x) Hp) as [Qk Qx]; cbn [fst snd] in Qk, Qx;
      apply R_bind; [apply Qk|]; intros k'; apply R_bind_same; apply Qx ].
    (* boxed collections *)
    all: try solve [ apply R_bind_same; apply IHt ].
    - (* VList, STupleFix *)
      apply R_bind_same. revert ts. induction l as [|x l IHl']; intros ts.
      + destruct ts; apply R_refl.
      + destruct ts as [|t1 ts]; [apply R_refl|]. inversion IHl as [|? ? Qx Ql]; subst.
        apply R_bind; [apply Qx|]. intros y. apply R_bind_same. apply (IHl' Ql).
    - (* VTuple, STupleFix *)
      apply R_bind_same. revert ts. induction l as [|x l IHl']; intros ts.
      + destruct ts; apply R_refl.
      + destruct ts as [|t1 ts]; [apply R_refl|]. inversion IHl as [|? ? Qx Ql]; subst.
        apply R_bind; [apply Qx|]. intros y. apply R_bind_same. apply (IHl' Ql).
    - (* VDict, SData: the field loop *)
      destruct (sfind E _ c') as [k|]; [|apply R_refl].
      cbv zeta. apply R_bind_same. induction (sc_fields k) as [|f fds IHfds]; [apply R_refl|].
      apply R_bind; [|intros y; apply R_bind_same; exact IHfds].
      clear IHfds.
      induction kvs as [|[key x] kvs IHkvs]; [apply R_refl|].
      cbn [map]. destruct (py_eq key (VStr (sf_name f))).
      + inversion IHk as [|? ? [_ Qx] _]; subst. cbn [snd] in Qx.
        destruct (is_none x && sfield_nullable f); [apply R_refl | apply Qx].
      + apply IHkvs. inversion IHk; assumption.
    - (* VDict, STyped *)
      destruct (sfind E _ c') as [k|]; [|apply R_refl].
      cbv zeta. apply R_bind_same. apply R_td_go. intros f _.
      unfold td_field. rewrite (look_map (ref_dec_g E P true) kvs), (look_map (ref_dec_g E P false) kvs).
      destruct (look kvs (sf_name f)) as [x|] eqn:El; cbn [option_map].
      + destruct (look_In _ _ _ El) as [key [Hin _]].
        pose proof (Forall_In _ _ IHk (key, x) Hin) as [_ Qx]. cbn [snd] in Qx.
        destruct (sf_opt f); [exact (Qx _)|]. destruct (konst_t E f); [apply R_refl | exact (Qx _)].
      + destruct (sf_opt f); [exact I|]. destruct (konst_t E f); apply R_refl.
  Qed.

  (* the generated unpacker equals the documented reference wherever that one does not say "too few items" *)
  Corollary decode_is_ref_strict d t :
    ref_dec_g E P true d t <> Exn XTooFew -> uk E P d (cu true t) = ref_dec_g E P true d t.
  Proof.
    intros H. rewrite (decode_is_ref E P d t). destruct (strict_or_same d t) as [Hs|Hs]; [symmetry; exact Hs | contradiction].
  Qed.
End Strict.
