(* C04: the Encoder / Decoder objects of the five formats ARE the format model's encode / decode.
   Puts together, over what was read from /repo on this run:
     K104a  (tools/kernels/k104a_format_entries.py)  which library function and which dialect rule every codec class and
          every mixin hands to the generators,
     K40  (tools/kernels/k40_codec_wrapper.py)   the program CodecCodeBuilder.add_decode_method / add_encode_method emit,
     Fmt / FmtProofs                             encode = ser_F o pack_ls, decode = unpack_ls o parse_F and their theorems. *)
From Coq Require Import List String ZArith Bool.
From Verif Require Import Fmt FmtProofs FmtDialectSource FmtEntries CodecWrap CodecWrapProofs.
From VerifGen Require Import K40 K104a.
Import ListNotations.
Open Scope string_scope.

(* ------------------------------------------------------------------ *)
(* 1. the tables read from the source are the model's                 *)

Definition centry_okb (F: fmt) (c: centry) : bool :=
  drule_eqb (c_dec_rule c) (rule_of F) && String.eqb (c_dec_fn c) (lib_parse F) &&
  drule_eqb (c_enc_rule c) (rule_of F) && String.eqb (c_enc_fn c) (lib_ser F).

Definition mkind_okb (F: fmt) (k: mkind) : bool :=
  match k, dialect_class F with MGenerated, Some _ | MPlain, None => true | _, _ => false end.

Definition mentry_okb (F: fmt) (m: mentry) : bool :=
  mkind_okb F (m_kind m) &&
  String.eqb (m_pack_name m) (pack_name F) && String.eqb (m_unpack_name m) (unpack_name F) &&
  ostr_eqb (m_pack_dialect m) (dialect_class F) && ostr_eqb (m_unpack_dialect m) (dialect_class F) &&
  String.eqb (m_enc_fn m) (lib_ser F) && String.eqb (m_dec_fn m) (lib_parse F) &&
  match F, m_enc_kwargs m with
  | FOrjson, ["option=('orjson_options', ConfigValue('orjson_options'))"] => true   (* orjson.dumps(tree, option=Config.orjson_options) *)
  | FOrjson, _ => false
  | _, [] => true
  | _, _ => false end.

Definition entries_okb (F: fmt) : bool :=
  match assoc_fmt F source_codecs, assoc_fmt F source_mixins with
  | Some c, Some m => centry_okb F c && mentry_okb F m && ostr_eqb (assoc_fmt F k41_classes) (dialect_class F)
  | _, _ => false end.

Lemma entries_sweep : forallb entries_okb all_fmts = true.
Proof. vm_compute. reflexivity. Qed.

Lemma entries_ok F : entries_okb F = true.
Proof.
  pose proof entries_sweep as H. rewrite forallb_forall in H. apply H. destruct F; simpl; tauto.
Qed.

(* for every format: the codec classes and the mixin use the same library functions (the model's ser_F / parse_F),
   the same dialect class - the one K41 reads - under the rule "merge the caller's dialect into it" *)
Theorem entry_points_alike : forall F,
  exists c m, assoc_fmt F source_codecs = Some c /\ assoc_fmt F source_mixins = Some m /\
    c_dec_rule c = rule_of F /\ c_enc_rule c = rule_of F /\
    c_dec_fn c = lib_parse F /\ m_dec_fn m = lib_parse F /\
    c_enc_fn c = lib_ser F /\ m_enc_fn m = lib_ser F /\
    m_pack_dialect m = dialect_class F /\ m_unpack_dialect m = dialect_class F /\
    assoc_fmt F k41_classes = dialect_class F /\
    m_pack_name m = pack_name F /\ m_unpack_name m = unpack_name F.
Proof.
  intro F. pose proof (entries_ok F) as H. unfold entries_okb in H.
  destruct (assoc_fmt F source_codecs) as [c|]; [|discriminate].
  destruct (assoc_fmt F source_mixins) as [m|]; [|discriminate].
  exists c, m.
  unfold centry_okb, mentry_okb in H.
  repeat match goal with H : _ && _ = true |- _ => apply andb_true_iff in H; destruct H end.
  repeat match goal with
         | H : drule_eqb _ _ = true |- _ => apply drule_eqb_eq in H
         | H : ostr_eqb _ _ = true |- _ => apply ostr_eqb_eq in H
         | H : String.eqb _ _ = true |- _ => apply String.eqb_eq in H
         end.
  repeat split; assumption.
Qed.

Lemma codec_rules F c : assoc_fmt F source_codecs = Some c -> c_dec_rule c = rule_of F /\ c_enc_rule c = rule_of F.
Proof.
  intro Hc. destruct (entry_points_alike F) as [c' [m [Hc' [_ [H1 [H2 _]]]]]].
  rewrite Hc in Hc'. inversion Hc'; subst c'. split; assumption.
Qed.

(* ------------------------------------------------------------------ *)
(* 2. the codec objects, as the program K40 emits, over the format model *)

Section Objects.
  Variable render : lkind -> string -> string.
  Variable parse_leaf : lkind -> string -> option string.
  Variable urender : nat -> lkind -> string -> string.
  Variable uparse : nat -> lkind -> string -> option string.
  Variable leaf_ok : lkind -> string -> bool.
  Variable E : env.
  Variable EN : enums.
  Variable doc : Type.
  Variable ser : fmt -> bv -> doc.
  Variable parse : fmt -> doc -> option bv.
  Variable leaf_repr : fmt -> lkind -> string -> bool.

  (* the one Python variable `value` of the generated function holds a document, then a tree, then an object *)
  Inductive uval := UDoc (d: doc) | UTree (b: bv) | UObj (v: pv) | UBad.

  Definition res_opt {A} (f: A -> uval) (r: res A) : option uval :=
    match r with Ok a => Some (f a) | Err _ => None end.

  (* pre_decoder_func = the library's loads, post_encoder_func = the library's dumps (K104a: lib_parse F / lib_ser F) *)
  Definition pre_of (F: fmt) (x: uval) : uval :=
    match x with
    | UDoc d => match parse F d with Some b => UTree b | None => UBad end
    | _ => UBad end.
  Definition post_of (F: fmt) (x: uval) : uval :=
    match x with UTree b => UDoc (ser F b) | _ => UBad end.
  (* the (un)packer expression over `value`, compiled under the builder's dialect *)
  Definition unpack_expr (ls: lsem) (t: ty) (x: uval) : option uval :=
    match x with UTree b => res_opt UObj (unpack parse_leaf uparse E EN ls b "" t) | _ => None end.
  Definition pack_expr (ls: lsem) (t: ty) (x: uval) : option uval :=
    match x with UObj v => res_opt UTree (pack render urender E EN ls v "" t) | _ => None end.

  (* <F>Decoder(t, default_dialect=X).decode / <F>Encoder(t, default_dialect=X).encode: the program of K40 with the
     function and the dialect rule of K104a's row c.  A library function is always handed over (b_codec = true);
     b_m says whether the expression happens to be a direct call of a method M. *)
  Definition decoder_obj (F: fmt) (c: centry) (X: udialect) (t: ty) (b_m: bool) (M: uval -> option uval) : uval -> option uval :=
    call uval uval (pre_of F) (post_of F) (unpack_expr (rule_lsem F (c_dec_rule c) X) t) M
         (install (decode_prog true b_m) None NotInstalled).
  Definition encoder_obj (F: fmt) (c: centry) (X: udialect) (t: ty) (b_m: bool) (M: uval -> option uval) : uval -> option uval :=
    call uval uval (pre_of F) (post_of F) (pack_expr (rule_lsem F (c_enc_rule c) X) t) M
         (install (encode_prog true b_m) None NotInstalled).

  (* Decoder object = Fmt.decode under the effective dialect  F's dialect (+) X  - what from_<F>(.., dialect=X) is *)
  Theorem decoder_obj_is_decode F c X t b_m M :
    assoc_fmt F source_codecs = Some c ->
    (b_m = true -> forall x, unpack_expr (rule_lsem F (c_dec_rule c) X) t x = M x) ->
    forall d, decoder_obj F c X t b_m M (UDoc d)
              = res_opt UObj (decode parse_leaf uparse E EN doc parse (eff_lsem F X) F t d).
  Proof.
    intros Hc HM d. unfold decoder_obj.
    rewrite (codec_decode_sem true b_m uval uval (pre_of F) (post_of F) _ M HM).
    destruct (codec_rules F c Hc) as [Hr _]. rewrite Hr, rule_lsem_model.
    unfold decode. simpl. destruct (parse F d); reflexivity.
  Qed.

  (* Encoder object = Fmt.encode under the same effective dialect - what to_<F>(dialect=X) is *)
  Theorem encoder_obj_is_encode F c X t b_m M :
    assoc_fmt F source_codecs = Some c ->
    (b_m = true -> forall x, pack_expr (rule_lsem F (c_enc_rule c) X) t x = M x) ->
    forall v, encoder_obj F c X t b_m M (UObj v)
              = res_opt UDoc (encode render urender E EN doc ser (eff_lsem F X) F t v).
  Proof.
    intros Hc HM v. unfold encoder_obj.
    rewrite (codec_encode_sem true b_m uval uval (pre_of F) (post_of F) _ M HM).
    destruct (codec_rules F c Hc) as [_ Hr]. rewrite Hr, rule_lsem_model.
    unfold encode. simpl. destruct (pack render urender E EN (eff_lsem F X) v "" t); reflexivity.
  Qed.

  Hypothesis leaf_law : forall k p, leaf_ok k p = true -> parse_leaf k (render k p) = Some p.
  Hypothesis user_law : forall u k p, leaf_ok k p = true -> uparse u k (urender u k p) = Some p.
  Hypothesis fmt_law : forall F b, representable leaf_repr F b = true -> parse F (ser F b) = Some (norm render F b).

  (* the property's first clause for the codec objects: decoding what the Encoder object wrote gives the value back *)
  Theorem codec_objects_roundtrip F c X t v bme bmd Me Md :
    assoc_fmt F source_codecs = Some c ->
    (bme = true -> forall x, pack_expr (rule_lsem F (c_enc_rule c) X) t x = Me x) ->
    (bmd = true -> forall x, unpack_expr (rule_lsem F (c_dec_rule c) X) t x = Md x) ->
    coherentb F (eff_lsem F X) = true ->
    in_subset render urender leaf_ok E EN leaf_repr (eff_lsem F X) F t v -> defaults_ok E (eff_lsem F X) ->
    forall x, encoder_obj F c X t bme Me (UObj v) = Some x -> decoder_obj F c X t bmd Md x = Some (UObj v).
  Proof.
    intros Hc HMe HMd Hco Hin Hdef x Hx.
    rewrite (encoder_obj_is_encode F c X t bme Me Hc HMe) in Hx.
    destruct (encode render urender E EN doc ser (eff_lsem F X) F t v) as [d|e] eqn:He; simpl in Hx; [|discriminate].
    inversion Hx; subst x.
    rewrite (decoder_obj_is_decode F c X t bmd Md Hc HMd).
    rewrite (roundtrip render parse_leaf urender uparse leaf_ok E EN leaf_law user_law doc ser parse leaf_repr fmt_law
               (eff_lsem F X) F t v d Hco Hin Hdef He).
    reflexivity.
  Qed.
End Objects.
