(* Universe for kernel K15: how a collection is serialized when its elements need no
   conversion -- by reference, by .copy(), or by a comprehension. *)
Inductive decision := DByRef | DCopy | DComp.
