(* C02 ("every entry point", format clause) / kernel K13C: the packers compiled for a call-time dialect are kept in one
   class attribute PER output format -- the attribute name is read off builder.py on every run (K13C.packer_cache_parts;
   the translation fails closed when the name does not contain self.format_name) -- so the document compiled for
   to_dict(dialect=D) can never be handed to the encoder of to_msgpack / to_jsonb / to_toml (dialect=D) or vice versa. *)
From Coq Require Import List Bool String.
From Verif Require Import DialectDoc.
Import ListNotations.

Lemma packer_cache_per_format : forall f1 f2,
  In f1 mixin_formats -> In f2 mixin_formats -> cache_name false f1 = cache_name false f2 -> f1 = f2.
Proof. intros f1 f2 H1 H2 E. exact (proj2 (cache_names_injective false f1 false f2 H1 H2 E)). Qed.

Lemma packer_cache_not_unpacker_cache : forall f1 f2,
  In f1 mixin_formats -> In f2 mixin_formats -> cache_name false f1 <> cache_name true f2.
Proof. intros f1 f2 H1 H2 E. destruct (cache_names_injective false f1 true f2 H1 H2 E) as [A _]. discriminate A. Qed.
