(* C04: the codec wrapper (mashumaro/codecs/_builder.py): instructions emitted by add_decode_method /
   add_encode_method (skeleton translated from /repo by tools/kernels/k40_codec_wrapper.py) and their meaning. *)
From Coq Require Import List Bool.
Import ListNotations.

Inductive cinstr :=
| IDef               (* def decode(value): / def encode(value): *)
| IPre               (* value = decoder(value) *)
| IReturnExpr        (* return <expression over value> *)
| IReturnPost        (* return encoder(<expression over value>) *)
| IInstallDef        (* setattr(obj, 'decode', decode) *)
| IInstallDirect.    (* setattr(obj, 'decode', <the method the expression calls>) *)

(* what ends up installed on the codec object *)
Inductive installed := NotInstalled | Def (body: list cinstr) | Direct.

(* executing the emitted module text: a def collects its body, setattr installs *)
Fixpoint install (prog: list cinstr) (cur: option (list cinstr)) (inst: installed) : installed :=
  match prog with
  | [] => inst
  | IDef :: r => install r (Some []) inst
  | IInstallDef :: r => install r cur (match cur with Some b => Def b | None => inst end)
  | IInstallDirect :: r => install r cur Direct
  | i :: r => install r (match cur with Some b => Some (b ++ [i]) | None => None end) inst
  end.

Section Sem.
  Variables (In Out: Type).
  Variable codec : In -> In.          (* decode: pre_decoder_func on the document (In = document/tree)   *)
  Variable post : Out -> Out.         (* encode: post_encoder_func on the packed value                     *)
  Variable E : In -> option Out.      (* the (un)packer expression over `value`                            *)
  Variable M : In -> option Out.      (* the method that expression calls when it is exactly `M(value)`    *)

  Fixpoint run_body (b: list cinstr) (value: In) : option Out :=
    match b with
    | [] => None                                   (* falls off the end: returns None *)
    | IPre :: r => run_body r (codec value)
    | IReturnExpr :: _ => E value
    | IReturnPost :: _ => option_map post (E value)
    | _ :: r => run_body r value
    end.

  Definition call (i: installed) (value: In) : option Out :=
    match i with
    | NotInstalled => None
    | Def b => run_body b value
    | Direct => M value
    end.
End Sem.

Definition cinstr_eqb (a b: cinstr) : bool :=
  match a, b with
  | IDef, IDef | IPre, IPre | IReturnExpr, IReturnExpr | IReturnPost, IReturnPost
  | IInstallDef, IInstallDef | IInstallDirect, IInstallDirect => true
  | _, _ => false end.

Fixpoint prog_eqb (a b: list cinstr) : bool :=
  match a, b with
  | [], [] => true
  | x :: r, y :: s => cinstr_eqb x y && prog_eqb r s
  | _, _ => false end.
