(* Model of CPython's datetime.timezone(timedelta(minutes=m)).tzname(None)
   (Lib/datetime.py, timezone._name_from_offset) for whole-minute offsets.
   Modelled, not verified: compared exhaustively with CPython on (-1440, 1440)
   by the correspondence step of check C01. *)
From Coq Require Import List String Ascii ZArith Bool.
Import ListNotations.
Open Scope string_scope.
Open Scope Z_scope.

Definition digit_char (d: Z) : ascii := ascii_of_nat (Z.to_nat (48 + d)).
Definition two_digits (n: Z) : string :=
  String (digit_char (n / 10)) (String (digit_char (n mod 10)) "").

Definition tzname (m: Z) : string :=
  if m =? 0 then "UTC"
  else
    let a := Z.abs m in
    "UTC" ++ (if m <? 0 then "-" else "+") ++ two_digits (a / 60) ++ ":" ++ two_digits (a mod 60).
