(* C12 - reference notions written from the README / property text, independent of the
   walk and of the registry: who is a subclass, who is eligible, who carries a tag. *)
From Coq Require Import List Arith Bool.
From Verif Require Import Discr.
Import ListNotations.

(* d is a direct subclass of c *)
Definition child (cl: list cls) (c d: nat) : Prop :=
  exists k, nth_error cl d = Some k /\ In c (c_parents k).

(* d is a strict (transitive) subclass of c *)
Inductive desc (cl: list cls) : nat -> nat -> Prop :=
| desc_child c d : child cl c d -> desc cl c d
| desc_step c d e : child cl c d -> desc cl d e -> desc cl c e.

Definition is_sub (cl: list cls) (s: site) (c: nat) : Prop :=
  s_sub s = true /\ exists b, In b (s_bases s) /\ desc cl b c.

(* include_subtypes => all transitive subclasses of a base; include_supertypes => the bases
   themselves (never for the class-level form); nothing else *)
Definition eligible (cl: list cls) (s: site) (c: nat) : Prop :=
  is_sub cl s c \/ (eff_sup s = true /\ In c (s_bases s)).

(* c is eligible and t is one of its own tags *)
Definition carries (cl: list cls) (s: site) (c: nat) (t: tag) : Prop :=
  eligible cl s c /\ exists k, nth_error cl c = Some k /\ In t (tags_of s k).

(* at most one eligible class carries t (only the decoded tag, only the classes defined so far) *)
Definition tag_unique (cl: list cls) (s: site) (t: tag) : Prop :=
  forall c1 c2, carries cl s c1 t -> carries cl s c2 t -> c1 = c2.

(* what the property demands of a decode of an input tagged t *)
Definition field_spec (cl: list cls) (s: site) (t: tag) (o: outcome) : Prop :=
  (forall c, o = OInst c <-> carries cl s c t)
  /\ (o = ONotFound <-> forall c, ~ carries cl s c t)
  /\ o <> OMissing /\ o <> OBadSite.

(* what the property demands in no-field mode (acceptance abstract) *)
Definition nofield_spec (acc: cls -> list nat -> bool) (cl: list cls) (s: site) (present: list nat) (o: outcome) : Prop :=
  let accepts c := acc (nth c cl dummy_cls) present = true in
  (forall c, o = OInst c ->
      eligible cl s c /\ accepts c
      /\ (is_sub cl s c \/ forall c', is_sub cl s c' -> ~ accepts c'))        (* subclasses before supertypes *)
  /\ (o = ONotFound <-> forall c, eligible cl s c -> ~ accepts c)
  /\ ((exists c, o = OInst c) \/ o = ONotFound)
  /\ o = match find (fun c => acc (nth c cl dummy_cls) present) (variants cl s) with   (* first that accepts, in walk order *)
         | Some c => OInst c | None => ONotFound end.
