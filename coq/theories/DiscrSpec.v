(* C12 - reference notions written from the README / property text, independent of the
   walk and of the registry: who is a subclass, who is eligible, who carries a tag. *)
From Coq Require Import List Arith Bool.
From Verif Require Import Discr.
Import ListNotations.

(* d is a direct subclass of c *)
Definition child (cl: list cls) (c d: nat) : Prop :=
  exists k, nth_error cl d = Some k /\ In c (c_parents k).

(* d is a strict (transitive) subclass of c *)
Inductive desc (cl: list cls) : nat -> nat -> Prop :=
| desc_child c d : child cl c d -> desc cl c d
| desc_step c d e : child cl c d -> desc cl d e -> desc cl c e.

Definition is_sub (cl: list cls) (s: site) (c: nat) : Prop :=
  s_sub s = true /\ exists b, In b (s_bases s) /\ desc cl b c.

(* include_subtypes => all transitive subclasses of a base; include_supertypes => the bases
   themselves (never for the class-level form); nothing else *)
Definition eligible (cl: list cls) (s: site) (c: nat) : Prop :=
  is_sub cl s c \/ (eff_sup s = true /\ In c (s_bases s)).

(* c is eligible and t is one of its own tags *)
Definition carries (cl: list cls) (s: site) (c: nat) (t: tag) : Prop :=
  eligible cl s c /\ exists k, nth_error cl c = Some k /\ In t (tags_of s k).

(* at most one eligible class carries t (only the decoded tag, only the classes defined so far) *)
Definition tag_unique (cl: list cls) (s: site) (t: tag) : Prop :=
  forall c1 c2, carries cl s c1 t -> carries cl s c2 t -> c1 = c2.

(* what the property demands of a decode of an input tagged t: the unique eligible class carrying t is SELECTED
   (and then accepts or rejects the input itself); SuitableVariantNotFound iff nobody carries t *)
Definition field_spec (acc: cls -> list nat -> verdict) (cl: list cls) (s: site) (t: tag) (present: list nat) (o: outcome) : Prop :=
  let v c := acc (nth c cl dummy_cls) present in
  (forall c, o = OInst c <-> carries cl s c t /\ v c = VAccept)
  /\ (forall c, o = ORej c <-> carries cl s c t /\ v c = VReject)
  /\ (o = ONotFound <-> forall c, ~ carries cl s c t)
  /\ o <> OMissing /\ o <> OBadSite /\ (forall c, o = OKeyErr c <-> carries cl s c t /\ v c = VKeyError)
  /\ (forall c, o = OAttrErr c <-> carries cl s c t /\ v c = VAttrError)
  /\ (forall cs, o <> OMany cs) /\ o <> ONotDict /\ o <> OCrash.

(* what the property demands in no-field mode (acceptance abstract) *)
Definition nofield_spec (acc: cls -> list nat -> verdict) (cl: list cls) (s: site) (present: list nat) (o: outcome) : Prop :=
  let accepts c := acc (nth c cl dummy_cls) present = VAccept in
  (forall c, o = OInst c ->
      eligible cl s c /\ accepts c
      /\ (is_sub cl s c \/ forall c', is_sub cl s c' -> ~ accepts c'))        (* subclasses before supertypes *)
  /\ (o = ONotFound <-> forall c, eligible cl s c -> ~ accepts c)
  /\ ((exists c, o = OInst c) \/ o = ONotFound)
  /\ o = match find (fun c => match acc (nth c cl dummy_cls) present with VAccept => true | _ => false end) (variants cl s) with
         | Some c => OInst c | None => ONotFound end.    (* first that accepts, in walk order *)

(* one from_dict call of a holder with several discriminated fields: every field is decided by ITS OWN site
   (own registry, own key, own tagger) - the sites do not interfere; the first failing field decides the error *)
Inductive seq_spec (acc: cls -> list nat -> verdict) (cl: list cls) (sites: list site) :
  list (nat * inkeys * list nat) -> list nat -> outcome -> Prop :=
| seq_nil done : seq_spec acc cl sites [] done (OMany (rev done))
| seq_ok i s inp present t c r done o :
    nth_error sites i = Some s -> assoc (s_fid s) inp = Some (Hashable t) ->
    field_spec acc cl s t present (OInst c) ->
    seq_spec acc cl sites r (c :: done) o ->
    seq_spec acc cl sites ((i, inp, present) :: r) done o
| seq_fail i s inp present t r done o :
    nth_error sites i = Some s -> assoc (s_fid s) inp = Some (Hashable t) ->
    field_spec acc cl s t present o -> (forall c, o <> OInst c) ->
    seq_spec acc cl sites ((i, inp, present) :: r) done o
| seq_missing i s inp present r done :
    nth_error sites i = Some s -> assoc (s_fid s) inp = None ->
    seq_spec acc cl sites ((i, inp, present) :: r) done OMissing
| seq_unhashable i s inp present r done :
    nth_error sites i = Some s -> assoc (s_fid s) inp = Some Unhashable ->
    seq_spec acc cl sites ((i, inp, present) :: r) done ONotFound.
