(* C05 over kernel K19: the union method that UnionUnpackerBuilder._add_body EMITS, executed with exception
   CLASSES, is Errs.union_run.

   coq/gen/K19.v is the emission loop of unpack.py translated to Gallina on every run (tools/kernels/
   k19_union_emit.py, property C11's kernel); UnionEmit.v gives its output vocabulary (lines).  C11 runs those
   lines with class-less failures (an exception = None).  C05 is about WHICH class leaves the method, so here the
   same lines get the class-faithful meaning: `try: ... except Exception: pass` swallows exactly the classes that
   derive from Exception (Errs.is_exception), an unguarded `return <expr>` lets everything through, the last line
   raises the method's own final exception.  emit_c_correct: for every member list the emitted program computes
   Errs.union_run of the members (the de-duplication of repeated (condition, expression) pairs done by the loop is
   invisible).  The second half instantiates it for the union positions of ErrsX (members = types of the TyModel
   grammar).  Definitions and proofs; the property theorems are in props/C05_emit.v. *)
From Coq Require Import List String Bool Arith Lia.
From Verif Require Import Core TupleIdx TyModel Errs ErrsTy ErrsX UnionModel UnionEmit K19Proofs.
From VerifGen Require Import K19.
Import ListNotations.
Open Scope list_scope.

Definition scalar_of (k: skind) : scalar :=
  match k with KInt => SInt | KFloat => SFloat | KBool => SBool | KStr => SStr | KNone => SNone end.

Section CRun.
  Variable sc : skind -> pv -> res pv.     (* the expression of a TypeMatchEligible member: int(value) ... / None *)
  Variable de : nat -> pv -> res pv.       (* the expression number e of any other member *)
  Variable final : exn.                    (* what the last line raises *)

  Definition expr_c (m: mspec) (v: pv) : res pv :=
    match m with SM k => sc k v | NM _ true _ => Ok v | NM e false _ => de e v end.

  Definition cond_c (c: cond) (v: pv) : bool :=
    match c with
    | CEmpty => true
    | CVt m | CTy m => match m with SM k => exact_scalar (scalar_of k) v | NM _ _ _ => false end
    end.

  (* Some r: the method is left with outcome r; None: control falls through to the next line *)
  Definition bline_c (b: bline) (v: pv) : option (res pv) :=
    match b with
    | BIfRet c => if cond_c c v then Some (Ok v) else None
    | BRet m => Some (expr_c m v)
    end.

  Fixpoint block_c (bs: list bline) (v: pv) : option (res pv) :=
    match bs with
    | [] => None
    | b :: r => match bline_c b v with Some o => Some o | None => block_c r v end
    end.

  (* try: <body> / except Exception: pass *)
  Definition guard (o: option (res pv)) : option (res pv) :=
    match o with
    | Some (Ok x) => Some (Ok x)
    | Some (Exn e) => if is_exception e then None else Some (Exn e)
    | None => None end.

  Definition line_c (l: line) (v: pv) : option (res pv) :=
    match l with
    | LPlain b => bline_c b v
    | LTry bs => guard (block_c bs v)
    | LTryRet m => guard (Some (expr_c m v))
    | LRaise => Some (Exn final)
    | LValueType => None
    end.

  (* a method that falls off its end returns None (never emitted: the last line is the raise) *)
  Fixpoint lines_c (ls: list line) (v: pv) : res pv :=
    match ls with
    | [] => Ok VNone
    | l :: r => match line_c l v with Some o => o | None => lines_c r v end
    end.

  (* the member of Errs.v a member spec stands for *)
  Definition um (m: mspec) : umember :=
    match m with
    | SM k => UExact (scalar_of k) (sc k)
    | NM _ true _ => UIdent
    | NM e false _ => UTry (de e)
    end.

  (* (condition, unpacker) pairs are compared as TEXTS by the loop: one expression text is either "value" or not *)
  Definition isval_by_key (ms: list mspec) : Prop :=
    forall e b d b' d', In (NM e b d) ms -> In (NM e b' d') ms -> b = b'.

  Lemma um_by_key : forall ms m m', isval_by_key ms -> In m ms -> In m' ms -> mk m = mk m' -> um m = um m'.
  Proof.
    intros ms [k|e b d] [k'|e' b' d'] H Hi Hi' Hk; unfold mk in Hk; simpl in Hk; try discriminate.
    - inversion Hk; reflexivity.
    - inversion Hk; subst e'. rewrite (H e b d b' d' Hi Hi'). reflexivity.
  Qed.

  Lemma first_cons : forall x r v,
    Errs.union_first (x :: r) v = match Errs.union_first [x] v with Some o => Some o | None => Errs.union_first r v end.
  Proof.
    intros [s c| |dec] r v; simpl.
    - destruct (exact_scalar s v); reflexivity.
    - reflexivity.
    - destruct (Errs.try_pass dec v); reflexivity.
  Qed.

  Lemma fb_cons : forall x r v,
    Errs.union_fallbacks (x :: r) v = match Errs.union_fallbacks [x] v with Some o => Some o | None => Errs.union_fallbacks r v end.
  Proof.
    intros [s c| |dec] r v; simpl; try reflexivity.
    destruct (Errs.try_pass c v); reflexivity.
  Qed.

  Lemma lines_c_app_none : forall l1 l2 v,
    (forall l, In l l1 -> line_c l v = None) -> lines_c (l1 ++ l2) v = lines_c l2 v.
  Proof.
    induction l1 as [|l r IH]; intros l2 v H; simpl; [reflexivity|].
    rewrite (H l (or_introl eq_refl)). apply IH. intros; apply H; right; assumption.
  Qed.

  (* pass 1: the lines of the members, in order *)
  Lemma pass1_c : forall tms D rest v,
    lines_c (map (line_for tms) D ++ rest) v =
    match Errs.union_first (map um D) v with Some r => r | None => lines_c rest v end.
  Proof.
    intros tms D rest v; induction D as [|m r IH]; [reflexivity|].
    change (map um (m :: r)) with (um m :: map um r). rewrite first_cons.
    destruct m as [k|e [|] dec]; simpl.
    - unfold cond_for; simpl. destruct (1 <? tms)%nat; simpl; destruct (exact_scalar (scalar_of k) v); solve [reflexivity | exact IH].
    - reflexivity.
    - unfold Errs.try_pass. destruct (de e v) as [x|ex]; simpl; [reflexivity|].
      destruct (is_exception ex); [exact IH | reflexivity].
  Qed.

  (* pass 2: the fallback expressions of the TypeMatchEligible members, then the raise *)
  Lemma pass2_c : forall D v,
    lines_c (map LTryRet (filter is_tme D) ++ [LRaise]) v =
    match Errs.union_fallbacks (map um D) v with Some r => r | None => Exn final end.
  Proof.
    induction D as [|m r IH]; intro v; [reflexivity|].
    change (map um (m :: r)) with (um m :: map um r). rewrite fb_cons.
    destruct m as [k|e [|] dec]; simpl; try apply IH.
    unfold Errs.try_pass. destruct (sc k v) as [x|ex]; simpl; [reflexivity|].
    destruct (is_exception ex); [apply IH | reflexivity].
  Qed.

  (* the loop skips a member whose (condition, expression) pair was already emitted: invisible, because a pair
     that is reached again has already fallen through once *)
  Lemma dd_first : forall v ms all seen,
    incl ms all -> isval_by_key all ->
    (forall m, In m all -> In (mk m) seen -> Errs.union_first [um m] v = None) ->
    Errs.union_first (map um (dd seen ms)) v = Errs.union_first (map um ms) v.
  Proof.
    intros v ms all; induction ms as [|m r IH]; intros seen Hin Hk Hs; [reflexivity|].
    assert (Hm: In m all) by (apply Hin; left; reflexivity).
    assert (Hr: incl r all) by (intros x Hx; apply Hin; right; exact Hx).
    simpl dd. change (map um (m :: r)) with (um m :: map um r). rewrite (first_cons (um m) (map um r)).
    destruct (existsb (mkey_eqb (mk m)) seen) eqn:E.
    - apply existsb_mk in E. rewrite (Hs m Hm E). apply IH; assumption.
    - change (map um (m :: dd (mk m :: seen) r)) with (um m :: map um (dd (mk m :: seen) r)).
      rewrite first_cons. destruct (Errs.union_first [um m] v) eqn:F; [reflexivity|].
      apply IH; try assumption.
      intros m' Hm' [He|Hi]; [|apply Hs; assumption].
      rewrite (um_by_key all m' m Hk Hm' Hm (eq_sym He)). exact F.
  Qed.

  Lemma dd_fb : forall v ms all seen,
    incl ms all -> isval_by_key all ->
    (forall m, In m all -> In (mk m) seen -> Errs.union_fallbacks [um m] v = None) ->
    Errs.union_fallbacks (map um (dd seen ms)) v = Errs.union_fallbacks (map um ms) v.
  Proof.
    intros v ms all; induction ms as [|m r IH]; intros seen Hin Hk Hs; [reflexivity|].
    assert (Hm: In m all) by (apply Hin; left; reflexivity).
    assert (Hr: incl r all) by (intros x Hx; apply Hin; right; exact Hx).
    simpl dd. change (map um (m :: r)) with (um m :: map um r). rewrite (fb_cons (um m) (map um r)).
    destruct (existsb (mkey_eqb (mk m)) seen) eqn:E.
    - apply existsb_mk in E. rewrite (Hs m Hm E). apply IH; assumption.
    - change (map um (m :: dd (mk m :: seen) r)) with (um m :: map um (dd (mk m :: seen) r)).
      rewrite fb_cons. destruct (Errs.union_fallbacks [um m] v) eqn:F; [reflexivity|].
      apply IH; try assumption.
      intros m' Hm' [He|Hi]; [|apply Hs; assumption].
      rewrite (um_by_key all m' m Hk Hm' Hm (eq_sym He)). exact F.
  Qed.

  (* the program emitted by the translated loop, run with exception classes, is the model's union *)
  Theorem emit_c_correct : forall ms v, isval_by_key ms ->
    lines_c (emit ms) v = Errs.union_run (map um ms) final v.
  Proof.
    intros ms v Hk. unfold emit.
    assert (Hok: seen_ok (count_tme ms) est0) by (intros c m []).
    destruct (fold_step (count_tme ms) ms est0 Hok) as [H1 H2]. simpl in H1, H2.
    rewrite H1, H2.
    rewrite lines_c_app_none.
    2:{ intros l Hl. destruct (1 <? count_tme ms)%nat; [destruct Hl as [<-|[]]; reflexivity | destruct Hl]. }
    rewrite pass1_c, pass2_c. unfold Errs.union_run.
    rewrite (dd_first v ms ms []), (dd_fb v ms ms []); try assumption; try apply incl_refl;
      try (intros m _ []).
    reflexivity.
  Qed.
End CRun.

(* members that behave alike give the same union *)
Definition um_eq (a b: umember) : Prop :=
  match a, b with
  | UExact s c, UExact s' c' => s = s' /\ forall v, c v = c' v
  | UIdent, UIdent => True
  | UTry d, UTry d' => forall v, d v = d' v
  | _, _ => False end.

Lemma union_run_ext : forall l1 l2 final v, Forall2 um_eq l1 l2 -> Errs.union_run l1 final v = Errs.union_run l2 final v.
Proof.
  intros l1 l2 final v H.
  assert (F: Errs.union_first l1 v = Errs.union_first l2 v).
  { induction H as [|a b r r' Hab _ IH]; [reflexivity|].
    destruct a as [s c| |d], b as [s' c'| |d']; simpl in Hab; try contradiction; simpl.
    - destruct Hab as [-> _]. rewrite IH. reflexivity.
    - reflexivity.
    - unfold Errs.try_pass. rewrite (Hab v), IH. reflexivity. }
  assert (G: Errs.union_fallbacks l1 v = Errs.union_fallbacks l2 v).
  { clear F. induction H as [|a b r r' Hab _ IH]; [reflexivity|].
    destruct a as [s c| |d], b as [s' c'| |d']; simpl in Hab; try contradiction; simpl.
    - destruct Hab as [_ Hc]. unfold Errs.try_pass. rewrite (Hc v), IH. reflexivity.
    - exact IH.
    - exact IH. }
  unfold Errs.union_run. rewrite F, G. reflexivity.
Qed.

(* ------------------------------------------------------------------ *)
(* the union positions of ErrsX: members are types of the TyModel grammar *)
Definition kind_of_sty (t: sty) : option skind :=
  match t with
  | SIntT => Some KInt | SFloatT => Some KFloat | SBoolT => Some KBool | SStrT => Some KStr | SNoneT => Some KNone
  | _ => None end.
Definition sty_of_kind (k: skind) : sty :=
  match k with KInt => SIntT | KFloat => SFloatT | KBool => SBoolT | KStr => SStrT | KNone => SNoneT end.
Definition is_any (t: sty) : bool := match t with SAny => true | _ => false end.

(* what the emission loop looks at: a TypeMatchEligible scalar, or the i-th member's own expression
   (typing has already removed repeated members; "value" is the expression of Any) *)
Definition xmspec (i: nat) (t: sty) : mspec :=
  match kind_of_sty t with Some k => SM k | None => NM i (is_any t) (fun _ => None) end.
Fixpoint xmspecs_from (i: nat) (ms: list sty) : list mspec :=
  match ms with [] => [] | t :: r => xmspec i t :: xmspecs_from (S i) r end.
Definition xmspecs (ms: list sty) : list mspec := xmspecs_from 0 ms.

Section XEmit.
  Variable E : senv.
  Variable Q : eprims.
  Variable CF : string -> tcfg.

  Definition x_sc (k: skind) (v: pv) : res pv := ue E Q CF v (cu true (sty_of_kind k)).
  Definition x_de (ms: list sty) (e: nat) (v: pv) : res pv :=
    match nth_error ms e with Some t => ue E Q CF v (cu true t) | None => Exn Core.XValueError end.

  Lemma xmspecs_um : forall ms pre,
    Forall2 um_eq (map (um x_sc (x_de (pre ++ ms)%list)) (xmspecs_from (List.length pre) ms)) (map (umember_of E Q CF) ms).
  Proof.
    induction ms as [|t r IH]; intro pre; [constructor|].
    simpl. constructor.
    - unfold xmspec. destruct t; simpl; try (split; [reflexivity | intro; reflexivity]); try exact I;
        intro v; unfold x_de; rewrite nth_error_app2 by lia; rewrite Nat.sub_diag; reflexivity.
    - specialize (IH (pre ++ [t])). rewrite <- app_assoc in IH. simpl in IH.
      rewrite app_length in IH. simpl in IH. rewrite Nat.add_1_r in IH. exact IH.
  Qed.

  Lemma xmspecs_from_nm : forall ms i e b d, In (NM e b d) (xmspecs_from i ms) ->
    exists t, nth_error ms (e - i) = Some t /\ i <= e /\ b = is_any t.
  Proof.
    induction ms as [|t r IH]; intros i e b d H; [destruct H|].
    simpl in H. destruct H as [H|H].
    - unfold xmspec in H. destruct (kind_of_sty t); [discriminate|]. inversion H; subst.
      exists t. rewrite Nat.sub_diag. repeat split; auto.
    - destruct (IH (S i) e b d H) as [t' [Hn [Hle Hb]]]. exists t'. repeat split; try lia; try exact Hb.
      replace (e - i) with (S (e - S i)) by lia. exact Hn.
  Qed.

  Lemma xmspecs_isval : forall ms, isval_by_key (xmspecs ms).
  Proof.
    intros ms e b d b' d' H H'. unfold xmspecs in *.
    destruct (xmspecs_from_nm ms 0 e b d H) as [t [Hn [_ Hb]]].
    destruct (xmspecs_from_nm ms 0 e b' d' H') as [t' [Hn' [_ Hb']]].
    rewrite Hn in Hn'. inversion Hn'; subst. reflexivity.
  Qed.

  (* a union position of the typed model IS the class-faithful run of the program the translated loop emits *)
  Theorem xunion_emitted : forall final ms v,
    xrun E Q CF final (XUnion ms) v = lines_c x_sc (x_de ms) (final v) (emit (xmspecs ms)) v.
  Proof.
    intros final ms v. cbn [xrun].
    rewrite (emit_c_correct x_sc (x_de ms) (final v) (xmspecs ms) v (xmspecs_isval ms)).
    symmetry. apply union_run_ext. exact (xmspecs_um ms []).
  Qed.
End XEmit.
