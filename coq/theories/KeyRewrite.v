(* C09 -- the rewrites a __pre_deserialize__ hook may perform on the input mapping (no dependency on
   anything translated from /repo; used by KeyHook.v and by the reference side of the correspondence) *)
From Coq Require Import List String Ascii ZArith Bool.
From Verif Require Import KeyModel.
Import ListNotations.
Open Scope string_scope.
Open Scope list_scope.

Inductive hookop :=
| HDrop (k: key)                 (* d.pop(k, None) *)
| HPut (k: key) (v: Z)           (* d[k] = v *)
| HRename (a b: key).            (* if a in d: d[b] = d.pop(a) *)

Fixpoint dremove (d: dict) (k: key) : dict :=
  match d with [] => [] | (k', v) :: r => if key_eqb k' k then dremove r k else (k', v) :: dremove r k end.

Fixpoint dset (d: dict) (k: key) (v: Z) : dict :=
  match d with
  | [] => [(k, v)]
  | (k', x) :: r => if key_eqb k' k then (k', v) :: r else (k', x) :: dset r k v
  end.

Definition apply_op (d: dict) (o: hookop) : dict :=
  match o with
  | HDrop k => dremove d k
  | HPut k v => dset d k v
  | HRename a b => match dget d a with Some v => dset (dremove d a) b v | None => d end
  end.

Definition apply_hook (h: option (list hookop)) (d: dict) : dict :=
  match h with Some ops => fold_left apply_op ops d | None => d end.

(* hooks: per class of the hierarchy (base-most first) the hook its body defines *)
Definition nearest_hook (hooks: list (option (list hookop))) : option (list hookop) :=
  fold_left (fun acc h => match h with Some _ => h | None => acc end) hooks None.

Theorem nearest_hook_app : forall hooks h,
  nearest_hook (hooks ++ [h]) = match h with Some _ => h | None => nearest_hook hooks end.
Proof. intros. unfold nearest_hook. rewrite fold_left_app. reflexivity. Qed.

Lemma keqb_eq : forall a b, key_eqb a b = true <-> a = b.
Proof.
  intros [x| |x] [y| |y]; cbn; split; intro H; try discriminate; try reflexivity.
  - apply String.eqb_eq in H. now subst.
  - inversion H. apply String.eqb_refl.
  - apply Z.eqb_eq in H. now subst.
  - inversion H. apply Z.eqb_refl.
Qed.

Lemma keqb_sym : forall a b, key_eqb a b = key_eqb b a.
Proof.
  intros a b. destruct (key_eqb a b) eqn:E.
  - apply keqb_eq in E. subst. symmetry. now apply keqb_eq.
  - destruct (key_eqb b a) eqn:E2; [|reflexivity]. apply keqb_eq in E2. subst.
    assert (key_eqb a a = true) by now apply keqb_eq. congruence.
Qed.

(* what the rewrites do to lookups *)
Lemma dget_dremove_same : forall d k, dget (dremove d k) k = None.
Proof.
  induction d as [|[k' v] r IH]; intro k; cbn [dremove dget]; [reflexivity|].
  destruct (key_eqb k' k) eqn:E; [apply IH|]. cbn [dget]. rewrite E. apply IH.
Qed.

Lemma dget_dremove_other : forall d k n, key_eqb k n = false -> dget (dremove d k) n = dget d n.
Proof.
  induction d as [|[k' v] r IH]; intros k n H; cbn [dremove dget]; [reflexivity|].
  destruct (key_eqb k' k) eqn:E.
  - apply keqb_eq in E. subst k'. rewrite H. now apply IH.
  - cbn [dget]. destruct (key_eqb k' n); [reflexivity | now apply IH].
Qed.

Lemma dget_dset : forall d k v n, dget (dset d k v) n = if key_eqb k n then Some v else dget d n.
Proof.
  induction d as [|[k' x] r IH]; intros k v n; cbn [dset dget].
  - reflexivity.
  - destruct (key_eqb k' k) eqn:E; cbn [dget].
    + apply keqb_eq in E. subst k'. destruct (key_eqb k n); reflexivity.
    + destruct (key_eqb k' n) eqn:E2.
      * apply keqb_eq in E2. subst k'. rewrite keqb_sym in E. now rewrite E.
      * apply IH.
Qed.

(* a key the hook moves is read under its new name: e.g. a legacy key renamed to the alias *)
Theorem rename_then_read : forall d a b v n,
  dget d a = Some v -> key_eqb a b = false ->
  dget (apply_op d (HRename a b)) n = if key_eqb b n then Some v else if key_eqb a n then None else dget d n.
Proof.
  intros d a b v n Ha Hab. cbn [apply_op]. rewrite Ha, dget_dset.
  destruct (key_eqb b n); [reflexivity|].
  destruct (key_eqb a n) eqn:E.
  - apply keqb_eq in E. subst n. apply dget_dremove_same.
  - now apply dget_dremove_other.
Qed.
