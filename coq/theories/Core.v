(* L0: Python value universe, type grammar, class table, oracle for stdlib
   primitives, and the CPython primitives the generated code relies on
   (modelled, not verified: exercised by the correspondence on every run). *)
From Coq Require Import List String Ascii ZArith Bool Lia.
Import ListNotations.
Open Scope string_scope.
Open Scope Z_scope.

(* ------------------------------------------------------------------ *)
(* floats: exact dyadic value, only copied / compared, never computed  *)
Inductive fl := FNum (m e: Z) | FNegZero | FInf (neg: bool) | FNan.

Definition fl_eqb (a b: fl) : bool :=
  match a, b with
  | FNum m e, FNum m' e' => (m =? m') && (e =? e')
  | FNegZero, FNegZero => true
  | FInf x, FInf y => Bool.eqb x y
  | FNan, FNan => true
  | _, _ => false end.

(* ------------------------------------------------------------------ *)
Inductive pv :=
| VNone
| VBool (b: bool)
| VInt (z: Z)
| VFloat (f: fl)
| VStr (s: string)
| VBytes (mut: bool) (b: string)
| VList (l: list pv)
| VTuple (l: list pv)
| VSet (frozen: bool) (l: list pv)          (* list = observed iteration order *)
| VDict (kvs: list (pv * pv))               (* insertion order *)
| VObj (c: string) (fs: list (string * pv)) (* dataclass instance, fields in class order *)
| VEnum (e: string) (m: string)             (* enum class, member name *)
| VLeaf (k: string) (w: string)             (* stdlib leaf value: kind + canonical text *)
| VNT (c: string) (items: list pv)          (* named tuple instance *)
| VOther (tag: string).                     (* anything else (opaque marker objects) *)

(* exceptions: Python classes that matter for which except-clause catches what *)
Inductive exn :=
| XValueError | XTypeError | XAttributeError | XKeyError | XIndexError
| XInvalidFieldValue (field: string) (value: pv) (holder: string)
| XMissingField (field: string) (holder: string)
| XExtraKeys (keys: list pv) (holder: string)
| XMissingDiscriminator (field: string)
| XNoVariant
| XOther (tag: string).

Inductive res (A: Type) := Ok (a: A) | Exn (e: exn).
Arguments Ok {A} a.
Arguments Exn {A} e.

Definition bind {A B} (r: res A) (f: A -> res B) : res B :=
  match r with Ok a => f a | Exn e => Exn e end.
Notation "x <- r ;; k" := (bind r (fun x => k)) (at level 61, r at next level, right associativity).

Definition is_attribute_error (e: exn) : bool := match e with XAttributeError => true | _ => false end.
Definition is_key_error (e: exn) : bool := match e with XKeyError => true | _ => false end.
Definition is_index_error (e: exn) : bool := match e with XIndexError => true | _ => false end.

Section MapM.
  Context {A B: Type} (f: A -> res B).
  Fixpoint mapM (l: list A) : res (list B) :=
    match l with
    | [] => Ok []
    | x :: r => match f x with
                | Ok y => match mapM r with Ok ys => Ok (y :: ys) | Exn e => Exn e end
                | Exn e => Exn e end
    end.
End MapM.

(* ------------------------------------------------------------------ *)
(* structural equality (used for comparison of results) and Python ==  *)

Section ListEq.
  Context {A: Type} (eq: A -> A -> bool).
  Fixpoint list_eqb (l1 l2: list A) : bool :=
    match l1, l2 with
    | [], [] => true
    | x :: r1, y :: r2 => eq x y && list_eqb r1 r2
    | _, _ => false end.
End ListEq.

Fixpoint pv_eqb (a b: pv) {struct a} : bool :=
  match a, b with
  | VNone, VNone => true
  | VBool x, VBool y => Bool.eqb x y
  | VInt x, VInt y => x =? y
  | VFloat x, VFloat y => fl_eqb x y
  | VStr x, VStr y => String.eqb x y
  | VBytes m x, VBytes m' y => Bool.eqb m m' && String.eqb x y
  | VList x, VList y => list_eqb pv_eqb x y
  | VTuple x, VTuple y => list_eqb pv_eqb x y
  | VSet f x, VSet f' y => Bool.eqb f f' && list_eqb pv_eqb x y
  | VDict x, VDict y =>
      (fix deq (l1 l2: list (pv * pv)) : bool :=
         match l1, l2 with
         | [], [] => true
         | (k1, v1) :: r1, (k2, v2) :: r2 => pv_eqb k1 k2 && pv_eqb v1 v2 && deq r1 r2
         | _, _ => false end) x y
  | VObj c x, VObj c' y =>
      String.eqb c c' &&
      (fix oeq (l1 l2: list (string * pv)) : bool :=
         match l1, l2 with
         | [], [] => true
         | (k1, v1) :: r1, (k2, v2) :: r2 => String.eqb k1 k2 && pv_eqb v1 v2 && oeq r1 r2
         | _, _ => false end) x y
  | VEnum e m, VEnum e' m' => String.eqb e e' && String.eqb m m'
  | VLeaf k w, VLeaf k' w' => String.eqb k k' && String.eqb w w'
  | VNT c x, VNT c' y => String.eqb c c' && list_eqb pv_eqb x y
  | VOther t, VOther t' => String.eqb t t'
  | _, _ => false
  end.

(* numeric value of int/bool/float as a dyadic rational m * 2^e (None: not a finite number) *)
Definition num_of (v: pv) : option (Z * Z) :=
  match v with
  | VBool b => Some ((if b then 1 else 0), 0)
  | VInt z => Some (z, 0)
  | VFloat (FNum m e) => Some (m, e)
  | VFloat FNegZero => Some (0, 0)
  | _ => None end.

Definition num_eqb (a b: Z * Z) : bool :=
  let '(m1, e1) := a in let '(m2, e2) := b in
  if e1 <=? e2 then m1 =? m2 * 2 ^ (e2 - e1) else m1 * 2 ^ (e1 - e2) =? m2.

(* Python == on the value universe (numbers compare across int/bool/float) *)
Fixpoint py_eq (a b: pv) {struct a} : bool :=
  match num_of a, num_of b with
  | Some x, Some y => num_eqb x y
  | Some _, None | None, Some _ =>
      match a, b with
      | VFloat (FInf x), VFloat (FInf y) => Bool.eqb x y
      | _, _ => false end
  | None, None =>
    match a, b with
    | VNone, VNone => true
    | VFloat (FInf x), VFloat (FInf y) => Bool.eqb x y
    | VFloat FNan, _ => false
    | VStr x, VStr y => String.eqb x y
    | VBytes _ x, VBytes _ y => String.eqb x y
    | VList x, VList y => list_eqb py_eq x y
    | VTuple x, VTuple y => list_eqb py_eq x y
    | VNT _ x, VNT _ y => list_eqb py_eq x y
    | VNT _ x, VTuple y => list_eqb py_eq x y
    | VTuple x, VNT _ y => list_eqb py_eq x y
    | VSet _ x, VSet _ y =>
        forallb (fun u => existsb (py_eq u) y) x && (Nat.eqb (List.length x) (List.length y))
    | VDict x, VDict y =>
        Nat.eqb (List.length x) (List.length y) &&
        (fix sub (l: list (pv * pv)) : bool :=
           match l with
           | [] => true
           | (k, v) :: r =>
               existsb (fun kv' => match kv' with (k', v') => pv_eqb k k' && py_eq v v' end) y && sub r
           end) x
    | VObj c x, VObj c' y =>
        String.eqb c c' &&
        (fix oeq (l1 l2: list (string * pv)) : bool :=
           match l1, l2 with
           | [], [] => true
           | (k1, v1) :: r1, (k2, v2) :: r2 => String.eqb k1 k2 && py_eq v1 v2 && oeq r1 r2
           | _, _ => false end) x y
    | VEnum e m, VEnum e' m' => String.eqb e e' && String.eqb m m'
    | VLeaf k w, VLeaf k' w' => String.eqb k k' && String.eqb w w'
    | VOther t, VOther t' => String.eqb t t'
    | _, _ => false
    end
  end.

Definition truthy (v: pv) : bool :=
  match v with
  | VNone => false
  | VBool b => b
  | VInt z => negb (z =? 0)
  | VFloat (FNum m _) => negb (m =? 0)
  | VFloat FNegZero => false
  | VFloat _ => true
  | VStr s => negb (String.eqb s "")
  | VBytes _ b => negb (String.eqb b "")
  | VList l | VTuple l | VSet _ l | VNT _ l => match l with [] => false | _ => true end
  | VDict l => match l with [] => false | _ => true end
  | _ => true
  end.

Definition is_none (v: pv) : bool := match v with VNone => true | _ => false end.

(* ------------------------------------------------------------------ *)
(* dicts: insertion-ordered, keys compared with Python == (hash-consistent) *)

Fixpoint d_lookup (kvs: list (pv * pv)) (k: pv) : option pv :=
  match kvs with
  | [] => None
  | (k', v) :: r => if py_eq k' k then Some v else d_lookup r k end.

Fixpoint d_insert (kvs: list (pv * pv)) (k v: pv) : list (pv * pv) :=
  match kvs with
  | [] => [(k, v)]
  | (k', x) :: r => if py_eq k' k then (k', v) :: r else (k', x) :: d_insert r k v end.

Definition dict_of_pairs (l: list (pv * pv)) : list (pv * pv) :=
  fold_left (fun acc kv => d_insert acc (fst kv) (snd kv)) l [].

Fixpoint s_insert (l: list pv) (x: pv) : list pv :=
  match l with
  | [] => [x]
  | y :: r => if py_eq y x then y :: r else y :: s_insert r x end.
Definition set_of_list (l: list pv) : list pv := fold_left s_insert l [].

(* hashability of a value (needed for dict keys / set elements) *)
Fixpoint hashable (v: pv) : bool :=
  match v with
  | VList _ | VDict _ | VSet false _ | VBytes true _ => false
  | VTuple l | VNT _ l => forallb hashable l
  | VObj _ _ => false          (* plain (eq=True, non-frozen) dataclasses are unhashable *)
  | _ => true end.

(* ------------------------------------------------------------------ *)
(* UTF-8 aware iteration of a str: one element per code point          *)
Fixpoint utf8_chars_aux (s: string) (cur: string) (acc: list string) : list string :=
  match s with
  | EmptyString => rev (if String.eqb cur "" then acc else cur :: acc)
  | String c r =>
      let n := nat_of_ascii c in
      if ((128 <=? n) && (n <? 192))%nat       (* continuation byte *)
      then utf8_chars_aux r (cur ++ String c "") acc
      else utf8_chars_aux r (String c "") (if String.eqb cur "" then acc else cur :: acc)
  end.
Definition utf8_chars (s: string) : list string := utf8_chars_aux s "" [].

Definition byte_vals (s: string) : list pv :=
  (fix go (s: string) : list pv :=
     match s with EmptyString => [] | String c r => VInt (Z.of_nat (nat_of_ascii c)) :: go r end) s.

(* iter(v): what a comprehension `for value in v` sees *)
Definition py_iter (v: pv) : res (list pv) :=
  match v with
  | VList l | VTuple l | VSet _ l | VNT _ l => Ok l
  | VStr s => Ok (map VStr (utf8_chars s))
  | VBytes _ b => Ok (byte_vals b)
  | VDict kvs => Ok (map fst kvs)
  | _ => Exn XTypeError
  end.

(* v.items() *)
Definition py_items (v: pv) : res (list (pv * pv)) :=
  match v with
  | VDict kvs => Ok kvs
  | _ => Exn XAttributeError end.

(* v[i] with a constant, possibly negative, index *)
Definition nth_signed {A} (l: list A) (i: Z) : option A :=
  let n := Z.of_nat (List.length l) in
  let j := if i <? 0 then n + i else i in
  if (j <? 0) || (n <=? j) then None else nth_error l (Z.to_nat j).

Definition py_index (v: pv) (i: Z) : res pv :=
  match v with
  | VList l | VTuple l | VNT _ l =>
      match nth_signed l i with Some x => Ok x | None => Exn XIndexError end
  | VStr s => match nth_signed (utf8_chars s) i with Some c => Ok (VStr c) | None => Exn XIndexError end
  | VBytes _ b => match nth_signed (byte_vals b) i with Some c => Ok c | None => Exn XIndexError end
  | VDict kvs => match d_lookup kvs (VInt i) with Some x => Ok x | None => Exn XKeyError end
  | _ => Exn XTypeError
  end.

(* v[i:j] on sequences, j = None means "to the end"; Python clamps *)
Definition clampi (n i: Z) : Z :=
  let j := if i <? 0 then n + i else i in
  if j <? 0 then 0 else if n <? j then n else j.

Definition slice_list {A} (l: list A) (i: Z) (j: option Z) : list A :=
  let n := Z.of_nat (List.length l) in
  let a := clampi n i in
  let b := match j with Some j' => clampi n j' | None => n end in
  if b <=? a then [] else firstn (Z.to_nat (b - a)) (skipn (Z.to_nat a) l).

Definition py_slice (v: pv) (i: Z) (j: option Z) : res pv :=
  match v with
  | VList l => Ok (VList (slice_list l i j))
  | VTuple l | VNT _ l => Ok (VTuple (slice_list l i j))
  | VStr s => Ok (VStr (String.concat "" (slice_list (utf8_chars s) i j)))
  | VDict _ => Exn XKeyError          (* unhashable slice -> TypeError on 3.11-, KeyError on 3.12 *)
  | _ => Exn XTypeError
  end.

(* v[key] with a str key (TypedDict / named tuple as dict / discriminator) *)
Definition py_getitem_str (v: pv) (k: string) : res pv :=
  match v with
  | VDict kvs => match d_lookup kvs (VStr k) with Some x => Ok x | None => Exn XKeyError end
  | VList _ | VTuple _ | VStr _ | VBytes _ _ | VNT _ _ => Exn XTypeError
  | _ => Exn XTypeError
  end.

(* v.get(key, MISSING): None = MISSING *)
Definition py_get (v: pv) (k: string) : res (option pv) :=
  match v with
  | VDict kvs => Ok (d_lookup kvs (VStr k))
  | _ => Exn XAttributeError end.

(* ------------------------------------------------------------------ *)
(* oracle: behaviour of stdlib primitives the model does not compute.
   Theorems quantify over every oracle; where a law is needed it is an
   explicit hypothesis.  In case files it is a finite table filled by the
   harness from CPython. *)
Record oracle := {
  o_render : string -> string -> pv;          (* leaf kind, canonical text  -> basic form *)
  o_parse  : string -> pv -> res string;      (* leaf kind, basic-form input -> canonical text *)
  o_int    : pv -> res Z;                     (* int(x) on inputs other than int/bool *)
  o_float  : pv -> res fl;                    (* float(x) on inputs other than float *)
  o_str    : pv -> res string;                (* str(x) on inputs other than str *)
  o_b64enc : string -> string;                (* encodebytes(b).decode() *)
  o_b64dec : pv -> res string;                (* decodebytes(x.encode()) *)
  o_call   : string -> pv -> res pv           (* other foreign method calls, by primitive name *)
}.

(* scalar coercions *)
Inductive scalar := SInt | SFloat | SBool | SStr | SNone.

Definition scalar_eqb (a b: scalar) : bool :=
  match a, b with SInt, SInt | SFloat, SFloat | SBool, SBool | SStr, SStr | SNone, SNone => true | _, _ => false end.

(* type(value) is T *)
Definition exact_scalar (s: scalar) (v: pv) : bool :=
  match s, v with
  | SInt, VInt _ | SFloat, VFloat _ | SBool, VBool _ | SStr, VStr _ | SNone, VNone => true
  | _, _ => false end.

Definition coerce (o: oracle) (s: scalar) (v: pv) : res pv :=
  match s with
  | SInt => match v with
            | VInt z => Ok (VInt z)
            | VBool b => Ok (VInt (if b then 1 else 0))
            | _ => z <- o.(o_int) v ;; Ok (VInt z) end
  | SFloat => match v with
              | VFloat f => Ok (VFloat f)
              | _ => f <- o.(o_float) v ;; Ok (VFloat f) end
  | SBool => Ok (VBool (truthy v))
  | SStr => match v with
            | VStr s => Ok (VStr s)
            | _ => s <- o.(o_str) v ;; Ok (VStr s) end
  | SNone => Ok VNone
  end.

(* ------------------------------------------------------------------ *)
(* type grammar *)
Inductive lit := LInt (z: Z) | LStr (s: string) | LBool (b: bool) | LNone | LBytes (b: string) | LEnum (e m: string).

Inductive ty :=
| TAny | TNone | TInt | TFloat | TBool | TStr
| TBytes | TBytearray
| TLeaf (k: string)
| TEnum (e: string)
| TList (t: ty) | TSeq (t: ty) | TDeque (t: ty)
| TSet (frozen: bool) (t: ty)
| TTupleVar (t: ty)
| TTupleFix (ts: list ty)
| TDict (kt vt: ty)
| TOpt (t: ty)
| TUnion (ts: list ty)
| TLit (ls: list lit)
| TData (c: string)
| TPass (t: ty).            (* position overridden by pass_through *)

(* leaf kinds and the primitive that renders them *)
Inductive pprim := PIso | PTotalSeconds | PTzname | PStr | PFspath | PPattern.

Definition pprim_eqb (a b: pprim) : bool :=
  match a, b with
  | PIso, PIso | PTotalSeconds, PTotalSeconds | PTzname, PTzname | PStr, PStr
  | PFspath, PFspath | PPattern, PPattern => true
  | _, _ => false end.

Definition str_in (s: string) (l: list string) : bool := existsb (String.eqb s) l.

Definition iso_kinds := ["datetime"; "date"; "time"].
Definition path_kinds := ["PurePath"; "PurePosixPath"; "PureWindowsPath"; "Path"; "PosixPath"; "WindowsPath"].

Definition prim_of_kind (k: string) : pprim :=
  if str_in k iso_kinds then PIso
  else if String.eqb k "timedelta" then PTotalSeconds
  else if String.eqb k "timezone" then PTzname
  else if str_in k path_kinds then PFspath
  else if String.eqb k "Pattern" then PPattern
  else PStr.

Definition prim_name (p: pprim) : string :=
  match p with PIso => "isoformat" | PTotalSeconds => "total_seconds" | PTzname => "tzname"
             | PStr => "str" | PFspath => "fspath" | PPattern => "pattern" end.

(* applying a rendering primitive to an arbitrary value *)
Definition apply_pprim (o: oracle) (p: pprim) (v: pv) : res pv :=
  match p, v with
  | PStr, VStr s => Ok (VStr s)
  | PStr, VLeaf k w => if pprim_eqb (prim_of_kind k) PStr then Ok (o.(o_render) k w)
                       else s <- o.(o_str) v ;; Ok (VStr s)
  | PStr, _ => s <- o.(o_str) v ;; Ok (VStr s)
  | _, VLeaf k w => if pprim_eqb (prim_of_kind k) p then Ok (o.(o_render) k w)
                    else o.(o_call) (prim_name p) v
  | _, _ => o.(o_call) (prim_name p) v
  end.

(* ------------------------------------------------------------------ *)
(* class table *)
Inductive tri := Unset | TFalse | TTrue.
Definition tri_eqb (a b: tri) : bool :=
  match a, b with Unset, Unset | TFalse, TFalse | TTrue, TTrue => true | _, _ => false end.

Inductive fdefault := DNo | DVal (v: pv) | DFactory (v: pv).

Record field := {
  f_name : string;
  f_ty : ty;
  f_default : fdefault;
  f_alias : option string;        (* resolved by K4: metadata > Annotated Alias > Config.aliases *)
  f_init : bool;
  f_kw_only : bool;
  f_omit : bool;                  (* metadata serialize="omit" *)
}.

Record dialect := {
  d_id : nat;                     (* identity, for cache keys *)
  d_omit_none : tri;
  d_omit_default : tri;
  d_by_alias : tri;
  d_nt_as_dict : tri;
  d_no_copy : option (list string);   (* origin names: "list" "dict" "set" ... *)
}.

Record config := {
  g_omit_none : tri;
  g_omit_default : tri;
  g_by_alias : tri;
  g_nt_as_dict : tri;
  g_dialect : option dialect;
  g_flag_omit_none : bool;        (* TO_DICT_ADD_OMIT_NONE_FLAG *)
  g_flag_by_alias : bool;         (* TO_DICT_ADD_BY_ALIAS_FLAG *)
  g_flag_dialect : bool;          (* ADD_DIALECT_SUPPORT *)
  g_flag_context : bool;          (* ADD_SERIALIZATION_CONTEXT *)
  g_sort_keys : bool;
  g_forbid_extra : bool;
  g_allow_not_by_alias : bool;
  g_discr_field : option string;  (* discriminator field declared in this class or an ancestor (accepted key) *)
}.

Record cls := {
  c_name : string;
  c_fields : list field;          (* type-hint order *)
  c_cfg : config;
  c_pre_ser : bool; c_post_ser : bool; c_pre_de : bool; c_post_de : bool;
}.

Definition env := list cls.

Fixpoint find_cls (E: env) (n: string) : option cls :=
  match E with
  | [] => None
  | c :: r => if String.eqb c.(c_name) n then Some c else find_cls r n end.

Fixpoint assoc {A} (l: list (string * A)) (k: string) : option A :=
  match l with
  | [] => None
  | (k', v) :: r => if String.eqb k' k then Some v else assoc r k end.

Definition opt_default {A} (o: option A) (d: A) : A := match o with Some x => x | None => d end.
