(* C11 / kernel K22: vocabulary and semantics of the lines that LiteralUnpackerBuilder._add_body
   (unpack.py) and pack_literal (pack.py) emit.  The two loops are translated on every run
   (coq/gen/K22.v, tools/kernels/k22_literal_emit.py); K22Proofs.v proves that the emitted methods
   compute UnionModel.lit_dec / lit_enc. *)
From Coq Require Import List Bool ZArith String.
From Verif Require Import UnionModel.
Import ListNotations.

(* the isinstance tests of the loops *)
Definition is_enum_lit (l: lit) : bool := match l with LEnum _ _ => true | _ => false end.
Definition is_bytes_lit (l: lit) : bool := match l with LBytes _ => true | _ => false end.
Definition is_plain_lit (l: lit) : bool :=                      (* (int, str, bool, NoneType) *)
  match l with LInt _ | LBool _ | LStr _ | LNone => true | _ => false end.
Definition is_plain_or_bytes_lit (l: lit) : bool := is_plain_lit l || is_bytes_lit l.   (* (int, str, bytes, bool, NoneType) *)

Inductive uline :=
| ULEnum (l: lit)      (* if value.__class__ is E[name].value.__class__ and value == E[name].value: return E[name] *)
| ULBytes (l: lit)     (* try: if <bytes unpacker> == <repr>: return <repr> / except Exception: pass *)
| ULPlain (l: lit)     (* if value.__class__ is (<repr>).__class__ and value == <repr>: return <repr> *)
| ULRaise.

Inductive kline :=
| KLEnum (l: lit)      (* if value.__class__ is E and value == E[name]: return <packer of E> *)
| KLPlain (l: lit)     (* if value.__class__ is (<repr>).__class__ and value == <repr>: return <packer of type(lit)> *)
| KLRaise.

Section RunLit.
  Variable bdec benc : uv -> option uv.

  Definition cls_eq (v w: uv) : bool := same_class v w && py_eq v w.

  (* Some r: the method returns / raises with outcome r; None: falls through *)
  Definition run_uline (l: uline) (v: uv) : option (option uv) :=
    match l with
    | ULEnum x | ULPlain x => if cls_eq v (lit_wire x) then Some (Some (lit_const x)) else None
    | ULBytes x => match bdec v with
                   | Some y => if uv_eqb y (lit_const x) then Some (Some (lit_const x)) else None
                   | None => None end
    | ULRaise => Some None
    end.

  Fixpoint run_ulines (ls: list uline) (v: uv) : option uv :=
    match ls with
    | [] => None
    | l :: r => match run_uline l v with Some o => o | None => run_ulines r v end
    end.

  Definition run_kline (l: kline) (v: uv) : option (option uv) :=
    match l with
    | KLEnum x | KLPlain x => if cls_eq v (lit_const x) then Some (lit_pout benc v x) else None
    | KLRaise => Some None
    end.

  Fixpoint run_klines (ls: list kline) (v: uv) : option uv :=
    match ls with
    | [] => None
    | l :: r => match run_kline l v with Some o => o | None => run_klines r v end
    end.
End RunLit.
