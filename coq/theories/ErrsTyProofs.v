(* Proofs about the error-faithful typed unpackers (ErrsTy.v). *)
From Coq Require Import List String Ascii ZArith Bool Lia.
From Verif Require Import Core TupleIdx TyModel TyProofs Errs ErrsProofs ErrsTy.
Import ListNotations.
Open Scope string_scope.
Open Scope list_scope.

Section Typed.
  Variable E : senv.
  Variable Q : eprims.
  Variable CF : string -> tcfg.

  Lemma look_d_lookup {D} (g: pv -> D) (kvs: list (pv * pv)) n :
    look (map (fun p => match p with (key, x) => (key, g x) end) kvs) n = option_map g (d_lookup kvs (VStr n)).
  Proof.
    induction kvs as [|[key x] kvs IH]; [reflexivity|].
    cbn [map look d_lookup]. destruct (py_eq key (VStr n)); [reflexivity | exact IH].
  Qed.

  Lemma sfind_name kd c k : sfind E kd c = Some k -> sc_name k = c.
  Proof.
    induction E as [|x E' IH]; cbn [sfind]; [discriminate|].
    destruct (ckind_eqb (sc_kind x) kd && String.eqb (sc_name x) c) eqn:Eq.
    - intros H. inversion H; subst. apply andb_prop in Eq. destruct Eq as [_ Eq].
      apply String.eqb_eq. exact Eq.
    - exact IH.
  Qed.

  (* the two-step key read of the typed interpreter is Errs.lookup_field *)
  Lemma look2_lookup_field {D} (g: pv -> D) kvs cf f :
    match look (map (fun p => match p with (key, x) => (key, g x) end) kvs) (f_key cf f) with
    | Some p => Some p
    | None => match f_key2 cf f with
              | Some k2 => look (map (fun p => match p with (key, x) => (key, g x) end) kvs) k2
              | None => None end
    end = option_map g (lookup_field kvs (fspec_of E Q CF cf f)).
  Proof.
    unfold lookup_field. cbn [fspec_of fs_key fs_key2]. rewrite !look_d_lookup.
    destruct (d_lookup kvs (VStr (f_key cf f))); cbn [option_map]; [reflexivity|].
    destruct (f_key2 cf f); [rewrite look_d_lookup|]; reflexivity.
  Qed.

  (* the field loop of the typed interpreter is the field loop of Errs.v *)
  Lemma ue_fields kvs c cf fds :
    (fix go (fds: list sfield) : res (list (string * pv)) :=
       match fds with
       | [] => Ok []
       | f :: rest =>
           y <- match (match look (map (fun p => match p with (key, x) => (key, (x, ue E Q CF x)) end) kvs) (f_key cf f) with
                       | Some p => Some p
                       | None => match f_key2 cf f with
                                 | Some k2 => look (map (fun p => match p with (key, x) => (key, (x, ue E Q CF x)) end) kvs) k2
                                 | None => None end
                       end) with
                | Some (x, dx) =>
                    if is_none x && sfield_nullable f then Ok VNone
                    else match dx (cu false (sf_ty f)) with
                         | Ok y => Ok y
                         | Exn _ => Exn (XInvalidFieldValue (sf_name f) x c) end
                | None => match sf_default f with
                          | Some dv => Ok dv
                          | None => Exn (XMissingField (sf_name f) c) end
                end ;;
           tl <- go rest ;; Ok ((sf_name f, y) :: tl)
       end) fds
    = match first_bad kvs (map (fspec_of E Q CF cf) fds) with
      | Some (f, b) => Exn (exn_of_bad c f b)
      | None => Ok (map (fun f => (fs_name f, good_value kvs f)) (map (fspec_of E Q CF cf) fds)) end.
  Proof.
    induction fds as [|f rest IH]; [reflexivity|].
    cbn [map first_bad]. rewrite IH. clear IH.
    rewrite (look2_lookup_field (fun x => (x, ue E Q CF x))).
    unfold field_bad, good_value.
    destruct (lookup_field kvs (fspec_of E Q CF cf f)) as [x|]; cbn [option_map].
    - cbn [fs_ident fspec_of fs_nullable fs_dec fs_name]. rewrite (andb_comm (is_none x)).
      destruct (sfield_nullable f && is_none x).
      + cbn [bind]. destruct (first_bad kvs (map (fspec_of E Q CF cf) rest)) as [[g b]|]; reflexivity.
      + destruct (ue E Q CF x (cu false (sf_ty f))) as [y|e]; cbn [bind]; [|reflexivity].
        destruct (first_bad kvs (map (fspec_of E Q CF cf) rest)) as [[g b]|]; reflexivity.
    - unfold Errs.has_default. cbn [fspec_of fs_default fs_name].
      destruct (sf_default f) as [dv|]; cbn [bind opt_default]; [|reflexivity].
      destruct (first_bad kvs (map (fspec_of E Q CF cf) rest)) as [[g b]|]; reflexivity.
  Qed.

  Lemma cspec_plain k : plain (cspec_of E Q CF k).
  Proof. split; reflexivity. Qed.

  Lemma allowed_of_cspec k :
    allowed_keys (cspec_of E Q CF k) = allowed_of (CF (sc_name k)) (sc_fields k).
  Proof.
    unfold allowed_keys, allowed_of. cbn [cspec_of cs_fields cs_discr_keys]. rewrite app_nil_r.
    induction (sc_fields k) as [|f r IH]; [reflexivity|].
    cbn [map flat_map]. rewrite IH. reflexivity.
  Qed.

  Lemma extras_of_cspec k kvs :
    extra_keys (cspec_of E Q CF k) kvs = extras_of (CF (sc_name k)) (sc_fields k) kvs.
  Proof.
    unfold extra_keys, extras_of, key_allowed. rewrite allowed_of_cspec. reflexivity.
  Qed.

  (* LINK: a dataclass position of the typed interpreter IS Errs.from_dict of that class (its Config included)
     with the typed unpackers as field decoders *)
  Theorem ue_data_from_dict : forall c k d, sfind E KData c = Some k ->
    ue E Q CF d (UData c) = from_dict (cspec_of E Q CF k) d.
  Proof.
    intros c k d Hf. pose proof (sfind_name _ _ _ Hf) as Hn.
    destruct d; try (cbn [ue]; rewrite Hf; symmetry; apply from_dict_nonmapping; [apply cspec_plain|reflexivity]).
    cbn [ue]. rewrite Hf.
    rewrite from_dict_dict by apply cspec_plain.
    rewrite extras_of_cspec. cbn [cspec_of cs_forbid_extra cs_fields cs_name]. rewrite Hn.
    destruct (tc_forbid (CF c) && negb match extras_of (CF c) (sc_fields k) kvs with [] => true | _ :: _ => false end);
      [reflexivity|].
    rewrite ue_fields.
    destruct (first_bad kvs (map (fspec_of E Q CF (CF c)) (sc_fields k))) as [[f b]|]; [reflexivity|].
    cbn [bind]. unfold good_instance. cbn [cspec_of cs_name cs_fields]. rewrite Hn. reflexivity.
  Qed.

  (* hence every C05 statement of the field-loop level holds for typed schemas, at every nesting depth *)
  Theorem typed_outcomes : forall c k d, sfind E KData c = Some k ->
    documented (cspec_of E Q CF k) d (ue E Q CF d (UData c)).
  Proof. intros c k d Hf. rewrite (ue_data_from_dict _ _ _ Hf). apply outcomes. apply cspec_plain. Qed.

  Theorem typed_first_bad : forall c k kvs pre f post b, sfind E KData c = Some k ->
    map (fspec_of E Q CF (CF c)) (sc_fields k) = pre ++ f :: post ->
    (tc_forbid (CF c) = true -> extras_of (CF c) (sc_fields k) kvs = []) ->
    Forall (fun g => field_bad kvs g = None) pre -> field_bad kvs f = Some b ->
    ue E Q CF (VDict kvs) (UData c) = Exn (exn_of_bad c f b).
  Proof.
    intros c k kvs pre f post b Hf Hs Hx Hp Hb. rewrite (ue_data_from_dict _ _ _ Hf).
    pose proof (sfind_name _ _ _ Hf) as Hn. rewrite <- Hn.
    apply (first_bad_decides (cspec_of E Q CF k) kvs pre f post b); auto.
    - apply cspec_plain.
    - cbn [cspec_of cs_fields]. rewrite Hn. exact Hs.
    - rewrite extras_of_cspec. cbn [cspec_of cs_forbid_extra]. rewrite Hn. exact Hx.
  Qed.

  Theorem typed_extra_exact : forall c k kvs, sfind E KData c = Some k ->
    tc_forbid (CF c) = true -> extras_of (CF c) (sc_fields k) kvs <> [] ->
    ue E Q CF (VDict kvs) (UData c) = Exn (XExtraKeys (extras_of (CF c) (sc_fields k) kvs) c).
  Proof.
    intros c k kvs Hf Hfb Hx. rewrite (ue_data_from_dict _ _ _ Hf).
    pose proof (sfind_name _ _ _ Hf) as Hn.
    rewrite (extra_exact (cspec_of E Q CF k) kvs (cspec_plain k)).
    - rewrite extras_of_cspec. cbn [cspec_of cs_name]. rewrite Hn. reflexivity.
    - cbn [cspec_of cs_forbid_extra]. rewrite Hn. exact Hfb.
    - rewrite extras_of_cspec. rewrite Hn. exact Hx.
  Qed.

  (* the cause: InvalidFieldValue is raised while handling the exception of that field's own unpacker *)
  Theorem typed_cause : forall c k kvs fn v h, sfind E KData c = Some k ->
    ue E Q CF (VDict kvs) (UData c) = Exn (XInvalidFieldValue fn v h) ->
    exists f e, In f (sc_fields k) /\ fn = sf_name f /\ h = c /\
                lookup_field kvs (fspec_of E Q CF (CF c) f) = Some v /\
                ue E Q CF v (cu false (sf_ty f)) = Exn e /\
                ue_cause E Q CF k (VDict kvs) = Some e.
  Proof.
    intros c k kvs fn v h Hf H. pose proof (sfind_name _ _ _ Hf) as Hn.
    rewrite (ue_data_from_dict _ _ _ Hf) in H.
    rewrite from_dict_dict in H by apply cspec_plain.
    rewrite extras_of_cspec in H. cbn [cspec_of cs_forbid_extra cs_fields cs_name] in H. rewrite Hn in H.
    destruct (tc_forbid (CF c) && negb match extras_of (CF c) (sc_fields k) kvs with [] => true | _ :: _ => false end) eqn:Efx;
      [discriminate|].
    destruct (first_bad kvs (map (fspec_of E Q CF (CF c)) (sc_fields k))) as [[g b]|] eqn:Efb; [|discriminate].
    destruct (first_bad_split _ _ _ _ Efb) as [pre [post [Hs [_ Hb]]]].
    pose proof (first_bad_in _ _ _ _ Efb) as Hin. apply in_map_iff in Hin. destruct Hin as [f [Hg Hin]].
    subst g. destruct b as [|w]; cbn [exn_of_bad] in H; [discriminate|].
    inversion H; subst fn w h. clear H.
    unfold field_bad in Hb.
    destruct (lookup_field kvs (fspec_of E Q CF (CF c) f)) as [x|] eqn:El.
    2:{ destruct (Errs.has_default (fspec_of E Q CF (CF c) f)); discriminate. }
    cbn [fspec_of fs_ident fs_nullable fs_dec] in Hb.
    destruct (sfield_nullable f && is_none x); [discriminate|].
    destruct (ue E Q CF x (cu false (sf_ty f))) as [y|e] eqn:Ed; [discriminate|].
    injection Hb as Hxv. subst x. exists f, e. repeat split; auto.
    unfold ue_cause. rewrite Hn, Efx, Efb. cbn [fspec_of fs_dec]. rewrite Ed. reflexivity.
  Qed.

  (* nested dataclass: the cause is itself one of the inner class's documented outcomes *)
  Theorem typed_nested_cause : forall v f e c2 k2,
    cu false (sf_ty f) = UData c2 -> sfind E KData c2 = Some k2 ->
    ue E Q CF v (cu false (sf_ty f)) = Exn e ->
    documented (cspec_of E Q CF k2) v (Exn e).
  Proof.
    intros v f e c2 k2 Hu Hf2 He.
    rewrite Hu in He. rewrite <- He. apply typed_outcomes. exact Hf2.
  Qed.

  (* ---------------------------------------------------------------- containers: where exceptions come from *)
  Lemma mapM_exn {A B} (f: A -> res B) l e : mapM f l = Exn e -> exists x, In x l /\ f x = Exn e.
  Proof.
    induction l as [|x r IH]; cbn [mapM]; [discriminate|].
    destruct (f x) as [y|e'] eqn:Ef.
    - destruct (mapM f r) as [ys|e'']; [discriminate|]. intros H. inversion H; subst.
      destruct (IH eq_refl) as [x' [Hin Hx]]. exists x'. split; [right; exact Hin|exact Hx].
    - intros H. inversion H; subst. exists x. split; [left; reflexivity|exact Ef].
  Qed.

  Lemma mapM_ok {A B} (f: A -> res B) l r : mapM f l = Ok r -> Forall2 (fun x y => f x = Ok y) l r.
  Proof.
    revert r. induction l as [|x l IH]; cbn [mapM]; intros r H.
    - inversion H. constructor.
    - destruct (f x) as [y|] eqn:Ef; [|discriminate]. destruct (mapM f l) as [ys|]; [|discriminate].
      inversion H; subst. constructor; [exact Ef|apply IH; reflexivity].
  Qed.

  (* List[T] on a list: the only exceptions are those of an element's unpacker, unchanged;
     on success every element is the unpacker's result for the corresponding input item *)
  Theorem list_exn : forall l u e, ue E Q CF (VList l) (UListComp u) = Exn e ->
    exists x, In x l /\ ue E Q CF x u = Exn e.
  Proof.
    intros l u e H. cbn [ue] in H.
    destruct (mapM (fun x => ue E Q CF x u) l) as [r|e'] eqn:Em; cbn [bind] in H; [discriminate|].
    inversion H; subst. apply (mapM_exn (fun x => ue E Q CF x u)). exact Em.
  Qed.

  Theorem list_ok : forall l u r, ue E Q CF (VList l) (UListComp u) = Ok r ->
    exists ys, r = VList ys /\ Forall2 (fun x y => ue E Q CF x u = Ok y) l ys.
  Proof.
    intros l u r H. cbn [ue] in H.
    destruct (mapM (fun x => ue E Q CF x u) l) as [ys|e'] eqn:Em; cbn [bind] in H; [|discriminate].
    inversion H; subst. exists ys. split; [reflexivity|]. apply (mapM_ok (fun x => ue E Q CF x u)). exact Em.
  Qed.

  Theorem list_not_iterable : forall d u,
    match d with VNone | VBool _ | VInt _ | VFloat _ => True | _ => False end ->
    ue E Q CF d (UListComp u) = Exn XTypeError.
  Proof. intros d u H. destruct d; try contradiction; reflexivity. Qed.

  Theorem dict_not_mapping : forall d ku vu, is_dict d = false -> ue E Q CF d (UDictComp ku vu) = Exn XAttributeError.
  Proof. intros d ku vu H. destruct d; try reflexivity. discriminate H. Qed.

  Theorem dict_exn : forall kvs ku vu e, ue E Q CF (VDict kvs) (UDictComp ku vu) = Exn e ->
    exists k x, In (k, x) kvs /\
      (ue E Q CF k ku = Exn e \/ ue E Q CF x vu = Exn e \/
       (e = XTypeError /\ exists k', ue E Q CF k ku = Ok k' /\ hashable k' = false)).
  Proof.
    intros kvs ku vu e H. cbn [ue] in H.
    match type of H with context [mapM ?f kvs] => destruct (mapM f kvs) as [r|e'] eqn:Em; cbn [bind] in H end;
      [discriminate|].
    inversion H; subst. apply mapM_exn in Em. destruct Em as [[k x] [Hin Hx]].
    exists k, x. split; [exact Hin|].
    destruct (ue E Q CF k ku) as [k'|ek]; cbn [bind] in Hx.
    - destruct (ue E Q CF x vu) as [x'|ex]; cbn [bind] in Hx.
      + destruct (hashable k') eqn:Eh; [discriminate|]. inversion Hx; subst.
        right; right. split; [reflexivity|]. exists k'. auto.
      + inversion Hx; subst. right; left. reflexivity.
    - inversion Hx; subst. left. reflexivity.
  Qed.

  (* ---------------------------------------------------------------- NamedTuple: never a default for an item that is present *)
  Lemma nt_items_present {X} (run: sfield -> X -> res pv) konst miss : forall l fds r,
    nt_items run konst miss fds l = Ok r ->
    forall i x f, nth_error l i = Some x -> nth_error fds i = Some f ->
      exists y, run f x = Ok y /\ nth_error r i = Some y.
  Proof.
    induction l as [|x0 l IH]; intros fds r H i x f Hl Hf.
    - destruct i; discriminate Hl.
    - destruct fds as [|f0 rest]; [destruct i; discriminate Hf|].
      cbn [nt_items] in H. destruct (run f0 x0) as [y0|] eqn:Er; [|discriminate].
      destruct (nt_items run konst miss rest l) as [ys|] eqn:En; [|discriminate].
      inversion H; subst. destruct i as [|i].
      + cbn in Hl, Hf. inversion Hl; inversion Hf; subst. exists y0. split; [exact Er|reflexivity].
      + cbn in Hl, Hf. destruct (IH rest ys En i x f Hl Hf) as [y [Hy Hn]]. exists y. split; [exact Hy|exact Hn].
  Qed.

  Lemma nt_items_exn_item {X} (run: sfield -> X -> res pv) konst miss : forall l fds e,
    nt_items run konst miss fds l = Exn e ->
    (exists i x f, nth_error l i = Some x /\ nth_error fds i = Some f /\ run f x = Exn e) \/
    (exists rest, nt_tail konst miss rest = Exn e).
  Proof.
    induction l as [|x0 l IH]; intros fds e H.
    - destruct fds as [|f0 rest]; [discriminate|]. right. exists (f0 :: rest). exact H.
    - destruct fds as [|f0 rest]; [discriminate|].
      cbn [nt_items] in H. destruct (run f0 x0) as [y0|e0] eqn:Er.
      + destruct (nt_items run konst miss rest l) as [ys|e1] eqn:En; [discriminate|].
        inversion H; subst. destruct (IH rest e En) as [[i [x [f [Hl [Hf Hr]]]]]|[rs Hr]].
        * left. exists (S i), x, f. auto.
        * right. exists rs. exact Hr.
      + inversion H; subst. left. exists 0%nat, x0, f0. auto.
  Qed.

  Theorem namedtuple_no_silent_default : forall c k l r,
    sfind E KNamed c = Some k ->
    ue E Q CF (VList l) (UNamed c) = Ok r ->
    exists items, r = VNT c items /\
      forall i x f, nth_error l i = Some x -> nth_error (sc_fields k) i = Some f ->
        exists y, ue E Q CF x (cu true (sf_ty f)) = Ok y /\ nth_error items i = Some y.
  Proof.
    intros c k l r Hf H. cbn [ue] in H. rewrite Hf in H.
    match type of H with context [nt_items ?run ?ko ?mi (sc_fields k) l] =>
      destruct (nt_items run ko mi (sc_fields k) l) as [items|e] eqn:En; cbn [bind] in H end; [|discriminate].
    inversion H; subst. exists items. split; [reflexivity|].
    intros i x f Hl Hfd.
    exact (nt_items_present _ _ _ l (sc_fields k) items En i x f Hl Hfd).
  Qed.

  (* an exception raised INSIDE an item unpacker (IndexError included) propagates unchanged: the only other
     exceptions come from exhaustion (IndexError without defaults / TypeError for a required field) *)
  Theorem namedtuple_exn : forall c k l e,
    sfind E KNamed c = Some k ->
    ue E Q CF (VList l) (UNamed c) = Exn e ->
    (exists i x f, nth_error l i = Some x /\ nth_error (sc_fields k) i = Some f /\
                   ue E Q CF x (cu true (sf_ty f)) = Exn e) \/
    (exists rest, nt_tail (konst_u E) (nt_exhausted (TyModel.has_default (sc_fields k))) rest = Exn e).
  Proof.
    intros c k l e Hf H. cbn [ue] in H. rewrite Hf in H.
    match type of H with context [nt_items ?run ?ko ?mi (sc_fields k) l] =>
      destruct (nt_items run ko mi (sc_fields k) l) as [items|e'] eqn:En; cbn [bind] in H end; [discriminate|].
    inversion H; subst. exact (nt_items_exn_item _ _ _ l (sc_fields k) e En).
  Qed.

  (* ---------------------------------------------------------------- fixed tuples on a list *)
  Theorem tuplefix_exn : forall us l e, ue E Q CF (VList l) (UTupleFix us) = Exn e ->
    (exists i x u, nth_error l i = Some x /\ nth_error us i = Some u /\ ue E Q CF x u = Exn e) \/
    (e = XIndexError /\ (List.length l < List.length us)%nat).
  Proof.
    intros us l e H. cbn [ue] in H.
    match type of H with context [(?g us l)] =>
      assert (Hg: forall l us e, g us l = Exn e ->
                (exists i x u, nth_error l i = Some x /\ nth_error us i = Some u /\ ue E Q CF x u = Exn e) \/
                (e = XIndexError /\ (List.length l < List.length us)%nat)) end.
    { clear. induction l as [|x l IH]; intros us e H.
      - destruct us as [|u us]; [discriminate|]. right. split; [|cbn; lia].
        clear -H. revert e H. generalize (u :: us). intros us0. induction us0 as [|u0 r IH]; intros e H; [discriminate|].
        cbn [none_tail] in H. destruct (const_dec E u0); [|inversion H; reflexivity].
        destruct (none_tail E r) as [ys|e1]; cbn [bind] in H; [discriminate|]. inversion H; subst. apply IH. reflexivity.
      - destruct us as [|u us]; [discriminate|].
        destruct (ue E Q CF x u) as [y|e0] eqn:Ex; cbn [bind] in H.
        + match type of H with context [(?g us l)] => destruct (g us l) as [ys|e1] eqn:Eg end; cbn [bind] in H; [discriminate|].
          inversion H; subst. destruct (IH us e Eg) as [[i [x' [u' [Hl [Hu Hx]]]]]|[He Hlen]].
          * left. exists (S i), x', u'. auto.
          * right. split; [exact He|cbn; lia].
        + inversion H; subst. left. exists 0%nat, x, u. auto. }
    match type of H with context [(?g us l)] => destruct (g us l) as [r|e'] eqn:Eg end; cbn [bind] in H; [discriminate|].
    inversion H; subst. apply Hg. exact Eg.
  Qed.

  (* ---------------------------------------------------------------- TypedDict on a dict *)
  Lemma td_go_exn {D} (run: sfield -> D -> res pv) konst miss es : forall fds e,
    td_go run konst miss es fds = Exn e ->
    e = miss \/ exists f d, In f fds /\ look es (sf_name f) = Some d /\ run f d = Exn e.
  Proof.
    induction fds as [|f rest IH]; intros e H; [discriminate|].
    cbn [td_go] in H. unfold td_field in H.
    destruct (sf_opt f).
    - destruct (look es (sf_name f)) as [d|] eqn:El.
      + destruct (run f d) as [y|e0] eqn:Er; cbn [bind] in H.
        * destruct (td_go run konst miss es rest) as [tl|e1] eqn:Et; cbn [bind] in H; [discriminate|].
          inversion H; subst. destruct (IH e eq_refl) as [Hm|[f' [d' [Hin [Hl Hr]]]]]; [left; exact Hm|].
          right. exists f', d'. split; [right; exact Hin|auto].
        * inversion H; subst. right. exists f, d. split; [left; reflexivity|auto].
      + destruct (IH e H) as [Hm|[f' [d' [Hin [Hl Hr]]]]]; [left; exact Hm|].
        right. exists f', d'. split; [right; exact Hin|auto].
    - destruct (konst f) as [c0|].
      + cbn [bind] in H. destruct (td_go run konst miss es rest) as [tl|e1] eqn:Et; cbn [bind] in H; [discriminate|].
        inversion H; subst. destruct (IH e eq_refl) as [Hm|[f' [d' [Hin [Hl Hr]]]]]; [left; exact Hm|].
        right. exists f', d'. split; [right; exact Hin|auto].
      + destruct (look es (sf_name f)) as [d|] eqn:El.
        * destruct (run f d) as [y|e0] eqn:Er; cbn [bind] in H.
          -- destruct (td_go run konst miss es rest) as [tl|e1] eqn:Et; cbn [bind] in H; [discriminate|].
             inversion H; subst. destruct (IH e eq_refl) as [Hm|[f' [d' [Hin [Hl Hr]]]]]; [left; exact Hm|].
             right. exists f', d'. split; [right; exact Hin|auto].
          -- inversion H; subst. right. exists f, d. split; [left; reflexivity|auto].
        * cbn [bind] in H. inversion H; subst. left. reflexivity.
  Qed.

  Theorem typeddict_exn : forall c k kvs e,
    sfind E KTyped c = Some k ->
    ue E Q CF (VDict kvs) (UTyped c) = Exn e ->
    e = XKeyError \/
    exists f x, In f (sc_fields k) /\ d_lookup kvs (VStr (sf_name f)) = Some x /\
                ue E Q CF x (cu true (sf_ty f)) = Exn e.
  Proof.
    intros c k kvs e Hf H. cbn [ue] in H. rewrite Hf in H.
    match type of H with context [td_go ?run ?ko ?mi ?es ?fds] =>
      destruct (td_go run ko mi es fds) as [r|e'] eqn:Et; cbn [bind] in H end; [discriminate|].
    inversion H; subst. apply td_go_exn in Et. destruct Et as [Hm|[f [dx [Hin [Hl Hr]]]]]; [left; exact Hm|].
    right. rewrite (look_d_lookup (ue E Q CF)) in Hl.
    destruct (d_lookup kvs (VStr (sf_name f))) as [x|] eqn:Ed; [|discriminate].
    cbn [option_map] in Hl. inversion Hl; subst. exists f, x. split; [apply In_td_order; exact Hin|auto].
  Qed.

  (* ---------------------------------------------------------------- tuples with an unpacked segment, on a list *)
  Lemma nth_signed_In {A} (l: list A) i x : nth_signed l i = Some x -> In x l.
  Proof.
    unfold nth_signed. destruct (_ || _); [discriminate|]. apply nth_error_In.
  Qed.

  Lemma tu_ones_exn {T X} (run: T -> X -> res pv) konst (l: list X) : forall ds plan e,
    tu_ones run konst (Some l) plan ds = Exn e ->
    e = XIndexError \/ e = XTypeError \/ exists d x, In d ds /\ In x l /\ run d x = Exn e.
  Proof.
    induction ds as [|d ds IH]; intros plan e H; destruct plan as [|a plan]; cbn [tu_ones] in H;
      try discriminate; try (inversion H; auto; fail).
    unfold tu_at in H. destruct (konst d) as [c0|].
    - destruct (tu_ones run konst (Some l) plan ds) as [ys|e1] eqn:Et; [discriminate|].
      inversion H; subst. destruct (IH plan e Et) as [H1|[H1|[d' [x [Hd [Hx Hr]]]]]]; auto.
      right; right. exists d', x. split; [right; exact Hd|auto].
    - destruct a as [i|i j].
      + destruct (nth_signed l i) as [x|] eqn:En.
        * destruct (run d x) as [y|e0] eqn:Er.
          -- destruct (tu_ones run konst (Some l) plan ds) as [ys|e1] eqn:Et; [discriminate|].
             inversion H; subst. destruct (IH plan e Et) as [H1|[H1|[d' [x' [Hd [Hx Hr]]]]]]; auto.
             right; right. exists d', x'. split; [right; exact Hd|auto].
          -- inversion H; subst. right; right. exists d, x. split; [left; reflexivity|].
             split; [eapply nth_signed_In; exact En|exact Er].
        * inversion H; auto.
      + inversion H; auto.
  Qed.

  Lemma In_firstn' {A} n : forall (l: list A) x, In x (firstn n l) -> In x l.
  Proof.
    induction n as [|n IH]; intros l x H; [destruct H|]. destruct l as [|y l]; [destruct H|].
    cbn [firstn] in H. destruct H as [H|H]; [left; exact H|right; apply IH; exact H].
  Qed.
  Lemma In_skipn' {A} n : forall (l: list A) x, In x (skipn n l) -> In x l.
  Proof.
    induction n as [|n IH]; intros l x H; [exact H|]. destruct l as [|y l]; [destruct H|].
    cbn [skipn] in H. right. apply IH. exact H.
  Qed.

  Lemma slice_list_In {A} (l: list A) i j x : In x (slice_list l i j) -> In x l.
  Proof.
    unfold slice_list. destruct (_ <=? _)%Z; [intros []|].
    intros H. apply In_firstn' in H. apply In_skipn' in H. exact H.
  Qed.

  (* Tuple[pre..., *Tuple[t, ...], post...] on a list: IndexError (a head / tail position past the end), or an
     item's own exception, unchanged; nothing else (TypeError only for a malformed plan, which cu never builds) *)
  Theorem tupleu_var_exn : forall plan pre u post l e,
    ue E Q CF (VList l) (UTupleU plan pre (UTupleVar u) post) = Exn e ->
    e = XIndexError \/ e = XTypeError \/
    exists u' x, (In u' pre \/ u' = u \/ In u' post) /\ In x l /\ ue E Q CF x u' = Exn e.
  Proof.
    intros plan pre u post l e H. cbn [ue] in H. unfold tu_walk in H.
    set (run := fun (u': pdec) (dx: pdec -> res pv) => dx u') in *.
    set (items := map (fun x => ue E Q CF x) l) in *.
    assert (Hrun: forall d dx, In dx items -> run d dx = Exn e -> exists x, In x l /\ ue E Q CF x d = Exn e).
    { intros d dx Hin Hr. unfold items in Hin. apply in_map_iff in Hin. destruct Hin as [x [Hx Hin]].
      subst dx. exists x. split; [exact Hin|exact Hr]. }
    destruct (tu_ones run (const_dec E) (Some items) (firstn (Datatypes.length pre) plan) pre) as [a|e1] eqn:E1; cbn [bind] in H.
    2:{ inversion H; subst. destruct (tu_ones_exn _ _ _ _ _ _ E1) as [H1|[H1|[d [dx [Hd [Hx Hr]]]]]]; auto.
        destruct (Hrun d dx Hx Hr) as [x [Hin He]]. right; right. exists d, x. auto. }
    destruct (nth_error plan (Datatypes.length pre)) as [[i|i j]|]; cbn [bind] in H; try (inversion H; auto; fail).
    cbn [option_map mid_var] in H.
    destruct (mapM (run u) (slice_list items i j)) as [m|e2] eqn:E2; cbn [bind] in H.
    2:{ inversion H; subst. apply mapM_exn in E2. destruct E2 as [dx [Hin Hr]]. apply slice_list_In in Hin.
        destruct (Hrun u dx Hin Hr) as [x [Hx He]]. right; right. exists u, x. auto. }
    destruct (tu_ones run (const_dec E) (Some items) (skipn (S (Datatypes.length pre)) plan) post) as [b|e3] eqn:E3; cbn [bind] in H;
      [discriminate|].
    inversion H; subst. destruct (tu_ones_exn _ _ _ _ _ _ E3) as [H1|[H1|[d [dx [Hd [Hx Hr]]]]]]; auto.
    destruct (Hrun d dx Hx Hr) as [x [Hin He]]. right; right. exists d, x. auto.
  Qed.
End Typed.
