(* C12 - which discriminated positions share one registry: the NAME of the holder attribute that stores the
   tag -> class map, as the code composes it (kernel K12 translates `_get_variants_attr` of both builders into a list
   of parts).  The model (Discr.v) keys its registries by SITE: that is sound iff two positions never get the same
   attribute name on one holder, i.e. iff the name of an annotated position contains a token that is fresh per builder
   instance; the class-level registry is one constant name per class (shared by the per-format dispatchers). *)
From Coq Require Import List Bool Arith.
Import ListNotations.

Inductive npart :=
| NLit (text: list nat)     (* literal text, character codes *)
| NField                    (* spec.field_ctx.name *)
| NFresh                    (* random_hex() = uuid4().hex: fixed width, fresh per call *)
| NOther.                   (* any other expression: a function of things two positions may have in common *)

(* a rendered name, kept as tokens (trusted: equal strings have equal tokens - the fresh token has a fixed width) *)
Inductive ntok :=
| TLit (text: list nat)
| TFieldName (f: list nat)
| TFreshHex (r: nat)
| TUnknown.

Definition render (parts: list npart) (f: list nat) (r: nat) : list ntok :=
  map (fun p => match p with NLit s => TLit s | NField => TFieldName f | NFresh => TFreshHex r | NOther => TUnknown end) parts.

Definition has_fresh (parts: list npart) : bool :=
  existsb (fun p => match p with NFresh => true | _ => false end) parts.

Definition all_literal (parts: list npart) : bool :=
  forallb (fun p => match p with NLit _ => true | _ => false end) parts.

(* two builder instances (two fresh tokens) never produce the same name, whatever their field names *)
Lemma fresh_names_distinct : forall parts f1 f2 r1 r2,
  has_fresh parts = true -> r1 <> r2 -> render parts f1 r1 <> render parts f2 r2.
Proof.
  induction parts as [|p ps IH]; intros f1 f2 r1 r2 Hf Hr; simpl in *.
  - discriminate.
  - intro Heq. injection Heq as Hh Ht.
    destruct p; simpl in *; try (exact (IH _ _ _ _ Hf Hr Ht)).
    injection Hh as Hh. exact (Hr Hh).
Qed.

(* a name made of literals only is the same for every instance *)
Lemma literal_name_constant : forall parts f1 f2 r1 r2,
  all_literal parts = true -> render parts f1 r1 = render parts f2 r2.
Proof.
  induction parts as [|p ps IH]; intros f1 f2 r1 r2 H; simpl in *; [reflexivity|].
  apply andb_true_iff in H as [Hp Hps]. destruct p; try discriminate.
  f_equal. apply IH. exact Hps.
Qed.

(* without a fresh token (and without the field name) nothing distinguishes two positions: the rendering ignores r *)
Lemma no_fresh_shared : forall parts f r1 r2,
  has_fresh parts = false -> render parts f r1 = render parts f r2.
Proof.
  induction parts as [|p ps IH]; intros f r1 r2 H; simpl in *; [reflexivity|].
  apply orb_false_iff in H as [Hp Hps]. destruct p; try discriminate; f_equal; apply IH; exact Hps.
Qed.
