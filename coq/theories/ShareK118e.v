(* Tie by translation: the wrapper cases of the encode compiler (Share.cp: TOpt, TWrap, TAny, TLit) are the shapes
   pack.py emits (kernel K118e: pack_special_typing_primitive, pack_final, pack_any, common.expr_or_maybe_none), and an
   Optional ITEM of a collection is always guarded -- its code is never the bare name -- because every item spec is
   built with could_be_none=True: the source-level cause of the known finding nocopy-optional-elements. *)
From Coq Require Import List Bool.
From Verif Require Import Share WrapDecision.
From VerifGen Require Import K118e.
Import ListNotations.

(* the IR of the emitted code; [guard] = does expr_or_maybe_none add `... if <expr> is not None else None`.  Without
   the packer's guard (a nullable FIELD: could_be_none=False) the builder emits the same test around the field, so the
   model has IOpt in both cases; what differs is whether the CODE STRING is the inner packer's *)
Definition ir_of_wshape (w: wshape) (inner: ir) : option ir :=
  match w with
  | WInner => Some inner
  | WOpt => Some (IOpt inner)
  | WSame => Some IId
  | WLiteral => Some ILit
  | WUnion => None
  end.

(* is the emitted code string the bare name (what `ie == "value"` in pack_collection tests)? *)
Definition code_is_bare_name (w: wshape) (could_be_none: bool) (inner_is_bare: bool) : bool :=
  match w with
  | WInner => inner_is_bare
  | WOpt => if expr_or_maybe_none_guards could_be_none then false else inner_is_bare
  | WSame => true
  | WLiteral | WUnion => false
  end.

Lemma wrappers_are_source E N hsup t :
  ir_of_wshape pack_optional_shape (cp E N hsup t) = Some (cp E N hsup (TOpt t)) /\
  ir_of_wshape pack_typevar_bound_shape (cp E N hsup t) = Some (cp E N hsup (TOpt t)) /\
  ir_of_wshape pack_newtype_shape (cp E N hsup t) = Some (cp E N hsup (TWrap t)) /\
  ir_of_wshape pack_final_shape (cp E N hsup t) = Some (cp E N hsup (TWrap t)) /\
  ir_of_wshape pack_required_shape (cp E N hsup t) = Some (cp E N hsup (TWrap t)) /\
  ir_of_wshape pack_any_shape (cp E N hsup t) = Some (cp E N hsup TAny) /\
  ir_of_wshape pack_literal_shape (cp E N hsup t) = Some (cp E N hsup TLit) /\
  pack_union_shape = WUnion /\ pack_typevar_constrained_shape = WUnion.
Proof. repeat split; reflexivity. Qed.

(* items: could_be_none=True, so Optional[T] / a bound TypeVar as an item is never the bare name, whatever T is ... *)
Lemma optional_item_code_never_bare b :
  code_is_bare_name pack_optional_shape items_could_be_none b = false /\
  code_is_bare_name pack_typevar_bound_shape items_could_be_none b = false.
Proof. split; reflexivity. Qed.

(* ... which is what the model's is_id says, and why such a collection is rebuilt under every no_copy_collections *)
Lemma optional_item_rebuilt E N hsup o t :
  is_id (cp E N hsup (TOpt t)) = code_is_bare_name pack_optional_shape items_could_be_none (is_id (cp E N hsup t)) /\
  cp E N hsup (TSeq o (TOpt t)) = ISeqComp (cp E N hsup (TOpt t)) /\
  (forall kt, cp E N hsup (TMap o kt (TOpt t)) = IMapComp (cp E N hsup kt) (cp E N hsup (TOpt t))).
Proof.
  split; [reflexivity |]. split.
  - reflexivity.
  - intro kt. simpl. unfold map_expr. simpl. now rewrite andb_false_r.
Qed.

(* NewType / Final / Required are transparent for the test: List[NewType('N', int)] under no_copy {list} IS by reference *)
Lemma transparent_wrappers_keep_bare b :
  code_is_bare_name pack_newtype_shape items_could_be_none b = b /\
  code_is_bare_name pack_final_shape items_could_be_none b = b /\
  code_is_bare_name pack_required_shape items_could_be_none b = b /\
  code_is_bare_name pack_literal_shape items_could_be_none b = false.
Proof. repeat split; reflexivity. Qed.
