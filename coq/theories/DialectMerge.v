(* C13, part "merge": theorems about the kernels translated from /repo on this run
     K2  = Dialect.merge, option-copy loop            (VerifGen.K2.merge_options)
     K13 = attribute inventory of class Dialect + the literal key tuple of that loop
     K3  = CodeBuilder.get_dialect_or_config_option   (VerifGen.K3)
   and a hand-written model of the strategy-map loops of Dialect.merge
   (merge_strategies; tied to /repo by correspondence in harness/props/c13.py). *)
From Coq Require Import List String Ascii ZArith Bool Lia.
From Verif Require Import Regex PyK.
From VerifGen Require Import K2 K3 K13.
Import ListNotations.
Open Scope string_scope.

(* ------------------------------------------------------------------ *)
(* namespaces                                                          *)
(* ------------------------------------------------------------------ *)

Lemma ns_get_set_same a n v : ns_get (ns_set a n v) n = Some v.
Proof.
  induction a as [|[k x] r IH]; cbn.
  - rewrite String.eqb_refl. reflexivity.
  - destruct (String.eqb k n) eqn:E; cbn; rewrite E; [reflexivity | exact IH].
Qed.

Lemma ns_get_set_other a n m v : n <> m -> ns_get (ns_set a n v) m = ns_get a m.
Proof.
  intros NE. induction a as [|[k x] r IH]; cbn.
  - destruct (String.eqb n m) eqn:E; [apply String.eqb_eq in E; contradiction | reflexivity].
  - destruct (String.eqb k n) eqn:E; cbn.
    + apply String.eqb_eq in E. subst k.
      destruct (String.eqb n m) eqn:E2; [apply String.eqb_eq in E2; contradiction | reflexivity].
    + destruct (String.eqb k m); [reflexivity | exact IH].
Qed.

(* ------------------------------------------------------------------ *)
(* K2: the option loop, one key at a time                              *)
(* ------------------------------------------------------------------ *)

Definition is_set (v: kv) : bool := negb (kv_eqb v KMissing).

(* attribute value of a dialect namespace; a class that does not bind the name
   inherits Sentinel.MISSING from class Dialect *)
Definition option_of (d: list (string * kv)) (key: string) : kv :=
  match ns_get d key with Some v => v | None => KMissing end.

Definition has_keys (keys: list string) (d: list (string * kv)) : Prop :=
  forall k, In k keys -> ns_get d k <> None.

(* one iteration of the loop, in exactly the shape the translator emits, with the
   rest of the program as continuation *)
Definition merge_key_k (c o: kv) (key: string) (nd: kv) (k: kv -> res kv) : res kv :=
  let v_key := KStr key in
  (t1 <- k_getattr2 o v_key ;;
   (v_others_value <- Ok t1 ;;
    (v_new_dialect <-
       (if k_truthy (KBool (negb (k_is v_others_value KMissing)))
        then (v_new_dialect <- k_setattr nd v_key v_others_value ;; Ok v_new_dialect)
        else (t2 <- k_getattr2 c v_key ;;
              (v_new_dialect <- k_setattr nd v_key t2 ;; Ok v_new_dialect))) ;;
     k v_new_dialect))).

Fixpoint merge_fold_k (c o: kv) (keys: list string) (nd: kv) : res kv :=
  match keys with
  | [] => Ok nd
  | key :: r => merge_key_k c o key nd (fun nd' => merge_fold_k c o r nd')
  end.

(* the translated kernel IS the fold over the key tuple found in the source *)
Lemma merge_options_unrolled c o n :
  merge_options c o n = merge_fold_k c o merge_loop_keys n.
Proof. reflexivity. Qed.

Definition pick (vb va: kv) : kv := if is_set vb then vb else va.

Lemma merge_key_k_spec a b n key va vb k :
  ns_get a key = Some va -> ns_get b key = Some vb ->
  merge_key_k (KNs a) (KNs b) key (KNs n) k = k (KNs (ns_set n key (pick vb va))).
Proof.
  intros Ha Hb. unfold merge_key_k, pick, is_set, k_is. cbn.
  rewrite Hb. cbn. destruct (kv_eqb vb KMissing); cbn.
  - rewrite Ha. reflexivity.
  - reflexivity.
Qed.

Lemma merge_fold_k_spec a b : forall keys n,
  has_keys keys a -> has_keys keys b ->
  exists r, merge_fold_k (KNs a) (KNs b) keys (KNs n) = Ok (KNs r)
    /\ (forall key, In key keys ->
          ns_get r key = Some (pick (option_of b key) (option_of a key)))
    /\ (forall key, ~ In key keys -> ns_get r key = ns_get n key).
Proof.
  induction keys as [|key rest IH]; intros n Ha Hb.
  - exists n. cbn. split; [reflexivity|]. split; [intros ? []| reflexivity].
  - assert (Ha0 := Ha key (or_introl eq_refl)). assert (Hb0 := Hb key (or_introl eq_refl)).
    destruct (ns_get a key) as [va|] eqn:Ea; [|contradiction].
    destruct (ns_get b key) as [vb|] eqn:Eb; [|contradiction].
    cbn [merge_fold_k]. rewrite (merge_key_k_spec a b n key va vb _ Ea Eb).
    destruct (IH (ns_set n key (pick vb va))) as [r [E [Hin Hout]]].
    { intros k Hk. apply Ha. right. exact Hk. }
    { intros k Hk. apply Hb. right. exact Hk. }
    exists r. split; [exact E|]. split.
    + intros k [<-|Hk].
      * destruct (in_dec string_dec key rest) as [I|NI].
        -- apply Hin. exact I.
        -- rewrite (Hout key NI), ns_get_set_same. unfold option_of. rewrite Ea, Eb. reflexivity.
      * apply Hin. exact Hk.
    + intros k NI. rewrite Hout by (intro; apply NI; right; assumption).
      apply ns_get_set_other. intro; subst. apply NI. left. reflexivity.
Qed.

(* C13_merge_total, over the kernel as translated on this run *)
Theorem merge_options_total a b n :
  has_keys merge_loop_keys a -> has_keys merge_loop_keys b ->
  exists r, merge_options (KNs a) (KNs b) (KNs n) = Ok (KNs r)
    /\ (forall key, In key merge_loop_keys ->
          option_of r key = if is_set (option_of b key) then option_of b key else option_of a key)
    /\ (forall key, ~ In key merge_loop_keys -> ns_get r key = ns_get n key).
Proof.
  intros Ha Hb. rewrite merge_options_unrolled.
  destruct (merge_fold_k_spec a b merge_loop_keys n Ha Hb) as [r [E [Hin Hout]]].
  exists r. split; [exact E|]. split; [|exact Hout].
  intros key Hk. unfold option_of at 1. rewrite (Hin key Hk). reflexivity.
Qed.

(* the five documented options are among the merged keys ... *)
Definition five_options : list string :=
  ["serialize_by_alias"; "namedtuple_as_dict"; "omit_none"; "omit_default"; "no_copy_collections"].

Definition mem_str (x: string) (l: list string) : bool := existsb (String.eqb x) l.

Lemma mem_str_In x l : mem_str x l = true -> In x l.
Proof.
  unfold mem_str. intros H. apply existsb_exists in H. destruct H as [y [I E]].
  apply String.eqb_eq in E. subst. exact I.
Qed.

Lemma five_options_merged_sweep : forallb (fun k => mem_str k merge_loop_keys) five_options = true.
Proof. vm_compute. reflexivity. Qed.

Lemma five_options_merged key : In key five_options -> In key merge_loop_keys.
Proof.
  intros H. apply mem_str_In.
  exact (proj1 (forallb_forall _ _) five_options_merged_sweep key H).
Qed.

(* ... and EVERY attribute that class Dialect binds, other than the strategy map, is merged
   (finite list extracted from the source on this run: catches the next forgotten option) *)
Lemma all_attrs_merged_sweep :
  forallb (fun x => String.eqb x "serialization_strategy" || mem_str x merge_loop_keys) dialect_attrs = true.
Proof. vm_compute. reflexivity. Qed.

Theorem all_dialect_attrs_merged x :
  In x dialect_attrs -> x = "serialization_strategy" \/ In x merge_loop_keys.
Proof.
  intros H. pose proof (proj1 (forallb_forall _ _) all_attrs_merged_sweep x H) as E.
  apply orb_true_iff in E. destruct E as [E|E].
  - left. apply String.eqb_eq. exact E.
  - right. apply mem_str_In. exact E.
Qed.

(* the merged keys are attributes of class Dialect (so has_keys holds for every subclass) *)
Lemma merged_keys_are_attrs_sweep : forallb (fun k => mem_str k dialect_attrs) merge_loop_keys = true.
Proof. vm_compute. reflexivity. Qed.

Theorem merge_total_five a b n key :
  has_keys merge_loop_keys a -> has_keys merge_loop_keys b -> In key five_options ->
  exists r, merge_options (KNs a) (KNs b) (KNs n) = Ok (KNs r)
    /\ option_of r key = if is_set (option_of b key) then option_of b key else option_of a key.
Proof.
  intros Ha Hb Hk. destruct (merge_options_total a b n Ha Hb) as [r [E [Hin _]]].
  exists r. split; [exact E|]. apply Hin. apply five_options_merged. exact Hk.
Qed.

(* ------------------------------------------------------------------ *)
(* K3: option resolution = first namespace that sets the option        *)
(* ------------------------------------------------------------------ *)

Definition look (ns: kv) (o: string) : kv := k_getattr3 ns (KStr o) KMissing.

Fixpoint first_set (l: list kv) (o: string) (dflt: kv) : kv :=
  match l with
  | [] => dflt
  | ns :: r => if is_set (look ns o) then look ns o else first_set r o dflt
  end.

Theorem K3_first_set d cd cfg dd o dflt :
  get_dialect_or_config_option d cd cfg dd (KStr o) dflt = Ok (first_set [d; cd; cfg; dd] o dflt).
Proof.
  unfold get_dialect_or_config_option, first_set, look, is_set, k_is. cbn [k_truthy].
  destruct (negb (kv_eqb (k_getattr3 d (KStr o) KMissing) KMissing)); [reflexivity|].
  destruct (negb (kv_eqb (k_getattr3 cd (KStr o) KMissing) KMissing)); [reflexivity|].
  destruct (negb (kv_eqb (k_getattr3 cfg (KStr o) KMissing) KMissing)); [reflexivity|].
  destruct (negb (kv_eqb (k_getattr3 dd (KStr o) KMissing) KMissing)); reflexivity.
Qed.

Lemma look_KNs a o : look (KNs a) o = option_of a o.
Proof. reflexivity. Qed.

Lemma look_None o : look KNone o = KMissing.
Proof. reflexivity. Qed.

(* Codec uniformity on the option side: a codec for format F resolves options with
   default_dialect = merge(F's dialect, D); BasicEncoder resolves them with default_dialect = D.
   Every option that D sets resolves to the same value in both (the call dialect is None in
   the codec path; cd/cfg are the dataclass's own Config.dialect / Config). *)
Theorem codec_option_uniform fmt dl n cd cfg key dflt :
  has_keys merge_loop_keys fmt -> has_keys merge_loop_keys dl -> In key five_options ->
  is_set (option_of dl key) = true ->
  exists r, merge_options (KNs fmt) (KNs dl) (KNs n) = Ok (KNs r) /\
    get_dialect_or_config_option KNone cd cfg (KNs r) (KStr key) dflt =
    get_dialect_or_config_option KNone cd cfg (KNs dl) (KStr key) dflt.
Proof.
  intros Hf Hd Hk Hs. destruct (merge_total_five fmt dl n key Hf Hd Hk) as [r [E Hr]].
  exists r. split; [exact E|]. rewrite !K3_first_set. cbn [first_set].
  rewrite !look_KNs. rewrite Hr. rewrite !Hs. cbn iota. rewrite ?Hs. reflexivity.
Qed.

(* ... and an option that D leaves unset falls back to the format's own requirement *)
Theorem codec_option_format_default fmt dl n key dflt :
  has_keys merge_loop_keys fmt -> has_keys merge_loop_keys dl -> In key five_options ->
  is_set (option_of dl key) = false ->
  exists r, merge_options (KNs fmt) (KNs dl) (KNs n) = Ok (KNs r) /\
    get_dialect_or_config_option KNone KNone KNone (KNs r) (KStr key) dflt =
    get_dialect_or_config_option KNone KNone KNone (KNs fmt) (KStr key) dflt.
Proof.
  intros Hf Hd Hk Hs. destruct (merge_total_five fmt dl n key Hf Hd Hk) as [r [E Hr]].
  exists r. split; [exact E|]. rewrite !K3_first_set. cbn [first_set].
  rewrite !look_KNs, !look_None. rewrite Hr. rewrite !Hs. cbn iota. rewrite ?Hs. reflexivity.
Qed.

(* ------------------------------------------------------------------ *)
(* insertion-ordered association lists (Python dicts), generic in the key *)
(* ------------------------------------------------------------------ *)
Section Assoc.
  Context {K V: Type} (eqb: K -> K -> bool).
  Hypothesis eqb_spec : forall a b, eqb a b = true <-> a = b.

  Fixpoint a_get (m: list (K * V)) (k: K) : option V :=
    match m with [] => None | (k', v) :: r => if eqb k' k then Some v else a_get r k end.
  Fixpoint a_set (m: list (K * V)) (k: K) (v: V) : list (K * V) :=
    match m with
    | [] => [(k, v)]
    | (k', x) :: r => if eqb k' k then (k', v) :: r else (k', x) :: a_set r k v end.
  (* dict.update / copy by insertion *)
  Definition a_update (base ent: list (K * V)) : list (K * V) :=
    fold_left (fun acc kv => a_set acc (fst kv) (snd kv)) ent base.

  Lemma eqb_refl k : eqb k k = true.
  Proof. apply eqb_spec. reflexivity. Qed.
  Lemma eqb_neq a b : a <> b -> eqb a b = false.
  Proof. intros N. destruct (eqb a b) eqn:E; [apply eqb_spec in E; contradiction|reflexivity]. Qed.

  Lemma a_get_set_same m k v : a_get (a_set m k v) k = Some v.
  Proof.
    induction m as [|[k' x] r IH]; cbn.
    - rewrite eqb_refl. reflexivity.
    - destruct (eqb k' k) eqn:E; cbn; rewrite E; [reflexivity|exact IH].
  Qed.

  Lemma a_get_set_other m k k2 v : k <> k2 -> a_get (a_set m k v) k2 = a_get m k2.
  Proof.
    intros NE. induction m as [|[k' x] r IH]; cbn.
    - rewrite (eqb_neq _ _ NE). reflexivity.
    - destruct (eqb k' k) eqn:E; cbn.
      + apply eqb_spec in E. subst k'. rewrite (eqb_neq _ _ NE). reflexivity.
      + destruct (eqb k' k2); [reflexivity|exact IH].
  Qed.

  Lemma a_get_notin m k : ~ In k (map fst m) -> a_get m k = None.
  Proof.
    induction m as [|[a b] r IH]; cbn; intros NI; [reflexivity|].
    destruct (eqb a k) eqn:E; [apply eqb_spec in E; subst; exfalso; apply NI; left; reflexivity|].
    apply IH. intro H. apply NI. right. exact H.
  Qed.

  (* lookup after a sequence of insertions: the LAST insertion of the key wins, else the base *)
  Lemma a_update_lookup_nodup : forall ent base k, NoDup (map fst ent) ->
    a_get (a_update base ent) k = match a_get ent k with Some v => Some v | None => a_get base k end.
  Proof.
    unfold a_update. induction ent as [|[k' v] r IH]; intros base k ND; cbn [fold_left]; [reflexivity|].
    inversion ND as [|? ? NI ND']; subst. rewrite (IH _ k ND'). cbn [a_get fst snd].
    destruct (eqb k' k) eqn:E.
    - apply eqb_spec in E. subst k'. rewrite (a_get_notin r k NI). apply a_get_set_same.
    - destruct (a_get r k); [reflexivity|]. apply a_get_set_other.
      intro; subst. rewrite eqb_refl in E. discriminate.
  Qed.
End Assoc.

(* ------------------------------------------------------------------ *)
(* strategy map of Dialect.merge (hand model of dialect.py:34-55)      *)
(* ------------------------------------------------------------------ *)

(* a value of the map: a SerializationStrategy instance (identity = id) or a dict
   {"serialize"/"deserialize": callable id} *)
Inductive sval := SStrat (id: nat) | SDict (ent: list (string * nat)).
Definition smap := list (nat * sval).          (* insertion-ordered dict keyed by type id *)

Definition sm_get := @a_get nat sval Nat.eqb.
Definition sm_set := @a_set nat sval Nat.eqb.
Definition e_get := @a_get string nat String.eqb.
Definition e_update := @a_update string nat String.eqb.

Definition ms_step (acc: smap) (kv: nat * sval) : smap :=
  let (k, v) := kv in
  match v with
  | SStrat _ => sm_set acc k v                       (* isinstance(value, SerializationStrategy) *)
  | SDict e =>
      match sm_get acc k with
      | Some (SStrat _) => sm_set acc k v            (* replaces a strategy object whole *)
      | Some (SDict b) => sm_set acc k (SDict (e_update b e))     (* setdefault(key, {}).update(value) *)
      | None => sm_set acc k (SDict (e_update [] e))
      end
  end.

Definition merge_strategies (c o: smap) : smap :=
  let s0 := @a_update nat sval Nat.eqb [] c in      (* first loop: copy of cls's map *)
  fold_left ms_step o s0.

(* what the merged map holds under one key *)
Definition ms_combine (cv ov: option sval) : option sval :=
  match ov with
  | None => cv
  | Some (SStrat s) => Some (SStrat s)
  | Some (SDict e) =>
      match cv with
      | Some (SStrat _) => Some (SDict e)
      | Some (SDict b) => Some (SDict (e_update b e))
      | None => Some (SDict (e_update [] e))
      end
  end.

Lemma ms_fold_lookup : forall o acc k, NoDup (map fst o) ->
  sm_get (fold_left ms_step o acc) k = ms_combine (sm_get acc k) (sm_get o k).
Proof.
  unfold sm_get.
  induction o as [|[k' v] r IH]; intros acc k ND; cbn [fold_left].
  - reflexivity.
  - inversion ND as [|? ? NI ND']; subst. rewrite (IH _ k ND'). cbn [a_get].
    destruct (Nat.eqb k' k) eqn:E.
    + apply Nat.eqb_eq in E. subst k'.
      rewrite (a_get_notin Nat.eqb Nat.eqb_eq r k NI). cbn [ms_combine]. unfold ms_step, sm_set, sm_get.
      destruct v as [s|e]; [apply (a_get_set_same Nat.eqb Nat.eqb_eq)|].
      destruct (a_get Nat.eqb acc k) as [[s|b]|]; apply (a_get_set_same Nat.eqb Nat.eqb_eq).
    + assert (NE: k' <> k) by (intro; subst; rewrite Nat.eqb_refl in E; discriminate).
      f_equal. unfold ms_step, sm_set, sm_get.
      destruct v as [s|e]; [apply (a_get_set_other Nat.eqb Nat.eqb_eq); exact NE|].
      destruct (a_get Nat.eqb acc k') as [[s|b]|]; apply (a_get_set_other Nat.eqb Nat.eqb_eq); exact NE.
Qed.

Theorem merge_strategies_lookup c o k :
  NoDup (map fst c) -> NoDup (map fst o) ->
  sm_get (merge_strategies c o) k = ms_combine (sm_get c k) (sm_get o k).
Proof.
  intros NC NO. unfold merge_strategies. rewrite (ms_fold_lookup o _ k NO).
  unfold sm_get. rewrite (a_update_lookup_nodup Nat.eqb Nat.eqb_eq c [] k NC). cbn [a_get].
  destruct (a_get Nat.eqb c k); reflexivity.
Qed.

(* per direction ("serialize" / "deserialize"): which callable is in force under a key *)
Inductive eff := EStrat (id: nat) | EFun (id: nat) | ENone.
Definition effective (v: option sval) (dir: string) : eff :=
  match v with
  | Some (SStrat s) => EStrat s
  | Some (SDict e) => match e_get e dir with Some f => EFun f | None => ENone end
  | None => ENone
  end.

(* The user's dialect wins per key and per direction; where it is silent the format's
   entry stays in force.  (When the user's value is a dict and the format's a strategy
   object, or vice versa, the user's value is taken whole.) *)
Definition strategy_spec (cv ov: option sval) (dir: string) : eff :=
  match ov with
  | None => effective cv dir
  | Some (SStrat s) => EStrat s
  | Some (SDict e) =>
      match e_get e dir with
      | Some f => EFun f
      | None => match cv with Some (SDict b) => effective cv dir | _ => ENone end
      end
  end.

Theorem merge_strategies_effective c o k dir :
  NoDup (map fst c) -> NoDup (map fst o) ->
  (forall e, sm_get o k = Some (SDict e) -> NoDup (map fst e)) ->
  effective (sm_get (merge_strategies c o) k) dir = strategy_spec (sm_get c k) (sm_get o k) dir.
Proof.
  intros NC NO NE. rewrite (merge_strategies_lookup c o k NC NO). unfold strategy_spec.
  destruct (sm_get o k) as [[s|e]|] eqn:Eo; cbn [ms_combine]; [reflexivity| |reflexivity].
  specialize (NE e eq_refl).
  destruct (sm_get c k) as [[s|b]|]; cbn [effective].
  - destruct (e_get e dir); reflexivity.
  - unfold e_update, e_get. rewrite (a_update_lookup_nodup String.eqb String.eqb_eq e b dir NE).
    destruct (a_get String.eqb e dir); reflexivity.
  - unfold e_update, e_get. rewrite (a_update_lookup_nodup String.eqb String.eqb_eq e [] dir NE).
    cbn [a_get]. destruct (a_get String.eqb e dir); reflexivity.
Qed.

(* the user's dialect is honoured wherever it says something *)
Corollary merge_strategies_user_wins c o k dir :
  NoDup (map fst c) -> NoDup (map fst o) ->
  (forall e, sm_get o k = Some (SDict e) -> NoDup (map fst e)) ->
  effective (sm_get o k) dir <> ENone ->
  effective (sm_get (merge_strategies c o) k) dir = effective (sm_get o k) dir.
Proof.
  intros NC NO NE H. rewrite (merge_strategies_effective c o k dir NC NO NE). unfold strategy_spec.
  destruct (sm_get o k) as [[s|e]|]; cbn [effective] in *; [reflexivity| |contradiction].
  destruct (e_get e dir); [reflexivity|contradiction].
Qed.

(* boolean equality of strategy maps, for the correspondence *)
Fixpoint lst_eqb {A} (e: A -> A -> bool) (l1 l2: list A) : bool :=
  match l1, l2 with
  | [], [] => true
  | x :: r1, y :: r2 => e x y && lst_eqb e r1 r2
  | _, _ => false end.
Definition sval_eqb (a b: sval) : bool :=
  match a, b with
  | SStrat x, SStrat y => Nat.eqb x y
  | SDict x, SDict y => lst_eqb (fun p q => String.eqb (fst p) (fst q) && Nat.eqb (snd p) (snd q)) x y
  | _, _ => false end.
Definition smap_eqb (a b: smap) : bool :=
  lst_eqb (fun p q => Nat.eqb (fst p) (fst q) && sval_eqb (snd p) (snd q)) a b.

(* K2 validation case: cls namespace, other namespace, attribute values of the real merged class *)
Definition k2_case := (list (string * kv) * list (string * kv) * list (string * kv))%type.
Definition k2_case_ok (c: k2_case) : bool :=
  let '(a, b, expected) := c in
  match merge_options (KNs a) (KNs b) (KNs []) with
  | Ok (KNs r) => forallb (fun p => kv_eqb (option_of r (fst p)) (snd p)) expected
  | _ => false end.

(* has_keys is decidable: used by the non-vacuity examples *)
Lemma has_keys_dec keys d :
  forallb (fun k => match ns_get d k with Some _ => true | None => false end) keys = true -> has_keys keys d.
Proof.
  intros H k Hk. pose proof (proj1 (forallb_forall _ _) H k Hk) as E. cbn in E.
  destruct (ns_get d k); [discriminate|discriminate E].
Qed.

(* a dialect namespace as class Dialect gives it: every merged attribute bound, to MISSING *)
Definition blank_dialect : list (string * kv) := map (fun k => (k, KMissing)) merge_loop_keys.
