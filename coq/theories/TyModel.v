(* L2 type-level model of the generated (un)packers for the codec entry point
   (BasicEncoder(T) / BasicDecoder(T)) and for plain (default-Config) dataclasses:
   the generator's decisions as a small semantic IR ([penc], [pdec]), its compile
   functions ([cp], [cu]) following the registry order of pack.py / unpack.py, the
   interpreters ([pk], [uk]), and the reference semantics written from the README
   ([ref_enc], [ref_dec]).  No proofs here: the model must still run (vm_compute
   correspondence against /repo) when a proof breaks.  Proofs: TyProofs.v. *)
From Coq Require Import List String Ascii ZArith Bool Lia.
From Verif Require Import Core TupleIdx.
Import ListNotations.
Open Scope string_scope.
Open Scope Z_scope.

(* collection classes whose instances are modelled as a box around a list / dict:
   [VObj (box_name b) [("", inner)]] (the class names contain a dot, so no dataclass is mistaken for one) *)
Inductive box := BDeque | BOrdered | BDefault | BProxy | BCounter | BChain.
Definition box_name (b: box) : string :=
  match b with
  | BDeque => "collections.deque" | BOrdered => "collections.OrderedDict" | BDefault => "collections.defaultdict"
  | BProxy => "types.MappingProxyType" | BCounter => "collections.Counter" | BChain => "collections.ChainMap" end.
(* A ChainMap always has at least one map: ChainMap( *[] ) is ChainMap({}).  That canonical empty ChainMap
   (maps == [{}]) is REPRESENTED by the empty list of maps (the harness emits it so), hence the content [[{}]]
   built by the unpacker is normalised to [[]] and the packer turns the content [[]] into the wire form [[{}]].
   The factory of a defaultdict is not part of the value (Python's == ignores it as well). *)
Definition is_chain (b: box) : bool := match b with BChain => true | _ => false end.
Definition box_val (b: box) (inner: pv) : pv :=
  VObj (box_name b) [("", match b, inner with BChain, VList [VDict []] => VList [] | _, _ => inner end)].
(* the content [[{}]] is never the representation of a ChainMap (it is normalised to [[]]) *)
Definition chain_canon (b: box) (inner: pv) : bool :=
  negb (is_chain b && match inner with VList [VDict []] => true | _ => false end).
Definition chain_empty (chain: bool) (inner: pv) : bool :=
  chain && match inner with VList [] => true | _ => false end.

(* Literal: "value.__class__ is (lit).__class__ and value == lit" for the scalar literal kinds
   (enum-member and bytes literals are not modelled: they never match) *)
Definition exact_eq (a b: pv) : bool :=
  match a, b with
  | VNone, VNone => true
  | VBool x, VBool y => Bool.eqb x y
  | VInt x, VInt y => Z.eqb x y
  | VStr x, VStr y => String.eqb x y
  | _, _ => false end.
Definition lit_find (ls: list pv) (v: pv) : res pv :=
  match find (exact_eq v) ls with Some l => Ok l | None => Exn XValueError end.

(* ------------------------------------------------------------------ *)
(* type grammar covered by the type-level theorems *)
Inductive sty :=
| SAny | SNoneT | SIntT | SFloatT | SBoolT | SStrT
| SBytes (mut: bool)
| SLeaf (k: string)                    (* stdlib leaf rendered to text / number by a primitive *)
| SEnum (e: string)
| SList (t: sty)                       (* List / Sequence / Deque are the same on the wire *)
| SSet (frozen: bool) (t: sty)
| STupleVar (t: sty)
| STupleFix (ts: list sty)
| STupleU (pre: list sty) (mid: sty) (post: list sty)   (* Tuple[pre..., Unpack[mid], post...], mid = Tuple[t, ...] or Tuple[t1, ..., tk] *)
| SDict (kt vt: sty)
| SOpt (t: sty)
| SData (c: string)
| SNamed (c: string)                   (* typing.NamedTuple class, default as_list form *)
| STyped (c: string)                   (* TypedDict class *)
| SSeq (t: sty)                        (* Sequence / MutableSequence: a list, always built by comprehension *)
| SMap (kt vt: sty)                    (* Mapping / MutableMapping: a dict, always built by comprehension *)
| SBox (b: box) (t: sty)               (* a collection class wrapped around the list / dict the inner type describes:
                                          Deque[T] = SBox BDeque (SSeq T), OrderedDict[K,V] = SBox BOrdered (SMap K V),
                                          DefaultDict / MappingProxyType likewise, Counter[K] = SBox BCounter (SMap K int),
                                          ChainMap[K,V] = SBox BChain (SSeq (SMap K V)) (wire form: the list of its maps) *)
| SLit (ls: list pv).                 (* Literal[...] of int / str / bool / None constants: exactly one of them, exact class *)

(* one class table for dataclasses, NamedTuples and TypedDicts; a class is looked up by kind
   and name.  [sf_default]: dataclass field default / NamedTuple field default (ignored for a
   TypedDict); [sf_opt]: the key is not required (TypedDict total=False / NotRequired; ignored
   for dataclasses and NamedTuples). *)
Inductive ckind := KData | KNamed | KTyped.
Definition ckind_eqb (a b: ckind) : bool :=
  match a, b with KData, KData | KNamed, KNamed | KTyped, KTyped => true | _, _ => false end.

Record sfield := { sf_name : string; sf_ty : sty; sf_default : option pv; sf_opt : bool }.
Record scls := { sc_kind : ckind; sc_name : string; sc_fields : list sfield }.
Definition senv := list scls.

Fixpoint sfind (E: senv) (kd: ckind) (n: string) : option scls :=
  match E with
  | [] => None
  | c :: r => if ckind_eqb c.(sc_kind) kd && String.eqb c.(sc_name) n then Some c else sfind r kd n end.

(* ------------------------------------------------------------------ *)
(* environment of stdlib primitives the model does not compute (oracles).
   Theorems quantify over every such environment; laws they need are explicit
   hypotheses.  In case files the functions are finite tables filled from CPython. *)
Record prims := {
  p_render : string -> string -> pv;            (* leaf kind, canonical text -> basic form *)
  p_parse  : string -> pv -> option string;     (* leaf kind, basic-form input -> canonical text *)
  p_enum_value : string -> string -> option pv; (* enum class, member name -> member value *)
  p_enum_of : string -> pv -> option string;    (* enum class, input -> member name (E(value)) *)
  p_b64enc : string -> string;                  (* encodebytes(b).decode() *)
  p_b64dec : pv -> option string;               (* decodebytes(x.encode()) *)
  p_int : pv -> option Z;                       (* int(x) for x not int/bool *)
  p_float : pv -> option fl;                    (* float(x) for x not float *)
  p_str : pv -> option string                   (* str(x) for x not str *)
}.

Definition lift {A} (o: option A) : res A := match o with Some x => Ok x | None => Exn XValueError end.

(* ------------------------------------------------------------------ *)
(* serialization IR: one constructor per decision of the generator *)
Inductive penc :=
| EId                                   (* "value" *)
| ELeaf                                 (* value.isoformat() / str(value) / total_seconds() ... *)
| EB64                                  (* encodebytes(value).decode() *)
| EEnumValue                            (* value.value *)
| EOpt (e: penc)                        (* e if value is not None else None *)
| ECopyList                             (* value.copy() *)
| EListComp (e: penc)                   (* [e for value in x] *)
| ECopyDict
| EDictComp (ke ve: penc)               (* {ke: ve for key, value in x.items()} *)
| ETupleFix (es: list penc)             (* [e0(x[0]), e1(x[1]), ...] *)
| ETupleU (plan: list aidx) (pre: list penc) (mid: penc) (post: list penc)
                                        (* [e0(x[0]), ..., *emid(x[i:j]), ..., ek(x[-1])] with the index / slice plan of arg_indexes *)
| EData (c: string)                     (* dataclass packer (plain Config) *)
| ENamed (c: string)                    (* [e0(value[0]), e1(value[1]), ...] over the NamedTuple fields *)
| ETyped (c: string)                    (* d = {}; d[k] = e(value[k]) for required keys; optional keys when present *)
| EBox (chain: bool) (e: penc)          (* e applied to the deque / mapping object itself ("for value in x", "x.items()", "x.maps") *)
| ELit (ls: list pv).                   (* if value.__class__ is (l).__class__ and value == l: return value ... raise ValueError *)

(* the index / slice descriptors computed by the arg_indexes loop of pack_tuple / unpack_tuple for
   [u] plain arguments, one unpacked argument, [m] plain arguments.  Hand-written closed form;
   TyK7.v proves it equal to the output of the loop as translated from /repo on every run
   (kernel K7): [arg_indexes (repeat false u ++ true :: repeat false m) = Some (tu_plan u m)]. *)
Definition tu_slice_hi (n i: Z) : option Z :=
  if n =? 1 then None else if i <? n - 1 then Some (i + 1 - n) else None.
Definition tu_plan (u m: nat) : list aidx :=
  let n := Z.of_nat (u + 1 + m) in
  (map AI (zrange 0 (Z.of_nat u)) ++ [ASl (Z.of_nat u) (tu_slice_hi n (Z.of_nat u))] ++
   map (fun j => AI (j - n)) (zrange (Z.of_nat u + 1) n))%list.

Definition is_id (e: penc) : bool := match e with EId => true | _ => false end.

(* pack.py pack_collection: _make_sequence_expression / _make_mapping_expression (default dialect: no_copy empty) *)
Definition seq_expr (is_list: bool) (ie: penc) : penc :=
  if is_id ie then (if is_list then ECopyList else EListComp ie) else EListComp ie.
Definition map_expr (ke ve: penc) : penc :=
  if is_id ke && is_id ve then ECopyDict else EDictComp ke ve.

(* registry order of pack.py restricted to the grammar; [cbn] = spec.could_be_none *)
Fixpoint cp (cbn: bool) (t: sty) {struct t} : penc :=
  match t with
  | SAny | SNoneT | SIntT | SFloatT | SBoolT | SStrT => EId
  | SBytes _ => EB64
  | SLeaf _ => ELeaf
  | SEnum _ => EEnumValue
  | SList t' => seq_expr true (cp true t')
  | SSet _ t' => seq_expr false (cp true t')
  | STupleVar t' => EListComp (cp true t')
  | STupleFix ts => ETupleFix (map (cp true) ts)
  | STupleU pre mid post =>
      ETupleU (tu_plan (List.length pre) (List.length post)) (map (cp true) pre) (cp true mid) (map (cp true) post)
  | SDict kt vt => map_expr (cp true kt) (cp true vt)
  | SOpt t' => let e := cp cbn t' in if cbn then EOpt e else e
  | SData c => EData c
  | SNamed c => ENamed c
  | STyped c => ETyped c
  | SSeq t' => EListComp (cp true t')                      (* origin is not list: no .copy() *)
  | SMap kt vt => EDictComp (cp true kt) (cp true vt)      (* origin is not dict: no .copy() *)
  | SBox b t' => EBox (is_chain b) (cp true t')
  | SLit ls => ELit ls
  end.

(* field-level nullability (builder.py): Optional / Any / None annotation or default None *)
Definition sty_nullable (t: sty) : bool := match t with SAny | SNoneT | SOpt _ => true | _ => false end.
Definition sfield_nullable (f: sfield) : bool :=
  sty_nullable f.(sf_ty) || match f.(sf_default) with Some VNone => true | _ => false end.

(* ------------------------------------------------------------------ *)
(* NamedTuple / TypedDict machinery shared by the packer, the unpacker and both references.
   Generic in the kind of item ([X]: a value, a character of a str input) resp. of looked-up
   entry ([D]: a closure "the decoder of that entry", see the [EData]/[UData] cases), so that
   one set of lemmas serves all four interpreters. *)
Definition has_default (fds: list sfield) : bool :=
  existsb (fun f => match f.(sf_default) with Some _ => true | None => false end) fds.

(* C( *fields ) with fewer items than fields: the remaining ones take their defaults,
   TypeError (missing required positional argument) if one has none *)
Fixpoint nt_defaults (fds: list sfield) : res (list pv) :=
  match fds with
  | [] => Ok []
  | f :: r => match f.(sf_default) with
              | Some dv => ys <- nt_defaults r ;; Ok (dv :: ys)
              | None => Exn XTypeError end
  end.

(* what happens when value[i] raises IndexError at a position that does read its input *)
Definition nt_exhausted (hd: bool) (rest: list sfield) : res (list pv) :=
  if hd then nt_defaults rest else Exn XIndexError.

Section NtWalk.
  Context {X: Type}.
  Variable run : sfield -> X -> res pv.            (* the item (un)packer of a field *)
  Variable konst : sfield -> option pv.            (* Some c: the generated expression is the constant c, the item is not read *)
  Variable miss : list sfield -> res (list pv).    (* a reading position finds no item; argument: that field and all later ones *)

  Fixpoint nt_tail (fds: list sfield) : res (list pv) :=
    match fds with
    | [] => Ok []
    | f :: r => match konst f with
                | Some c => match nt_tail r with Ok ys => Ok (c :: ys) | Exn e => Exn e end
                | None => miss fds end
    end.

  (* positional: field i reads item i; surplus items are ignored *)
  Fixpoint nt_items (fds: list sfield) (l: list X) {struct l} : res (list pv) :=
    match fds, l with
    | [], _ => Ok []
    | _ :: _, [] => nt_tail fds
    | f :: rest, x :: l' =>
        match run f x with
        | Ok y => match nt_items rest l' with Ok ys => Ok (y :: ys) | Exn e => Exn e end
        | Exn e => Exn e end
    end.
End NtWalk.

Section Look.
  Context {D: Type}.
  (* value[name] / value.get(name): first entry whose key == name *)
  Fixpoint look (es: list (pv * D)) (name: string) : option D :=
    match es with
    | [] => None
    | (key, d) :: er => if py_eq key (VStr name) then Some d else look er name
    end.
End Look.

(* sorted(required_keys, key=all_keys.index) followed by sorted(optional_keys, key=all_keys.index) *)
Definition td_order (fds: list sfield) : list sfield :=
  filter (fun f => negb f.(sf_opt)) fds ++ filter (fun f => f.(sf_opt)) fds.

Section TdWalk.
  Context {D: Type}.
  Variable run : sfield -> D -> res pv.            (* the value (un)packer of a key, applied to the entry found *)
  Variable konst : sfield -> option pv.            (* required key whose expression is a constant: value[key] is not evaluated *)
  Variable miss : exn.                             (* value[key] fails *)

  (* None: the key is left out of the result *)
  Definition td_field (es: list (pv * D)) (f: sfield) : option (res pv) :=
    if f.(sf_opt) then
      match look es f.(sf_name) with Some d => Some (run f d) | None => None end
    else
      match konst f with
      | Some c => Some (Ok c)
      | None => match look es f.(sf_name) with Some d => Some (run f d) | None => Some (Exn miss) end
      end.

  Fixpoint td_go (es: list (pv * D)) (fds: list sfield) : res (list (pv * pv)) :=
    match fds with
    | [] => Ok []
    | f :: rest =>
        match td_field es f with
        | Some ry => y <- ry ;; tl <- td_go es rest ;; Ok ((VStr f.(sf_name), y) :: tl)
        | None => td_go es rest end
    end.
End TdWalk.

(* a TypedDict (un)packer applied to something that is not a dict: value[key] raises TypeError
   at the first required key that is read, value.get raises AttributeError at the first optional
   key; a class whose keys are all required constants (or that has no key) accepts anything *)
Definition td_nondict (konst: sfield -> option pv) (fds: list sfield) : res pv :=
  r <- td_go (fun (_: sfield) (_: unit) => Exn XTypeError) konst XTypeError [] (td_order fds) ;;
  if existsb (fun f => f.(sf_opt)) fds then Exn XAttributeError else Ok (VDict r).

Section OMapM.
  Context {A B: Type} (f: A -> option B).
  Fixpoint omapM (l: list A) : option (list B) :=
    match l with
    | [] => Some []
    | x :: r => match f x with
                | Some y => match omapM r with Some ys => Some (y :: ys) | None => None end
                | None => None end
    end.
End OMapM.

(* ------------------------------------------------------------------ *)
(* tuples with an unpacked segment: positions read through index / slice descriptors.
   [items = None]: the value is not subscriptable (only constant positions survive). *)
Section TuWalk.
  Context {T X: Type}.
  Variable run : T -> X -> res pv.
  Variable konst : T -> option pv.
  Variable tail : list T -> res (list pv).       (* a fixed segment longer than its slice *)

  Definition tu_at (items: option (list X)) (a: aidx) (d: T) : res pv :=
    match konst d with
    | Some c => Ok c
    | None =>
        match items with
        | None => Exn XTypeError
        | Some l =>
            match a with
            | AI i => match nth_signed l i with Some x => run d x | None => Exn XIndexError end
            | ASl _ _ => Exn XTypeError          (* descriptor of the wrong shape: never produced by [tu_plan] *)
            end
        end
    end.

  Fixpoint tu_ones (items: option (list X)) (plan: list aidx) (ds: list T) {struct ds} : res (list pv) :=
    match ds, plan with
    | [], [] => Ok []
    | d :: ds', a :: plan' =>
        match tu_at items a d with
        | Ok y => match tu_ones items plan' ds' with Ok ys => Ok (y :: ys) | Exn e => Exn e end
        | Exn e => Exn e end
    | _, _ => Exn XTypeError
    end.

  (* exact-length positional walk (the documented form: one item per type) *)
  Fixpoint pos_walk (ds: list T) (xs: list X) {struct ds} : res (list pv) :=
    match ds, xs with
    | [], [] => Ok []
    | d :: ds', x :: xs' =>
        match (match konst d with Some c => Ok c | None => run d x end) with
        | Ok y => match pos_walk ds' xs' with Ok ys => Ok (y :: ys) | Exn e => Exn e end
        | Exn e => Exn e end
    | _, _ => Exn XIndexError
    end.

  (* a fixed tuple read from a slice: surplus ignored, shortage = [tail] *)
  Fixpoint fix_walk (ds: list T) (l: list X) {struct ds} : res (list pv) :=
    match ds, l with
    | [], _ => Ok []
    | _ :: _, [] => tail ds
    | d :: ds', x :: l' =>
        match run d x with
        | Ok y => match fix_walk ds' l' with Ok ys => Ok (y :: ys) | Exn e => Exn e end
        | Exn e => Exn e end
    end.

  (* the unpacked segment applied to its slice *)
  Definition mid_var (u: T) (sl: option (list X)) : res (list pv) :=
    match sl with Some s => mapM (run u) s | None => Exn XTypeError end.
  Definition mid_fix (us: list T) (sl: option (list X)) : res (list pv) :=
    match omapM konst us with
    | Some cs => Ok cs                                   (* constant segment ("*()" is dropped): no slicing *)
    | None => match sl with Some s => fix_walk us s | None => Exn XTypeError end
    end.

  (* generated form: [u0(x[i0]), ..., *umid(x[i:j]), ..., uk(x[ik])] *)
  Definition tu_walk (items: option (list X)) (plan: list aidx) (pre post: list T)
                     (mid: option (list X) -> res (list pv)) : res (list pv) :=
    let np := List.length pre in
    a <- tu_ones items (firstn np plan) pre ;;
    m <- match nth_error plan np with
         | Some (ASl i j) => mid (option_map (fun l => slice_list l i j) items)
         | _ => Exn XTypeError end ;;
    b <- tu_ones items (skipn (S np) plan) post ;;
    Ok (a ++ m ++ b)%list.

  (* documented form, for a sequence with at least as many items as head + tail: the head items,
     what lies between head and tail for the unpacked segment, the tail items *)
  Definition tu_split (l: list X) (pre post: list T) (mid: option (list X) -> res (list pv)) : res (list pv) :=
    let np := List.length pre in
    let ns := List.length post in
    let L := List.length l in
    a <- pos_walk pre (firstn np l) ;;
    m <- mid (Some (firstn (L - np - ns) (skipn np l))) ;;
    b <- pos_walk post (skipn (L - ns) l) ;;
    Ok (a ++ m ++ b)%list.
End TuWalk.

(* the documented reference rejects a sequence shorter than head + tail *)
Definition XTooFew : exn := XOther "too few items".

(* fuel exhausted while a str input descends through NamedTuple classes (see [uk_str]) *)
Definition XRecursion : exn := XOther "RecursionError".

Section Run.
  Variable E : senv.
  Variable P : prims.

  Fixpoint pk (v: pv) {struct v} : penc -> res pv :=
    fix on_e (e: penc) {struct e} : res pv :=
      match e with
      | EId => Ok v
      | ELeaf => match v with VLeaf k w => Ok (P.(p_render) k w) | _ => Exn XAttributeError end
      | EB64 => match v with VBytes _ b => Ok (VStr (P.(p_b64enc) b)) | _ => Exn XTypeError end
      | EEnumValue => match v with
                      | VEnum en mn => lift (P.(p_enum_value) en mn)
                      | _ => Exn XAttributeError end
      | EOpt e' => if is_none v then Ok VNone else on_e e'
      | ECopyList => match v with VList l => Ok (VList l) | _ => Exn XAttributeError end
      | ECopyDict => match v with VDict kvs => Ok (VDict kvs) | _ => Exn XAttributeError end
      | EListComp e' =>
          match v with
          | VList l | VTuple l | VSet _ l =>
              r <- mapM (fun x => pk x e') l ;; Ok (VList r)
          | _ => Exn XTypeError end
      | EDictComp ke ve =>
          match v with
          | VDict kvs =>
              r <- mapM (fun p => match p with (k, x) =>
                                    k' <- pk k ke ;; x' <- pk x ve ;; Ok (k', x') end) kvs ;;
              Ok (VDict (dict_of_pairs r))
          | _ => Exn XAttributeError end
      | ETupleFix es =>
          match v with
          | VTuple l | VList l =>
              r <- (fix go (es: list penc) (l: list pv) {struct l} : res (list pv) :=
                      match es, l with
                      | [], _ => Ok []
                      | _ :: _, [] => Exn XIndexError
                      | e' :: es', x :: l' => y <- pk x e' ;; ys <- go es' l' ;; Ok (y :: ys)
                      end) es l ;;
              Ok (VList r)
          | _ => Exn XTypeError end
      | ETupleU plan pre emid post =>
          let run := fun (e': penc) (dx: penc -> res pv) => dx e' in
          let items : option (list (penc -> res pv)) :=
              match v with VTuple l | VList l => Some (map (fun x => pk x) l) | _ => None end in
          r <- tu_walk run (fun _ => None) items plan pre post
                 (match emid with
                  | EListComp e' => mid_var run e'
                  | ETupleFix es => mid_fix run (fun _ => None) (fun _ => Exn XIndexError) es
                  | _ => fun _ => Exn XTypeError end) ;;
          Ok (VList r)
      | EData c =>
          match v with
          | VObj c' fs =>
              (* codec path: static call of class c's packer on the instance's attributes
                 (fields are kept in class order in [VObj]) *)
              match sfind E KData c with
              | None => Exn XAttributeError
              | Some k =>
                  r <- (fix go (fds: list sfield) (fs: list (string * pv)) {struct fs} : res (list (pv * pv)) :=
                          match fds, fs with
                          | [], _ => Ok []
                          | _ :: _, [] => Exn XAttributeError
                          | f :: fds', (n, x) :: fs' =>
                              if String.eqb n f.(sf_name) then
                                y <- (if sfield_nullable f && is_none x then Ok VNone
                                      else pk x (cp false f.(sf_ty))) ;;
                                tl <- go fds' fs' ;; Ok ((VStr f.(sf_name), y) :: tl)
                              else Exn XAttributeError
                          end) k.(sc_fields) fs ;;
                  Ok (VDict r)
              end
          | _ => Exn XAttributeError
          end
      | ENamed c =>
          match sfind E KNamed c with
          | None => Exn XAttributeError
          | Some k =>
              match v with
              | VNT _ l | VTuple l | VList l =>
                  r <- nt_items (fun f x => pk x (cp true f.(sf_ty))) (fun _ => None)
                                (fun _ => Exn XIndexError) k.(sc_fields) l ;;
                  Ok (VList r)
              | _ => Exn XTypeError
              end
          end
      | ETyped c =>
          match sfind E KTyped c with
          | None => Exn XAttributeError
          | Some k =>
              match v with
              | VDict kvs =>
                  let entries : list (pv * (penc -> res pv)) :=
                      map (fun p => match p with (key, x) => (key, pk x) end) kvs in
                  r <- td_go (fun f dx => dx (cp true f.(sf_ty))) (fun _ => None) XKeyError
                             entries (td_order k.(sc_fields)) ;;
                  Ok (VDict r)
              | _ => Exn XTypeError
              end
          end
      | EBox ch e' =>
          (* iterating a deque / x.items() of a dict subclass or proxy / x.maps: the comprehension runs on the content
             (x.maps of the canonical empty ChainMap is [{}]) *)
          match v with
          | VObj _ [(_, inner)] => if chain_empty ch inner then Ok (VList [VDict []]) else pk inner e'
          | _ => Exn XAttributeError end
      | ELit ls => lit_find ls v
      end.

  (* ---------------------------------------------------------------- *)
  (* reference serialization, from the README table *)
  Fixpoint ref_enc (v: pv) {struct v} : sty -> res pv :=
    fix on_t (t: sty) {struct t} : res pv :=
      match t with
      | SAny | SNoneT | SIntT | SFloatT | SBoolT | SStrT => Ok v
      | SBytes _ => match v with VBytes _ b => Ok (VStr (P.(p_b64enc) b)) | _ => Exn XTypeError end
      | SLeaf _ => match v with VLeaf k w => Ok (P.(p_render) k w) | _ => Exn XAttributeError end
      | SEnum _ => match v with VEnum en mn => lift (P.(p_enum_value) en mn) | _ => Exn XAttributeError end
      | SList t' | SSet _ t' | STupleVar t' | SSeq t' =>
          match v with
          | VList l | VTuple l | VSet _ l => r <- mapM (fun x => ref_enc x t') l ;; Ok (VList r)
          | _ => Exn XTypeError end
      | STupleFix ts =>
          match v with
          | VTuple l | VList l =>
              r <- (fix go (ts: list sty) (l: list pv) {struct l} : res (list pv) :=
                      match ts, l with
                      | [], _ => Ok []
                      | _ :: _, [] => Exn XIndexError
                      | t' :: ts', x :: l' => y <- ref_enc x t' ;; ys <- go ts' l' ;; Ok (y :: ys)
                      end) ts l ;;
              Ok (VList r)
          | _ => Exn XTypeError end
      | STupleU pre mid post =>
          (* the head items, the items of the unpacked segment, the tail items, each converted by its type *)
          match v with
          | VTuple l | VList l =>
              if (List.length l <? List.length pre + List.length post)%nat then Exn XIndexError
              else
                let run := fun (t': sty) (dx: sty -> res pv) => dx t' in
                r <- tu_split run (fun _ => None) (map (fun x => ref_enc x) l) pre post
                       (match mid with
                        | STupleVar t' => mid_var run t'
                        | STupleFix ts => mid_fix run (fun _ => None) (fun _ => Exn XIndexError) ts
                        | _ => fun _ => Exn XTypeError end) ;;
                Ok (VList r)
          | _ => Exn XTypeError end
      | SDict kt vt | SMap kt vt =>
          match v with
          | VDict kvs =>
              r <- mapM (fun p => match p with (k, x) =>
                                    k' <- ref_enc k kt ;; x' <- ref_enc x vt ;; Ok (k', x') end) kvs ;;
              Ok (VDict (dict_of_pairs r))
          | _ => Exn XAttributeError end
      | SOpt t' => if is_none v then Ok VNone else on_t t'
      | SData c =>
          match v with
          | VObj c' fs =>
              match sfind E KData c with
              | None => Exn XAttributeError
              | Some k =>
                  r <- (fix go (fds: list sfield) (fs: list (string * pv)) {struct fs} : res (list (pv * pv)) :=
                          match fds, fs with
                          | [], _ => Ok []
                          | _ :: _, [] => Exn XAttributeError
                          | f :: fds', (n, x) :: fs' =>
                              if String.eqb n f.(sf_name) then
                                (* a field whose default is None may hold None *)
                                y <- (if sfield_nullable f && is_none x then Ok VNone
                                      else ref_enc x f.(sf_ty)) ;;
                                tl <- go fds' fs' ;; Ok ((VStr f.(sf_name), y) :: tl)
                              else Exn XAttributeError
                          end) k.(sc_fields) fs ;;
                  Ok (VDict r)
              end
          | _ => Exn XAttributeError
          end
      | SNamed c =>
          (* a list with one converted item per field, in field order *)
          match sfind E KNamed c with
          | None => Exn XAttributeError
          | Some k =>
              match v with
              | VNT _ l | VTuple l | VList l =>
                  r <- nt_items (fun f x => ref_enc x f.(sf_ty)) (fun _ => None)
                                (fun _ => Exn XIndexError) k.(sc_fields) l ;;
                  Ok (VList r)
              | _ => Exn XTypeError
              end
          end
      | STyped c =>
          (* a dict with the converted value of every required key, then of the optional keys present *)
          match sfind E KTyped c with
          | None => Exn XAttributeError
          | Some k =>
              match v with
              | VDict kvs =>
                  let entries : list (pv * (sty -> res pv)) :=
                      map (fun p => match p with (key, x) => (key, ref_enc x) end) kvs in
                  r <- td_go (fun f dx => dx f.(sf_ty)) (fun _ => None) XKeyError
                             entries (td_order k.(sc_fields)) ;;
                  Ok (VDict r)
              | _ => Exn XTypeError
              end
          end
      | SBox b t' =>
          (* the basic form of the list / dict the collection holds *)
          match v with
          | VObj _ [(_, inner)] => if chain_empty (is_chain b) inner then Ok (VList [VDict []]) else ref_enc inner t'
          | _ => Exn XAttributeError end
      | SLit ls => lit_find ls v               (* one of the literals (same class, equal), as it is *)
      end.

  (* ---------------------------------------------------------------- *)
  (* deserialization IR *)
  Inductive pdec :=
  | UId
  | UScalar (s: scalar)                 (* int(v) float(v) bool(v) str(v) None *)
  | ULeaf (k: string)                   (* fromisoformat / UUID / Decimal / ... *)
  | UB64 (mut: bool)
  | UEnum (e: string)
  | UOpt (u: pdec)                      (* u if value is not None else None *)
  | UListComp (u: pdec)
  | USetComp (frozen: bool) (u: pdec)
  | UTupleVar (u: pdec)
  | UTupleFix (us: list pdec)           (* tuple([u0(v[0]), ...]) *)
  | UTupleU (plan: list aidx) (pre: list pdec) (mid: pdec) (post: list pdec)
                                        (* tuple([u0(v[0]), ..., *umid(v[i:j]), ..., uk(v[-1])]) *)
  | UDictComp (ku vu: pdec)
  | UData (c: string)
  | UNamed (c: string)                  (* C(u0(value[0]), ...) / the try-append-except IndexError function when C has defaults *)
  | UTyped (c: string)                  (* d = {}; d[k] = u(value[k]) ...; key_value = value.get(k, MISSING) ... *)
  | UBox (b: box) (u: pdec)             (* collections.deque(u) / OrderedDict(u) / Counter(u) / defaultdict(T, u) / MappingProxyType(u) / ChainMap( *u ) *)
  | ULit (ls: list pv).                 (* the literal whose class and value the input has, else ValueError *)

  Fixpoint cu (cbn: bool) (t: sty) {struct t} : pdec :=
    match t with
    | SAny => UId
    | SNoneT => UScalar SNone
    | SIntT => UScalar SInt | SFloatT => UScalar SFloat | SBoolT => UScalar SBool | SStrT => UScalar SStr
    | SBytes m => UB64 m
    | SLeaf k => ULeaf k
    | SEnum e => UEnum e
    | SList t' => UListComp (cu true t')
    | SSet fr t' => USetComp fr (cu true t')
    | STupleVar t' => UTupleVar (cu true t')
    | STupleFix ts => UTupleFix (map (cu true) ts)
    | STupleU pre mid post =>
        UTupleU (tu_plan (List.length pre) (List.length post)) (map (cu true) pre) (cu true mid) (map (cu true) post)
    | SDict kt vt => UDictComp (cu true kt) (cu true vt)
    | SOpt t' => let u := cu cbn t' in if cbn then UOpt u else u
    | SData c => UData c
    | SNamed c => UNamed c
    | STyped c => UTyped c
    | SSeq t' => UListComp (cu true t')
    | SMap kt vt => UDictComp (cu true kt) (cu true vt)
    | SBox b t' => UBox b (cu true t')
    | SLit ls => ULit ls
    end.

  Definition coerce_s (s: scalar) (v: pv) : res pv :=
    match s with
    | SInt => match v with
              | VInt z => Ok (VInt z)
              | VBool b => Ok (VInt (if b then 1 else 0))
              | _ => z <- lift (P.(p_int) v) ;; Ok (VInt z) end
    | SFloat => match v with
                | VFloat f => Ok (VFloat f)
                | _ => f <- lift (P.(p_float) v) ;; Ok (VFloat f) end
    | SBool => Ok (VBool (truthy v))
    | SStr => match v with
              | VStr s => Ok (VStr s)
              | _ => s <- lift (P.(p_str) v) ;; Ok (VStr s) end
    | SNone => Ok VNone
    end.

  (* constant expressions: the generated unpacker expression of a position does not mention its
     input, so the item / key is never read -- "None" for NoneType, "tuple([c0, c1, ...])" resp. "()"
     for a fixed tuple of constants, "C(c0, c1, ...)" for a NamedTuple class WITHOUT defaults all
     of whose fields are constants (with defaults the expression is a helper call on value[i];
     a TypedDict always is a method call on value[...]; Optional[...] tests value[i]).  Nested
     arbitrarily, through the class table: fuel as in [uk_str], started with [List.length E]. *)
  Fixpoint const_dec_n (n: nat) {struct n} : pdec -> option pv :=
    fix on_u (u: pdec) {struct u} : option pv :=
      match u with
      | UScalar SNone => Some VNone
      | UTupleFix us => match omapM on_u us with Some cs => Some (VTuple cs) | None => None end
      | UTupleU _ pre umid post =>
          match omapM on_u pre, (match umid with UTupleFix us => omapM on_u us | _ => None end), omapM on_u post with
          | Some a, Some m, Some b => Some (VTuple (a ++ m ++ b)%list)
          | _, _, _ => None end
      | UNamed c =>
          match n with
          | O => None
          | S n' =>
              match sfind E KNamed c with
              | None => None
              | Some k =>
                  if has_default k.(sc_fields) then None
                  else match omapM (fun f => const_dec_n n' (cu true f.(sf_ty))) k.(sc_fields) with
                       | Some cs => Some (VNT c cs)
                       | None => None end
              end
          end
      | _ => None end.
  Definition const_dec (u: pdec) : option pv := const_dec_n (List.length E) u.
  Fixpoint none_tail (us: list pdec) : res (list pv) :=
    match us with
    | [] => Ok []
    | u :: r => match const_dec u with
                | Some c => ys <- none_tail r ;; Ok (c :: ys)
                | None => Exn XIndexError end
    end.

  Definition konst_u (f: sfield) : option pv := const_dec (cu true f.(sf_ty)).

  (* a str arriving at any decoder: iteration yields one-character strings, so the whole
     behaviour is a function of the decoder alone.  Structural on the decoder except where a
     NamedTuple class is entered through the class table: the fuel [n] is consumed there and
     only there.  [uk] starts it with [List.length E]; it cannot run out when the NamedTuple classes
     of the table do not refer to themselves through NamedTuple/container positions (a chain of
     distinct classes is at most [List.length E] long; Python cannot even build the codec of a
     self-referential NamedTuple).  On exhaustion: RecursionError. *)
  Fixpoint uk_str (n: nat) {struct n} : pdec -> string -> res pv :=
    fix on_u (u: pdec) {struct u} : string -> res pv := fun s =>
    match u with
    | UId => Ok (VStr s)
    | UScalar sc => coerce_s sc (VStr s)
    | ULeaf k => w <- lift (P.(p_parse) k (VStr s)) ;; Ok (VLeaf k w)
    | UB64 m => b <- lift (P.(p_b64dec) (VStr s)) ;; Ok (VBytes m b)
    | UEnum e => mn <- lift (P.(p_enum_of) e (VStr s)) ;; Ok (VEnum e mn)
    | UOpt u' => on_u u' s
    | UListComp u' => r <- mapM (on_u u') (utf8_chars s) ;; Ok (VList r)
    | USetComp fr u' => r <- mapM (on_u u') (utf8_chars s) ;;
        if forallb hashable r then Ok (VSet fr (set_of_list r)) else Exn XTypeError
    | UTupleVar u' => r <- mapM (on_u u') (utf8_chars s) ;; Ok (VTuple r)
    | UTupleFix us =>
        r <- (fix go (us: list pdec) (l: list string) {struct us} : res (list pv) :=
                match us, l with
                | [], _ => Ok []
                | _ :: _, [] => none_tail us
                | u' :: us', x :: l' => y <- on_u u' x ;; ys <- go us' l' ;; Ok (y :: ys)
                end) us (utf8_chars s) ;;
        Ok (VTuple r)
    | UTupleU plan pre umid post =>
        r <- tu_walk on_u const_dec (Some (utf8_chars s)) plan pre post
               (match umid with
                | UTupleVar u' => mid_var on_u u'
                | UTupleFix us => mid_fix on_u const_dec none_tail us
                | _ => fun _ => Exn XTypeError end) ;;
        Ok (VTuple r)
    | UDictComp _ _ => Exn XAttributeError
    | UData c => match sfind E KData c with
                 | Some _ => Exn XValueError       (* a str is not a mapping *)
                 | None => Exn XAttributeError end
    | UNamed c =>
        match sfind E KNamed c with
        | None => Exn XAttributeError
        | Some k =>
            match n with
            | O => Exn XRecursion
            | S n' =>
                r <- nt_items (fun f x => uk_str n' (cu true f.(sf_ty)) x) konst_u
                              (nt_exhausted (has_default k.(sc_fields))) k.(sc_fields) (utf8_chars s) ;;
                Ok (VNT c r)
            end
        end
    | UTyped c =>
        match sfind E KTyped c with
        | None => Exn XAttributeError
        | Some k => td_nondict konst_u k.(sc_fields) end
    | UBox b u' => r <- on_u u' s ;; Ok (box_val b r)
    | ULit ls => lit_find ls (VStr s)
    end.

  Fixpoint uk (d: pv) {struct d} : pdec -> res pv :=
    fix on_u (u: pdec) {struct u} : res pv :=
      match u with
      | UId => Ok d
      | UScalar s => coerce_s s d
      | ULeaf k => w <- lift (P.(p_parse) k d) ;; Ok (VLeaf k w)
      | UB64 m => b <- lift (P.(p_b64dec) d) ;; Ok (VBytes m b)
      | UEnum e => mn <- lift (P.(p_enum_of) e d) ;; Ok (VEnum e mn)
      | UOpt u' => if is_none d then Ok VNone else on_u u'
      | UListComp u' =>
          match d with
          | VList l | VTuple l | VSet _ l => r <- mapM (fun x => uk x u') l ;; Ok (VList r)
          | VDict kvs => r <- mapM (fun p => match p with (k, _) => uk k u' end) kvs ;; Ok (VList r)
          | VStr s => uk_str (List.length E) u s
          | _ => Exn XTypeError end
      | USetComp fr u' =>
          match d with
          | VList l | VTuple l | VSet _ l =>
              r <- mapM (fun x => uk x u') l ;;
              if forallb hashable r then Ok (VSet fr (set_of_list r)) else Exn XTypeError
          | VDict kvs => r <- mapM (fun p => match p with (k, _) => uk k u' end) kvs ;;
              if forallb hashable r then Ok (VSet fr (set_of_list r)) else Exn XTypeError
          | VStr s => uk_str (List.length E) u s
          | _ => Exn XTypeError end
      | UTupleVar u' =>
          match d with
          | VList l | VTuple l | VSet _ l => r <- mapM (fun x => uk x u') l ;; Ok (VTuple r)
          | VDict kvs => r <- mapM (fun p => match p with (k, _) => uk k u' end) kvs ;; Ok (VTuple r)
          | VStr s => uk_str (List.length E) u s
          | _ => Exn XTypeError end
      | UTupleFix us =>
          match d with
          | VList l | VTuple l =>
              r <- (fix go (us: list pdec) (l: list pv) {struct l} : res (list pv) :=
                      match us, l with
                      | [], _ => Ok []                       (* surplus items are ignored *)
                      | _ :: _, [] => none_tail us
                      | u' :: us', x :: l' => y <- uk x u' ;; ys <- go us' l' ;; Ok (y :: ys)
                      end) us l ;;
              Ok (VTuple r)
          | VStr s => uk_str (List.length E) u s
          | _ => r <- none_tail us ;; Ok (VTuple r)     (* only constant positions never index the value *)
          end
      | UTupleU plan pre umid post =>
          match d with
          | VStr s => uk_str (List.length E) u s
          | _ =>
              let run := fun (u': pdec) (dx: pdec -> res pv) => dx u' in
              let items : option (list (pdec -> res pv)) :=
                  match d with VList l | VTuple l => Some (map (fun x => uk x) l) | _ => None end in
              r <- tu_walk run const_dec items plan pre post
                     (match umid with
                      | UTupleVar u' => mid_var run u'
                      | UTupleFix us => mid_fix run const_dec none_tail us
                      | _ => fun _ => Exn XTypeError end) ;;
              Ok (VTuple r)
          end
      | UDictComp ku vu =>
          match d with
          | VDict kvs =>
              r <- mapM (fun p => match p with (k, x) =>
                                    k' <- uk k ku ;; x' <- uk x vu ;;
                                    if hashable k' then Ok (k', x') else Exn XTypeError end) kvs ;;
              Ok (VDict (dict_of_pairs r))
          | _ => Exn XAttributeError end
      | UData c =>
          match sfind E KData c with
          | None => Exn XAttributeError
          | Some k =>
              match d with
              | VDict kvs =>
                  (* closures (key, (raw value, decoder of that entry)): the lookup happens on
                     them so that the recursion stays structural on the input *)
                  let entries : list (pv * (pv * (pdec -> res pv))) :=
                      map (fun p => match p with (key, x) => (key, (x, uk x)) end) kvs in
                  r <- (fix go (fds: list sfield) : res (list (string * pv)) :=
                          match fds with
                          | [] => Ok []
                          | f :: rest =>
                              y <- match (fix look (es: list (pv * (pv * (pdec -> res pv)))) : option (pv * (pdec -> res pv)) :=
                                            match es with
                                            | [] => None
                                            | (key, xd) :: er =>
                                                if py_eq key (VStr f.(sf_name)) then Some xd else look er
                                            end) entries with
                                   | Some (x, dx) =>
                                       (* nullable field: explicit null gives None without calling the unpacker *)
                                       if is_none x && sfield_nullable f then Ok VNone else dx (cu false f.(sf_ty))
                                   | None => match f.(sf_default) with
                                             | Some dv => Ok dv
                                             | None => Exn (XMissingField f.(sf_name) c) end
                                   end ;;
                              tl <- go rest ;; Ok ((f.(sf_name), y) :: tl)
                          end) k.(sc_fields) ;;
                  Ok (VObj c r)
              | _ => Exn XValueError               (* non-mapping argument *)
              end
          end
      | UNamed c =>
          match sfind E KNamed c with
          | None => Exn XAttributeError
          | Some k =>
              match d with
              | VList l | VTuple l =>
                  (* an error raised inside an item unpacker always propagates (fix 8ccb0df) *)
                  r <- nt_items (fun f x => uk x (cu true f.(sf_ty))) konst_u
                                (nt_exhausted (has_default k.(sc_fields))) k.(sc_fields) l ;;
                  Ok (VNT c r)
              | VStr s => uk_str (List.length E) u s
              | _ =>
                  (* value[i] fails with something that is not IndexError: no defaults; only
                     constant positions never index the value *)
                  r <- nt_tail konst_u (fun _ => Exn XTypeError) k.(sc_fields) ;; Ok (VNT c r)
              end
          end
      | UTyped c =>
          match sfind E KTyped c with
          | None => Exn XAttributeError
          | Some k =>
              match d with
              | VDict kvs =>
                  let entries : list (pv * (pdec -> res pv)) :=
                      map (fun p => match p with (key, x) => (key, uk x) end) kvs in
                  r <- td_go (fun f dx => dx (cu true f.(sf_ty))) konst_u XKeyError
                             entries (td_order k.(sc_fields)) ;;
                  Ok (VDict r)
              | _ => td_nondict konst_u k.(sc_fields)
              end
          end
      | UBox b u' => r <- on_u u' ;; Ok (box_val b r)
      | ULit ls => lit_find ls d
      end.

  (* ---------------------------------------------------------------- *)
  (* reference deserialization, from the README: documented constructor / parser per
     scalar, canonical concrete container with every element converted, surplus tuple
     items and unknown keys ignored; iteration semantics of foreign inputs (a str
     iterates its characters, a dict its keys). *)
  (* types whose constructor takes no information from the input (see [const_dec_n]) *)
  Fixpoint const_ty_n (n: nat) {struct n} : sty -> option pv :=
    fix on_t (t: sty) {struct t} : option pv :=
      match t with
      | SNoneT => Some VNone
      | STupleFix ts => match omapM on_t ts with Some cs => Some (VTuple cs) | None => None end
      | STupleU pre mid post =>
          match omapM on_t pre, (match mid with STupleFix ts => omapM on_t ts | _ => None end), omapM on_t post with
          | Some a, Some m, Some b => Some (VTuple (a ++ m ++ b)%list)
          | _, _, _ => None end
      | SNamed c =>
          match n with
          | O => None
          | S n' =>
              match sfind E KNamed c with
              | None => None
              | Some k =>
                  if has_default k.(sc_fields) then None
                  else match omapM (fun f => const_ty_n n' f.(sf_ty)) k.(sc_fields) with
                       | Some cs => Some (VNT c cs)
                       | None => None end
              end
          end
      | _ => None end.
  Definition const_ty (t: sty) : option pv := const_ty_n (List.length E) t.
  Fixpoint none_tail_t (ts: list sty) : res (list pv) :=
    match ts with
    | [] => Ok []
    | t :: r => match const_ty t with
                | Some c => ys <- none_tail_t r ;; Ok (c :: ys)
                | None => Exn XIndexError end
    end.

  Definition konst_t (f: sfield) : option pv := const_ty f.(sf_ty).

  (* Two readings of "tuple with an unpacked segment":
     [strict = true]  the documented one: a sequence shorter than head + tail is an error
                      ([XTooFew]); otherwise head items / middle / tail items ([tu_split]);
     [strict = false] what the generated code does: every position is read through the index /
                      slice plan, so a short sequence yields overlapping reads (known finding
                      C03/unpacked-tuple-short-input).
     The two agree wherever the strict one does not say [XTooFew] (TyProofs.strict_or_same). *)
  Section Mode.
  Variable strict : bool.

  Definition tu_ref {X} (run: sty -> X -> res pv) (tail: list sty -> res (list pv)) (l: list X)
                    (pre: list sty) (mid: sty) (post: list sty) : res (list pv) :=
    let midf := match mid with
                | STupleVar t' => mid_var run t'
                | STupleFix ts => mid_fix run const_ty tail ts
                | _ => fun _ => Exn XTypeError end in
    if strict then
      if (List.length l <? List.length pre + List.length post)%nat then Exn XTooFew
      else tu_split run const_ty l pre post midf
    else tu_walk run const_ty (Some l) (tu_plan (List.length pre) (List.length post)) pre post midf.

  (* fuel: as for [uk_str] *)
  Fixpoint ref_dec_str_g (n: nat) {struct n} : sty -> string -> res pv :=
    fix on_t (t: sty) {struct t} : string -> res pv := fun s =>
    match t with
    | SAny => Ok (VStr s)
    | SNoneT => Ok VNone
    | SIntT => coerce_s SInt (VStr s)
    | SFloatT => coerce_s SFloat (VStr s)
    | SBoolT => coerce_s SBool (VStr s)
    | SStrT => Ok (VStr s)
    | SBytes m => b <- lift (P.(p_b64dec) (VStr s)) ;; Ok (VBytes m b)
    | SLeaf k => w <- lift (P.(p_parse) k (VStr s)) ;; Ok (VLeaf k w)
    | SEnum e => mn <- lift (P.(p_enum_of) e (VStr s)) ;; Ok (VEnum e mn)
    | SList t' | SSeq t' => r <- mapM (on_t t') (utf8_chars s) ;; Ok (VList r)
    | SSet fr t' => r <- mapM (on_t t') (utf8_chars s) ;;
        if forallb hashable r then Ok (VSet fr (set_of_list r)) else Exn XTypeError
    | STupleVar t' => r <- mapM (on_t t') (utf8_chars s) ;; Ok (VTuple r)
    | STupleFix ts =>
        r <- (fix go (ts: list sty) (l: list string) {struct ts} : res (list pv) :=
                match ts, l with
                | [], _ => Ok []
                | _ :: _, [] => none_tail_t ts    (* NoneType's constructor is the constant None: the item is not read *)
                | t' :: ts', x :: l' => y <- on_t t' x ;; ys <- go ts' l' ;; Ok (y :: ys)
                end) ts (utf8_chars s) ;;
        Ok (VTuple r)
    | STupleU pre mid post =>
        r <- tu_ref on_t none_tail_t (utf8_chars s) pre mid post ;; Ok (VTuple r)
    | SDict _ _ | SMap _ _ => Exn XAttributeError
    | SOpt t' => on_t t' s
    | SData c => match sfind E KData c with
                 | Some _ => Exn XValueError
                 | None => Exn XAttributeError end
    | SNamed c =>
        match sfind E KNamed c with
        | None => Exn XAttributeError
        | Some k =>
            match n with
            | O => Exn XRecursion
            | S n' =>
                r <- nt_items (fun f x => ref_dec_str_g n' f.(sf_ty) x) konst_t
                              (nt_exhausted (has_default k.(sc_fields))) k.(sc_fields) (utf8_chars s) ;;
                Ok (VNT c r)
            end
        end
    | STyped c =>
        match sfind E KTyped c with
        | None => Exn XAttributeError
        | Some k => td_nondict konst_t k.(sc_fields) end
    | SBox b t' => r <- on_t t' s ;; Ok (box_val b r)
    | SLit ls => lit_find ls (VStr s)
    end.

  Fixpoint ref_dec_g (d: pv) {struct d} : sty -> res pv :=
    fix on_t (t: sty) {struct t} : res pv :=
      match t with
      | SAny => Ok d
      | SNoneT => Ok VNone
      | SIntT => coerce_s SInt d
      | SFloatT => coerce_s SFloat d
      | SBoolT => coerce_s SBool d
      | SStrT => coerce_s SStr d
      | SBytes m => b <- lift (P.(p_b64dec) d) ;; Ok (VBytes m b)
      | SLeaf k => w <- lift (P.(p_parse) k d) ;; Ok (VLeaf k w)
      | SEnum e => mn <- lift (P.(p_enum_of) e d) ;; Ok (VEnum e mn)
      | SList t' | SSeq t' =>
          match d with
          | VList l | VTuple l | VSet _ l => r <- mapM (fun x => ref_dec_g x t') l ;; Ok (VList r)
          | VDict kvs => r <- mapM (fun p => match p with (k, _) => ref_dec_g k t' end) kvs ;; Ok (VList r)
          | VStr s => ref_dec_str_g (List.length E) t s
          | _ => Exn XTypeError end
      | SSet fr t' =>
          match d with
          | VList l | VTuple l | VSet _ l =>
              r <- mapM (fun x => ref_dec_g x t') l ;;
              if forallb hashable r then Ok (VSet fr (set_of_list r)) else Exn XTypeError
          | VDict kvs => r <- mapM (fun p => match p with (k, _) => ref_dec_g k t' end) kvs ;;
              if forallb hashable r then Ok (VSet fr (set_of_list r)) else Exn XTypeError
          | VStr s => ref_dec_str_g (List.length E) t s
          | _ => Exn XTypeError end
      | STupleVar t' =>
          match d with
          | VList l | VTuple l | VSet _ l => r <- mapM (fun x => ref_dec_g x t') l ;; Ok (VTuple r)
          | VDict kvs => r <- mapM (fun p => match p with (k, _) => ref_dec_g k t' end) kvs ;; Ok (VTuple r)
          | VStr s => ref_dec_str_g (List.length E) t s
          | _ => Exn XTypeError end
      | STupleFix ts =>
          match d with
          | VList l | VTuple l =>
              r <- (fix go (ts: list sty) (l: list pv) {struct l} : res (list pv) :=
                      match ts, l with
                      | [], _ => Ok []
                      | _ :: _, [] => none_tail_t ts
                      | t' :: ts', x :: l' => y <- ref_dec_g x t' ;; ys <- go ts' l' ;; Ok (y :: ys)
                      end) ts l ;;
              Ok (VTuple r)
          | VStr s => ref_dec_str_g (List.length E) t s
          | _ => r <- none_tail_t ts ;; Ok (VTuple r)
          end
      | STupleU pre mid post =>
          match d with
          | VList l | VTuple l =>
              r <- tu_ref (fun (t': sty) (dx: sty -> res pv) => dx t') none_tail_t (map (fun x => ref_dec_g x) l) pre mid post ;;
              Ok (VTuple r)
          | VStr s => ref_dec_str_g (List.length E) t s
          | _ =>
              (* not subscriptable: only constant positions never index the value *)
              r <- tu_walk (fun (t': sty) (dx: sty -> res pv) => dx t') const_ty None
                     (tu_plan (List.length pre) (List.length post)) pre post
                     (match mid with
                      | STupleFix ts => mid_fix (fun (t': sty) (dx: sty -> res pv) => dx t') const_ty none_tail_t ts
                      | _ => fun _ => Exn XTypeError end) ;;
              Ok (VTuple r)
          end
      | SDict kt vt | SMap kt vt =>
          match d with
          | VDict kvs =>
              r <- mapM (fun p => match p with (k, x) =>
                                    k' <- ref_dec_g k kt ;; x' <- ref_dec_g x vt ;;
                                    if hashable k' then Ok (k', x') else Exn XTypeError end) kvs ;;
              Ok (VDict (dict_of_pairs r))
          | _ => Exn XAttributeError end
      | SOpt t' => if is_none d then Ok VNone else on_t t'
      | SData c =>
          match sfind E KData c with
          | None => Exn XAttributeError
          | Some k =>
              match d with
              | VDict kvs =>
                  let entries : list (pv * (pv * (sty -> res pv))) :=
                      map (fun p => match p with (key, x) => (key, (x, ref_dec_g x)) end) kvs in
                  r <- (fix go (fds: list sfield) : res (list (string * pv)) :=
                          match fds with
                          | [] => Ok []
                          | f :: rest =>
                              y <- match (fix look (es: list (pv * (pv * (sty -> res pv)))) : option (pv * (sty -> res pv)) :=
                                            match es with
                                            | [] => None
                                            | (key, xd) :: er =>
                                                if py_eq key (VStr f.(sf_name)) then Some xd else look er
                                            end) entries with
                                   | Some (x, dx) =>
                                       if is_none x && sfield_nullable f then Ok VNone else dx f.(sf_ty)
                                   | None => match f.(sf_default) with
                                             | Some dv => Ok dv
                                             | None => Exn (XMissingField f.(sf_name) c) end
                                   end ;;
                              tl <- go rest ;; Ok ((f.(sf_name), y) :: tl)
                          end) k.(sc_fields) ;;
                  Ok (VObj c r)
              | VStr s => ref_dec_str_g (List.length E) t s
              | _ => Exn XValueError
              end
          end
      | SNamed c =>
          (* the class applied to one converted item per field, read by position; surplus items
             ignored; when the class declares defaults, a sequence that ends early leaves the
             remaining fields to their defaults *)
          match sfind E KNamed c with
          | None => Exn XAttributeError
          | Some k =>
              match d with
              | VList l | VTuple l =>
                  r <- nt_items (fun f x => ref_dec_g x f.(sf_ty)) konst_t
                                (nt_exhausted (has_default k.(sc_fields))) k.(sc_fields) l ;;
                  Ok (VNT c r)
              | VStr s => ref_dec_str_g (List.length E) t s
              | _ => r <- nt_tail konst_t (fun _ => Exn XTypeError) k.(sc_fields) ;; Ok (VNT c r)
              end
          end
      | STyped c =>
          (* a dict with every required key converted, then the optional keys present; unknown keys ignored *)
          match sfind E KTyped c with
          | None => Exn XAttributeError
          | Some k =>
              match d with
              | VDict kvs =>
                  let entries : list (pv * (sty -> res pv)) :=
                      map (fun p => match p with (key, x) => (key, ref_dec_g x) end) kvs in
                  r <- td_go (fun f dx => dx f.(sf_ty)) konst_t XKeyError
                             entries (td_order k.(sc_fields)) ;;
                  Ok (VDict r)
              | _ => td_nondict konst_t k.(sc_fields)
              end
          end
      | SBox b t' =>
          (* the canonical concrete class built from the converted list / dict *)
          r <- on_t t' ;; Ok (box_val b r)
      | SLit ls => lit_find ls d               (* the literal of the same class and value *)
      end.
  End Mode.
End Run.

(* the documented reference and the reading the generated code implements *)
Notation ref_dec E P := (ref_dec_g E P true).
Notation ref_dec_l E P := (ref_dec_g E P false).
Notation ref_dec_str E P := (ref_dec_str_g E P true).
Notation ref_dec_str_l E P := (ref_dec_str_g E P false).

