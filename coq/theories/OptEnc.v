(* C08 - encoding of the model's option namespaces (OptProj.ns) as kernel values (PyK.kv);
   shared by the kernel theorems K3 and K14, independent of any generated file. *)
From Coq Require Import List String Ascii ZArith Bool.
From Verif Require Import Regex PyK OptProj.
Import ListNotations.
Open Scope string_scope.

(* ---- encoding of the model's option namespaces as kernel values ---- *)
Definition enc_tri (t: tri) : kv := match t with U => KMissing | F => KBool false | T => KBool true end.
Definition enc_ns (n: ns) : kv :=
  KNs [("omit_none", enc_tri n.(n_on)); ("omit_default", enc_tri n.(n_od)); ("serialize_by_alias", enc_tri n.(n_ba))].
Definition enc_ons (o: option ns) : kv := match o with Some n => enc_ns n | None => KNone end.

Inductive optname := OOmitNone | OOmitDefault | OByAlias.
Definition opt_str (x: optname) : string :=
  match x with OOmitNone => "omit_none" | OOmitDefault => "omit_default" | OByAlias => "serialize_by_alias" end.
Definition opt_sel (x: optname) : ns -> tri :=
  match x with OOmitNone => n_on | OOmitDefault => n_od | OByAlias => n_ba end.

