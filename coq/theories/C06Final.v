(* C06: property theorem, corollaries and refutations (on top of C06Proofs.sound_all). *)
From Coq Require Import List String Ascii ZArith Bool Lia.
From Verif Require Import JValid PyK_tuple K6Proofs TzName Schema C06Proofs.
From VerifGen Require Import K6.
Import ListNotations.
Open Scope string_scope.
Close Scope Z_scope.

(* ---------------- definitions table in all_refs mode ---------------- *)
Lemma has_key_cons {A} (k0: string) (v: A) l k : has_key ((k0, v) :: l) k = String.eqb k0 k || has_key l k.
Proof. unfold has_key. cbn. destruct (String.eqb k0 k); reflexivity. Qed.

Lemma defs_keys E dl ar md : forall l ds, defs_f E dl ar md l = Some ds ->
  forall k, has_key ds k = true -> In k (map c_name l).
Proof.
  induction l as [|d0 r IH]; intros ds H k Hk; cbn in H.
  - inversion H; subst. discriminate.
  - destruct (class_schema E dl ar md d0) as [s0|]; [|discriminate].
    destruct (defs_f E dl ar md r) as [ds'|] eqn:Er; [|discriminate]. inversion H; subst; clear H.
    destruct (has_key ds' (c_name d0)).
    + right. eapply IH; eauto.
    + rewrite has_key_cons in Hk. apply orb_true_iff in Hk. destruct Hk as [Hk|Hk].
      * apply String.eqb_eq in Hk. left. assumption.
      * right. eapply IH; eauto.
Qed.

Lemma defs_f_assoc E dl ar md : forall l ds, defs_f E dl ar md l = Some ds ->
  no_dup_str (map c_name l) = true ->
  forall d, In d l -> exists s, class_schema E dl ar md d = Some s /\ assoc ds (c_name d) = Some s.
Proof.
  induction l as [|d0 r IH]; intros ds H Hnd d Hin; [contradiction|]. cbn in H.
  destruct (class_schema E dl ar md d0) as [s0|] eqn:Es; [|discriminate].
  destruct (defs_f E dl ar md r) as [ds'|] eqn:Er; [|discriminate]. inversion H; subst; clear H.
  cbn in Hnd. apply andb_true_iff in Hnd. destruct Hnd as [Hn0 Hnd].
  assert (Hk: has_key ds' (c_name d0) = false).
  { destruct (has_key ds' (c_name d0)) eqn:Hk; [|reflexivity].
    pose proof (defs_keys _ _ _ _ _ _ Er _ Hk) as Hin'.
    pose proof (nodup_notin _ _ _ Hn0 Hin') as Hx. rewrite String.eqb_refl in Hx. discriminate. }
  rewrite Hk. destruct Hin as [<-|Hin].
  - exists s0. split; [assumption|]. cbn. rewrite String.eqb_refl. reflexivity.
  - destruct (IH ds' eq_refl Hnd d Hin) as (s & Hs & Ha). exists s. split; [assumption|].
    cbn. rewrite (nodup_notin _ _ _ Hn0 (in_map c_name _ _ Hin)). assumption.
Qed.

(* ---------------- the property theorem ---------------- *)
Theorem C06_sound_thm :
  forall (pm: string -> string -> bool),
    (forall m, (-1440 < m < 1440)%Z -> pm UTC_PATTERN (tzname m) = true) ->
  forall E dl ar md ds,
    env_ok E = true ->
    defs_f E dl ar md (classes E) = Some ds ->
  forall n cur base t v j m m' s k,
    ty_ok m' E cur base t = true ->
    enc_ok n E cur base t v j = true ->
    schema_f E dl ar cur m t = Some s ->
    2 * n + 1 <= k ->
    jvalid pm ds k s j = true.
Proof.
  intros pm Hpm E dl ar md ds Eok Hd n cur base t v j m m' s k Hok He Hs Hk.
  eapply (sound_all pm Hpm E dl ar ds Eok); eauto.
  intros _ d Hin. exists md.
  unfold env_ok in Eok. apply andb_true_iff in Eok. destruct Eok as [Eok _]. apply andb_true_iff in Eok. destruct Eok as [Hn _].
  eapply defs_f_assoc; eauto.
Qed.

(* ---------------- 'required' lists exactly the init fields without default ---------------- *)
Fixpoint get_required (k: list kw) : list string :=
  match k with [] => [] | KRequired l :: _ => l | _ :: r => get_required r end.

Lemma get_required_obj title ps req : get_required (obj_kws title ps req) = req.
Proof. unfold obj_kws. destruct title, ps, req; reflexivity. Qed.

Theorem required_iff_no_default E dl ar m d s : class_schema E dl ar m d = Some s ->
  forall key, In key (get_required (kws_of s)) <->
              exists f, In f (c_fields d) /\ f_key f = key /\ f_init f = true /\ f_has_default f = false
                        /\ (c_omit d && fnullable f) = false.
Proof.
  unfold class_schema. intros H key.
  match type of H with context [omap ?G ?L] => destruct (omap G L) as [ps|]; [|discriminate] end.
  inversion H; subst; clear H. cbn [kws_of]. rewrite get_required_obj. split.
  - intros Hin. apply in_map_iff in Hin. destruct Hin as (f & Hk & Hf). apply filter_In in Hf. destruct Hf as [Hf Hd].
    apply filter_In in Hf. destruct Hf as [Hf Hi]. exists f. unfold frequired in Hd.
    apply andb_true_iff in Hd. destruct Hd as [Hd Ho]. apply negb_true_iff in Hd. apply negb_true_iff in Ho. auto.
  - intros (f & Hf & Hk & Hi & Hd & Ho). apply in_map_iff. exists f. split; [assumption|].
    apply filter_In. split; [apply filter_In; auto|]. unfold frequired. rewrite Hd, Ho. reflexivity.
Qed.

(* ---------------- satisfiable: emitted array bounds are consistent ---------------- *)
Lemma tuple_kws_min (r: tschema schema) : get_kw_min (tuple_kws r) = t_min r.
Proof. unfold tuple_kws. destruct r as [[p|] [i|] [mn|] [mx|]]; reflexivity. Qed.
Lemma tuple_kws_max (r: tschema schema) : get_kw_max (tuple_kws r) = t_max r.
Proof. unfold tuple_kws. destruct r as [[p|] [i|] [mn|] [mx|]]; reflexivity. Qed.

Theorem tuple_satisfiable (targs: list (targ schema)) :
  (forall u, In u (unpacks targs) -> u_ok u) ->
  forall mn mx, get_kw_min (tuple_kws (on_tuple_k targs)) = Some mn ->
                get_kw_max (tuple_kws (on_tuple_k targs)) = Some mx -> (mn <= mx)%Z.
Proof.
  intros Hu mn mx Hmn Hmx. rewrite tuple_kws_min in Hmn. rewrite tuple_kws_max in Hmx.
  pose proof (K6_min_le_max_thm targs Hu mx Hmx) as H. unfold tmin in H. rewrite Hmn in H. unfold oz_or in H.
  destruct (Z.eqb_spec mn 0); lia.
Qed.

(* ---------------- refutations: the known findings, exhibited in the model ---------------- *)
Definition pm_any (p x: string) : bool := true.
Definition dl2020 := mkD "#/$defs".

Definition E_flag := mkEnv [] [] [] [mkE "F" [JInt 1; JInt 2] true].
Theorem flag_refuted :
  enc_ok 5 E_flag false false (TEnum "F") (VFlag 3) (JInt 3) = true /\
  exists s, schema_f E_flag dl2020 false false 5 (TEnum "F") = Some s /\ jvalid pm_any [] 50 s (JInt 3) = false.
Proof. split; [vm_compute; reflexivity|]. eexists. split; [vm_compute; reflexivity | vm_compute; reflexivity]. Qed.

Definition E0 := mkEnv [] [] [] [].
Theorem intkey_refuted :
  enc_ok 5 E0 false false (TDict TInt TStr) (VDict [(VInt 1, VStr "a")]) (JObj [("1", JStr "a")]) = true /\
  exists s, schema_f E0 dl2020 false false 5 (TDict TInt TStr) = Some s /\ jvalid pm_any [] 50 s (JObj [("1", JStr "a")]) = false.
Proof. split; [vm_compute; reflexivity|]. eexists. split; [vm_compute; reflexivity | vm_compute; reflexivity]. Qed.

Definition E_same := mkEnv
  [mkC "P1" "P" [mkF "v" "v" TInt false true None false None] false false; mkC "P2" "P" [mkF "v" "v" TStr false true None false None] false false;
   mkC "HP" "HP" [mkF "a" "a" (TData "P1") false true None false None; mkF "b" "b" (TData "P2") false true None false None] false false] [] [] [].
Definition doc_same := JObj [("a", JObj [("v", JInt 1)]); ("b", JObj [("v", JStr "s")])].
Theorem shared_defs_refuted :
  enc_ok 9 E_same false false (TData "HP") (VObj [("a", VObj [("v", VInt 1)]); ("b", VObj [("v", VStr "s")])]) doc_same = true /\
  ty_ok 9 E_same false false (TData "HP") = true /\
  (exists s, schema_f E_same dl2020 false false 9 (TData "HP") = Some s /\ jvalid pm_any [] 50 s doc_same = true) /\
  exists s ds, schema_f E_same dl2020 true false 9 (TData "HP") = Some s /\ defs_f E_same dl2020 true 9 (classes E_same) = Some ds /\
               jvalid pm_any ds 50 s doc_same = false.
Proof.
  split; [vm_compute; reflexivity|]. split; [vm_compute; reflexivity|]. split.
  - eexists. split; [vm_compute; reflexivity | vm_compute; reflexivity].
  - eexists. eexists. split; [vm_compute; reflexivity | split; [vm_compute; reflexivity | vm_compute; reflexivity]].
Qed.

Definition t_setu := TSet (TUnion [TStr; TLeaf "date"]).
Theorem set_collision_refuted :
  all2 (enc_ok 5 E0 false false (TUnion [TStr; TLeaf "date"])) [VStr "2020-01-01"; VLeaf "2020-01-01"] [JStr "2020-01-01"; JStr "2020-01-01"] = true /\
  exists s, schema_f E0 dl2020 false false 5 t_setu = Some s /\
            jvalid pm_any [] 50 s (JArr [JStr "2020-01-01"; JStr "2020-01-01"]) = false.
Proof. split; [vm_compute; reflexivity|]. eexists. split; [vm_compute; reflexivity | vm_compute; reflexivity]. Qed.

Definition E_init := mkEnv [mkC "B" "B" [mkF "n" "n" TInt true false None false None] false false] [] [] [].
Theorem init_false_refuted :
  enc_ok 5 E_init false false (TData "B") (VObj [("n", VInt 5)]) (JObj [("n", JInt 5)]) = true /\
  exists s, schema_f E_init dl2020 false false 5 (TData "B") = Some s /\ jvalid pm_any [] 50 s (JObj [("n", JInt 5)]) = false.
Proof. split; [vm_compute; reflexivity|]. eexists. split; [vm_compute; reflexivity | vm_compute; reflexivity]. Qed.

(* non-vacuity witness for the soundness theorem: a dataclass with an alias, a default,
   a nested class, an optional, a list and a str-keyed dict *)
Definition E_nv := mkEnv
  [mkC "A" "A" [mkF "x" "xx" TInt false true None false None; mkF "y" "y" (TUnion [TStr; TNone]) true true None false None] false false;
   mkC "H" "H" [mkF "a" "a" (TData "A") false true None false None; mkF "l" "l" (TList false (TLeaf "date")) true true None false None;
                mkF "d" "d" (TDict TStr (TTuple [(false, TInt); (false, TBool)])) true true None false None] false false] [] [] [].
Definition v_nv := VObj [("a", VObj [("x", VInt 1); ("y", VNone)]); ("l", VList [VLeaf "2020-01-01"]);
                         ("d", VDict [(VStr "k", VList [VInt 2; VBool true])])].
Definition j_nv := JObj [("a", JObj [("xx", JInt 1); ("y", JNull)]); ("l", JArr [JStr "2020-01-01"]);
                         ("d", JObj [("k", JArr [JInt 2; JBool true])])].
Lemma nonvacuous : env_ok E_nv = true /\ ty_ok 9 E_nv false false (TData "H") = true /\ enc_ok 9 E_nv false false (TData "H") v_nv j_nv = true /\
  (exists s, schema_f E_nv dl2020 true false 9 (TData "H") = Some s) /\ (exists ds, defs_f E_nv dl2020 true 9 (classes E_nv) = Some ds).
Proof.
  split; [vm_compute; reflexivity|]. split; [vm_compute; reflexivity|]. split; [vm_compute; reflexivity|].
  split; eexists; vm_compute; reflexivity.
Qed.

(* ---- named tuples as dicts / field override / omit_none ---- *)
Definition NT_P := mkC "P" "P" [mkF "a" "a" TInt false true None false None; mkF "b" "b" (TUnion [TStr; TNone]) true true None false None] false false.
Definition NT_Q := mkC "Q" "Q" [mkF "l" "l" (TList false (TNamed "P")) false true None false None] false false.

(* KF schema-nt-override-in-containers: q: Q = field(metadata={"serialize": "as_dict"}), Q.l: List[P]:
   the serializer forgets the override inside the list ([[1, null]]), the schema does not *)
Definition E_ovc := mkEnv [mkC "A" "A" [mkF "q" "q" (TNamed "Q") false true (Some true) false None] false false] [] [NT_P; NT_Q] [].
Definition v_ovc := VObj [("q", VList [VList [VList [VInt 1; VNone]]])].
Definition j_ovc := JObj [("q", JObj [("l", JArr [JArr [JInt 1; JNull]])])].
Theorem nt_override_container_refuted :
  enc_ok 9 E_ovc false false (TData "A") v_ovc j_ovc = true /\
  exists s, schema_f E_ovc dl2020 false false 9 (TData "A") = Some s /\ jvalid pm_any [] 50 s j_ovc = false.
Proof. split; [vm_compute; reflexivity|]. eexists. split; [vm_compute; reflexivity | vm_compute; reflexivity]. Qed.

(* fixed in /repo a5aab21 (was KF schema-omit-none-required): x: Optional[int] without default in a class with
   omit_none: the key is dropped for None and is not required *)
Definition E_omit := mkEnv [mkC "A" "A" [mkF "x" "x" (TUnion [TInt; TNone]) false true None false None] false true] [] [] [].
Theorem omit_none_required_example :
  ty_ok 5 E_omit false false (TData "A") = true /\
  enc_ok 5 E_omit false false (TData "A") (VObj [("x", VNone)]) (JObj []) = true /\
  exists s, schema_f E_omit dl2020 false false 5 (TData "A") = Some s /\ get_required (kws_of s) = [] /\
            jvalid pm_any [] 50 s (JObj []) = true.
Proof.
  split; [vm_compute; reflexivity|]. split; [vm_compute; reflexivity|].
  eexists. split; [vm_compute; reflexivity | split; [vm_compute; reflexivity | vm_compute; reflexivity]].
Qed.

(* non-vacuity with the new constructs: class S with namedtuple_as_dict and omit_none:
     p: P (dict, by the class option)          o: P = field(serialize="as_list") (list, by the override)
     t: Tuple[P, ...] (dicts)                  a: List[Optional[int]] (nested None is kept)
     z: Optional[int] (no default: dropped when None, hence not required)
     y: Optional[str] = None, w: Literal[1, None] = None (nullable by "default is None": dropped when None) *)
Definition E_nv2 := mkEnv
  [mkC "S" "S" [mkF "p" "p" (TNamed "P") false true None false None; mkF "o" "o" (TNamed "P") false true (Some false) false None;
                mkF "t" "t" (TList true (TNamed "P")) false true None false None;
                mkF "a" "a" (TList false (TUnion [TInt; TNone])) false true None false None;
                mkF "z" "z" (TUnion [TInt; TNone]) false true None false None;
                mkF "y" "y" (TUnion [TStr; TNone]) true true None true None;
                mkF "w" "w" (TLit [JInt 1; JNull]) true true None true None] true true] [] [NT_P] [].
Definition v_nv2 := VObj [("p", VList [VInt 1; VNone]); ("o", VList [VInt 2; VStr "s"]); ("t", VList [VList [VInt 3; VNone]]);
                          ("a", VList [VInt 1; VNone]); ("z", VNone); ("y", VNone); ("w", VRaw JNull)].
Definition j_nv2 := JObj [("p", JObj [("a", JInt 1); ("b", JNull)]); ("o", JArr [JInt 2; JStr "s"]);
                          ("t", JArr [JObj [("a", JInt 3); ("b", JNull)]]); ("a", JArr [JInt 1; JNull])].
Lemma nonvacuous2 : env_ok E_nv2 = true /\ ty_ok 9 E_nv2 false false (TData "S") = true /\
  enc_ok 9 E_nv2 false false (TData "S") v_nv2 j_nv2 = true /\
  (exists s ds, schema_f E_nv2 dl2020 true false 9 (TData "S") = Some s /\ defs_f E_nv2 dl2020 true 9 (classes E_nv2) = Some ds /\
                jvalid pm_any ds 50 s j_nv2 = true).
Proof.
  split; [vm_compute; reflexivity|]. split; [vm_compute; reflexivity|]. split; [vm_compute; reflexivity|].
  eexists. eexists. split; [vm_compute; reflexivity | split; [vm_compute; reflexivity | vm_compute; reflexivity]].
Qed.

(* ---- fixed tuples with an Unpack segment (element-wise, round 4) ---- *)
(* Tuple[int, Unpack[Tuple[str, ...]], bool] and Tuple[int, Unpack[Tuple[str, float]]] *)
Definition t_unp_var := TTuple [(false, TInt); (true, TList true TStr); (false, TBool)].
Definition t_unp_fix := TTuple [(false, TInt); (true, TTuple [(false, TStr); (false, TFloat)])].
(* Tuple[int, Unpack[Tuple[str, Unpack[Tuple[float, ...]]]], bool]: Unpack inside an unpacked tuple *)
Definition t_unp_nest := TTuple [(false, TInt); (true, TTuple [(false, TStr); (true, TList true TFloat)]); (false, TBool)].
Lemma nonvacuous_unpack_nested :
  ty_ok 9 E0 false false t_unp_nest = true /\
  enc_ok 9 E0 false false t_unp_nest (VList [VInt 1; VStr "a"; VFlt "2.5"; VFlt "0.5"; VBool true])
         (JArr [JInt 1; JStr "a"; JFlt "2.5"; JFlt "0.5"; JBool true]) = true /\
  exists s, schema_f E0 dl2020 false false 9 t_unp_nest = Some s /\
            jvalid pm_any [] 50 s (JArr [JInt 1; JStr "a"; JFlt "2.5"; JFlt "0.5"; JBool true]) = true /\
            jvalid pm_any [] 50 s (JArr [JInt 1; JBool true]) = false.
Proof.
  split; [vm_compute; reflexivity|]. split; [vm_compute; reflexivity|].
  eexists. split; [vm_compute; reflexivity | split; [vm_compute; reflexivity | vm_compute; reflexivity]].
Qed.
Lemma nonvacuous_unpack :
  ty_ok 9 E0 false false t_unp_var = true /\ ty_ok 9 E0 false false t_unp_fix = true /\
  enc_ok 9 E0 false false t_unp_var (VList [VInt 1; VStr "a"; VStr "b"; VBool true]) (JArr [JInt 1; JStr "a"; JStr "b"; JBool true]) = true /\
  enc_ok 9 E0 false false t_unp_fix (VList [VInt 1; VStr "a"; VFlt "2.5"]) (JArr [JInt 1; JStr "a"; JFlt "2.5"]) = true /\
  (exists s, schema_f E0 dl2020 false false 9 t_unp_var = Some s /\
             jvalid pm_any [] 50 s (JArr [JInt 1; JStr "a"; JStr "b"; JBool true]) = true /\
             jvalid pm_any [] 50 s (JArr [JInt 1]) = false) /\
  (exists s, schema_f E0 dl2020 false false 9 t_unp_fix = Some s /\
             jvalid pm_any [] 50 s (JArr [JInt 1; JStr "a"; JFlt "2.5"]) = true /\
             jvalid pm_any [] 50 s (JArr [JInt 1; JInt 2; JFlt "2.5"]) = false).
Proof.
  split; [vm_compute; reflexivity|]. split; [vm_compute; reflexivity|]. split; [vm_compute; reflexivity|].
  split; [vm_compute; reflexivity|]. split.
  - eexists. split; [vm_compute; reflexivity | split; [vm_compute; reflexivity | vm_compute; reflexivity]].
  - eexists. split; [vm_compute; reflexivity | split; [vm_compute; reflexivity | vm_compute; reflexivity]].
Qed.

(* ---- overridden serialization (round 5) ---- *)
(* KF schema-overridden-nullable: x: Optional[int] = field(metadata={"serialize": f}), f -> str: None passes through,
   the schema is {"type": "string"} *)
Definition E_ovn := mkEnv [mkC "A" "A" [mkF "x" "x" (TUnion [TInt; TNone]) false true None false (Some TStr)] false false] [] [] [].
Theorem overridden_nullable_refuted :
  enc_ok 5 E_ovn false false (TData "A") (VObj [("x", VNone)]) (JObj [("x", JNull)]) = true /\
  exists s, schema_f E_ovn dl2020 false false 5 (TData "A") = Some s /\ jvalid pm_any [] 50 s (JObj [("x", JNull)]) = false.
Proof. split; [vm_compute; reflexivity|]. eexists. split; [vm_compute; reflexivity | vm_compute; reflexivity]. Qed.

(* non-vacuity: non-nullable fields with an overridden serializer (field option or a serialization_strategy entry):
   the members are what the functions return, the schema describes the return annotations *)
Definition E_ov := mkEnv [mkC "S" "S" [mkF "l" "l" (TList false TInt) false true None false (Some TStr);
                                        mkF "d" "d" (TDict TStr TInt) true true None false (Some TInt);
                                        mkF "p" "p" TBool false true None false None] false false] [] [] [].
Lemma nonvacuous_override :
  env_ok E_ov = true /\ ty_ok 9 E_ov false false (TData "S") = true /\
  enc_ok 9 E_ov false false (TData "S") (VObj [("l", VStr "1,2"); ("d", VInt 7); ("p", VBool true)])
         (JObj [("l", JStr "1,2"); ("d", JInt 7); ("p", JBool true)]) = true /\
  exists s, schema_f E_ov dl2020 false false 9 (TData "S") = Some s /\
            jvalid pm_any [] 50 s (JObj [("l", JStr "1,2"); ("d", JInt 7); ("p", JBool true)]) = true /\
            jvalid pm_any [] 50 s (JObj [("l", JArr [JInt 1; JInt 2]); ("d", JInt 7); ("p", JBool true)]) = false.
Proof.
  split; [vm_compute; reflexivity|]. split; [vm_compute; reflexivity|]. split; [vm_compute; reflexivity|].
  eexists. split; [vm_compute; reflexivity | split; [vm_compute; reflexivity | vm_compute; reflexivity]].
Qed.
