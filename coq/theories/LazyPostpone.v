(* C14: class creation and UnresolvedTypeReferenceError (Config.allow_postponed_evaluation).
   With postponing allowed everywhere, no class statement - in any state, any definition order, with any nesting compiled
   on demand - raises "unresolved"; with it forbidden on a non-lazy class whose references are unresolved, the class
   statement raises. *)
From Coq Require Import List Arith Bool Lia.
From Verif Require Import LazyModel LazyProofs.
Import ListNotations.

Section Postpone.
  Variable F : fam.
  Variable d5 : bool.

  Lemma install_not_unresolved st c m d x st' e : install F st c m d x = (st', Some e) -> e <> EUnresolved.
  Proof.
    unfold install. destruct d as [dd|].
    - destruct (get_cache _ c m); intros H; inversion H; discriminate.
    - intros H; inversion H.
  Qed.

  Lemma deps_with_not_unresolved bld sk c m fs :
    (forall st c' m' st' e, bld st c' m' = (st', Some e) -> e <> EUnresolved) ->
    forall st st' e, deps_with bld sk c m fs st = (st', Some e) -> e <> EUnresolved.
  Proof.
    intros HB. induction fs as [|f fs IH]; intros st st' e D; cbn in D; [discriminate|].
    destruct (get_slot st (f_cls f) (nested m (f_spec f))); [eapply IH; eauto|].
    destruct (sk && Nat.eqb (f_cls f) c && negb (m_top m)); [eapply IH; eauto|].
    destruct (bld st (f_cls f) (nested m (f_spec f))) as [s1 [e1|]] eqn:B.
    - inversion D; subst. eapply HB; eauto.
    - eapply IH; eauto.
  Qed.

  Hypothesis APC : forall k, c_apc (cls F k) = true.

  Lemma build_never_unresolved n : forall st c m d st' e,
    build F d5 n st true c m d = (st', Some e) -> e <> EUnresolved.
  Proof.
    induction n as [|n IH]; intros st c m d st' e B; cbn in B.
    - inversion B; discriminate.
    - destruct (c_lazy (cls F c) && true && (negb d5 || match d with None => true | Some _ => false end)).
      + eapply install_not_unresolved; eauto.
      + destruct (unresolved F st c).
        * rewrite APC in B. cbn in B. eapply install_not_unresolved; eauto.
        * destruct (deps_with (fun st c' m' => build F d5 n st true c' m' None) (match d with None => true | Some _ => false end) c m (c_fields (cls F c)) st)
            as [s1 [e1|]] eqn:D.
          -- inversion B; subst. eapply deps_with_not_unresolved; [|exact D]. intros s c' m' s' e2 Bn. exact (IH _ _ _ _ _ _ Bn).
          -- eapply install_not_unresolved; eauto.
  Qed.

  Lemma define_fmts_never_unresolved fs : forall st c st' e,
    define_fmts F d5 fs st c = (st', Some e) -> e <> EUnresolved.
  Proof.
    induction fs as [|[fu fp] fs IH]; intros st c st' e D; cbn [define_fmts] in D; [discriminate|].
    destruct (build F d5 (bfuel F) st true c (top_name false fu) None) as [s1 [e1|]] eqn:B1.
    - inversion D; subst. eapply build_never_unresolved; eauto.
    - destruct (build F d5 (bfuel F) s1 true c (top_name true fp) None) as [s2 [e2|]] eqn:B2.
      + inversion D; subst. eapply build_never_unresolved; eauto.
      + eapply IH; eauto.
  Qed.

  (* postponing allowed everywhere: no class statement raises UnresolvedTypeReferenceError, whatever is (not yet) bound *)
  Theorem creation_never_unresolved fuel st c : snd (step F d5 fuel st (Define c)) <> Exc EUnresolved.
  Proof.
    cbn [step]. destruct (define_fmts F d5 (c_fmts (cls F c)) st c) as [s1 [e|]] eqn:D; cbn [snd]; [|discriminate].
    intros H. inversion H; subst. eapply define_fmts_never_unresolved; eauto.
  Qed.
End Postpone.

(* postponing forbidden on a class that is compiled at creation, is not lazy and names a class that is not bound yet:
   its class statement raises (and a lazy class would not: the stub comes first, see LazyK114a.apc_false_lazy_still_postpones) *)
Theorem creation_unresolved_raises F d5 fuel st c fu fp r :
  c_fmts (cls F c) = (fu, fp) :: r -> c_lazy (cls F c) = false -> c_apc (cls F c) = false -> unresolved F st c = true ->
  snd (step F d5 fuel st (Define c)) = Exc EUnresolved.
Proof.
  intros HF HL HA HU. cbn [step]. rewrite HF. cbn [define_fmts]. unfold bfuel. cbn [build].
  rewrite HL, HA, HU. cbn. reflexivity.
Qed.
