(* C07 — (T) tie of the key rule of Bind.v to the translated source: the keys a field block reads
   (Bind.keys_of / Bind.rd) are the keys of the `d.get(...)` lines that FieldUnpackerCodeBlockBuilder.build
   emits, as translated into VerifGen.K4.key_plan from /repo on every run. *)
From Coq Require Import List String ZArith Bool.
From Verif Require Import Bind PyK PyK_alias.
From VerifGen Require K4.
Import ListNotations.
Open Scope string_scope.

Definition alias_kv (m: member) : kv := match m_alias m with Some a => KStr a | None => KNone end.

Theorem keys_of_kernel : forall nba m,
  K4.key_plan (KBool nba) (alias_kv m) (KStr (m_name m)) = Ok (KTuple (map KStr (keys_of nba m))).
Proof.
  intros nba m. unfold K4.key_plan, alias_kv, keys_of.
  destruct nba, (m_alias m); reflexivity.
Qed.

(* ... and rd reads exactly those keys, first hit wins, a key holding null is a hit *)
Fixpoint first_hit (ks: list string) (d: inp) : option pv :=
  match ks with
  | [] => None
  | k :: r => match lookup k d with Some v => Some v | None => first_hit r d end
  end.

Theorem rd_first_hit : forall nba m d, rd nba m d = first_hit (keys_of nba m) d.
Proof.
  intros nba m d. unfold rd, keys_of. destruct (m_alias m), nba; cbn;
    repeat match goal with |- context [lookup ?k d] => destruct (lookup k d) end; reflexivity.
Qed.
