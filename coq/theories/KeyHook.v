(* C09 -- __pre_deserialize__: the class may rewrite the input mapping before any key is looked up.
   The generated from_dict starts with `d = cls.__pre_deserialize__(d)` (the hook found by attribute
   lookup: the nearest class of the MRO that defines one); everything else -- the extra-key check
   included -- then works on what the hook returned.  Hooks are modelled by a small language of rewrites
   so that they can be run inside Coq on the same inputs as the real classes. *)
From Coq Require Import List String Ascii ZArith Bool.
From Verif Require Import Regex PyK PyK_alias KeyModel KeyImpl KeyProofs KeyCfg KeyRewrite.
Import ListNotations.
Open Scope string_scope.
Open Scope list_scope.

Definition impl_hooked (hooks: list (option (list hookop))) (ls: list level) (discr: option (option string)) (d: dict)
  : res outcome := impl_from_hier ls discr (apply_hook (nearest_hook hooks) d).

Theorem impl_hooked_keymodel : forall hooks ls discr d,
  impl_hooked hooks ls discr d = Ok (keymodel (class_of ls discr) (apply_hook (nearest_hook hooks) d)).
Proof. intros. unfold impl_hooked. apply impl_from_hier_keymodel. Qed.

