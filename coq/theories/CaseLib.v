(* Helpers for harness-generated case files over Core.pv: comparison of a model result with
   the implementation's canonicalised result, and finite oracle tables. *)
From Coq Require Import List String Ascii ZArith Bool.
From Verif Require Import Core.
Import ListNotations.
Open Scope string_scope.
Open Scope Z_scope.

Definition fl_same (a b: fl) : bool :=
  match a, b with
  | FNum m e, FNum m' e' => num_eqb (m, e) (m', e')
  | _, _ => fl_eqb a b end.

(* equality up to: float representation, iteration order of sets *)
Fixpoint pv_same (a b: pv) {struct a} : bool :=
  match a, b with
  | VNone, VNone => true
  | VBool x, VBool y => Bool.eqb x y
  | VInt x, VInt y => x =? y
  | VFloat x, VFloat y => fl_same x y
  | VStr x, VStr y => String.eqb x y
  | VBytes m x, VBytes m' y => Bool.eqb m m' && String.eqb x y
  | VList x, VList y => list_eqb pv_same x y
  | VTuple x, VTuple y => list_eqb pv_same x y
  | VNT c x, VNT c' y => String.eqb c c' && list_eqb pv_same x y
  | VSet f x, VSet f' y =>
      Bool.eqb f f' && Nat.eqb (List.length x) (List.length y) &&
      forallb (fun u => existsb (pv_same u) y) x
  | VDict x, VDict y =>
      (fix deq (l1 l2: list (pv * pv)) : bool :=
         match l1, l2 with
         | [], [] => true
         | (k1, v1) :: r1, (k2, v2) :: r2 => pv_same k1 k2 && pv_same v1 v2 && deq r1 r2
         | _, _ => false end) x y
  | VObj c x, VObj c' y =>
      String.eqb c c' &&
      (fix oeq (l1 l2: list (string * pv)) : bool :=
         match l1, l2 with
         | [], [] => true
         | (k1, v1) :: r1, (k2, v2) :: r2 => String.eqb k1 k2 && pv_same v1 v2 && oeq r1 r2
         | _, _ => false end) x y
  | VEnum e m, VEnum e' m' => String.eqb e e' && String.eqb m m'
  | VLeaf k w, VLeaf k' w' => String.eqb k k' && String.eqb w w'
  | VOther t, VOther t' => String.eqb t t'
  | _, _ => false
  end.

(* table keyed by (string, string) *)
Fixpoint tbl_ss {A} (t: list ((string * string) * A)) (k w: string) : option A :=
  match t with
  | [] => None
  | ((k', w'), x) :: r => if String.eqb k k' && String.eqb w w' then Some x else tbl_ss r k w end.

(* table keyed by (string, pv) *)
Fixpoint tbl_sp {A} (t: list ((string * pv) * A)) (k: string) (v: pv) : option A :=
  match t with
  | [] => None
  | ((k', v'), x) :: r => if String.eqb k k' && pv_eqb v v' then Some x else tbl_sp r k v end.

(* table keyed by pv *)
Fixpoint tbl_p {A} (t: list (pv * A)) (v: pv) : option A :=
  match t with
  | [] => None
  | (v', x) :: r => if pv_eqb v v' then Some x else tbl_p r v end.

Fixpoint tbl_s {A} (t: list (string * A)) (k: string) : option A :=
  match t with
  | [] => None
  | (k', x) :: r => if String.eqb k k' then Some x else tbl_s r k end.

Definition join {A} (o: option (option A)) : option A := match o with Some x => x | None => None end.
