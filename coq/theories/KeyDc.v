(* C09 -- which declarations a class is made of, for an arbitrary MRO (diamonds included).

   A small model of two pieces of CPython that decide it, run per class of a class table:

   * dataclasses._process_class:   fields = {}
                                    for b in cls.__mro__[-1:0:-1]:
                                        for f in getattr(b, "__dataclass_fields__", {}).values(): fields[f.name] = f
                                    for every own annotation: fields[name] = its Field
     -- each ancestor contributes its *cumulative* dictionary, so in a diamond K(B, C), B(A), C(A) a field
     that C re-declares is overwritten again by what B inherited from A: metadata, default and init of
     K.x are A's;
   * typing.get_type_hints:        hints = {}
                                    for base in reversed(cls.__mro__): hints.update(base.__dict__["__annotations__"])
     -- own annotations only: the type of K.x (and with it an Annotated Alias) is C's.

   mashumaro takes the Field (metadata alias, default, init) from the first and the type from the second
   (CodeBuilder.dataclass_fields, translated as K5, does the same walk as _process_class).
   The MRO of every class is an input (the real __mro__); the model is compared with the real classes on
   every run.  For single inheritance and for unrelated bases it agrees with KeyModel.collect (below). *)
From Coq Require Import List String Ascii ZArith Bool Arith Lia.
From Verif Require Import KeyModel.
Import ListNotations.
Open Scope string_scope.
Open Scope list_scope.

Definition decls := list (fld * bool).

Definition upsert_all (ds acc: decls) : decls := fold_left (fun a p => upsert p a) ds acc.

(* cums: the __dataclass_fields__ of the MRO after the class itself, nearest first *)
Definition dc_process (cums: list decls) (own: decls) : decls :=
  upsert_all own (fold_left (fun acc c => upsert_all c acc) (rev cums) []).

(* owns: the own annotations of the MRO after the class itself, nearest first *)
Definition hints_process (owns: list decls) (own: decls) : decls :=
  upsert_all own (fold_left (fun acc c => upsert_all c acc) (rev owns) []).

(* a class: its own declarations and its MRO tail as indices into the table (classes in definition order) *)
Record pyclassdef := mkPC { pc_own : decls; pc_mro : list nat }.

Fixpoint dc_table (cs: list pyclassdef) (tbl: list decls) : list decls :=
  match cs with
  | [] => tbl
  | c :: r => dc_table r (tbl ++ [dc_process (map (fun i => nth i tbl []) (pc_mro c)) (pc_own c)])
  end.

Definition class_hints (cs: list pyclassdef) (c: pyclassdef) : decls :=
  hints_process (map (fun i => pc_own (nth i cs (mkPC [] []))) (pc_mro c)) (pc_own c).

(* the init fields as mashumaro sees them: Field data from the dataclass walk, annotation from the hints *)
Definition dc_effective (fields hints: decls) : list fld :=
  map (fun p => let f := fst p in
                mkF (f_name f) (f_meta f)
                    (match lookup_decl (f_name f) hints with Some (h, _) => f_ann h | None => f_ann f end)
                    (f_dflt f))
      (filter snd fields).

Definition dc_class (cs: list pyclassdef) (k: nat) (g: cfg) (discr: option (option string)) : cls :=
  let c := nth k cs (mkPC [] []) in
  mkC (dc_effective (nth k (dc_table cs []) []) (class_hints cs c)) (g_aliases g) (g_allow g) (g_forbid g) discr.

(* ------------------------------------------------------------------ *)
(* lookups *)

Lemma lookup_upsert_same' : forall p fs, lookup_decl (f_name (fst p)) (upsert p fs) = Some p.
Proof.
  intros p fs. unfold lookup_decl. induction fs as [|q r IH]; cbn [upsert find].
  - now rewrite String.eqb_refl.
  - destruct (String.eqb (f_name (fst q)) (f_name (fst p))) eqn:E; cbn [find].
    + now rewrite String.eqb_refl.
    + rewrite E. exact IH.
Qed.

Lemma lookup_upsert_other' : forall n p fs, String.eqb (f_name (fst p)) n = false ->
  lookup_decl n (upsert p fs) = lookup_decl n fs.
Proof.
  intros n p fs H. unfold lookup_decl. induction fs as [|q r IH]; cbn [upsert find].
  - now rewrite H.
  - destruct (String.eqb (f_name (fst q)) (f_name (fst p))) eqn:E; cbn [find].
    + apply String.eqb_eq in E. rewrite E, H. reflexivity.
    + destruct (String.eqb (f_name (fst q)) n); [reflexivity | exact IH].
Qed.

Lemma find_app' {A} (p: A -> bool) l1 l2 :
  find p (l1 ++ l2) = match find p l1 with Some x => Some x | None => find p l2 end.
Proof. induction l1 as [|x r IH]; cbn [app find]; [reflexivity|]. destruct (p x); [reflexivity | exact IH]. Qed.

Lemma lookup_upsert_all : forall n ds acc,
  lookup_decl n (upsert_all ds acc)
  = match lookup_decl n (rev ds) with Some p => Some p | None => lookup_decl n acc end.
Proof.
  intros n ds. unfold upsert_all. induction ds as [|p r IH]; intro acc; cbn [fold_left rev]; [reflexivity|].
  rewrite IH. unfold lookup_decl at 2 3. rewrite find_app'. fold (lookup_decl n (rev r)).
  destruct (lookup_decl n (rev r)); [reflexivity|]. cbn [find].
  destruct (String.eqb (f_name (fst p)) n) eqn:E.
  - apply String.eqb_eq in E. subst n. apply lookup_upsert_same'.
  - now apply lookup_upsert_other'.
Qed.

(* the first class of the MRO (nearest first) whose dictionary has the name *)
Fixpoint first_in (cums: list decls) (n: string) : option (fld * bool) :=
  match cums with
  | [] => None
  | c :: r => match lookup_decl n (rev c) with Some p => Some p | None => first_in r n end
  end.

Lemma lookup_walk : forall n cums acc,
  lookup_decl n (fold_left (fun acc c => upsert_all c acc) (rev cums) acc)
  = match first_in cums n with Some p => Some p | None => lookup_decl n acc end.
Proof.
  intros n cums. induction cums as [|c r IH]; intro acc; cbn [rev first_in]; [reflexivity|].
  rewrite fold_left_app. cbn [fold_left]. rewrite lookup_upsert_all, IH.
  destruct (lookup_decl n (rev c)); reflexivity.
Qed.

(* the declaration a class has for a name: its own if any, else that of the first class of its MRO whose
   cumulative dictionary has the name -- whatever the shape of the hierarchy *)
Theorem dc_process_lookup : forall cums own n,
  lookup_decl n (dc_process cums own)
  = match lookup_decl n (rev own) with Some p => Some p | None => first_in cums n end.
Proof.
  intros. unfold dc_process. rewrite lookup_upsert_all, lookup_walk.
  destruct (lookup_decl n (rev own)); [reflexivity|]. now destruct (first_in cums n).
Qed.

Theorem hints_process_lookup : forall owns own n,
  lookup_decl n (hints_process owns own)
  = match lookup_decl n (rev own) with Some p => Some p | None => first_in owns n end.
Proof. exact dc_process_lookup. Qed.

(* ---- agreement with KeyModel.collect for the shapes collect describes ---- *)

(* single inheritance: the MRO tail of the class at the end of ls ++ [l] carries collect of every prefix *)
Fixpoint chain_cums (r: list level) : list decls :=
  match r with [] => [] | l :: r' => collect (rev (l :: r')) :: chain_cums r' end.

Lemma lookup_collect_step : forall ls l n,
  lookup_decl n (collect (ls ++ [l]))
  = match lookup_decl n (rev (l_decls l)) with Some p => Some p | None => lookup_decl n (collect ls) end.
Proof.
  intros. unfold collect. rewrite fold_left_app. cbn [fold_left]. apply lookup_upsert_all.
Qed.

Lemma find_rev_nodup : forall (ds: decls) n, NoDup (map (fun p => f_name (fst p)) ds) ->
  lookup_decl n (rev ds) = lookup_decl n ds.
Proof.
  intros ds n H. unfold lookup_decl. induction ds as [|p r IH]; [reflexivity|].
  inversion H as [|? ? Hp Hr]; subst. cbn [rev find]. rewrite find_app', IH by assumption.
  destruct (find (fun q => String.eqb (f_name (fst q)) n) r) as [q|] eqn:F.
  - destruct (String.eqb (f_name (fst p)) n) eqn:E; [|reflexivity].
    exfalso. apply find_some in F as [Hin Hq]. apply String.eqb_eq in Hq, E. apply Hp.
    apply in_map_iff. exists q. split; [congruence | assumption].
  - cbn [find]. reflexivity.
Qed.

Lemma upsert_names' : forall p fs,
  map (fun q => f_name (fst q)) (upsert p fs)
  = if existsb (fun q => String.eqb (f_name (fst q)) (f_name (fst p))) fs
    then map (fun q => f_name (fst q)) fs else map (fun q => f_name (fst q)) fs ++ [f_name (fst p)].
Proof.
  intros p fs. induction fs as [|q r IH]; cbn [upsert map existsb app]; [reflexivity|].
  destruct (String.eqb (f_name (fst q)) (f_name (fst p))) eqn:E; cbn [map orb].
  - apply String.eqb_eq in E. now rewrite E.
  - rewrite IH. destruct (existsb _ r); reflexivity.
Qed.

Lemma upsert_nodup' : forall p fs, NoDup (map (fun q => f_name (fst q)) fs) -> NoDup (map (fun q => f_name (fst q)) (upsert p fs)).
Proof.
  intros p fs H. rewrite upsert_names'.
  destruct (existsb (fun q => String.eqb (f_name (fst q)) (f_name (fst p))) fs) eqn:E; [assumption|].
  assert (Hn: ~ In (f_name (fst p)) (map (fun q => f_name (fst q)) fs)).
  { intro Hin. apply in_map_iff in Hin as [q [Hq Hin]].
    assert (existsb (fun q => String.eqb (f_name (fst q)) (f_name (fst p))) fs = true).
    { apply existsb_exists. exists q. split; [assumption|]. rewrite Hq. apply String.eqb_refl. }
    congruence. }
  clear E. induction (map (fun q => f_name (fst q)) fs) as [|y r IH]; cbn [app].
  - constructor; [intros [] | constructor].
  - inversion H as [|? ? Hy Hr]; subst. constructor.
    + intro Hin. apply in_app_or in Hin as [Hin|[Hin|[]]]; [contradiction|]. subst. apply Hn. now left.
    + apply IH; [assumption|]. intro Hin. apply Hn. now right.
Qed.

Lemma collect_nodup' : forall ls, NoDup (map (fun q => f_name (fst q)) (collect ls)).
Proof.
  intro ls. unfold collect.
  assert (H: forall ls acc, NoDup (map (fun q => f_name (fst q)) acc) ->
             NoDup (map (fun q => f_name (fst q)) (fold_left (fun acc l => fold_left (fun a p => upsert p a) (l_decls l) acc) ls acc))).
  { clear ls. induction ls as [|l r IH]; intros acc Ha; cbn [fold_left]; [assumption|].
    apply IH. generalize dependent acc. induction (l_decls l) as [|p ds IHd]; intros acc Ha; cbn [fold_left];
      [assumption|]. apply IHd. now apply upsert_nodup'. }
  apply H. constructor.
Qed.

Lemma first_in_chain : forall r n, first_in (chain_cums r) n = lookup_decl n (collect (rev r)).
Proof.
  induction r as [|l r' IH]; intro n; [reflexivity|]. cbn [chain_cums first_in].
  rewrite find_rev_nodup by apply collect_nodup'.
  destruct (lookup_decl n (collect (rev (l :: r')))) as [p|] eqn:E; [reflexivity|].
  rewrite IH. cbn [rev] in E. rewrite lookup_collect_step in E.
  destruct (lookup_decl n (rev (l_decls l))); [discriminate | exact E].
Qed.

(* for single inheritance the CPython walk selects exactly the declarations of KeyModel.collect *)
Theorem dc_chain_collect : forall ls l n,
  lookup_decl n (dc_process (chain_cums (rev ls)) (l_decls l)) = lookup_decl n (collect (ls ++ [l])).
Proof.
  intros. rewrite dc_process_lookup, lookup_collect_step, first_in_chain, rev_involutive. reflexivity.
Qed.

(* unrelated bases K(B, A): each base carries the fields of its own body *)
Definition roots_cums (r: list level) : list decls := map (fun l => collect [l]) r.

Lemma first_in_roots : forall r n, first_in (roots_cums r) n = lookup_decl n (collect (rev r)).
Proof.
  induction r as [|l r' IH]; intro n; [reflexivity|]. cbn [roots_cums map first_in rev].
  rewrite find_rev_nodup by apply collect_nodup'.
  pose proof (lookup_collect_step [] l n) as H1. cbn [app] in H1. rewrite H1, lookup_collect_step.
  destruct (lookup_decl n (rev (l_decls l))); [reflexivity|]. cbn. apply IH.
Qed.

Theorem dc_roots_collect : forall ls l n,
  lookup_decl n (dc_process (roots_cums (rev ls)) (l_decls l)) = lookup_decl n (collect (ls ++ [l])).
Proof.
  intros. rewrite dc_process_lookup, lookup_collect_step, first_in_roots, rev_involutive. reflexivity.
Qed.

(* ---- views for the per-run comparison with the real classes ---- *)
Definition hints_view (ds: decls) : list (string * bool) :=
  map (fun p => (f_name (fst p), match f_ann (fst p) with Some _ => true | None => false end)) ds.

(* per field name of `names`: the last Alias of the annotation the hints give it *)
Definition hints_alias_view (cs: list pyclassdef) (j: nat) (names: list string) : list (string * option string) :=
  let h := class_hints cs (nth j cs (mkPC [] [])) in
  map (fun n => (n, match lookup_decl n h with
                    | Some (f, _) => match f_ann f with Some l => last_alias l | None => None end
                    | None => None end)) names.

Definition hview_eqb (a b: list (string * option string)) : bool :=
  list_eqb (fun p q => String.eqb (fst p) (fst q) && ostr_eqb (snd p) (snd q)) a b.
