(* C05 / K105c: the prologue emitted by the (translated) DiscriminatedUnionUnpackerBuilder._add_body raises what
   Errs.discr_run raises before its registry lookup, and otherwise hands on the hashable tag read from the input.
   Re-checked on every run against the current translation (coq/gen/K105c.v). *)
From Coq Require Import List String Bool.
From Verif Require Import Core Errs ErrsDiscrEmit.
From VerifGen Require Import K105c.
Import ListNotations.

(* what Errs.discr_run does before the registry lookup *)
Definition tag_read (field: string) (v: pv) : res pv :=
  match py_getitem_str v field with
  | Exn XKeyError => Exn (XMissingDiscriminator field)
  | Exn XTypeError => if is_dict v then Exn XTypeError else Exn XValueError
  | Exn e => Exn e
  | Ok tag => if negb (hashable tag) then Exn XNoVariant else Ok tag
  end.

Theorem prologue_tag_read : forall field v,
  run_prologue field v prologue = match tag_read field v with Ok t => Ok (Some t) | Exn e => Exn e end.
Proof.
  intros field v. unfold run_prologue, prologue, tag_read. cbn.
  destruct (py_getitem_str v field) as [t|e]; cbn.
  - destruct (hashable t); reflexivity.
  - destruct e; cbn; try reflexivity. destruct (is_dict v); reflexivity.
Qed.

Theorem discr_run_after_prologue : forall field reg v,
  discr_run field reg v =
  match tag_read field v with
  | Exn e => Exn e
  | Ok tag => match reg_lookup reg tag with None => Exn XNoVariant | Some dec => dec v end
  end.
Proof.
  intros field reg v. unfold discr_run, tag_read.
  destruct (py_getitem_str v field) as [t|e].
  - destruct (hashable t); reflexivity.
  - destruct e; try reflexivity. destruct (is_dict v); reflexivity.
Qed.

(* every exception of the emitted prologue is the dispatcher's outcome *)
Theorem prologue_exn : forall field reg v e,
  run_prologue field v prologue = Exn e -> discr_run field reg v = Exn e.
Proof.
  intros field reg v e H. rewrite prologue_tag_read in H. rewrite discr_run_after_prologue.
  destruct (tag_read field v); [discriminate H | inversion H; reflexivity].
Qed.

(* otherwise it hands on the tag read from the input, which is hashable, and the dispatcher continues with the lookup *)
Theorem prologue_ok : forall field reg v t,
  run_prologue field v prologue = Ok t ->
  exists tag, t = Some tag /\ py_getitem_str v field = Ok tag /\ hashable tag = true /\
              discr_run field reg v = match reg_lookup reg tag with None => Exn XNoVariant | Some dec => dec v end.
Proof.
  intros field reg v t H. rewrite prologue_tag_read in H. rewrite discr_run_after_prologue.
  unfold tag_read in *. destruct (py_getitem_str v field) as [tag|e].
  - destruct (hashable tag) eqn:Eh; cbn in H; [|discriminate H]. inversion H; subst.
    exists tag. split; [reflexivity|]. split; [reflexivity|]. split; [exact Eh|]. reflexivity.
  - exfalso. destruct e; try discriminate H. destruct (is_dict v); discriminate H.
Qed.

(* text of the prologue statements (placeholders FIELD = repr of the discriminator field, TYPE = the rendered union /
   class, MSG = the literal message) for the per-run comparison with the generated dispatchers *)
Open Scope string_scope.
Definition dexc_text (c: dexc) : string := match c with DKeyError => "except KeyError:" | DTypeError => "except TypeError:" end.
Fixpoint render_d (ind: string) (s: dstmt) {struct s} : list string :=
  let ind' := ind ++ "    " in
  let rl := fix rl (l: list dstmt) : list string := match l with [] => [] | x :: r => List.app (render_d ind' x) (rl r) end in
  match s with
  | DTry b hs =>
      (ind ++ "try:") :: List.app (rl b)
      ((fix rh (l: list (dexc * list dstmt)) : list string :=
         match l with
         | [] => []
         | (c, h) :: r => (ind ++ dexc_text c) :: List.app (rl h) (rh r) end) hs)
  | DReadTag => [ind ++ "discriminator = value[FIELD]"]
  | DHash => [ind ++ "hash(discriminator)"]
  | DRaiseMissing => [ind ++ "raise MissingDiscriminatorError(FIELD) from None"]
  | DIfNotDict b o => (ind ++ "if not isinstance(value, dict):") :: List.app (rl b) ((ind ++ "else:") :: rl o)
  | DRaiseValueError => [ind ++ "raise ValueError(MSG) from None"]
  | DReraise => [ind ++ "raise"]
  | DRaiseNoVariant => [ind ++ "raise SuitableVariantNotFoundError(TYPE, FIELD, discriminator) from None"]
  end.
Definition render_prologue (p: list dstmt) : list string := flat_map (render_d "") p.
