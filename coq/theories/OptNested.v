(* C08 - hereditary model: dataclasses nested in dataclasses (mixin root; nested classes are
   mixin subclasses or plain dataclasses, with or without a Config of their own).
   A field of dataclass type is packed by `value.__mashumaro_to_dict__(<flags>)` where <flags>
   are the keyword flags enabled on both classes (kernel K8); a Union of dataclasses tries
   the members' call expressions in order (pack_union).  Every class body is OptProj.body. *)
From Coq Require Import List String Ascii ZArith Bool.
From Verif Require Import OptProj.
Import ListNotations.
Open Scope string_scope.

(* class-level options and fields; [members] of a field: [] = not a dataclass field,
   [c] = field of class c, [c1; c2; ...] = Union[c1, c2, ...] *)
Record cls := {
  c_mixin : bool;          (* subclass of DataClassDictMixin: compiled by itself at class creation;
                              false: plain dataclass, compiled by the first builder that meets it *)
  c_cfgd : option ns; c_cfg : ns; c_sort : bool; c_flags : flags;
  c_fields : list (fplan * list nat);   (* inherited fields first; options above are the RESOLVED ones
                                           (a subclass without Config of its own inherits its parent's) *)
  c_parent : option nat;                (* the dataclass it derives from *)
}.

(* pack_dataclass: the builder created for a nested class that has no to_dict yet receives
   default_dialect = <default dialect of the compiling builder> -- NOT its Config.dialect, NOT its
   call dialect (kernel K14).  Arguments: the compiling builder's default dialect, dialect, Config.dialect *)
Definition pass_dd (builder_dd builder_dialect cfg_dialect: option ns) : option ns := builder_dd.
(* ... and dialect = None when the compiling builder belongs to a mixin class (is_nailed): a nested
   class met for the first time inside a dialect-specific method still gets its DEFAULT method, so a
   call dialect reaches it only through the forwarded `dialect=` keyword (flag enabled on both);
   codec builders hand their dialect down *)
Definition pass_dialect (nailed: bool) (builder_dialect: option ns) : option ns :=
  if nailed then None else builder_dialect.

(* keyword arguments received by a to_dict call *)
Record kwv := { kw_on : option bool; kw_ba : option bool; kw_dl : option ns }.
Definition no_kw : kwv := {| kw_on := None; kw_ba := None; kw_dl := None |}.

Definition opts_of (c: cls) (k: kwv) (dd: option ns) : opts :=
  {| o_call := k.(kw_dl); o_cfgd := c.(c_cfgd); o_cfg := c.(c_cfg); o_dd := dd; o_sort := c.(c_sort);
     o_fon := c.(c_flags).(g_on); o_fba := c.(c_flags).(g_ba); o_fdl := c.(c_flags).(g_dl); o_fcx := c.(c_flags).(g_cx);
     o_kon := k.(kw_on); o_kba := k.(kw_ba) |}.

(* the caller names only the flags in [fl]; [avail] = values of its own keyword parameters *)
Definition restrict (fl: flags) (avail: kwv) : kwv :=
  {| kw_on := if fl.(g_on) then avail.(kw_on) else None;
     kw_ba := if fl.(g_ba) then avail.(kw_ba) else None;
     kw_dl := if fl.(g_dl) then avail.(kw_dl) else None |}.

Definition subflags (a b: flags) : bool :=
  implb a.(g_on) b.(g_on) && implb a.(g_ba) b.(g_ba) && implb a.(g_dl) b.(g_dl) && implb a.(g_cx) b.(g_cx).

Definition flags_eqb (a b: flags) : bool :=
  Bool.eqb a.(g_on) b.(g_on) && Bool.eqb a.(g_ba) b.(g_ba) && Bool.eqb a.(g_dl) b.(g_dl) && Bool.eqb a.(g_cx) b.(g_cx).

(* instances *)
Inductive node :=
| NLeaf (raw packed: pv)              (* any non-dataclass value (also None in an Optional[Inner] field) *)
| NObj (cid: nat) (fs: list node)     (* instance of class cid with its field values in declaration order *)
| NList (items: list node)            (* value of a List[<dataclass>] field *)
| NDict (items: list (string * node)). (* value of a Dict[str, <dataclass>] field *)

Definition no_flags : flags := {| g_on := false; g_ba := false; g_dl := false; g_cx := false |}.

Section Table.
  Variable ct : list cls.
  (* true: the root is a mixin class (x.to_dict(...)); every class carries its own method and nested
     calls are `value.__mashumaro_to_dict__(<flags>)`.
     false: codec path (BasicEncoder(cls, default_dialect=D).encode(x)): one non-nailed builder family
     compiles EVERY class (mixin or plain) afresh with the codec's default dialect, nested calls are the
     static `<Class>___mashumaro_to_dict__(value)` without any keyword *)
  Variable nailed : bool.
  Definition flags_c (cid: nat) : flags :=
    match nth_error ct cid with Some c => c.(c_flags) | None => {| g_on := false; g_ba := false; g_dl := false; g_cx := false |} end.

  (* pack_union: the first member whose call expression does not raise wins; the call
     `value.__mashumaro_to_dict__(<flags of outer and member>)` dispatches on the CLASS OF THE VALUE
     and raises TypeError iff it names a keyword that class did not enable *)
  Fixpoint pick_impl (outer: flags) (members: list nat) (cid: nat) : option flags :=
    match members with
    | [] => None
    | m :: r => let fl := both outer (flags_c m) in
                if subflags fl (flags_c cid) then Some fl else pick_impl outer r cid end.
  (* the value conforms to the field: its class is a member or derives from one *)
  Fixpoint conforms_fuel (fuel: nat) (cid: nat) (members: list nat) : bool :=
    existsb (Nat.eqb cid) members ||
    match fuel, nth_error ct cid with
    | S n, Some c => match c.(c_parent) with Some p => conforms_fuel n p members | None => false end
    | _, _ => false end.
  Definition conforms (cid: nat) (members: list nat) : bool := conforms_fuel (List.length ct) cid members.

  (* reference: the flags enabled on both the outer class and the CLASS OF THE VALUE (which may be a
     subclass of the declared member) *)
  Definition pick_spec (outer: flags) (members: list nat) (cid: nat) : option flags :=
    if conforms cid members then Some (both outer (flags_c cid)) else None.

  (* flags named in the call of the nested method *)
  Definition pick (spec: bool) (outer: flags) (members: list nat) (cid: nat) : option flags :=
    if nailed then (if spec then pick_spec else pick_impl) outer members cid
    else if existsb (Nat.eqb cid) members then Some no_flags else None.

  (* default dialect the method of class c was compiled with.  Mixin root: a mixin subclass compiled
     itself (DataClassDictMixin: none), a plain dataclass gets what the compiling builder passes down.
     Codec: every class is compiled by the codec's builders and gets what they pass down *)
  Definition dd_of (c: cls) (pd: option ns) : option ns := if nailed && c.(c_mixin) then None else pd.

  (* [spec = false]: the generated code; [spec = true]: the reference (hereditary projection of
     the plain output).  [pd]: default dialect passed down by the owner of the field.
     Result: (raw, packed) of the field holding the node; None = raises. *)
  Fixpoint pack_h (spec: bool) (n: node) (members: list nat) (outer: flags) (avail: kwv) (pd: option ns)
           {struct n} : option fval :=
    match n with
    | NLeaf raw packed => Some (raw, packed)
    | NList items =>
        match (fix go (l: list node) {struct l} : option (list pv) :=
                 match l with
                 | [] => Some []
                 | x :: r => match pack_h spec x members outer avail pd, go r with
                             | Some v, Some t => Some (snd v :: t)
                             | _, _ => None end end) items with
        | Some l => Some (POpq (S (List.length items)), PList l)
        | None => None end
    | NDict items =>
        (* {key: value.__mashumaro_to_dict__(<flags>) for key, value in value.items()}: per element, same call *)
        match (fix go (l: list (string * node)) {struct l} : option (list (string * pv)) :=
                 match l with
                 | [] => Some []
                 | kx :: r => match kx with (k, x) =>
                                match pack_h spec x members outer avail pd, go r with
                                | Some v, Some t => Some ((k, snd v) :: t)
                                | _, _ => None end end end) items with
        | Some l => Some (POpq (S (List.length items)), PDict l)
        | None => None end
    | NObj cid ch =>
        match nth_error ct cid, pick spec outer members cid with
        | Some c, Some fl =>
            let o := opts_of c (restrict fl avail) (dd_of c pd) in
            (* values of the keyword parameters inside the running method of c *)
            let avail' :=
                if spec then {| kw_on := Some (e_on (eff_of o)); kw_ba := Some (e_ba (eff_of o)); kw_dl := o.(o_call) |}
                else {| kw_on := Some (r_on (ctx_of o)); kw_ba := Some (r_ba (ctx_of o)); kw_dl := o.(o_call) |} in
            let pd' := pass_dd (dd_of c pd) o.(o_call) c.(c_cfgd) in
            let vs := (fix go (ch: list node) (fs: list (fplan * list nat)) {struct ch} : option (list fval) :=
                         match ch, fs with
                         | [], [] => Some []
                         | x :: ch', f :: fs' =>
                             match f with (_, mem') =>
                               match pack_h spec x mem' c.(c_flags) avail' pd', go ch' fs' with
                               | Some v, Some r => Some (v :: r)
                               | _, _ => None end end
                         | _, _ => None end) ch c.(c_fields) in
            match vs with
            | None => None
            | Some vs =>
                let fs := map fst c.(c_fields) in
                match (if spec then Some (project (eff_of o) fs vs (plain_out fs vs)) else to_dict_model o fs vs) with
                | Some l => Some (POpq 0, PDict (dict_of l))
                | None => None end
            end
        | _, _ => None
        end
    end.

  (* hereditary side conditions (computed along the same recursion, with the reference values):
     at every dataclass node: kw_ok, flag_defaults_ok (no D14), vals_ok, and no D8b
     (the union's first accepting member forwards the same flags as the value's own class) *)
  Fixpoint ok_h (n: node) (members: list nat) (outer: flags) (avail: kwv) (pd: option ns) {struct n} : bool :=
    match n with
    | NLeaf _ _ => true
    | NList items =>
        (fix go (l: list node) {struct l} : bool :=
           match l with [] => true | x :: r => ok_h x members outer avail pd && go r end) items
    | NDict items =>
        (fix go (l: list (string * node)) {struct l} : bool :=
           match l with [] => true | kx :: r => match kx with (_, x) => ok_h x members outer avail pd && go r end end) items
    | NObj cid ch =>
        match nth_error ct cid, pick true outer members cid, pick false outer members cid with
        | Some c, Some fl, Some fl' =>
            let o := opts_of c (restrict fl avail) (dd_of c pd) in
            let avail' := {| kw_on := Some (e_on (eff_of o)); kw_ba := Some (e_ba (eff_of o)); kw_dl := o.(o_call) |} in
            let pd' := pass_dd (dd_of c pd) o.(o_call) c.(c_cfgd) in
            flags_eqb fl fl' && (nailed || Nat.leb (List.length members) 1) && kw_ok o && flag_defaults_ok o &&
            (fix go (ch: list node) (fs: list (fplan * list nat)) {struct ch} : bool :=
               match ch, fs with
               | [], [] => true
               | x :: ch', f :: fs' => match f with (_, mem') => ok_h x mem' c.(c_flags) avail' pd' && go ch' fs' end
               | _, _ => false end) ch c.(c_fields) &&
            match (fix go (ch: list node) (fs: list (fplan * list nat)) {struct ch} : option (list fval) :=
                     match ch, fs with
                     | [], [] => Some []
                     | x :: ch', f :: fs' =>
                         match f with (_, mem') =>
                           match pack_h true x mem' c.(c_flags) avail' pd', go ch' fs' with
                           | Some v, Some r => Some (v :: r)
                           | _, _ => None end end
                     | _, _ => None end) ch c.(c_fields) with
            | Some vs => vals_ok (map fst c.(c_fields)) vs
            | None => false end
        | _, _, _ => false
        end
    end.

End Table.

(* top-level call x.to_dict(kw...) on an instance of the mixin class cid *)
Definition root_flags : flags := {| g_on := true; g_ba := true; g_dl := true; g_cx := true |}.
Definition to_dict_h (ct: list cls) (spec: bool) (n: node) (cid: nat) (k: kwv) : option pv :=
  match pack_h ct true spec n [cid] root_flags k None with Some (_, d) => Some d | None => None end.
(* BasicEncoder(<class cid>, default_dialect=dd).encode(x) *)
Definition to_dict_codec (ct: list cls) (spec: bool) (n: node) (cid: nat) (dd: option ns) : option pv :=
  match pack_h ct false spec n [cid] root_flags no_kw dd with Some (_, d) => Some d | None => None end.
