(* C14: LazyModel.install is the installation the source emits.  Kernel K114c (coq/gen/K114c.v) is translated on every
   run from add_(un)pack_method / _add_setattr_method: when the `if not cache in cls.__dict__: cls.cache = {}` line is
   emitted, and whether the generated program ends in setattr(cls, name, f) or in cls.cache[dialect] = f. *)
From Coq Require Import List Arith Bool ZArith String Lia.
From Verif Require Import Regex PyK LazyModel LazyProofs LazyK114a.
From VerifGen Require Import K114c.
Import ListNotations.
Close Scope Z_scope.
Close Scope string_scope.
Open Scope nat_scope.

Definition src_creates_cache (pack dsup: bool) : option bool :=
  dec ((if pack then pack_creates_cache else unpack_creates_cache) (KBool dsup)).
Definition src_dialect_branch (pack dsup: bool) (d: option did) : option bool :=
  dec ((if pack then pack_dialect_branch else unpack_dialect_branch) (KBool dsup) (kd d)).
(* 0: setattr(cls, name, f); 1: setattr on a codec's attribute holder; 2: cls.cache[dialect] = f  (mixin builders: nailed) *)
Definition src_setattr_kind (d: option did) : option Z :=
  match setattr_kind (kd d) (KBool true) with Ok (KInt z) => Some z | _ => None end.

Lemma src_creates_cache_eq pack dsup : src_creates_cache pack dsup = Some dsup.
Proof. destruct pack, dsup; reflexivity. Qed.
Lemma src_dialect_branch_eq pack dsup d :
  src_dialect_branch pack dsup d = Some (dsup && match d with None => true | Some _ => false end).
Proof. destruct pack, dsup, d; reflexivity. Qed.
Lemma src_setattr_kind_eq d : src_setattr_kind d = Some (match d with None => 0%Z | Some _ => 2%Z end).
Proof. destruct d; reflexivity. Qed.

Theorem install_follows_source F st c m d x :
  install F st c m d x =
  let st1 := match src_creates_cache (m_pack m) (c_dsup (cls F c)) with
             | Some true => ensure_cache st c m
             | _ => st
             end in
  match src_setattr_kind d, d with
  | Some 0%Z, _ => (set_slot st1 c m x, None)
  | Some 2%Z, Some dd =>
      match get_cache st1 c m with
      | Some _ => (cache_store st1 c m dd x, None)
      | None => (st1, Some EAttrCache)       (* cls.<cache>[dialect] = f  without the cache *)
      end
  | _, _ => (st1, Some EAttrCache)
  end.
Proof.
  unfold install. rewrite src_creates_cache_eq, src_setattr_kind_eq. cbv zeta.
  destruct (c_dsup (cls F c)), d; reflexivity.
Qed.
