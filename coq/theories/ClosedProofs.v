(* C17: soundness of the closedness analysis of Closed.v *)
From Coq Require Import List Bool Arith NArith Lia.
From Verif Require Import Closed.
Import ListNotations.
Arguments Closed.ce : simpl never.

Lemma meetO_l ra rb Da : ra = Some Da -> exists D', meetO ra rb = Some D' /\ incl D' Da.
Proof.
  intros ->. destruct rb as [Db|]; simpl.
  - exists (inter Da Db). split; [reflexivity|]. intros x Hx. apply In_inter in Hx. tauto.
  - exists Da. split; [reflexivity | apply incl_refl].
Qed.

Lemma meetO_r ra rb Db : rb = Some Db -> exists D', meetO ra rb = Some D' /\ incl D' Db.
Proof.
  intros ->. destruct ra as [Da|]; simpl.
  - exists (inter Da Db). split; [reflexivity|]. intros x Hx. apply In_inter in Hx. tauto.
  - exists Db. split; [reflexivity | apply incl_refl].
Qed.

Lemma state_map f o B' : state (map_state f o) = Some B' -> exists B0, state o = Some B0 /\ B' = f B0.
Proof. destruct o; simpl; intros H; inversion H; eauto. Qed.

Lemma lift_state r B ok B' :
  state (lift r B ok) = Some B' -> (r = ROk /\ state ok = Some B') \/ (r = RExc /\ B' = B).
Proof. destruct r; simpl; intros H; [left; auto | right; inversion H; auto | discriminate]. Qed.

Lemma incl_unbind asn P B : incl P B -> incl (unbind asn P) (unbind asn B).
Proof.
  destruct asn as [x|]; simpl; [| auto].
  intros H y Hy. apply In_rm in Hy as [A Bq]. apply In_rm. split; auto.
Qed.

Lemma incl_optbind asn P B : incl P B -> incl (optbind asn P) (optbind asn B).
Proof.
  destruct asn as [x|]; simpl; [| auto].
  intros H y [->|Hy]; [left; reflexivity | right; auto].
Qed.

Section Sound.
  Variable st : bool.
  Variable dc : list name.
  Variable ns : list name.
  Variable W : world.

  Notation exec := (exec st dc ns W).
  Notation loop := (loop st dc ns W).
  Notation exec_h := (exec_h st dc ns W).
  Notation fin := (fin st dc ns W).
  Notation chk := (chk st dc ns W).
  Notation chk_h := (chk_h st dc ns W).
  Notation ce := (ce st dc ns W).

  Lemma ce_sound D B e r : ce D e = true -> incl D B -> eval ns W (fenv st dc B) e r -> r <> RName.
  Proof.
    intros H HI HE. unfold Closed.ce in H. eapply chk_expr_sound; [exact H | | exact HE].
    constructor; [| constructor]. repeat split; auto.
  Qed.

  (* ---------------------------------------------------------------- frame lemma *)

  Definition F_exec (s : stmt) (B : list name) (o : out) : Prop :=
    forall B', state o = Some B' -> forall x, In x B -> ~ In x (kill s) -> In x B'.
  Definition F_loop (xs : list name) (b el : stmt) (B : list name) (o : out) : Prop :=
    forall B', state o = Some B' -> forall x, In x B -> ~ In x (kill b) -> ~ In x (kill el) -> In x B'.
  Definition F_h (hs : handlers) (B : list name) (o : out) : Prop :=
    forall B', state o = Some B' -> forall x, In x B -> ~ In x (kill_h hs) -> In x B'.
  Definition F_fin (fi : stmt) (o2 o : out) : Prop :=
    forall B', state o = Some B' ->
      exists B2, state o2 = Some B2 /\ (forall x, In x B2 -> ~ In x (kill fi) -> In x B').

  Ltac lifted H :=
    apply lift_state in H as [[? H] | [? H]]; simpl in H; try (inversion H; subst; clear H); subst.

  Lemma frame_all :
    (forall s B o, exec s B o -> F_exec s B o) /\
    (forall xs b el B o, loop xs b el B o -> F_loop xs b el B o) /\
    (forall hs B o, exec_h hs B o -> F_h hs B o) /\
    (forall fi o2 o, fin fi o2 o -> F_fin fi o2 o).
  Proof.
    apply (exec_all_ind st dc ns W F_exec F_loop F_h F_fin);
      unfold F_exec, F_loop, F_h, F_fin; simpl kill; simpl kill_h.
    - (* XPass *) intros B B' H x Hx _. inversion H; subst; auto.
    - intros B B' H x Hx _. inversion H; subst; auto.
    - intros B B' H x Hx _. inversion H; subst; auto.
    - (* XExpr *) intros B e r _ B' H x Hx _. lifted H; auto.
    - (* XAssign *) intros B xs e r _ B' H x Hx _. lifted H; auto; try (apply in_or_app; auto).
    - (* XAssignExc *) intros B xs e S _ _ B' H x Hx _. inversion H; subst. apply in_or_app; auto.
    - intros B e r _ B' H x Hx _. lifted H; auto.
    - intros B e r _ B' H x Hx _. lifted H; auto.
    - (* XSeq *) intros B s1 s2 B1 o _ IH1 _ IH2 B' H x Hx Hk.
      apply (IH2 B' H). + apply (IH1 B1 eq_refl x Hx). intro; apply Hk, in_or_app; auto.
      + intro; apply Hk, in_or_app; auto.
    - (* XSeqStop *) intros B s1 s2 o _ IH1 _ B' H x Hx Hk.
      apply (IH1 B' H x Hx). intro; apply Hk, in_or_app; auto.
    - (* XIfBad *) intros B e s1 s2 r _ _ B' H x Hx _. lifted H; auto.
    - intros B e s1 s2 o _ _ IH B' H x Hx Hk. apply (IH B' H x Hx). intro; apply Hk, in_or_app; auto.
    - intros B e s1 s2 o _ _ IH B' H x Hx Hk. apply (IH B' H x Hx). intro; apply Hk, in_or_app; auto.
    - (* XForBad *) intros B xs e b el r _ _ B' H x Hx _. lifted H; auto.
    - (* XFor *) intros B xs e b el o _ _ IH B' H x Hx Hk.
      apply (IH B' H x Hx); intro; apply Hk, in_or_app; auto.
    - (* XTryExc *) intros B b hs el fi B1 o2 o _ IHb _ IHh _ IHf B' H x Hx Hk.
      destruct (IHf B' H) as (B2 & S2 & Fr).
      apply Fr.
      + apply (IHh B2 S2). * apply (IHb B1 eq_refl x Hx). intro; apply Hk, in_or_app; auto.
        * intro; apply Hk, in_or_app; right; apply in_or_app; auto.
      + intro; apply Hk, in_or_app; right; apply in_or_app; right; apply in_or_app; auto.
    - (* XTryNorm *) intros B b hs el fi B1 o2 o _ IHb _ IHe _ IHf B' H x Hx Hk.
      destruct (IHf B' H) as (B2 & S2 & Fr).
      apply Fr.
      + apply (IHe B2 S2). * apply (IHb B1 eq_refl x Hx). intro; apply Hk, in_or_app; auto.
        * intro; apply Hk, in_or_app; right; apply in_or_app; right; apply in_or_app; auto.
      + intro; apply Hk, in_or_app; right; apply in_or_app; right; apply in_or_app; auto.
    - (* XTryPass *) intros B b hs el fi o1 o _ IHb _ _ IHf B' H x Hx Hk.
      destruct (IHf B' H) as (B2 & S2 & Fr).
      apply Fr.
      + apply (IHb B2 S2 x Hx). intro; apply Hk, in_or_app; auto.
      + intro; apply Hk, in_or_app; right; apply in_or_app; right; apply in_or_app; auto.
    - (* XTryName *) intros B b hs el fi _ _ B' H. discriminate.
    - (* LEnd *) intros xs b el B o _ IH B' H x Hx _ Hk. apply (IH B' H x Hx Hk).
    - (* LExc *) intros xs b el B S _ B' H x Hx _ _. inversion H; subst. apply in_or_app; auto.
    - (* LIterN *) intros xs b el B B1 o _ IHb _ IHl B' H x Hx Hk1 Hk2.
      apply (IHl B' H x); auto. apply (IHb B1 eq_refl x); auto. apply in_or_app; auto.
    - (* LIterC *) intros xs b el B B1 o _ IHb _ IHl B' H x Hx Hk1 Hk2.
      apply (IHl B' H x); auto. apply (IHb B1 eq_refl x); auto. apply in_or_app; auto.
    - (* LBrk *) intros xs b el B B1 _ IHb B' H x Hx Hk1 _. inversion H; subst.
      apply (IHb B' eq_refl x); auto. apply in_or_app; auto.
    - (* LAbrupt *) intros xs b el B o _ IHb _ B' H x Hx Hk1 _.
      apply (IHb B' H x); auto. apply in_or_app; auto.
    - (* HNone *) intros B B' H x Hx _. inversion H; subst; auto.
    - (* HTyBad *) intros ty asn b rest B r _ _ B' H x Hx _. lifted H; auto.
    - (* HSkip *) intros ty asn b rest B o _ _ IH B' H x Hx Hk.
      apply (IH B' H x Hx). intro; apply Hk, in_or_app; right; apply in_or_app; auto.
    - (* HMatch *) intros ty asn b rest B o _ _ IH B' H x Hx Hk.
      apply state_map in H as (B0 & S0 & ->).
      assert (In x B0) as HB0.
      { apply (IH B0 S0 x). - destruct asn; simpl; auto.
        - intro; apply Hk, in_or_app; right; apply in_or_app; auto. }
      destruct asn as [y|]; simpl; auto.
      apply In_rm. split; auto. intros ->. apply Hk. apply in_or_app. left. left. reflexivity.
    - (* FinName *) intros fi B' H. discriminate.
    - (* FinNorm *) intros fi o2 B2 Bf S2 _ IH B' H.
      apply state_map in H as (B0 & S0 & ->). exists B2. split; [exact S2|].
      intros x Hx Hk. apply (IH Bf eq_refl x Hx Hk).
    - (* FinOther *) intros fi o2 B2 o S2 _ IH _ B' H. exists B2. split; [exact S2|].
      intros x Hx Hk. apply (IH B' H x Hx Hk).
  Qed.

  (* ---------------------------------------------------------------- soundness *)

  Lemma chk_SPass D : chk SPass D = Some (Some D). Proof. reflexivity. Qed.
  Lemma chk_SBreak D : chk SBreak D = Some None. Proof. reflexivity. Qed.
  Lemma chk_SContinue D : chk SContinue D = Some None. Proof. reflexivity. Qed.
  Lemma chk_SExpr e D : chk (SExpr e) D = if ce D e then Some (Some D) else None. Proof. reflexivity. Qed.
  Lemma chk_SAssign xs e D : chk (SAssign xs e) D = if ce D e then Some (Some (xs ++ D)) else None. Proof. reflexivity. Qed.
  Lemma chk_SReturn e D : chk (SReturn e) D = if ce D e then Some None else None. Proof. reflexivity. Qed.
  Lemma chk_SRaise e D : chk (SRaise e) D = if ce D e then Some None else None. Proof. reflexivity. Qed.
  Lemma chk_SSeq a b D : chk (SSeq a b) D =
    match chk a D with None => None | Some None => Some None | Some (Some D1) => chk b D1 end.
  Proof. reflexivity. Qed.
  Lemma chk_SIf e a b D : chk (SIf e a b) D =
    if ce D e then match chk a D, chk b D with Some ra, Some rb => Some (meetO ra rb) | _, _ => None end else None.
  Proof. reflexivity. Qed.
  Lemma chk_SFor xs e b el D : chk (SFor xs e b el) D =
    if ce D e then
      match chk b (xs ++ minus D (kill b)), chk el (minus D (kill b)) with
      | Some _, Some rel => Some (Some (match rel with None => minus D (kill b) | Some r' => inter (minus D (kill b)) r' end))
      | _, _ => None
      end
    else None.
  Proof. reflexivity. Qed.
  Lemma chk_STry b hs el fi D : chk (STry b hs el fi) D =
    match chk b D with
    | None => None
    | Some rb =>
        match chk_h hs (minus D (kill b)) with
        | None => None
        | Some rh =>
            match (match rb with Some D1 => chk el D1 | None => Some None end) with
            | None => None
            | Some ro =>
                match chk fi (minus (minus (minus D (kill b)) (kill_h hs)) (kill el)) with
                | None => None
                | Some None => Some None
                | Some (Some _) =>
                    Some (match meetO rh ro with None => None | Some P => Some (minus P (kill fi)) end)
                end
            end
        end
    end.
  Proof. reflexivity. Qed.
  Lemma chk_HNil Dh : chk_h HNil Dh = Some None. Proof. reflexivity. Qed.
  Lemma chk_HCons ty asn b rest Dh : chk_h (HCons ty asn b rest) Dh =
    if ce Dh ty then
      match chk b (optbind asn Dh), chk_h rest Dh with
      | Some rb, Some rr => Some (meetO (match rb with Some P => Some (unbind asn P) | None => None end) rr)
      | _, _ => None
      end
    else None.
  Proof. reflexivity. Qed.

  Ltac sim H := first
    [ rewrite chk_SPass in H | rewrite chk_SBreak in H | rewrite chk_SContinue in H | rewrite chk_SExpr in H
    | rewrite chk_SAssign in H | rewrite chk_SReturn in H | rewrite chk_SRaise in H | rewrite chk_SSeq in H
    | rewrite chk_SIf in H | rewrite chk_SFor in H | rewrite chk_STry in H | rewrite chk_HNil in H
    | rewrite chk_HCons in H ].


  Definition P_exec (s : stmt) (B : list name) (o : out) : Prop :=
    forall D R, chk s D = Some R -> incl D B ->
      o <> OName /\ (forall B', o = ONorm B' -> exists D', R = Some D' /\ incl D' B').
  Definition P_loop (xs : list name) (b el : stmt) (B : list name) (o : out) : Prop :=
    forall I Rb Rel, (forall x, In x I -> ~ In x (kill b)) ->
      chk b (xs ++ I) = Some Rb -> chk el I = Some Rel -> incl I B ->
      o <> OName /\
      (forall B', o = ONorm B' -> incl (match Rel with None => I | Some r' => inter I r' end) B').
  Definition P_h (hs : handlers) (B : list name) (o : out) : Prop :=
    forall Dh R, chk_h hs Dh = Some R -> incl Dh B ->
      o <> OName /\ (forall B', o = ONorm B' -> exists D', R = Some D' /\ incl D' B').
  Definition P_fin (fi : stmt) (o2 o : out) : Prop :=
    forall Df Rf, chk fi Df = Some Rf -> (forall B2, state o2 = Some B2 -> incl Df B2) -> o2 <> OName ->
      o <> OName /\
      (forall B', o = ONorm B' -> exists B2, o2 = ONorm B2 /\ Rf <> None /\
                                     (forall x, In x B2 -> ~ In x (kill fi) -> In x B')).

  Lemma lift_not_name r B ok : r <> RName -> ok <> OName -> lift r B ok <> OName.
  Proof. destruct r; simpl; congruence. Qed.

  Lemma lift_norm r B ok B' : lift r B ok = ONorm B' -> r = ROk /\ ok = ONorm B'.
  Proof. destruct r; simpl; intros H; [auto | discriminate | discriminate]. Qed.

  Lemma lift_bad_not_norm r B ok B' : r <> ROk -> lift r B ok <> ONorm B'.
  Proof. destruct r; simpl; congruence. Qed.

  Lemma incl_inter_l a b : incl (inter a b) a.
  Proof. intros x Hx. apply In_inter in Hx. tauto. Qed.

  Lemma sound_all :
    (forall s B o, exec s B o -> P_exec s B o) /\
    (forall xs b el B o, loop xs b el B o -> P_loop xs b el B o) /\
    (forall hs B o, exec_h hs B o -> P_h hs B o) /\
    (forall fi o2 o, fin fi o2 o -> P_fin fi o2 o).
  Proof.
    destruct frame_all as (FrE & FrL & FrH & FrF).
    apply (exec_all_ind st dc ns W P_exec P_loop P_h P_fin);
      unfold P_exec, P_loop, P_h, P_fin.
    - (* XPass *) intros B D R H HI. sim H. inversion H; subst. split; [discriminate|].
      intros B' E. inversion E; subst. eauto.
    - intros B D R H HI. split; [discriminate | intros B' E; discriminate].
    - intros B D R H HI. split; [discriminate | intros B' E; discriminate].
    - (* XExpr *) intros B e r HE D R H HI. sim H. destruct (ce D e) eqn:C; [| discriminate].
      inversion H; subst. pose proof (ce_sound _ _ _ _ C HI HE) as Hr. split.
      + apply lift_not_name; [auto | discriminate].
      + intros B' E. apply lift_norm in E as [_ E]. inversion E; subst. eauto.
    - (* XAssign *) intros B xs e r HE D R H HI. sim H. destruct (ce D e) eqn:C; [| discriminate].
      inversion H; subst. pose proof (ce_sound _ _ _ _ C HI HE) as Hr. split.
      + apply lift_not_name; [auto | discriminate].
      + intros B' E. apply lift_norm in E as [_ E]. inversion E; subst.
        exists (xs ++ D). split; auto. apply incl_app; [apply incl_appl, incl_refl | apply incl_appr, HI].
    - (* XAssignExc *) intros B xs e S _ _ D R _ _. split; [discriminate | intros B' E; discriminate].
    - (* XReturn *) intros B e r HE D R H HI. sim H. destruct (ce D e) eqn:C; [| discriminate].
      pose proof (ce_sound _ _ _ _ C HI HE) as Hr. split.
      + apply lift_not_name; [auto | discriminate].
      + intros B' E. apply lift_norm in E as [_ E]. discriminate.
    - (* XRaise *) intros B e r HE D R H HI. sim H. destruct (ce D e) eqn:C; [| discriminate].
      pose proof (ce_sound _ _ _ _ C HI HE) as Hr. split.
      + apply lift_not_name; [auto | discriminate].
      + intros B' E. apply lift_norm in E as [_ E]. discriminate.
    - (* XSeq *) intros B s1 s2 B1 o _ IH1 _ IH2 D R H HI. sim H.
      destruct (chk s1 D) as [[D1|]|] eqn:C1; try discriminate.
      + destruct (IH1 D (Some D1) C1 HI) as [_ N1].
        destruct (N1 B1 eq_refl) as (D' & E' & I'). inversion E'; subst.
        apply (IH2 D' R H I').
      + destruct (IH1 D None C1 HI) as [_ N1].
        destruct (N1 B1 eq_refl) as (D' & E' & _). discriminate.
    - (* XSeqStop *) intros B s1 s2 o _ IH1 NN D R H HI. sim H.
      destruct (chk s1 D) as [r1|] eqn:C1; [| discriminate].
      destruct (IH1 D r1 C1 HI) as [A _]. split; [exact A|].
      intros B' E. exfalso. apply (NN B' E).
    - (* XIfBad *) intros B e s1 s2 r HE Hr D R H HI. sim H. destruct (ce D e) eqn:C; [| discriminate].
      pose proof (ce_sound _ _ _ _ C HI HE) as Hn. split.
      + apply lift_not_name; [auto | discriminate].
      + intros B' E. exfalso. revert E. apply lift_bad_not_norm. exact Hr.
    - (* XIf1 *) intros B e s1 s2 o _ _ IH D R H HI. sim H. destruct (ce D e); [| discriminate].
      destruct (chk s1 D) as [ra|] eqn:Ca; [| discriminate].
      destruct (chk s2 D) as [rb|] eqn:Cb; [| discriminate]. inversion H; subst.
      destruct (IH D ra Ca HI) as [A N]. split; [exact A|].
      intros B' E. destruct (N B' E) as (Da & -> & Ia).
      destruct (meetO_l (Some Da) rb Da eq_refl) as (D' & E' & I'). exists D'. split; [exact E'|].
      eapply incl_tran; eauto.
    - (* XIf2 *) intros B e s1 s2 o _ _ IH D R H HI. sim H. destruct (ce D e); [| discriminate].
      destruct (chk s1 D) as [ra|] eqn:Ca; [| discriminate].
      destruct (chk s2 D) as [rb|] eqn:Cb; [| discriminate]. inversion H; subst.
      destruct (IH D rb Cb HI) as [A N]. split; [exact A|].
      intros B' E. destruct (N B' E) as (Db & -> & Ib).
      destruct (meetO_r ra (Some Db) Db eq_refl) as (D' & E' & I'). exists D'. split; [exact E'|].
      eapply incl_tran; eauto.
    - (* XForBad *) intros B xs e b el r HE Hr D R H HI. sim H. destruct (ce D e) eqn:C; [| discriminate].
      pose proof (ce_sound _ _ _ _ C HI HE) as Hn. split.
      + apply lift_not_name; [auto | discriminate].
      + intros B' E. exfalso. revert E. apply lift_bad_not_norm. exact Hr.
    - (* XFor *) intros B xs e b el o _ _ IH D R H HI. sim H. destruct (ce D e); [| discriminate].
      destruct (chk b (xs ++ minus D (kill b))) as [rb|] eqn:Cb; [| discriminate].
      destruct (chk el (minus D (kill b))) as [rel|] eqn:Ce; [| discriminate]. inversion H; subst.
      assert (incl (minus D (kill b)) B) as HIB.
      { intros x Hx. apply In_minus in Hx. apply HI. tauto. }
      destruct (IH (minus D (kill b)) rb rel) as [A N]; auto.
      { intros x Hx. apply In_minus in Hx. tauto. }
      split; [exact A|]. intros B' E. eexists. split; [reflexivity|]. apply (N B' E).
    - (* XTryExc *) intros B b hs el fi B1 o2 o Xb IHb Xh IHh _ IHf D R H HI. sim H.
      destruct (chk b D) as [rb|] eqn:Cb; [| discriminate].
      destruct (chk_h hs (minus D (kill b))) as [rh|] eqn:Ch; [| discriminate].
      destruct (match rb with Some D1 => chk el D1 | None => Some None end) as [ro|] eqn:Co; [| discriminate].
      destruct (chk fi (minus (minus (minus D (kill b)) (kill_h hs)) (kill el))) as [rf|] eqn:Cf; [| discriminate].
      assert (incl (minus D (kill b)) B1) as HI1.
      { intros x Hx. apply In_minus in Hx as [Hx Hk]. apply (FrE _ _ _ Xb B1 eq_refl x); auto. }
      destruct (IHh _ _ Ch HI1) as [A2 N2].
      destruct (IHf _ _ Cf) as [A N]; auto.
      { intros B2 S2 x Hx. apply In_minus in Hx as [Hx Hk3]. apply In_minus in Hx as [Hx Hk2].
        apply (FrH _ _ _ Xh B2 S2 x); auto. }
      split; [exact A|]. intros B' E. destruct (N B' E) as (B2 & -> & Hrf & Fr).
      destruct (N2 B2 eq_refl) as (Dh' & -> & Ih').
      destruct rf as [Pf|]; [| congruence]. inversion H; subst.
      destruct ro as [b'|]; (eexists; split; [reflexivity|]; intros x Hx; apply In_minus in Hx as [Hx Hk];
        apply Fr; [apply Ih'; first [exact Hx | apply In_inter in Hx; tauto] | exact Hk]).
    - (* XTryNorm *) intros B b hs el fi B1 o2 o Xb IHb Xe IHe _ IHf D R H HI. sim H.
      destruct (chk b D) as [rb|] eqn:Cb; [| discriminate].
      destruct (chk_h hs (minus D (kill b))) as [rh|] eqn:Ch; [| discriminate].
      destruct (match rb with Some D1 => chk el D1 | None => Some None end) as [ro|] eqn:Co; [| discriminate].
      destruct (chk fi (minus (minus (minus D (kill b)) (kill_h hs)) (kill el))) as [rf|] eqn:Cf; [| discriminate].
      destruct (IHb _ _ Cb HI) as [_ Nb]. destruct (Nb B1 eq_refl) as (D1 & -> & I1).
      destruct (IHe _ _ Co I1) as [A2 N2].
      destruct (IHf _ _ Cf) as [A N]; auto.
      { intros B2 S2 x Hx. apply In_minus in Hx as [Hx Hk3]. apply In_minus in Hx as [Hx Hk2].
        apply In_minus in Hx as [Hx Hk1].
        apply (FrE _ _ _ Xe B2 S2 x); auto. apply (FrE _ _ _ Xb B1 eq_refl x); auto. }
      split; [exact A|]. intros B' E. destruct (N B' E) as (B2 & -> & Hrf & Fr).
      destruct (N2 B2 eq_refl) as (De' & -> & Ie').
      destruct rf as [Pf|]; [| congruence]. inversion H; subst.
      destruct rh as [a'|]; (eexists; split; [reflexivity|]; intros x Hx; apply In_minus in Hx as [Hx Hk];
        apply Fr; [apply Ie'; first [exact Hx | apply In_inter in Hx; tauto] | exact Hk]).
    - (* XTryPass *) intros B b hs el fi o1 o Xb IHb Hp _ IHf D R H HI. sim H.
      destruct (chk b D) as [rb|] eqn:Cb; [| discriminate].
      destruct (chk_h hs (minus D (kill b))) as [rh|] eqn:Ch; [| discriminate].
      destruct (match rb with Some D1 => chk el D1 | None => Some None end) as [ro|] eqn:Co; [| discriminate].
      destruct (chk fi (minus (minus (minus D (kill b)) (kill_h hs)) (kill el))) as [rf|] eqn:Cf; [| discriminate].
      destruct (IHf _ _ Cf) as [A N].
      { intros B2 S2 x Hx. apply In_minus in Hx as [Hx Hk3]. apply In_minus in Hx as [Hx Hk2].
        apply In_minus in Hx as [Hx Hk1]. apply (FrE _ _ _ Xb B2 S2 x); auto. }
      { destruct o1; simpl in Hp; try tauto; discriminate. }
      split; [exact A|]. intros B' E. destruct (N B' E) as (B2 & -> & _). simpl in Hp. tauto.
    - (* XTryName *) intros B b hs el fi _ IHb D R H HI. sim H.
      destruct (chk b D) as [rb|] eqn:Cb; [| discriminate].
      destruct (IHb _ _ Cb HI) as [A _]. congruence.
    - (* LEnd *) intros xs b el B o _ IH I Rb Rel Hk Cb Ce HI.
      destruct (IH I Rel Ce HI) as [A N]. split; [exact A|].
      intros B' E. destruct (N B' E) as (D' & -> & I'). intros x Hx. apply In_inter in Hx. apply I'. tauto.
    - (* LExc *) intros xs b el B S _ I Rb Rel _ _ _ _. split; [discriminate | intros B' E; discriminate].
    - (* LIterN *) intros xs b el B B1 o Xb IHb _ IHl I Rb Rel Hk Cb Ce HI.
      apply (IHl I Rb Rel Hk Cb Ce).
      intros x Hx. apply (FrE _ _ _ Xb B1 eq_refl x); auto. apply in_or_app. right. auto.
    - (* LIterC *) intros xs b el B B1 o Xb IHb _ IHl I Rb Rel Hk Cb Ce HI.
      apply (IHl I Rb Rel Hk Cb Ce).
      intros x Hx. apply (FrE _ _ _ Xb B1 eq_refl x); auto. apply in_or_app. right. auto.
    - (* LBrk *) intros xs b el B B1 Xb IHb I Rb Rel Hk Cb Ce HI. split; [discriminate|].
      intros B' E. inversion E; subst.
      assert (incl I B') as HI'.
      { intros x Hx. apply (FrE _ _ _ Xb B' eq_refl x); auto. apply in_or_app. right. auto. }
      destruct Rel; [| exact HI']. eapply incl_tran; [apply incl_inter_l | exact HI'].
    - (* LAbrupt *) intros xs b el B o Xb IHb Ha I Rb Rel Hk Cb Ce HI.
      destruct (IHb (xs ++ I) Rb Cb) as [A _].
      { apply incl_app; [apply incl_appl, incl_refl | apply incl_appr, HI]. }
      split; [exact A|]. intros B' E. subst. simpl in Ha. tauto.
    - (* HNone *) intros B Dh R _ _. split; [discriminate | intros B' E; discriminate].
    - (* HTyBad *) intros ty asn b rest B r HE Hr Dh R H HI. sim H.
      destruct (ce Dh ty) eqn:C; [| discriminate].
      pose proof (ce_sound _ _ _ _ C HI HE) as Hn. split.
      + apply lift_not_name; [auto | discriminate].
      + intros B' E. exfalso. revert E. apply lift_bad_not_norm. exact Hr.
    - (* HSkip *) intros ty asn b rest B o _ _ IH Dh R H HI. sim H.
      destruct (ce Dh ty); [| discriminate].
      destruct (chk b (optbind asn Dh)) as [rb|]; [| discriminate].
      destruct (chk_h rest Dh) as [rr|] eqn:Cr; [| discriminate]. inversion H; subst.
      destruct (IH Dh rr Cr HI) as [A N]. split; [exact A|].
      intros B' E. destruct (N B' E) as (Dr & -> & Ir).
      destruct (meetO_r (match rb with Some P => Some (unbind asn P) | None => None end) (Some Dr) Dr eq_refl)
        as (D' & E' & I'). exists D'. split; [exact E'|]. eapply incl_tran; eauto.
    - (* HMatch *) intros ty asn b rest B o _ _ IH Dh R H HI. sim H.
      destruct (ce Dh ty); [| discriminate].
      destruct (chk b (optbind asn Dh)) as [rb|] eqn:Cb; [| discriminate].
      destruct (chk_h rest Dh) as [rr|]; [| discriminate]. inversion H; subst.
      destruct (IH _ _ Cb (incl_optbind asn _ _ HI)) as [A N]. split.
      + destruct o; simpl; congruence.
      + intros B' E. destruct o; simpl in E; try discriminate. inversion E; subst.
        destruct (N B0 eq_refl) as (P & -> & IP).
        destruct (meetO_l (Some (unbind asn P)) rr (unbind asn P) eq_refl) as (D' & E' & I').
        exists D'. split; [exact E'|]. eapply incl_tran; [exact I' | apply incl_unbind, IP].
    - (* FinName *) intros fi Df Rf _ _ Hn. congruence.
    - (* FinNorm *) intros fi o2 B2 Bf S2 Xf IH Df Rf Cf HI Hn.
      destruct (IH Df Rf Cf (HI B2 S2)) as [_ N]. destruct (N Bf eq_refl) as (D' & -> & _). split.
      + destruct o2; simpl; congruence.
      + intros B' E. destruct o2; simpl in E; try discriminate. inversion E; subst.
        simpl in S2. inversion S2; subst. exists B2. repeat split; [discriminate|].
        intros x Hx Hk. apply (FrE _ _ _ Xf B' eq_refl x Hx Hk).
    - (* FinOther *) intros fi o2 B2 o S2 _ IH NN Df Rf Cf HI Hn.
      destruct (IH Df Rf Cf (HI B2 S2)) as [A _]. split; [exact A|].
      intros B' E. exfalso. apply (NN B' E).
  Qed.

  Theorem chk_sound s D R B o :
    chk s D = Some R -> incl D B -> exec s B o -> o <> OName.
  Proof.
    intros C HI X. exact (proj1 (proj1 sound_all s B o X D R C HI)).
  Qed.
End Sound.

(* ------------------------------------------------------------------ whole programs *)

Fixpoint mod_stmt (p : program) : stmt :=
  match p with
  | [] => SPass
  | IDef f :: r => SSeq (SAssign [fname f] (fpre f)) (mod_stmt r)
  | IStmt s :: r => SSeq s (mod_stmt r)
  end.

Fixpoint defs (p : program) : list fundef :=
  match p with
  | [] => []
  | IDef f :: r => f :: defs r
  | IStmt _ :: r => defs r
  end.

Definition fdecl (f : fundef) : list name := fparams f ++ binds (fbody f).

Definition is_some {A} (o : option A) : bool := match o with Some _ => true | None => false end.

(* nm: names visible to module level code that the program does not define itself
       (locals dict handed to exec + globals + builtins);
   nf: names visible to function bodies (globals + builtins when the entry point becomes callable) *)
Definition check_closed (nm nf : list name) (Wm Wf : world) (p : program) : bool :=
  is_some (chk false [] nm Wm (mod_stmt p) []) &&
  forallb (fun f => is_some (chk true (fdecl f) nf Wf (fbody f) (fparams f))) (defs p).

(* OName: a reference error of the library's own making - NameError, UnboundLocalError, or an
   AttributeError on a module / class / holder of the captured namespace *)
Theorem closed_sound nm nf Wm Wf p :
  check_closed nm nf Wm Wf p = true ->
  (forall o, exec false [] nm Wm (mod_stmt p) [] o -> o <> OName) /\
  (forall f, In f (defs p) -> forall B o,
      incl (fparams f) B -> exec true (fdecl f) nf Wf (fbody f) B o -> o <> OName).
Proof.
  unfold check_closed. intros H. apply andb_true_iff in H as [Hm Hf]. split.
  - intros o X. destruct (chk false [] nm Wm (mod_stmt p) []) as [R|] eqn:C; [| discriminate].
    eapply chk_sound; eauto. apply incl_refl.
  - intros f Hin B o HI X. rewrite forallb_forall in Hf. specialize (Hf f Hin).
    destruct (chk true (fdecl f) nf Wf (fbody f) (fparams f)) as [R|] eqn:C; [| discriminate].
    eapply chk_sound; eauto.
Qed.

(* ------------------------------------------------------------------ holder attributes *)

(* attribute reads `holder.__generated_name` vs. the names the captured programs setattr:
   pairs (holder, attribute), both interned *)
Definition pair_eqb (a b : N * N) : bool := N.eqb (fst a) (fst b) && N.eqb (snd a) (snd b).
Definition attrs_closed (reads sets : list (N * N)) : bool :=
  forallb (fun r => existsb (pair_eqb r) sets) reads.

Theorem attrs_closed_sound reads sets :
  attrs_closed reads sets = true -> forall r, In r reads -> In r sets.
Proof.
  unfold attrs_closed. rewrite forallb_forall. intros H r Hr. specialize (H r Hr).
  apply existsb_exists in H as (s & Hs & E). unfold pair_eqb in E.
  apply andb_true_iff in E as [E1 E2]. apply N.eqb_eq in E1, E2.
  destruct r, s; simpl in *; subst. exact Hs.
Qed.

(* ------------------------------------------------------------------ per-shard statements *)
From Verif Require Wire.

Lemma bad_from_nil {A} (ok : A -> bool) l : forall i,
  Wire.bad_from ok l i = [] -> forall x, In x l -> ok x = true.
Proof.
  induction l as [| a r IH]; intros i H x Hx; [destruct Hx|].
  simpl in H. destruct (ok a) eqn:E; [| discriminate].
  destruct Hx as [<- | Hx]; [exact E | eapply IH; eauto].
Qed.

Record pcase := mkCase { c_nm : list N; c_nf : list N; c_wm : world; c_wf : world; c_prog : program }.

Definition case_ok (c : pcase) : bool := check_closed (c_nm c) (c_nf c) (c_wm c) (c_wf c) (c_prog c).

(* what a shard file's kernel-checked `bad_idx case_ok cases = []` means for each of its programs *)
Theorem shard_sound cases :
  Wire.bad_idx case_ok cases = [] ->
  forall c, In c cases ->
    (forall o, exec false [] (c_nm c) (c_wm c) (mod_stmt (c_prog c)) [] o -> o <> OName) /\
    (forall f, In f (defs (c_prog c)) -> forall B o,
        incl (fparams f) B -> exec true (fdecl f) (c_nf c) (c_wf c) (fbody f) B o -> o <> OName).
Proof.
  intros H c Hc. apply closed_sound. exact (bad_from_nil case_ok cases 0%nat H c Hc).
Qed.
