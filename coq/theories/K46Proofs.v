(* C17: facts about the translated kernel K46 (add_type_modules / ensure_module_imported / ensure_object_imported):
   which names get registered for an annotation, and that the root of every chain type_name renders for a class of a
   visited module is among them and resolves in the namespace assembled by setdefault. *)
From Coq Require Import List Bool String Ascii.
From VerifGen Require Import K46.
From Verif Require Import Render NsBind.
Import ListNotations.
Open Scope string_scope.

(* the nodes add_type_modules visits below t (itself included), following the source: literal values OR args, then
   constraints, then bound - but nothing below a node without module (`continue`) *)
Fixpoint visited (t : mty) : list mty :=
  match t with
  | MNode mp module is_lit lits args cstr bound =>
      t :: match module with
           | None => []
           | Some _ => (if is_lit then flat_map visited lits else flat_map visited args) ++
                       flat_map visited cstr ++ flat_map visited bound
           end
  end.

(* all nodes syntactically below t that the traversal is meant to reach (same choice literal values / args) *)
Fixpoint nodes (t : mty) : list mty :=
  match t with
  | MNode mp module is_lit lits args cstr bound =>
      t :: (if is_lit then flat_map nodes lits else flat_map nodes args) ++ flat_map nodes cstr ++ flat_map nodes bound
  end.

Definition node_module (t : mty) : option string := match t with MNode _ m _ _ _ _ _ => m end.

Definition has_module (t : mty) : bool := match node_module t with Some _ => true | None => false end.

Definition all_loaded (t : mty) : bool := forallb has_module (nodes t).

(* a custom induction principle (nested lists) *)
Section MtyInd.
  Variable P : mty -> Prop.
  Hypothesis H : forall mp m il lits args cstr bound,
    Forall P lits -> Forall P args -> Forall P cstr -> Forall P bound -> P (MNode mp m il lits args cstr bound).
  Fixpoint mty_ind' (t : mty) : P t :=
    match t with
    | MNode mp m il lits args cstr bound =>
        let fix go (l : list mty) : Forall P l :=
          match l with [] => Forall_nil P | x :: r => Forall_cons x (mty_ind' x) (go r) end in
        H mp m il lits args cstr bound (go lits) (go args) (go cstr) (go bound)
    end.
End MtyInd.

Lemma in_flat_map_Forall {A B} (f g : A -> list B) (P : A -> Prop) l x :
  Forall P l -> (forall a, P a -> In a l -> forall y, In y (f a) -> In y (g a)) -> In x (flat_map f l) -> In x (flat_map g l).
Proof.
  intros HF Hstep Hin. apply in_flat_map in Hin as (a & Ha & Hx). apply in_flat_map. exists a. split; [exact Ha|].
  rewrite Forall_forall in HF. apply (Hstep a (HF a Ha) Ha). exact Hx.
Qed.

(* every visited node with a module contributes its module name and its package *)
Lemma visited_imports t : forall n m,
  In n (visited t) -> node_module n = Some m ->
  In (OSet m true) (add_type_modules t) /\ In (OSet (package m) true) (add_type_modules t).
Proof.
  induction t as [mp mo il lits args cstr bound Hl Ha Hc Hb] using mty_ind'. intros n m Hin Hm.
  simpl in Hin. destruct Hin as [<- | Hin].
  - simpl in Hm. subst mo. simpl. split; apply in_or_app; right; simpl; auto.
  - destruct mo as [m0|]; [| destruct Hin].
    assert (Step : forall l, Forall (fun t => forall n m, In n (visited t) -> node_module n = Some m ->
                     In (OSet m true) (add_type_modules t) /\ In (OSet (package m) true) (add_type_modules t)) l ->
                   In n (flat_map visited l) ->
                   In (OSet m true) (flat_map add_type_modules l) /\ In (OSet (package m) true) (flat_map add_type_modules l)).
    { intros l HF Hn. apply in_flat_map in Hn as (a & Hal & Hna). rewrite Forall_forall in HF.
      destruct (HF a Hal n m Hna Hm) as [A B]. split; apply in_flat_map; exists a; auto. }
    cbn [add_type_modules]. 
    assert (G : In (OSet m true) ((if il then flat_map add_type_modules lits else flat_map add_type_modules args) ++
                                   flat_map add_type_modules cstr ++ flat_map add_type_modules bound) /\
                In (OSet (package m) true) ((if il then flat_map add_type_modules lits else flat_map add_type_modules args) ++
                                   flat_map add_type_modules cstr ++ flat_map add_type_modules bound)).
    { apply in_app_or in Hin as [Hin | Hin]; [| apply in_app_or in Hin as [Hin | Hin]].
      - destruct il; [destruct (Step lits Hl Hin) | destruct (Step args Ha Hin)]; split; apply in_or_app; left; assumption.
      - destruct (Step cstr Hc Hin). split; apply in_or_app; right; apply in_or_app; left; assumption.
      - destruct (Step bound Hb Hin). split; apply in_or_app; right; apply in_or_app; right; assumption. }
    destruct G as [G1 G2].
    split; apply in_or_app; right; apply in_or_app; right; assumption.
Qed.

(* when every node has a module nothing is cut off: visited = nodes *)
Lemma loaded_visited t : all_loaded t = true -> visited t = nodes t.
Proof.
  induction t as [mp mo il lits args cstr bound Hl Ha Hc Hb] using mty_ind'. intros HL.
  assert (HL' : has_module (MNode mp mo il lits args cstr bound) &&
                forallb has_module ((if il then flat_map nodes lits else flat_map nodes args) ++ flat_map nodes cstr ++ flat_map nodes bound) = true)
    by exact HL.
  clear HL. rename HL' into HL. apply andb_true_iff in HL as [H0 HL].
  unfold has_module in H0. simpl in H0. destruct mo as [m0|]; [| discriminate].
  assert (Step : forall l, Forall (fun t => all_loaded t = true -> visited t = nodes t) l ->
                 forallb has_module (flat_map nodes l) = true -> flat_map visited l = flat_map nodes l).
  { induction l as [| a r IH]; intros HF HA; [reflexivity|].
    simpl in *. rewrite forallb_app in HA. apply andb_true_iff in HA as [A1 A2].
    inversion HF as [| x y Hx Hr]; subst. rewrite (Hx A1), (IH Hr A2). reflexivity. }
  rewrite !forallb_app in HL. apply andb_true_iff in HL as [L1 HL]. apply andb_true_iff in HL as [L2 L3].
  simpl. f_equal. rewrite (Step cstr Hc L2), (Step bound Hb L3).
  destruct il; [rewrite (Step lits Hl L1) | rewrite (Step args Ha L1)]; reflexivity.
Qed.

Theorem imports_cover t n m :
  all_loaded t = true -> In n (nodes t) -> node_module n = Some m ->
  In (OSet m true) (add_type_modules t) /\ In (OSet (package m) true) (add_type_modules t).
Proof. intros HL Hin Hm. rewrite <- (loaded_visited t HL) in Hin. apply (visited_imports t n m Hin Hm). Qed.

(* without the hypothesis it fails: below a node without module nothing is imported (known finding
   class-module-not-importable: G[E] with G.__module__ naming no imported module) *)
Definition imports_cover_full : Prop :=
  forall t n m, In n (nodes t) -> node_module n = Some m -> In (OSet (package m) true) (add_type_modules t).

Theorem imports_cover_refuted : ~ imports_cover_full.
Proof.
  intros H.
  pose proof (H (MNode false None false [] [MNode false (Some "pkg.mod") false [] [] [] []] [] [])
                (MNode false (Some "pkg.mod") false [] [] [] []) "pkg.mod"
                (or_intror (or_introl eq_refl)) eq_refl) as A.
  simpl in A. exact A.
Qed.

(* ---- the root of the chain type_name renders for a class of module m is package m *)
Lemma split_dots_nonempty s : forall cur, split_dots s cur <> [].
Proof. induction s as [| c r IH]; intros cur; simpl; [discriminate|]. destruct (Ascii.eqb c "."%char); [discriminate | apply IH]. Qed.

Theorem chain_root_is_package nn m q : hd "" (split_dots (render nn (RNamed m q)) "") = package m.
Proof.
  rewrite render_chain. unfold package.
  destruct (split_dots m "") eqn:E; [exfalso; exact (split_dots_nonempty m "" E) | reflexivity].
Qed.

(* ---- registered names resolve in the namespace assembled by setdefault *)
Definition op_name (o : op) : string := match o with OSet n _ => n end.

Lemma setdefault_binds k v (m : ns op) : lookup op k (setdefault op k v m) <> None.
Proof.
  unfold setdefault. destruct (lookup op k m) eqn:E; [rewrite E; discriminate|].
  rewrite lookup_app, E. simpl. rewrite String.eqb_refl. discriminate.
Qed.

Lemma registered_resolves ops : forall m0 o,
  In o ops -> lookup op (op_name o) (ns_setdefault op op_name ops m0) <> None.
Proof.
  induction ops as [| a r IH]; intros m0 o Hin; [destruct Hin|].
  simpl. destruct Hin as [-> | Hin].
  - destruct (lookup op (op_name o) (setdefault op (op_name o) o m0)) eqn:E.
    + rewrite (fold_keeps op op_name r _ _ _ E). discriminate.
    + exfalso. exact (setdefault_binds _ _ _ E).
  - apply IH. exact Hin.
Qed.

(* end to end: the root name of the chain rendered for any class of a module occurring in a fully loaded annotation
   resolves in the namespace built from add_type_modules of that annotation (whatever was there before) *)
Theorem chain_root_resolves t n m nn q m0 :
  all_loaded t = true -> In n (nodes t) -> node_module n = Some m ->
  lookup op (hd "" (split_dots (render nn (RNamed m q)) "")) (ns_setdefault op op_name (add_type_modules t) m0) <> None.
Proof.
  intros HL Hin Hm. rewrite chain_root_is_package.
  destruct (imports_cover t n m HL Hin Hm) as [_ HP].
  apply (registered_resolves _ m0 _ HP).
Qed.
