(* C15 - what a class statement does to EXISTING classes on the mixin path: the nailed builder of a mixin class (or of a
   wrapper) compiles every dataclass position of its fields; kernel K115a says where the nested builder stores the
   method (pack_method_loc true = LClass: on the annotated class itself) and when a nested builder runs
   (pack_rebuild: the class does not define the method in its own __dict__ and is not the class being compiled).
   The result is the class table with more `c_has_method` flags - the only state the mixin path's dynamic dispatch
   reads.  Until round 5 these flags were predicted by the harness (c15lib.predicted_has_method, trusted); now the model
   computes them from the kernel's decisions, the theorems say executing class statements only EXTENDS the table (so
   every in-domain call keeps its result), and the computed flags are compared with the real class __dict__s of a fresh
   module on every run. *)
From Coq Require Import List String Ascii ZArith Bool Lia.
From Verif Require Import C15Model C15Proofs C15Site C15Holders.
From VerifGen Require Import K115a.
Import ListNotations.
Open Scope string_scope.

Section Nailed.
  Variable rebuild: bool -> bool -> bool.   (* K115a.pack_rebuild b_defined b_is_cls (default method: no dialect; nailed; same name) *)
  Variable loc: mloc.                       (* K115a.pack_method_loc true *)

  (* one dataclass position annotated [c'] compiled by the nailed builder of [cur] (None: a class outside the table,
     e.g. a wrapper).  b_defined = the class owns the method in its OWN __dict__ (get_class_that_defines_method) *)
  Fixpoint nsite (fuel: nat) (cur: option cname) (c': cname) (E: env) {struct fuel} : env :=
    match fuel with
    | O => E
    | S n =>
        let is_cur := match cur with Some c => String.eqb c c' | None => false end in
        if rebuild (has_method E c') is_cur then
          match loc with
          | LClass => map (set_method [c'])
                          (fold_left (fun E1 x => nsite n (Some c') x E1) (field_classes E c') E)
          | LHolder => E
          end
        else E
    end.

  Definition ncompile (fuel: nat) (cur: option cname) (l: list cname) (E: env) : env :=
    fold_left (fun E1 x => nsite fuel cur x E1) l E.

  (* executing a module: the class statements of the mixin classes in definition order (each compiles its field
     positions and then owns its method), then the wrappers W_i(DataClassDictMixin){f: root_i} *)
  Definition module_exec (E0: env) (mixins: list cname) (roots: list ty) : env :=
    let fuel := S (S (List.length E0)) in
    let E1 := fold_left (fun E c => map (set_method [c]) (ncompile fuel (Some c) (field_classes E c) E)) mixins E0 in
    fold_left (fun E t => ncompile fuel None (ty_classes t) E) roots E1.
End Nailed.

Lemma extends_set E comp : extends E (map (set_method comp) E).
Proof.
  intros c x Hf. exists (set_method comp x). split; [|apply set_method_shape].
  rewrite find_map_set, Hf. reflexivity.
Qed.

Lemma fold_left_extends {A} (f: env -> A -> env) :
  (forall E x, extends E (f E x)) -> forall l E, extends E (fold_left f l E).
Proof.
  intros Hf. induction l as [|x r IH]; intros E; simpl; [apply extends_refl|].
  eapply extends_trans; [apply Hf|apply IH].
Qed.

Lemma nsite_extends rebuild loc fuel : forall cur c E, extends E (nsite rebuild loc fuel cur c E).
Proof.
  induction fuel as [|n IH]; intros cur c E; simpl; [apply extends_refl|].
  destruct (rebuild _ _); [|apply extends_refl]. destruct loc; [|apply extends_refl].
  eapply extends_trans; [|apply extends_set]. apply fold_left_extends. intros E1 x. apply IH.
Qed.

Lemma ncompile_extends rebuild loc fuel cur l E : extends E (ncompile rebuild loc fuel cur l E).
Proof. unfold ncompile. apply fold_left_extends. intros E1 x. apply nsite_extends. Qed.

Theorem module_exec_extends rebuild loc E0 mixins roots : extends E0 (module_exec rebuild loc E0 mixins roots).
Proof.
  unfold module_exec. set (fuel := S (S (List.length E0))). eapply extends_trans.
  - apply (fold_left_extends (fun E c => map (set_method [c]) (ncompile rebuild loc fuel (Some c) (field_classes E c) E))).
    intros E c. eapply extends_trans; [apply ncompile_extends|apply extends_set].
  - apply (fold_left_extends (fun E t => ncompile rebuild loc fuel None (ty_classes t) E)). intros E t. apply ncompile_extends.
Qed.

(* the kernel's instance *)
Definition k_module_exec (E0: env) (mixins: list cname) (roots: list ty) : env :=
  module_exec (fun d c => K115a.pack_rebuild d c false true false) (K115a.pack_method_loc true) E0 mixins roots.

(* executing further class statements (mixin classes, subclasses, wrappers - whatever they compile) never changes an
   in-domain call of either path, under any dialect *)
Theorem frame_class_statements E mixins roots m o t v :
  no_lookalike_union E t = true -> dialect_compat_o E o = true -> names_ok E = true -> exact E v t = true ->
  run_pack_o (k_module_exec E mixins roots) m o t v = run_pack_o E m o t v.
Proof. intros. apply frame_exact_o; auto. apply module_exec_extends. Qed.

(* for the tie *)
Definition flags (E: env) : list (cname * bool) := map (fun d => (c_name d, c_has_method d)) E.
Definition flags_ok (E0: env) (mixins: list cname) (roots: list ty) (ex: list (cname * bool)) : bool :=
  view_eqb (flags (k_module_exec E0 mixins roots)) ex.

(* non-vacuity: a mixin class with a plain field class whose field class is plain as well; an unrelated plain class
   stays without the method until a wrapper annotates it; the subclass K1 of K0 is compiled separately *)
Definition E_n : env :=
  [cls_ "K0" [f_ "x" TInt] false;
   mkC "K1" (Some "K0") [f_ "x" TInt; f_ "y" TInt] None None None [] false false false false;
   cls_ "K2" [f_ "a" (TList (TData "K0"))] false;
   cls_ "K3" [f_ "k" (TOpt (TData "K2")); f_ "s" (TOpt (TData "K3"))] false].

Example module_exec_example :
  flags (k_module_exec E_n ["K3"] []) = [("K0", true); ("K1", false); ("K2", true); ("K3", true)] /\
  flags (k_module_exec E_n [] [TUnion [TData "K1"; TInt]]) = [("K0", false); ("K1", true); ("K2", false); ("K3", false)].
Proof. vm_compute. split; reflexivity. Qed.
