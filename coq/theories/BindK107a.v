(* C07 — (T) tie of the argument assembly of Bind.v to the translated source (kernel K107a, regenerated from
   /repo/mashumaro/core/meta/code/builder.py on every run):
     * Bind.seen_default  = CodeBuilder.get_field_default                     (K107a.get_field_default)
     * the in_kwargs flag of a field block = "has a default"                   (K107a.block_in_kwargs)
     * skipping of init=False fields, kw_only detection (sticky missing_kw_only) (K107a.kw_step)
     * sorting into pos_args / kw_args / **kwargs (sticky in_kwargs)            (K107a.arg_step)
   code_assembly runs the two translated loop bodies over a layout exactly as _add_unpack_method_lines does
   (first loop over the type hints, second loop over the field blocks with the FINAL kw_only_fields set,
   add_kwargs = some block is in_kwargs); assembly_is_code says that the result is the positional / keyword /
   **kwargs split of Bind.plan.
   The statement is about Bind.plan's variant `st` that the translated arg_step implements: st = true (the
   in_kwargs flag is sticky: the code as it is) or st = false (the flag is reset by every block: seeded change
   C07-1, proved equivalent on the domain by BindProofs.sticky_irrelevant) - the proof script tries both, so an
   equivalent rewrite of that flag does not break the tie.
   Nothing of Bind.v is changed. *)
From Coq Require Import List String ZArith Bool Arith.
From Verif Require Import PyK PyK_c08 Bind.
From Verif Require BindProofs.
From VerifGen Require K107a.
Import ListNotations.
Open Scope string_scope.
Open Scope list_scope.

(* ---------- encodings ---------- *)
(* a default value: None, or some object that is neither None nor MISSING *)
Definition enc_dv (v: pv) : kv := match v with PNone => KNone | _ => KObj 1 end.

(* a dataclasses.Field as the builder sees it *)
Definition enc_bfield (f: bfield) : kv :=
  KNs [("default", match bf_def f with DVal v => enc_dv v | _ => KMissing end);
       ("default_factory", match bf_def f with DFac => KObj 2 | _ => KMissing end);
       ("init", KBool (bf_init f));
       ("kw_only", match bf_kw f with Some b => KBool b | None => KMissing end)].

(* self.dataclass_fields.get(name) *)
Definition enc_field (o: option bfield) : kv :=
  match o with Some f => enc_bfield f | None => KNone end.

(* self.namespace.get(name, MISSING) *)
Definition enc_ns (n: nsval) : kv :=
  match n with NsNone => KMissing | NsField _ => KObj 3 | NsValue v => enc_dv v end.

Definition enc_names (l: list string) : kv := KList (map KStr l).

(* ---------- get_field_default / has_default ---------- *)
Definition code_default (m: member) : res kv :=
  K107a.get_field_default (enc_field (dc_field m)) (enc_ns (m_ns m)) KNone (KBool false).

Lemma default_is_code : forall m, exists v,
  code_default m = Ok v
  /\ k_is v KMissing = negb (has_dflt (seen_default m))
  /\ k_is v KNone = dflt_is_none (seen_default m).
Proof.
  intros m. unfold code_default, K107a.get_field_default, seen_default.
  destruct (dc_field m) as [[df i kw]|]; cbn.
  - destruct df as [|v|]; cbn.
    + eexists; split; [reflexivity|split; reflexivity].
    + destruct v; cbn; eexists; (split; [reflexivity|split; reflexivity]).
    + eexists; split; [reflexivity|split; reflexivity].
  - destruct (m_ns m) as [|f|v]; cbn.
    + eexists; split; [reflexivity|split; reflexivity].
    + eexists; split; [reflexivity|split; reflexivity].
    + destruct v; cbn; eexists; (split; [reflexivity|split; reflexivity]).
Qed.

Definition code_in_kwargs (m: member) : res kv :=
  PyK.bind (code_default m) K107a.block_in_kwargs.

Lemma in_kwargs_is_code : forall m, code_in_kwargs m = Ok (KBool (has_dflt (seen_default m))).
Proof.
  intros m. unfold code_in_kwargs. destruct (default_is_code m) as [v [E [H _]]]. rewrite E. cbn.
  unfold K107a.block_in_kwargs. rewrite H, negb_involutive. reflexivity.
Qed.

(* ---------- the two loops, run on a layout ---------- *)
Fixpoint code_loop1 (ms: list member) (mk kwo: kv) : res (list member * kv) :=
  match ms with
  | [] => Ok ([], kwo)
  | m :: r =>
    if hinted m then
      PyK.bind (K107a.kw_step (enc_field (dc_field m)) (KStr (m_name m)) mk kwo) (fun t =>
      match t with
      | KTuple [KBool kept; mk'; kwo'] =>
          PyK.bind (code_loop1 r mk' kwo') (fun x => Ok (if kept then m :: fst x else fst x, snd x))
      | _ => Raise OtherError
      end)
    else code_loop1 r mk kwo
  end.

Fixpoint code_loop2 (ms: list member) (kwo ik kw pos: kv) : res kv :=
  match ms with
  | [] => Ok (KTuple [ik; kw; pos])
  | m :: r =>
    PyK.bind (code_in_kwargs m) (fun b =>
    PyK.bind (K107a.arg_step (KNs [("fname", KStr (m_name m)); ("in_kwargs", b)]) kwo ik kw pos) (fun t =>
    match t with
    | KTuple [ik'; kw'; pos'] => code_loop2 r kwo ik' kw' pos'
    | _ => Raise OtherError
    end))
  end.

(* the building loop: `if field_block.in_kwargs: add_kwargs = True` *)
Fixpoint code_add_kwargs (ms: list member) (acc: kv) : res kv :=
  match ms with
  | [] => Ok acc
  | m :: r => PyK.bind (code_in_kwargs m) (fun b => code_add_kwargs r (if k_truthy b then KBool true else acc))
  end.

(* missing_kw_only = False, kw_only_fields = set(), add_kwargs = False, in_kwargs = False, kw_args = [], pos_args = [];
   result: (add_kwargs, kw_args, pos_args) - what the call `cls(<pos>, <kw>=.., **kwargs)` is rendered from *)
Definition code_assembly (L: layout) : res kv :=
  PyK.bind (code_loop1 L (KBool false) (enc_names [])) (fun x =>
  PyK.bind (code_add_kwargs (fst x) (KBool false)) (fun a =>
  PyK.bind (code_loop2 (fst x) (snd x) (KBool false) (enc_names []) (enc_names [])) (fun t =>
  match t with
  | KTuple [_; kw; pos] => Ok (KTuple [a; kw; pos])
  | _ => Raise OtherError
  end))).

(* ---------- the same split, read off the model ---------- *)
(* the filtered members with their kw_only flag: the flags of Bind.plan *)
Fixpoint kw_flags (ms: list member) (mk: bool) : list (member * bool) :=
  match ms with
  | [] => []
  | m :: r =>
    if filtered m then
      let kwo := mk || match seen_kw m with Some b => b | None => true end in
      let mk' := mk || match seen_kw m with None => true | Some _ => false end in
      (m, kwo) :: kw_flags r mk'
    else kw_flags r mk
  end.

(* st: the in_kwargs flag is sticky (Bind.plan's parameter of that name) *)
Fixpoint classify (st: bool) (fl: list (member * bool)) (ik: bool) : list (member * passing) :=
  match fl with
  | [] => []
  | (m, kwo) :: r =>
    let dfl := has_dflt (seen_default m) in
    (m, if dfl then PKwargs else if kwo || ik then PKw else PPos) :: classify st r (st && (dfl || ik))
  end.

Definition passing_of (st: bool) (L: layout) : list (member * passing) := classify st (kw_flags L false) false.

Definition is_pos (p: passing) := match p with PPos => true | _ => false end.
Definition is_kw (p: passing) := match p with PKw => true | _ => false end.
Definition is_kwargs (p: passing) := match p with PKwargs => true | _ => false end.
Definition is_skip (p: passing) := match p with PSkip => true | _ => false end.
Definition names_with (sel: passing -> bool) (l: list (member * passing)) : list string :=
  map (fun x => m_name (fst x)) (filter (fun x => sel (snd x)) l).

(* Bind.plan passes every field the way classify says, whatever the input *)
Lemma plan_classify : forall conv nba st ms mk ik d pl,
  plan conv nba st ms mk ik d = inr pl ->
  filter (fun x => negb (is_skip (snd x))) (map (fun t => (fst (fst t), snd (fst t))) pl)
  = classify st (kw_flags ms mk) ik.
Proof.
  intros conv nba st. induction ms as [|m r IH]; intros mk ik d pl H; cbn in H.
  - inversion H. reflexivity.
  - cbn [kw_flags]. destruct (filtered m).
    + destruct (field_block conv nba m d) eqn:FB; try discriminate.
      * destruct (plan conv nba st r _ _ d) eqn:P; try discriminate. inversion H; subst; clear H.
        cbn [map fst snd filter classify]. specialize (IH _ _ _ _ P).
        destruct (has_dflt (seen_default m)); cbn [is_skip negb snd].
        -- f_equal. exact IH.
        -- destruct ((mk || match seen_kw m with Some b => b | None => true end) || ik); cbn; f_equal; exact IH.
      * destruct (plan conv nba st r _ _ d) eqn:P; try discriminate. inversion H; subst; clear H.
        cbn [map fst snd filter classify]. specialize (IH _ _ _ _ P).
        destruct (has_dflt (seen_default m)); cbn [is_skip negb snd].
        -- f_equal. exact IH.
        -- destruct ((mk || match seen_kw m with Some b => b | None => true end) || ik); cbn; f_equal; exact IH.
    + destruct (plan conv nba st r mk ik d) eqn:P; try discriminate. inversion H; subst; clear H.
      cbn. eapply IH; eauto.
Qed.

(* ---------- sets of names ---------- *)
Lemma existsb_names : forall n S, existsb (kv_eqb (KStr n)) (map KStr S) = mem n S.
Proof. intros n S. induction S as [|x r IH]; [reflexivity|]. cbn [map existsb mem]. rewrite IH. reflexivity. Qed.

Lemma set_add_names : forall S n,
  k_set_add (enc_names S) (KStr n) = Ok (enc_names (if mem n S then S else S ++ [n])).
Proof.
  intros S n. unfold k_set_add, enc_names. rewrite existsb_names.
  destruct (mem n S); [reflexivity|]. now rewrite map_app.
Qed.

Lemma append_names : forall S n, k_append (enc_names S) (KStr n) = Ok (enc_names (S ++ [n])).
Proof. intros. unfold k_append, enc_names. now rewrite map_app. Qed.

Lemma in_names : forall S n, k_in (KStr n) (enc_names S) = Ok (mem n S).
Proof. intros. unfold k_in, enc_names. now rewrite existsb_names. Qed.

Lemma mem_app : forall n a b, mem n (a ++ b) = mem n a || mem n b.
Proof. intros n a b. induction a as [|x r IH]; cbn; [reflexivity|]. now rewrite IH, orb_assoc. Qed.

(* ---------- one step of each loop ---------- *)
Local Arguments k_set_add : simpl never.
Local Arguments k_append : simpl never.
Local Arguments k_in : simpl never.
Local Arguments enc_names : simpl never.

Lemma kw_step_is_code : forall m mk S,
  K107a.kw_step (enc_field (dc_field m)) (KStr (m_name m)) (KBool mk) (enc_names S) =
  let kwo := mk || match seen_kw m with Some b => b | None => true end in
  let mk' := mk || match seen_kw m with None => true | Some _ => false end in
  Ok (KTuple [KBool (seen_init m);
              KBool (if seen_init m then mk' else mk);
              enc_names (if seen_init m && kwo && negb (mem (m_name m) S) then S ++ [m_name m] else S)]).
Proof.
  intros m mk S. unfold K107a.kw_step, seen_init, seen_kw.
  destruct (dc_field m) as [[df i kw]|]; [destruct i; destruct kw as [[|]|]|]; destruct mk; cbn;
    rewrite ?set_add_names; cbn; destruct (mem (m_name m) S); reflexivity.
Qed.

(* what one pass of the assembly loop body does, for the variant st of the in_kwargs flag; c is the flag as the
   code carries it, st && c what the keyword test sees of it *)
Definition arg_step_spec (st: bool) : Prop := forall n dfl S c KW POS, exists c',
  K107a.arg_step (KNs [("fname", KStr n); ("in_kwargs", KBool dfl)]) (enc_names S) (KBool c)
               (enc_names KW) (enc_names POS) =
  Ok (KTuple [KBool c';
              enc_names (if negb dfl && (mem n S || (st && c)) then KW ++ [n] else KW);
              enc_names (if negb dfl && negb (mem n S || (st && c)) then POS ++ [n] else POS)])
  /\ st && c' = st && (dfl || (st && c)).

Ltac arg_step_tac :=
  intros n dfl S c KW POS; unfold K107a.arg_step; cbn;
  destruct dfl; cbn; rewrite ?in_names; cbn;
  destruct (mem n S); cbn; rewrite ?append_names; cbn;
  destruct c; cbn; rewrite ?append_names; cbn;
  eexists; split; reflexivity.

(* the translated body implements one of the two variants (on the unchanged tree: the sticky one) *)
Lemma arg_step_is_code : exists st, arg_step_spec st.
Proof. first [ exists true; solve [arg_step_tac] | exists false; solve [arg_step_tac] ]. Qed.

(* ---------- the loops ---------- *)
Definition flag_names (fl: list (member * bool)) : list string :=
  map (fun p => m_name (fst p)) (filter snd fl).

Lemma kw_flags_names_in : forall ms mk n, In n (map (fun p => m_name (fst p)) (kw_flags ms mk)) -> In n (map m_name ms).
Proof.
  induction ms as [|m r IH]; intros mk n H; cbn in *; [exact H|].
  destruct (filtered m); cbn in H.
  - destruct H as [H|H]; [now left|right; eapply IH; eauto].
  - right. eapply IH; eauto.
Qed.

Lemma mem_In : forall n l, mem n l = true <-> In n l.
Proof.
  intros n l. induction l as [|x r IH]; cbn; [split; [discriminate|tauto]|].
  rewrite orb_true_iff, IH. split; intros [H|H]; auto.
  - left. apply String.eqb_eq in H. now subst.
  - left. subst. apply String.eqb_refl.
Qed.

Lemma mem_false : forall n l, ~ In n l -> mem n l = false.
Proof. intros n l H. destruct (mem n l) eqn:E; [|reflexivity]. apply mem_In in E. contradiction. Qed.

Lemma loop1_is_code : forall ms mk S,
  NoDup (map m_name ms) -> (forall n, In n (map m_name ms) -> ~ In n S) ->
  code_loop1 ms (KBool mk) (enc_names S) =
  Ok (map fst (kw_flags ms mk), enc_names (S ++ flag_names (kw_flags ms mk))).
Proof.
  induction ms as [|m r IH]; intros mk S ND DJ; cbn [code_loop1 kw_flags].
  - unfold flag_names. cbn. now rewrite app_nil_r.
  - inversion ND as [|? ? NI ND']; subst.
    assert (MF: mem (m_name m) S = false) by (apply mem_false, DJ; now left).
    unfold filtered. destruct (hinted m); cbn [andb].
    + rewrite kw_step_is_code. cbn [PyK.bind]. rewrite MF. cbn [negb]. rewrite andb_true_r.
      destruct (seen_init m); cbn [andb].
      * set (kwo := mk || match seen_kw m with Some b => b | None => true end).
        rewrite IH; [|exact ND'|].
        -- cbn [PyK.bind fst snd map]. unfold flag_names. cbn [filter snd]. destruct kwo; cbn [map fst].
           ++ now rewrite <- app_assoc.
           ++ reflexivity.
        -- intros n Hn Hin. destruct kwo; [|eapply DJ; [right; exact Hn|exact Hin]].
           apply in_app_or in Hin. destruct Hin as [Hin|[Hin|[]]].
           ++ eapply DJ; [right; exact Hn|exact Hin].
           ++ subst. contradiction.
      * rewrite IH; [|exact ND'|intros n Hn; apply DJ; now right]. reflexivity.
    + apply IH; [exact ND'|intros n Hn; apply DJ; now right].
Qed.

(* the final kw_only_fields set F decides the flag of every block *)
Lemma loop2_is_code : forall st, arg_step_spec st -> forall fl F c KW POS,
  (forall p, In p fl -> mem (m_name (fst p)) F = snd p) ->
  exists c',
  code_loop2 (map fst fl) (enc_names F) (KBool c) (enc_names KW) (enc_names POS) =
  Ok (KTuple [KBool c';
              enc_names (KW ++ names_with is_kw (classify st fl (st && c)));
              enc_names (POS ++ names_with is_pos (classify st fl (st && c)))]).
Proof.
  intros st HS. induction fl as [|[m kwo] r IH]; intros F c KW POS HF; cbn [map fst code_loop2 classify].
  - exists c. unfold names_with. cbn. now rewrite !app_nil_r.
  - rewrite in_kwargs_is_code. cbn [PyK.bind].
    destruct (HS (m_name m) (has_dflt (seen_default m)) F c KW POS) as [c' [E Hc]]. rewrite E. cbn [PyK.bind].
    pose proof (HF (m, kwo) (or_introl eq_refl)) as HM. cbn [fst snd] in HM. rewrite HM.
    destruct (IH F c' (if negb (has_dflt (seen_default m)) && (kwo || st && c) then KW ++ [m_name m] else KW)
                 (if negb (has_dflt (seen_default m)) && negb (kwo || st && c) then POS ++ [m_name m] else POS))
      as [c'' E2]; [intros p Hp; apply HF; now right|].
    exists c''. rewrite E2. rewrite Hc.
    unfold names_with. cbn [filter snd fst].
    destruct (has_dflt (seen_default m)); cbn [negb andb orb is_kw is_pos].
    + reflexivity.
    + destruct (kwo || st && c); cbn [negb is_kw is_pos map fst]; now rewrite <- !app_assoc.
Qed.

Lemma add_kwargs_is_code : forall ms a,
  code_add_kwargs ms (KBool a) = Ok (KBool (a || existsb (fun m => has_dflt (seen_default m)) ms)).
Proof.
  induction ms as [|m r IH]; intros a; cbn [code_add_kwargs existsb].
  - now rewrite orb_false_r.
  - rewrite in_kwargs_is_code. cbn [PyK.bind k_truthy].
    destruct (has_dflt (seen_default m)); rewrite IH; [now rewrite orb_true_r|reflexivity].
Qed.

Lemma classify_kwargs : forall st fl ik,
  existsb (fun x => is_kwargs (snd x)) (classify st fl ik)
  = existsb (fun m => has_dflt (seen_default m)) (map fst fl).
Proof.
  intros st. induction fl as [|[m kwo] r IH]; intros ik; cbn [classify existsb map fst snd]; [reflexivity|].
  rewrite IH. destruct (has_dflt (seen_default m)); [reflexivity|]. destruct (kwo || ik); reflexivity.
Qed.

Lemma kw_flags_nodup : forall ms mk, NoDup (map m_name ms) ->
  NoDup (map (fun p => m_name (fst p)) (kw_flags ms mk)).
Proof.
  induction ms as [|m r IH]; intros mk ND; cbn; [constructor|].
  inversion ND as [|? ? NI ND']; subst.
  destruct (filtered m); cbn.
  - constructor; [|now apply IH]. intro H. apply NI. eapply kw_flags_names_in; eauto.
  - now apply IH.
Qed.

Lemma flag_mem : forall fl, NoDup (map (fun p => m_name (fst p)) fl) ->
  forall p, In p fl -> mem (m_name (fst p)) (flag_names fl) = snd p.
Proof.
  induction fl as [|[m b] r IH]; intros ND p Hp; [destruct Hp|].
  cbn in ND. inversion ND as [|? ? NI ND']; subst.
  assert (NIr: forall q, In q r -> m_name (fst q) <> m_name m).
  { intros q Hq E. apply NI. rewrite <- E. apply (in_map (fun p => m_name (fst p))). exact Hq. }
  unfold flag_names. cbn [filter snd]. destruct Hp as [E|Hp].
  - subst p. cbn [fst snd]. destruct b; cbn [map fst mem].
    + now rewrite String.eqb_refl.
    + apply mem_false. intro H. apply in_map_iff in H. destruct H as [q [E Hq]].
      apply filter_In in Hq. destruct Hq as [Hq _]. eapply NIr; eauto.
  - specialize (IH ND' p Hp). unfold flag_names in IH.
    destruct b; cbn [map fst mem]; [|exact IH].
    rewrite IH. destruct (String.eqb (m_name (fst p)) (m_name m)) eqn:E; [|reflexivity].
    apply String.eqb_eq in E. exfalso. eapply NIr; eauto.
Qed.

Lemma nodupb_NoDup : forall l, nodupb l = true -> NoDup l.
Proof.
  induction l as [|x r IH]; cbn; intros H; [constructor|].
  apply andb_true_iff in H. destruct H as [H1 H2]. constructor; [|now apply IH].
  intro Hin. apply mem_In in Hin. rewrite Hin in H1. discriminate.
Qed.

(* ---------- the tie ---------- *)
Definition assembly_spec (st: bool) : Prop := forall L,
  nodupb (map m_name L) = true ->
  code_assembly L =
  Ok (KTuple [KBool (existsb (fun x => is_kwargs (snd x)) (passing_of st L));
              enc_names (names_with is_kw (passing_of st L));
              enc_names (names_with is_pos (passing_of st L))]).

Lemma assembly_of_step : forall st, arg_step_spec st -> assembly_spec st.
Proof.
  intros st HS L H. apply nodupb_NoDup in H. unfold code_assembly, passing_of.
  rewrite loop1_is_code; [|exact H|intros n _ []]. cbn [PyK.bind fst snd app].
  rewrite add_kwargs_is_code. cbn [PyK.bind orb].
  destruct (loop2_is_code st HS (kw_flags L false) (flag_names (kw_flags L false)) false [] []) as [c' E].
  - apply flag_mem. now apply kw_flags_nodup.
  - rewrite E. cbn [PyK.bind app]. rewrite andb_false_r, classify_kwargs. reflexivity.
Qed.

(* For every layout (names unique, as in a dict of type hints) the translated loops of _add_unpack_method_lines
   produce: add_kwargs = some field is passed through **kwargs; kw_args and pos_args = the names the model
   (variant st of the in_kwargs flag) passes by keyword and positionally, in order; that marking is the one of
   Bind.plan for every input on which no field block raises; and the variant decodes like the sticky one on
   the domain. *)
Theorem assembly_is_code : exists st,
  assembly_spec st
  /\ (forall conv nba L d pl,
        plan conv nba st L false false d = inr pl ->
        filter (fun x => negb (is_skip (snd x))) (map (fun t => (fst (fst t), snd (fst t))) pl) = passing_of st L)
  /\ (forall conv nba L d c, layout_ok L = true -> view_ok L = true ->
        decode conv nba st L d c = decode conv nba true L d c).
Proof.
  destruct arg_step_is_code as [st HS]. exists st. split; [|split].
  - now apply assembly_of_step.
  - intros. unfold passing_of. eapply plan_classify; eauto.
  - intros conv nba L d c H1 H2. destruct st; [reflexivity|]. now apply BindProofs.sticky_irrelevant.
Qed.

(* non-vacuity: required a, init=False e, kw_only b, default c, kw_only d *)
Definition ex_m (n: string) (df: dflt) (init: bool) (kw: option bool) : member :=
  {| m_name := n; m_kind := KNormal; m_field := true; m_param := init; m_kw := match kw with Some b => b | None => false end;
     m_def := df; m_anc := None; m_own := true; m_ns := NsNone;
     m_df := Some {| bf_def := df; bf_init := init; bf_kw := kw |};
     m_nullty := false; m_ident := false; m_alias := None; m_unull := false |}.
Definition ex_layout : layout :=
  [ex_m "a" DNone true (Some false); ex_m "e" (DVal (PInt 1)) false (Some false);
   ex_m "b" DNone true (Some true); ex_m "c" (DVal PNone) true (Some false); ex_m "d" DNone true (Some true)].
Example assembly_example :
  code_assembly ex_layout = Ok (KTuple [KBool true; enc_names ["b"; "d"]; enc_names ["a"]])
  /\ names_with is_kwargs (passing_of true ex_layout) = ["c"]
  /\ passing_of false ex_layout = passing_of true ex_layout.
Proof. repeat split; vm_compute; reflexivity. Qed.
