(* C16 (round 6) - what the generated line DOES with the spliced literal: its syntactic ROLE.

   PyLine.v shows that the spliced text is one string token whose value is the data string.  The
   property says more: "(de)serialization uses exactly that string as key or value".  Which use is
   made of a literal is decided by the tokens around it: first argument of X.get( ... ), subscript
   X[ ... ], key of a dict display, element of a set / list / tuple display or later argument of a
   call, right operand of == / !=, first argument of another call.  [luse] reads that role off the
   tokens directly before the literal (nearest first) and the first character after it; it answers
   None when the tokens given do not reach far enough back to decide, so that an answer obtained
   from the static text of a template is stable under everything emitted before it ([luse_mono]).

   The classifier is compared on every run with CPython's own parser: for every generated function
   captured during the oracle, the role [ast] gives each string constant (Subscript.slice,
   Call.args[0] of an attribute named get, Dict.keys, Set/List/Tuple.elts and Call.args[i>0],
   Compare.comparators under Eq/NotEq, Call.args[0]) must be the role computed here from the text
   (harness/props/c16.py, "use-roles").

   Key equality of dict / set / == on str and bytes is code-point exact ([lval_eqb_eq]): a mapping
   read with a key token of value s reaches the entry stored under s and no other. *)
From Coq Require Import List NArith Bool.
From Verif Require Import PyStrLit PyLine.
Import ListNotations.
Open Scope N_scope.

Inductive use :=
| UGet       (* X.get(LIT ...        mapping read with default *)
| USub       (* X[LIT]               subscript: read, store or delete target *)
| UDictKey   (* {LIT: ...  , LIT: ... key of a dict display *)
| UElem      (* {LIT, ...  [LIT, ...  (LIT, ...  , LIT   element of a display / later call argument *)
| UCmp       (* == LIT   != LIT      right operand of an equality test *)
| UArg       (* f(LIT ...            first argument of a call other than .get *)
| UOther.    (* anything else: return LIT, x = LIT, (LIT).attr, ... *)

Definition use_eqb (a b: use) : bool :=
  match a, b with
  | UGet, UGet | USub, USub | UDictKey, UDictKey | UElem, UElem | UCmp, UCmp | UArg, UArg | UOther, UOther => true
  | _, _ => false
  end.

(* one code per token: the character itself; 3 = a string / bytes literal, 4 = a comment
   (2 is K10's marker for a CODE placeholder inside the static text of a template) *)
Definition code_of (t: tok) : N :=
  match t with TkChar c => c | TkStr _ | TkBytes _ => 3 | TkComment => 4 end.

(* an expression can END with this: name / number character, closing bracket, placeholder, literal *)
Definition exprend (c: N) : bool := is_ident_char c || (c =? 41) || (c =? 93) || (c =? 2) || (c =? 3).

Fixpoint skipb (l: list N) : list N :=
  match l with
  | c :: r => if c =? 32 then skipb r else l
  | [] => []
  end.

(* [r] = the codes before an opening parenthesis, nearest first: does the callee end in ".get"? *)
Definition is_dotget (r: list N) : option bool :=
  match r with
  | c1 :: r1 =>
      if negb (c1 =? 116) then Some false else
      match r1 with
      | c2 :: r2 =>
          if negb (c2 =? 101) then Some false else
          match r2 with
          | c3 :: r3 =>
              if negb (c3 =? 103) then Some false else
              match r3 with
              | c4 :: _ => Some (c4 =? 46)
              | [] => None
              end
          | [] => None
          end
      | [] => None
      end
  | [] => None
  end.

(* the role of a literal: [w] = codes of the tokens before it, nearest first; [nx] = code of the
   first non-blank token after it (0 at the end of the text) *)
Definition luse (w: list N) (nx: N) : option use :=
  match skipb w with
  | [] => None
  | c1 :: r =>
      if c1 =? 91 then                                   (* [ *)
        match r with
        | c0 :: _ => Some (if exprend c0 then USub else UElem)
        | [] => None
        end
      else if c1 =? 40 then                              (* ( *)
        match r with
        | c0 :: _ =>
            if exprend c0 then option_map (fun g: bool => if g then UGet else UArg) (is_dotget r)
            else Some (if nx =? 41 then UOther else UElem)
        | [] => None
        end
      else if (c1 =? 123) || (c1 =? 44) then             (* { , *)
        Some (if nx =? 58 then UDictKey else UElem)
      else if c1 =? 61 then                              (* = *)
        match r with
        | c0 :: _ => Some (if (c0 =? 61) || (c0 =? 33) then UCmp else UOther)
        | [] => None
        end
      else Some UOther
  end.

(* the start of the text counts as blank lines *)
Definition pad : list N := [10; 10; 10; 10; 10; 10].
Definition luse_pad (w: list N) (nx: N) : use :=
  match luse (w ++ pad) nx with Some u => u | None => UOther end.

Fixpoint next_code (ts: list tok) : N :=
  match ts with
  | TkChar c :: r => if c =? 32 then next_code r else c
  | t :: _ => code_of t
  | [] => 0
  end.

(* all literal tokens of a token list with their roles; [prevs] = the tokens already passed, nearest first *)
Fixpoint uses_from (prevs: list tok) (ts: list tok) : list (use * lval) :=
  match ts with
  | [] => []
  | t :: r =>
      match t with
      | TkStr s => (luse_pad (map code_of prevs) (next_code r), VS s) :: uses_from (t :: prevs) r
      | TkBytes s => (luse_pad (map code_of prevs) (next_code r), VB s) :: uses_from (t :: prevs) r
      | _ => uses_from (t :: prevs) r
      end
  end.

Definition uses (l: list N) : option (list (use * lval)) := option_map (uses_from []) (tokenize l).

(* what the tie compares *)
Fixpoint uses_eqb (a b: list (use * lval)) : bool :=
  match a, b with
  | [], [] => true
  | (u, x) :: a', (v, y) :: b' => use_eqb u v && lval_eqb x y && uses_eqb a' b'
  | _, _ => false
  end.
Definition use_case_ok (c: list N * option (list (use * lval))) : bool :=
  match uses (fst c), snd c with
  | Some a, Some b => uses_eqb a b
  | None, None => true
  | _, _ => false
  end.

(* the role at a splice site, from the static text of its template alone: None when the template
   text does not reach far enough back (e.g. the bare "(" of a tuple default) or the text after the
   value starts with a blank, a comment sign or a b *)
Definition plain_next (c: N) : bool :=
  negb (is_quote c) && negb (c =? 35) && negb (c =? BS) && negb (c =? 98) && negb (c =? 32).
Definition text_use (before after: list N) : option use :=
  match after with
  | c :: _ => if plain_next c then luse (rev before) c else None
  | [] => None
  end.
