(* C11 / K19: the code emitted by the (translated) loop of UnionUnpackerBuilder._add_body computes
   UnionModel.union_dec.  Re-checked on every run against the current translation (coq/gen/K19.v). *)
From Coq Require Import List Bool Arith Lia.
From Verif Require Import UnionModel UnionProofs UnionEmit.
From VerifGen Require Import K19.
Import ListNotations.

Definition mk (m: mspec) : mkey := member_key (to_member m).

Definition cond_for (tms: nat) (m: mspec) : cond :=
  if is_tme m then (if 1 <? tms then CVt m else CTy m) else CEmpty.

Definition line_for (tms: nat) (m: mspec) : line :=
  match m with
  | SM _ => LPlain (BIfRet (cond_for tms m))
  | NM _ true _ => LPlain (BRet m)
  | NM _ false _ => LTry [BRet m]
  end.

(* what one iteration of the translated loop does *)
Lemma step_eq : forall tms s m,
  step tms s m =
  if seen_mem (cond_for tms m) m s then s
  else {| e_lines := e_lines s ++ [line_for tms m];
          e_seen := e_seen s ++ [(cond_for tms m, m)];
          e_fbs := e_fbs s ++ (if is_tme m then [m] else []) |}.
Proof.
  intros tms [lines seen fbs] m. unfold step, line_for, cond_for.
  destruct m as [k|e [|] dec]; simpl.
  - destruct (1 <? tms); simpl;
      match goal with |- context [seen_mem ?c ?m ?s] => destruct (seen_mem c m s) eqn:E end;
      simpl; try reflexivity; unfold add_seen, add_lines, add_fb; simpl; rewrite ?app_nil_r; reflexivity.
  - match goal with |- context [seen_mem ?c ?m ?s] => destruct (seen_mem c m s) eqn:E end;
      simpl; try reflexivity; unfold add_seen, add_lines, add_fb; simpl; rewrite ?app_nil_r; reflexivity.
  - match goal with |- context [seen_mem ?c ?m ?s] => destruct (seen_mem c m s) eqn:E end;
      simpl; try reflexivity; unfold add_seen, add_lines, add_fb; simpl; rewrite ?app_nil_r; reflexivity.
Qed.

(* the state invariant: every remembered pair carries the condition form of its member *)
Definition seen_ok (tms: nat) (s: est) : Prop :=
  forall c m, In (c, m) (e_seen s) -> c = cond_for tms m.

Lemma cond_tag_key : forall tms m m', mk m = mk m' -> cond_tag (cond_for tms m) = cond_tag (cond_for tms m').
Proof.
  intros tms [k|e v dec] [k'|e' v' dec'] H; unfold mk in H; simpl in H; try discriminate; unfold cond_for; simpl;
    [destruct (1 <? tms)|]; reflexivity.
Qed.

Lemma seen_mem_iff : forall tms s m, seen_ok tms s ->
  (seen_mem (cond_for tms m) m s = true <-> In (mk m) (map (fun p => mk (snd p)) (e_seen s))).
Proof.
  intros tms s m Hok. unfold seen_mem. rewrite existsb_exists. split.
  - intros [[c m'] [Hi He]]. unfold pair_eqb in He. apply andb_true_iff in He. destruct He as [_ He].
    apply mkey_eqb_eq in He. simpl in He. apply in_map_iff. exists (c, m'). split; [symmetry; exact He | exact Hi].
  - intro Hi. apply in_map_iff in Hi. destruct Hi as [[c m'] [He Hi]]. simpl in He.
    exists (c, m'). split; [exact Hi|]. unfold pair_eqb. simpl. apply andb_true_iff. split.
    + rewrite (Hok c m' Hi). apply Nat.eqb_eq. apply cond_tag_key. symmetry; exact He.
    + apply mkey_eqb_eq. symmetry; exact He.
Qed.

(* de-duplication of members by key, with an explicit list of keys already seen (membership only) *)
Fixpoint dd (seen: list mkey) (ms: list mspec) : list mspec :=
  match ms with
  | [] => []
  | m :: r => if existsb (mkey_eqb (mk m)) seen then dd seen r else m :: dd (mk m :: seen) r
  end.

Lemma existsb_mk : forall k seen, existsb (mkey_eqb k) seen = true <-> In k seen.
Proof.
  intros k seen. rewrite existsb_exists. split.
  - intros [x [Hi He]]. apply mkey_eqb_eq in He. subst. exact Hi.
  - intro Hi. exists k. split; [exact Hi | apply mkey_eqb_eq; reflexivity].
Qed.

Lemma dd_ext : forall ms s1 s2, (forall k, In k s1 <-> In k s2) -> dd s1 ms = dd s2 ms.
Proof.
  induction ms as [|m r IH]; intros s1 s2 H; simpl; [reflexivity|].
  assert (E: existsb (mkey_eqb (mk m)) s1 = existsb (mkey_eqb (mk m)) s2).
  { destruct (existsb (mkey_eqb (mk m)) s1) eqn:E1; symmetry.
    - apply existsb_mk. apply H. apply existsb_mk. exact E1.
    - destruct (existsb (mkey_eqb (mk m)) s2) eqn:E2; [|reflexivity].
      apply existsb_mk in E2. apply H in E2. apply existsb_mk in E2. congruence. }
  rewrite E. destruct (existsb (mkey_eqb (mk m)) s2); [apply IH; exact H|].
  f_equal. apply IH. intro k; simpl. rewrite H. reflexivity.
Qed.

Lemma fold_step : forall tms ms s, seen_ok tms s ->
  let D := dd (map (fun p => mk (snd p)) (e_seen s)) ms in
  e_lines (fold_left (step tms) ms s) = e_lines s ++ map (line_for tms) D /\
  e_fbs (fold_left (step tms) ms s) = e_fbs s ++ filter is_tme D.
Proof.
  intros tms ms; induction ms as [|m r IH]; intros s Hok; simpl.
  - rewrite !app_nil_r. split; reflexivity.
  - rewrite step_eq.
    destruct (seen_mem (cond_for tms m) m s) eqn:E.
    + apply (seen_mem_iff tms s m Hok) in E. apply existsb_mk in E. rewrite E. apply IH; exact Hok.
    + assert (E': existsb (mkey_eqb (mk m)) (map (fun p => mk (snd p)) (e_seen s)) = false).
      { destruct (existsb (mkey_eqb (mk m)) (map (fun p => mk (snd p)) (e_seen s))) eqn:E2; [|reflexivity].
        apply existsb_mk in E2. apply (seen_mem_iff tms s m Hok) in E2. congruence. }
      rewrite E'.
      set (s' := {| e_lines := e_lines s ++ [line_for tms m];
                    e_seen := e_seen s ++ [(cond_for tms m, m)];
                    e_fbs := e_fbs s ++ (if is_tme m then [m] else []) |}).
      assert (Hok': seen_ok tms s').
      { intros c m0 Hi. simpl in Hi. apply in_app_or in Hi. destruct Hi as [Hi|[Hi|[]]]; [apply Hok; exact Hi | inversion Hi; reflexivity]. }
      destruct (IH s' Hok') as [H1 H2]. simpl in H1, H2.
      rewrite (dd_ext r (map (fun p => mk (snd p)) (e_seen s ++ [(cond_for tms m, m)])) (mk m :: map (fun p => mk (snd p)) (e_seen s))) in H1, H2.
      2,3: (intro k; rewrite map_app; simpl; rewrite in_app_iff; simpl; tauto).
      split.
      * rewrite H1. rewrite <- app_assoc. reflexivity.
      * rewrite H2. rewrite <- app_assoc. simpl. destruct (is_tme m); reflexivity.
Qed.

(* dd on member specs is UnionModel.dedup on the members *)
Lemma dd_dedup : forall ms seen,
  map to_member (dd seen ms) = dedup_aux member_key mkey_eqb seen (map to_member ms).
Proof.
  induction ms as [|m r IH]; intro seen; simpl; [reflexivity|].
  unfold mk. destruct (existsb (mkey_eqb (member_key (to_member m))) seen); [apply IH|]. simpl. f_equal. apply IH.
Qed.

Section RunFacts.
  Variable co : skind -> uv -> option uv.

  Lemma run_lines_app_none : forall l1 l2 d,
    (forall l, In l l1 -> run_line co l d = None) -> run_lines co (l1 ++ l2) d = run_lines co l2 d.
  Proof.
    induction l1 as [|l r IH]; intros l2 d H; simpl; [reflexivity|].
    rewrite (H l (or_introl eq_refl)). apply IH. intros; apply H; right; assumption.
  Qed.

  (* pass 1 *)
  Lemma run_pass1 : forall tms D rest d, Forall wf_mspec D ->
    run_lines co (map (line_for tms) D ++ rest) d =
    match first_some (att1 d) (map to_member D) with Some x => Some x | None => run_lines co rest d end.
  Proof.
    intros tms D rest d H; induction H as [|m r Hm _ IH]; simpl; [reflexivity|].
    destruct m as [k|e [|] dec]; simpl.
    - unfold cond_for; simpl. destruct (1 <? tms); simpl; destruct (has_kind k d); [reflexivity | exact IH | reflexivity | exact IH].
    - simpl in Hm. rewrite (Hm d). reflexivity.
    - destruct (dec d); [reflexivity | exact IH].
  Qed.

  (* pass 2 *)
  Lemma run_pass2 : forall D d,
    run_lines co (map LTryRet (filter is_tme D) ++ [LRaise]) d = first_some (att2 co d) (map to_member D).
  Proof.
    induction D as [|m r IH]; intro d; simpl; [reflexivity|].
    destruct m as [k|e v dec]; simpl; [|apply IH].
    destruct (coerce co k d); [reflexivity | apply IH].
  Qed.

  (* the emitted method is the model's union_dec *)
  Theorem emit_correct : forall ms d, Forall wf_mspec ms ->
    run_lines co (emit ms) d = union_dec co (map to_member ms) d.
  Proof.
    intros ms d Hwf. unfold emit.
    assert (Hok: seen_ok (count_tme ms) est0) by (intros c m []).
    destruct (fold_step (count_tme ms) ms est0 Hok) as [H1 H2]. simpl in H1, H2.
    rewrite H1, H2.
    set (D := dd [] ms).
    assert (HD: Forall wf_mspec D).
    { assert (G: forall l seen, Forall wf_mspec l -> Forall wf_mspec (dd seen l)).
      { induction l as [|m r IH]; intros seen Hl; simpl; [constructor|]. inversion Hl; subst.
        destruct (existsb (mkey_eqb (mk m)) seen); [apply IH; assumption | constructor; [assumption | apply IH; assumption]]. }
      apply G; exact Hwf. }
    rewrite run_lines_app_none.
    2:{ intros l Hl. destruct (1 <? count_tme ms); [destruct Hl as [<-|[]]; reflexivity | destruct Hl]. }
    rewrite (run_pass1 (count_tme ms) D _ d HD). rewrite run_pass2.
    unfold union_dec, union_run, dedup. rewrite <- dd_dedup. fold D.
    destruct (first_some (att1 d) (map to_member D)); reflexivity.
  Qed.
End RunFacts.

(* ------------------------------------------------------------------ *)
(* exception classes: the only exception that leaves the emitted union method is its own ValueError *)
Section RaiseClass.
  Variable co : skind -> uv -> option uv.

  Lemma pass1_x : forall tms D rest d, Forall wf_mspec D ->
    run_lines_x co (map (line_for tms) D ++ rest) d =
    match first_some (att1 d) (map to_member D) with Some x => XRet x | None => run_lines_x co rest d end.
  Proof.
    intros tms D rest d H; induction H as [|m r Hm _ IH]; simpl; [reflexivity|].
    destruct m as [k|e [|] dec]; simpl.
    - unfold cond_for; simpl. destruct (1 <? tms); simpl; destruct (has_kind k d); [reflexivity | exact IH | reflexivity | exact IH].
    - simpl in Hm. rewrite (Hm d). reflexivity.
    - destruct (dec d); [reflexivity | exact IH].
  Qed.

  Lemma pass2_x : forall D d,
    run_lines_x co (map LTryRet (filter is_tme D) ++ [LRaise]) d =
    match first_some (att2 co d) (map to_member D) with Some x => XRet x | None => XValueError end.
  Proof.
    induction D as [|m r IH]; intro d; simpl; [reflexivity|].
    destruct m as [k|e v dec]; simpl; [|apply IH].
    destruct (coerce co k d); [reflexivity | apply IH].
  Qed.

  Lemma run_lines_x_app_none : forall l1 l2 d,
    (forall l, In l l1 -> run_line_x co l d = None) -> run_lines_x co (l1 ++ l2) d = run_lines_x co l2 d.
  Proof.
    induction l1 as [|l r IH]; intros l2 d H; simpl; [reflexivity|].
    rewrite (H l (or_introl eq_refl)). apply IH. intros; apply H; right; assumption.
  Qed.

  Theorem emit_raise_class : forall ms d, Forall wf_mspec ms ->
    run_lines_x co (emit ms) d =
    match union_dec co (map to_member ms) d with Some x => XRet x | None => XValueError end.
  Proof.
    intros ms d Hwf. unfold emit.
    assert (Hok: seen_ok (count_tme ms) est0) by (intros c m []).
    destruct (fold_step (count_tme ms) ms est0 Hok) as [H1 H2]. simpl in H1, H2.
    rewrite H1, H2.
    set (D := dd [] ms).
    assert (HD: Forall wf_mspec D).
    { assert (G: forall l seen, Forall wf_mspec l -> Forall wf_mspec (dd seen l)).
      { induction l as [|m r IH]; intros seen Hl; simpl; [constructor|]. inversion Hl; subst.
        destruct (existsb (mkey_eqb (mk m)) seen); [apply IH; assumption | constructor; [assumption | apply IH; assumption]]. }
      apply G; exact Hwf. }
    rewrite run_lines_x_app_none.
    2:{ intros l Hl. destruct (1 <? count_tme ms); [destruct Hl as [<-|[]]; reflexivity | destruct Hl]. }
    rewrite (pass1_x (count_tme ms) D _ d HD). rewrite pass2_x.
    unfold union_dec, union_run, dedup. rewrite <- dd_dedup. fold D.
    destruct (first_some (att1 d) (map to_member D)); reflexivity.
  Qed.
End RaiseClass.
