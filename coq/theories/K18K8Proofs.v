(* C08 - kernels K18 and K8 together: the kwargs-vs-literal test (K8), evaluated on the collections
   the bookkeeping loop (K18) builds from the fields, is OptProj.use_kwargs on the non-omitted fields. *)
From Coq Require Import List String Ascii ZArith Bool.
From Verif Require Import Regex PyK PyK_c08 OptProj K8Proofs K18Proofs.
From VerifGen Require Import K8 K18.
Import ListNotations.
Open Scope string_scope.

Theorem K18_use_kwargs_lemma : forall (c: sctx) (fs: list fplan),
  let b := fold_b fs empty_b in
  run_fields fs init_state = Ok (enc_state b) /\
  res_truthy (use_kwargs_test (KList (map KStr b.(b_nontrivial))) (KList (map KStr b.(b_nullable)))
                              (KBool c.(s_on)) (KBool c.(s_fon)) (KBool c.(s_fba)) (KDict b.(b_aliases)) (KBool c.(s_od)))
  = Some (use_kwargs c (filter keepf fs)).
Proof.
  intros c fs b. destruct (K18_bookkeeping_lemma fs) as (Hr & Ha & Hn & Ht & _). fold b in Hr, Ha, Hn, Ht.
  split; [exact Hr|]. rewrite use_kwargs_test_truthy, Ha, Hn, Ht. reflexivity.
Qed.
