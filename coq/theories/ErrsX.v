(* C05, root dataclasses whose fields may be Union[...] / Literal[...] positions (besides every type of the
   TyModel grammar): the field loop of Errs.v with, per field, the typed unpacker (ErrsTy.ue), the union try /
   fallback chain (Errs.union_run over typed members) or the Literal matcher.  Since the class IS an Errs.cspec,
   every theorem of C05_errors.v applies to it as it stands.  Definitions only. *)
From Coq Require Import List String Ascii ZArith Bool.
From Verif Require Import Core TupleIdx TyModel Errs ErrsTy.
Import ListNotations.
Open Scope string_scope.

Inductive xty :=
| XT (t: sty)                 (* a type of the TyModel grammar *)
| XUnion (ms: list sty)       (* Union[m1, ..., mn] built by UnionUnpackerBuilder (n >= 2, not the two-member Optional) *)
| XLit (ls: list lit).        (* Literal[...] of int / str / bool / None values *)

Record xfield := { xf_name : string; xf_ty : xty; xf_default : option pv }.
Record xcls := { xc_name : string; xc_fields : list xfield }.

Definition lit_pv (l: lit) : option pv :=
  match l with
  | LInt z => Some (VInt z) | LStr s => Some (VStr s) | LBool b => Some (VBool b) | LNone => Some VNone
  | _ => None end.

(* if value.__class__ is (lit).__class__ and value == lit: return lit   ...   raise ValueError(value) *)
Fixpoint lit_run (ls: list lit) (v: pv) : res pv :=
  match ls with
  | [] => Exn XValueError
  | l :: r => match lit_pv l with
              | Some x => if pv_eqb v x then Ok x else lit_run r v
              | None => lit_run r v end
  end.

Section XRun.
  Variable E : senv.
  Variable Q : eprims.
  Variable CF : string -> tcfg.

  (* a union member as the union builder treats it: scalar types are TypeMatchEligible (exact-type return, the
     coercion is a fallback), Any is the identity, everything else sits in try / except Exception *)
  Definition umember_of (t: sty) : umember :=
    match t with
    | SIntT => UExact SInt (fun v => ue E Q CF v (cu true t))
    | SFloatT => UExact SFloat (fun v => ue E Q CF v (cu true t))
    | SBoolT => UExact SBool (fun v => ue E Q CF v (cu true t))
    | SStrT => UExact SStr (fun v => ue E Q CF v (cu true t))
    | SNoneT => UExact SNone (fun v => ue E Q CF v (cu true t))
    | SAny => UIdent
    | _ => UTry (fun v => ue E Q CF v (cu true t)) end.

  Definition xty_nullable (t: xty) : bool := match t with XT t' => sty_nullable t' | _ => false end.
  Definition xfield_nullable (f: xfield) : bool :=
    xty_nullable f.(xf_ty) || match f.(xf_default) with Some VNone => true | _ => false end.

  (* nailed = mixin method (a failed union raises InvalidFieldValue itself), else codec (ValueError) *)
  Definition xdec (nailed: bool) (cls: string) (f: xfield) : pv -> res pv :=
    match f.(xf_ty) with
    | XT t => fun v => ue E Q CF v (cu false t)
    | XUnion ms => fun v => union_run (map umember_of ms)
                              (if nailed then XInvalidFieldValue f.(xf_name) v cls else XValueError) v
    | XLit ls => lit_run ls
    end.

  Definition xkey (cf: tcfg) (n: string) : string := match assoc cf.(tc_alias) n with Some a => a | None => n end.
  Definition xkey2 (cf: tcfg) (n: string) : option string :=
    match assoc cf.(tc_alias) n with Some _ => if cf.(tc_nba) then Some n else None | None => None end.

  Definition xfspec (nailed: bool) (cf: tcfg) (cls: string) (f: xfield) : fspec :=
    {| fs_name := f.(xf_name); fs_key := xkey cf f.(xf_name); fs_key2 := xkey2 cf f.(xf_name);
       fs_default := f.(xf_default); fs_nullable := xfield_nullable f; fs_ident := false;
       fs_dec := xdec nailed cls f |}.

  Definition xspec_of (nailed: bool) (k: xcls) : cspec :=
    {| cs_name := k.(xc_name);
       cs_fields := map (xfspec nailed (CF k.(xc_name)) k.(xc_name)) k.(xc_fields);
       cs_forbid_extra := (CF k.(xc_name)).(tc_forbid); cs_discr_keys := []; cs_pre := None; cs_post := None |}.

  Definition uex (nailed: bool) (k: xcls) (d: pv) : res pv := from_dict (xspec_of nailed k) d.

  (* __context__ of a raised InvalidFieldValue: the exception of the field's decoder *)
  Definition uex_cause (nailed: bool) (k: xcls) (d: pv) : option exn :=
    match d, uex nailed k d with
    | VDict kvs, Exn (XInvalidFieldValue _ _ _) =>
        match first_bad kvs (cs_fields (xspec_of nailed k)) with
        | Some (f, BadInvalid v) => match fs_dec f v with Exn e => Some e | Ok _ => None end
        | _ => None end
    | _, _ => None end.

  (* codec roots *)
  Definition uex_root (t: xty) (d: pv) : res pv :=
    match t with
    | XT t' => ue E Q CF d (cu true t')
    | XUnion ms => union_run (map umember_of ms) XValueError d
    | XLit ls => lit_run ls d end.
End XRun.
