(* C05, root dataclasses whose fields may be Union[...] / Literal[...] positions (besides every type of the
   TyModel grammar): the field loop of Errs.v with, per field, the typed unpacker (ErrsTy.ue), the union try /
   fallback chain (Errs.union_run over typed members) or the Literal matcher.  Since the class IS an Errs.cspec,
   every theorem of C05_errors.v applies to it as it stands.  Definitions only. *)
From Coq Require Import List String Ascii ZArith Bool.
From Verif Require Import Core TupleIdx TyModel Errs ErrsTy.
Import ListNotations.
Open Scope string_scope.

Inductive xty :=
| XT (t: sty)                 (* a type of the TyModel grammar *)
| XUnion (ms: list sty)       (* Union[m1, ..., mn] built by UnionUnpackerBuilder (n >= 2, not the two-member Optional) *)
| XLit (ls: list lit)         (* Literal[...] of int / str / bool / None values *)
| XList (x: xty)              (* List[x]: [u(value) for value in v] around a position that contains a union / Literal *)
| XDict (kt: sty) (x: xty)    (* Dict[kt, x]: {ku(key): u(value) for key, value in v.items()} *)
| XOpt (x: xty).              (* Optional[x]: u(value) if value is not None else None *)

Record xfield := { xf_name : string; xf_ty : xty; xf_default : option pv }.
Record xcls := { xc_name : string; xc_fields : list xfield }.

Definition lit_pv (l: lit) : option pv :=
  match l with
  | LInt z => Some (VInt z) | LStr s => Some (VStr s) | LBool b => Some (VBool b) | LNone => Some VNone
  | _ => None end.

(* if value.__class__ is (lit).__class__ and value == lit: return lit   ...   raise ValueError(value) *)
Fixpoint lit_run (ls: list lit) (v: pv) : res pv :=
  match ls with
  | [] => Exn XValueError
  | l :: r => match lit_pv l with
              | Some x => if pv_eqb v x then Ok x else lit_run r v
              | None => lit_run r v end
  end.

Section XRun.
  Variable E : senv.
  Variable Q : eprims.
  Variable CF : string -> tcfg.

  (* a union member as the union builder treats it: scalar types are TypeMatchEligible (exact-type return, the
     coercion is a fallback), Any is the identity, everything else sits in try / except Exception *)
  Definition umember_of (t: sty) : umember :=
    match t with
    | SIntT => UExact SInt (fun v => ue E Q CF v (cu true t))
    | SFloatT => UExact SFloat (fun v => ue E Q CF v (cu true t))
    | SBoolT => UExact SBool (fun v => ue E Q CF v (cu true t))
    | SStrT => UExact SStr (fun v => ue E Q CF v (cu true t))
    | SNoneT => UExact SNone (fun v => ue E Q CF v (cu true t))
    | SAny => UIdent
    | _ => UTry (fun v => ue E Q CF v (cu true t)) end.

  Definition xty_nullable (t: xty) : bool := match t with XT t' => sty_nullable t' | XOpt _ => true | _ => false end.
  Definition xfield_nullable (f: xfield) : bool :=
    xty_nullable f.(xf_ty) || match f.(xf_default) with Some VNone => true | _ => false end.

  (* a position: [final v] is what a union raises when no member accepts v -- in a mixin method
     InvalidFieldValue(field, v, class) (v = the value AT THE UNION, e.g. the list element), in a codec ValueError.
     Containers: the comprehension raises TypeError on a non-iterable (a str iterates its characters, a dict its
     keys), .items() raises AttributeError on a non-dict, an unhashable converted key TypeError; an element's own
     exception propagates unchanged *)
  Fixpoint xrun (final: pv -> exn) (x: xty) (v: pv) {struct x} : res pv :=
    match x with
    | XT t => ue E Q CF v (cu true t)
    | XUnion ms => union_run (map umember_of ms) (final v) v
    | XLit ls => lit_run ls v
    | XOpt x' => if is_none v then Ok VNone else xrun final x' v
    | XList x' =>
        match v with
        | VList l | VTuple l | VSet _ l => r <- mapM (xrun final x') l ;; Ok (VList r)
        | VDict kvs => r <- mapM (fun p => xrun final x' (fst p)) kvs ;; Ok (VList r)
        | VStr s => r <- mapM (fun c => xrun final x' (VStr c)) (utf8_chars s) ;; Ok (VList r)
        | _ => Exn XTypeError end
    | XDict kt x' =>
        match v with
        | VDict kvs =>
            r <- mapM (fun p => k' <- ue E Q CF (fst p) (cu true kt) ;; y <- xrun final x' (snd p) ;;
                                if hashable k' then Ok (k', y) else Exn XTypeError) kvs ;;
            Ok (VDict (dict_of_pairs r))
        | _ => Exn XAttributeError end
    end.

  (* nailed = mixin method (a failed union raises InvalidFieldValue itself), else codec (ValueError) *)
  Definition xfinal (nailed: bool) (cls fname: string) : pv -> exn :=
    fun v => if nailed then XInvalidFieldValue fname v cls else XValueError.

  (* the field's unpacker expression; at the top of a field (cu false) the Optional wrapper is handled by the
     field block itself *)
  Definition xdec (nailed: bool) (cls: string) (f: xfield) : pv -> res pv :=
    match f.(xf_ty) with
    | XT t => fun v => ue E Q CF v (cu false t)
    | XOpt x' => xrun (xfinal nailed cls f.(xf_name)) x'
    | x => xrun (xfinal nailed cls f.(xf_name)) x
    end.

  Definition xkey (cf: tcfg) (n: string) : string := match assoc cf.(tc_alias) n with Some a => a | None => n end.
  Definition xkey2 (cf: tcfg) (n: string) : option string :=
    match assoc cf.(tc_alias) n with Some _ => if cf.(tc_nba) then Some n else None | None => None end.

  Definition xfspec (nailed: bool) (cf: tcfg) (cls: string) (f: xfield) : fspec :=
    {| fs_name := f.(xf_name); fs_key := xkey cf f.(xf_name); fs_key2 := xkey2 cf f.(xf_name);
       fs_default := f.(xf_default); fs_nullable := xfield_nullable f; fs_ident := false;
       fs_dec := xdec nailed cls f |}.

  Definition xspec_of (nailed: bool) (k: xcls) : cspec :=
    {| cs_name := k.(xc_name);
       cs_fields := map (xfspec nailed (CF k.(xc_name)) k.(xc_name)) k.(xc_fields);
       cs_forbid_extra := (CF k.(xc_name)).(tc_forbid); cs_discr_keys := []; cs_pre := None; cs_post := None |}.

  Definition uex (nailed: bool) (k: xcls) (d: pv) : res pv := from_dict (xspec_of nailed k) d.

  (* __context__ of a raised InvalidFieldValue: the exception of the field's decoder *)
  Definition uex_cause (nailed: bool) (k: xcls) (d: pv) : option exn :=
    match d, uex nailed k d with
    | VDict kvs, Exn (XInvalidFieldValue _ _ _) =>
        match first_bad kvs (cs_fields (xspec_of nailed k)) with
        | Some (f, BadInvalid v) => match fs_dec f v with Exn e => Some e | Ok _ => None end
        | _ => None end
    | _, _ => None end.

  (* codec roots *)
  Definition uex_root (t: xty) (d: pv) : res pv :=
    xrun (fun _ => XValueError) t d.
End XRun.
