(* C05 / K105b: the frame emitted by the (translated) CodeBuilder._add_unpack_method_lines, around the field blocks
   emitted by the (translated) FieldUnpackerCodeBlockBuilder.build (K105a), is Errs.body; the allowed keys it computes are
   the model's.  Re-checked on every run against the current translations. *)
From Coq Require Import List String Bool.
From Verif Require Import Core Errs FieldEmit K105aProofs FrameEmit.
From VerifGen Require Import K105a K105b.
Import ListNotations.
Open Scope list_scope.

Definition is_nil {A} (l: list A) : bool := match l with [] => true | _ => false end.

(* the frame with the model's allowed keys *)
Theorem frame_body_e : forall c d,
  run_frame (cs_name c) d (allowed_keys c) (run_blocks (cs_name c) d (cs_fields c))
            (frame_try (cs_forbid_extra c) (is_nil (cs_fields c))) frame_handler
  = body_e c d.
Proof.
  intros c d. unfold run_frame, frame_try, frame_handler, body_e, extra_check, touch, outer_handler, run_handler.
  destruct (cs_forbid_extra c) eqn:Ef.
  - cbn. destruct d; cbn; try reflexivity.
    unfold extra_keys, key_allowed, key_in.
    destruct (filter _ (map fst kvs)) eqn:Ek; cbn.
    + destruct (cs_fields c); reflexivity.
    + reflexivity.
  - destruct (cs_fields c) eqn:Efs; cbn.
    + destruct d; reflexivity.
    + reflexivity.
Qed.

(* the field specs of Errs.v that a list of (name, alias) stands for *)
Definition key_of_pair (p: string * option string) : string := match snd p with None => fst p | Some a => a end.
Definition key2_of_pair (nba: bool) (p: string * option string) : option string :=
  match snd p with Some _ => if nba then Some (fst p) else None | None => None end.
Definition keys_agree (nba: bool) (ff: list (string * option string)) (fs: list fspec) : Prop :=
  Forall2 (fun p f => fs_key f = key_of_pair p /\ fs_key2 f = key2_of_pair nba p) ff fs.
Definition olist {A} (o: option A) : list A := match o with Some x => [x] | None => [] end.

Definition model_keys (fs: list fspec) : list string :=
  flat_map (fun f => fs_key f :: match fs_key2 f with Some k2 => [k2] | None => [] end) fs.

Lemma keys_F1 : forall nba ff fs k, keys_agree nba ff fs ->
  In k (map (fun f => match snd f with None => fst f | Some a => a end) ff) -> In k (model_keys fs).
Proof.
  intros nba ff fs k H; induction H as [|p f r r' [H1 H2] _ IH]; [intros []|].
  cbn [map model_keys flat_map In]. intros [Hx|Hx].
  - apply in_or_app. left. left. rewrite H1. exact Hx.
  - apply in_or_app. right. apply IH. exact Hx.
Qed.

Lemma keys_F2 : forall ff fs k, keys_agree true ff fs -> In k (map (fun f => fst f) ff) -> In k (model_keys fs).
Proof.
  intros ff fs k H; induction H as [|p f r r' [H1 H2] _ IH]; [intros []|].
  cbn [map model_keys flat_map In]. intros [Hx|Hx].
  - apply in_or_app. left. rewrite H1, H2. unfold key_of_pair, key2_of_pair.
    destruct p as [n [a|]]; cbn [fst snd] in *; cbn [In]; auto.
  - apply in_or_app. right. apply IH. exact Hx.
Qed.

Lemma keys_F3 : forall nba ff fs k, keys_agree nba ff fs -> In k (model_keys fs) ->
  In k (map (fun f => match snd f with None => fst f | Some a => a end) ff) \/ (nba = true /\ In k (map (fun f => fst f) ff)).
Proof.
  intros nba ff fs k H; induction H as [|p f r r' [H1 H2] _ IH]; [intros []|].
  cbn [map model_keys flat_map In]. intro Hx. apply in_app_or in Hx. destruct Hx as [Hx|Hx].
  - rewrite H1, H2 in Hx. unfold key_of_pair, key2_of_pair in Hx.
    destruct p as [n [a|]]; cbn [fst snd] in *.
    + destruct nba; cbn [In] in Hx; destruct Hx as [Hx|Hx]; auto; try contradiction.
      destruct Hx as [Hx|[]]. right. split; [reflexivity|]. left. exact Hx.
    + cbn [In] in Hx. destruct Hx as [Hx|[]]. left. left. exact Hx.
  - destruct (IH Hx) as [Hy|[Hn Hy]]; [left; right; exact Hy | right; split; [exact Hn | right; exact Hy]].
Qed.

(* the set the generator computes has the members of Errs.allowed_keys *)
Theorem allowed_keys_k_members : forall nba ff discr c,
  keys_agree nba ff (cs_fields c) -> cs_discr_keys c = olist discr ->
  forall k, In k (allowed_keys_k ff discr nba) <-> In k (allowed_keys c).
Proof.
  intros nba ff discr c Hk Hd k. unfold allowed_keys. fold (model_keys (cs_fields c)). rewrite Hd.
  assert (E: In k (allowed_keys_k ff discr nba) <->
             (In k (map (fun f => match snd f with None => fst f | Some a => a end) ff) \/ In k (olist discr))
             \/ (nba = true /\ In k (map (fun f => fst f) ff))).
  { unfold allowed_keys_k. destruct discr as [x|]; destruct nba; cbn [olist]; rewrite ?in_app_iff; cbn [In]; intuition congruence. }
  rewrite E. rewrite in_app_iff. split.
  - intros [[H|H]|[Hn H]].
    + left. exact (keys_F1 nba ff _ k Hk H).
    + right. exact H.
    + left. subst nba. exact (keys_F2 ff _ k Hk H).
  - intros [H|H].
    + destruct (keys_F3 nba ff _ k Hk H) as [Hy|Hy]; [left; left; exact Hy | right; exact Hy].
    + left. right. exact H.
Qed.

Lemma str_in_members : forall s l1 l2, (forall k, In k l1 <-> In k l2) -> str_in s l1 = str_in s l2.
Proof.
  intros s l1 l2 H. unfold str_in.
  destruct (existsb (String.eqb s) l1) eqn:E1; destruct (existsb (String.eqb s) l2) eqn:E2; try reflexivity.
  - apply existsb_exists in E1. destruct E1 as [x [Hi He]]. apply String.eqb_eq in He. subst x.
    apply H in Hi. assert (existsb (String.eqb s) l2 = true) by (apply existsb_exists; exists s; split; [exact Hi | apply String.eqb_refl]). congruence.
  - apply existsb_exists in E2. destruct E2 as [x [Hi He]]. apply String.eqb_eq in He. subst x.
    apply H in Hi. assert (existsb (String.eqb s) l1 = true) by (apply existsb_exists; exists s; split; [exact Hi | apply String.eqb_refl]). congruence.
Qed.

(* only membership in the allowed set matters *)
Lemma run_try_members : forall cls d a1 a2 blocks l st, (forall k, In k a1 <-> In k a2) ->
  run_try cls d a1 blocks l st = run_try cls d a2 blocks l st.
Proof.
  intros cls d a1 a2 blocks l; induction l as [|s r IH]; intros st H; [reflexivity|].
  destruct s; cbn [run_try].
  - destruct d; try reflexivity. apply IH; exact H.
  - assert (E: filter (fun k => negb (key_in a1 k)) (r_keys st) = filter (fun k => negb (key_in a2 k)) (r_keys st)).
    { apply filter_ext. intro k. unfold key_in. destruct k; try reflexivity. rewrite (str_in_members s a1 a2 H). reflexivity. }
    rewrite E. apply IH; exact H.
  - destruct (r_forb st); [apply IH; exact H | reflexivity].
  - destruct (is_dict d); [apply IH; exact H | reflexivity].
  - reflexivity.
Qed.

(* the whole emitted body: the generator's own allowed keys, the emitted frame, the emitted blocks *)
Definition body_k (nba: bool) (ff: list (string * option string)) (discr: option string) (c: cspec) (d: pv) : res (list (option pv)) :=
  run_frame (cs_name c) d (allowed_keys_k ff discr nba) (run_blocks (cs_name c) d (cs_fields c))
            (frame_try (cs_forbid_extra c) (is_nil ff)) frame_handler.

Theorem body_k_body_e : forall nba ff discr c d,
  keys_agree nba ff (cs_fields c) -> cs_discr_keys c = olist discr ->
  body_k nba ff discr c d = body_e c d.
Proof.
  intros nba ff discr c d Hk Hd. rewrite <- frame_body_e. unfold body_k, run_frame.
  assert (N: is_nil ff = is_nil (cs_fields c)) by (destruct Hk; reflexivity).
  rewrite N.
  rewrite (run_try_members (cs_name c) d (allowed_keys_k ff discr nba) (allowed_keys c) _ _ frst0
             (allowed_keys_k_members nba ff discr c Hk Hd)).
  reflexivity.
Qed.

(* the whole generated from_dict: pre-hook, emitted frame with the generator's allowed keys around the emitted blocks,
   constructor call (K105aProofs.construct: an unbound positional local would be an UnboundLocalError), post hooks *)
Definition from_dict_k (nba: bool) (ff: list (string * option string)) (discr: option string) (c: cspec) (d0: pv) : res pv :=
  match (match c.(cs_pre) with Some h => h d0 | None => Ok d0 end) with
  | Exn e => Exn e
  | Ok d => match body_k nba ff discr c d with Exn e => Exn e | Ok xs => construct c xs end
  end.

Theorem from_dict_k_from_dict : forall nba ff discr c d,
  keys_agree nba ff (cs_fields c) -> cs_discr_keys c = olist discr ->
  from_dict_k nba ff discr c d = from_dict c d.
Proof.
  intros nba ff discr c d0 Hk Hd. rewrite <- from_dict_emitted. unfold from_dict_k, from_dict_e.
  destruct (match cs_pre c with Some h => h d0 | None => Ok d0 end) as [d|e]; [|reflexivity].
  rewrite (body_k_body_e nba ff discr c d Hk Hd). reflexivity.
Qed.

(* text of the frame statements (placeholder SET for the literal set of allowed keys) *)
Open Scope string_scope.
Definition frstmt_text (s: frstmt) : list string :=
  match s with
  | RKeys => ["d_keys = set(d.keys())"]
  | RForbidden => ["forbidden_keys = d_keys - SET"]
  | RIfForbiddenRaise => ["if forbidden_keys:"; "    raise ExtraKeysError(forbidden_keys,cls) from None"]
  | RTouch => ["d.keys"]
  | RBlocks => ["BLOCKS"] end.
Definition subset (a b: list string) : bool := forallb (fun x => str_in x b) a.
