(* Primitives for kernel K113a (the strategy-map loops of Dialect.merge): dict operations on the kernel's
   value type.  Python dicts are insertion-ordered association lists (PyK.d_get / d_set). *)
From Coq Require Import List String Ascii ZArith Bool.
From Verif Require Import Regex PyK.
Import ListNotations.

(* d.copy(): a new dict with the same items (the functional model cannot see identity; the translator of K113a
   fails closed where identity would matter) *)
Definition k_dict_copy (d: kv) : res kv :=
  match d with KDict kvs => Ok (KDict kvs) | _ => Raise AttributeError end.

(* base.update(ent): item assignments in the order of ent *)
Definition d_update (base ent: list (kv * kv)) : list (kv * kv) :=
  fold_left (fun acc p => d_set acc (fst p) (snd p)) ent base.

(* acc.setdefault(key, {}).update(value): the entry under key (a fresh {} if absent) is updated in place *)
Definition k_dict_setdefault_update (acc key value: kv) : res kv :=
  match acc with
  | KDict kvs =>
      match (match d_get kvs key with Some cur => cur | None => KDict [] end) with
      | KDict b =>
          match value with
          | KDict e => Ok (KDict (d_set kvs key (KDict (d_update b e))))
          | _ => Raise TypeError                   (* dict.update(<not a mapping>) *)
          end
      | _ => Raise AttributeError                  (* the entry has no .update *)
      end
  | _ => Raise AttributeError
  end.

(* for key, value in d.items(): acc = f(acc, key, value) *)
Fixpoint k_fold_items (f: kv -> kv -> kv -> res kv) (items: list (kv * kv)) (acc: kv) : res kv :=
  match items with
  | [] => Ok acc
  | (k, v) :: r => match f acc k v with Ok acc' => k_fold_items f r acc' | Raise e => Raise e end
  end.
