(* C13: unions of dataclass members whose keyword-flag options differ (any number of members, all four keyword
   flags: omit_none, by_alias, dialect, context).  pack.py pack_union: the members are tried in declaration order
   inside try/except; member i's branch is `value.__mashumaro_to_dict__(<flags enabled on the owner AND on member i>)`
   (get_pack_method_flags: kernel K8); the call dispatches dynamically on the instance and fails (TypeError, next
   branch) only when it passes a keyword the instance's own method does not have.  New definitions only. *)
From Coq Require Import List Bool.
From Verif Require Import OptProj.
Import ListNotations.

Definition flags_sub (a b: flags) : bool :=
  implb a.(g_on) b.(g_on) && implb a.(g_ba) b.(g_ba) && implb a.(g_dl) b.(g_dl) && implb a.(g_cx) b.(g_cx).

Definition flags_eqb (a b: flags) : bool :=
  Bool.eqb a.(g_on) b.(g_on) && Bool.eqb a.(g_ba) b.(g_ba) && Bool.eqb a.(g_dl) b.(g_dl) && Bool.eqb a.(g_cx) b.(g_cx).

(* the keywords the instance (whose class enables `actual`) finally receives *)
Fixpoint union_forward4 (owner: flags) (members: list flags) (actual: flags) : option flags :=
  match members with
  | [] => None
  | m :: r => let f := both owner m in
              if flags_sub f actual then Some f else union_forward4 owner r actual
  end.

(* what the property demands: exactly the flags enabled on the owner and on the instance's class *)
Definition union_expected4 (owner actual: flags) : option flags := Some (both owner actual).

Definition union4_full : Prop :=
  forall owner members actual, In actual members -> union_forward4 owner members actual = union_expected4 owner actual.

Lemma flags_sub_both o a : flags_sub (both o a) a = true.
Proof. destruct o as [a1 a2 a3 a4], a as [b1 b2 b3 b4]; cbn; destruct a1, a2, a3, a4, b1, b2, b3, b4; reflexivity. Qed.

(* holds when every member that is tried before the instance's own class (and that one) enables the same flags *)
Theorem union4_partial owner members actual :
  In actual members -> (forall m, In m members -> m = actual) ->
  union_forward4 owner members actual = union_expected4 owner actual.
Proof.
  intros HI HA. destruct members as [|m r]; [destruct HI|].
  assert (m = actual) by (apply HA; left; reflexivity). subst m.
  cbn. rewrite flags_sub_both. reflexivity.
Qed.

(* some branch always succeeds (at the latest the instance's own class), and never passes a keyword the
   instance's method lacks *)
Theorem union4_total owner members actual :
  In actual members -> exists f, union_forward4 owner members actual = Some f /\ flags_sub f actual = true.
Proof.
  induction members as [|m r IH]; intros HI; [destruct HI|]. cbn.
  destruct (flags_sub (both owner m) actual) eqn:E; [eexists; split; [reflexivity|exact E]|].
  destruct HI as [->|HI]; [rewrite flags_sub_both in E; discriminate|apply IH; exact HI].
Qed.

(* three members, the instance is of the third: it loses omit_none and context because the FIRST member's branch
   (which has neither) already succeeds *)
Definition fl (a b c d: bool) : flags := {| g_on := a; g_ba := b; g_dl := c; g_cx := d |}.

Lemma union4_witness :
  union_forward4 (fl true true true true) [fl false false true false; fl true false false false; fl true false true true] (fl true false true true)
    = Some (fl false false true false) /\
  union_expected4 (fl true true true true) (fl true false true true) = Some (fl true false true true).
Proof. split; reflexivity. Qed.

Theorem union4_refuted : ~ union4_full.
Proof.
  intros H.
  specialize (H (fl true true true true) [fl false false true false; fl true false false false; fl true false true true]
                (fl true false true true) (or_intror (or_intror (or_introl eq_refl)))).
  destruct union4_witness as [A B]. rewrite A, B in H. discriminate.
Qed.

(* executable helper for the correspondence *)
Definition union4_case := (flags * list flags * flags * option flags)%type.
Definition union4_case_ok (c: union4_case) : bool :=
  let '(o, ms, a, e) := c in
  match union_forward4 o ms a, e with
  | Some x, Some y => flags_eqb x y | None, None => true | _, _ => false end.
