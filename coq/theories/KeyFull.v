(* C09 -- the decisions of `_add_unpack_method_lines` in the order the code takes them, every one through a function
   translated from /repo on every run:

     1. get_discriminator()                       (K109a)  the class's own Config has a discriminator: dispatcher, stop
     2. get_declared_hook("__pre_deserialize__")  (K109b)  `d = cls.__pre_deserialize__(d)`
     3. get_config()                              (K4)     aliases / allow_deserialization_not_by_alias / forbid_extra_keys
     4. __get_field_alias per init field          (K4)
     5. get_discriminator(look_in_parents=True)   (K109a)  + allowed_keys (K4): the extra-key check
     6. key_plan per field                        (K4)     the emitted d.get lines

   and the theorem that this is KEYMODEL of the class the hierarchy denotes, on the mapping the nearest hook returns,
   with the nearest class-level discriminator accepted. *)
From Coq Require Import List String Ascii ZArith Bool.
From Verif Require Import Regex PyK PyK_alias PyK_clsdiscr KeyModel KeyImpl KeyProofs KeyCfg KeyRewrite KeyHook KeyDiscr KeyHookLookup.
From VerifGen Require Import K4 K109a K109b.
Import ListNotations.
Open Scope string_scope.
Open Scope list_scope.

(* r: the class bodies along the MRO, the class itself first (declarations, Config, discriminator line);
   hooks: the __pre_deserialize__ of the same classes, base-most first; mixin: DataClassDictMixin is in the MRO *)
Definition impl_from_class (r: list dlevel) (hooks: list (option (list hookop))) (mixin: bool) (d: dict)
  : res from_dict_kind :=
  let ls := rev (map fst r) in
  own <- get_discriminator (cls_obj_d r) base_config_d (KBool false) ;;
  if k_truthy own then Ok Dispatcher
  else
    h <- get_declared_hook (cls_obj_h (rev hooks) mixin) A_PRE ;;
    let d' := apply_hook (dec_hook (rev hooks) h) d in
    g <- impl_cfg ls ;;
    dk <- get_discriminator (cls_obj_d r) base_config_d (KBool true) ;;
    o <- impl_from_dict (mkC (effective ls) (g_aliases g) (g_allow g) (g_forbid g) (dec_discr dk)) d' ;;
    Ok (Body o).

Definition ref_from_class (r: list dlevel) (hooks: list (option (list hookop))) (d: dict) : from_dict_kind :=
  match own_discr r with
  | Some _ => Dispatcher
  | None => Body (keymodel (class_of (rev (map fst r)) (nearest_discr r)) (apply_hook (declared_hook (rev hooks)) d))
  end.

Theorem impl_from_class_keymodel : forall r hooks mixin d,
  impl_from_class r hooks mixin d = Ok (ref_from_class r hooks d).
Proof.
  intros r hooks mixin d. unfold impl_from_class, ref_from_class.
  rewrite get_discriminator_own. cbn [bind].
  destruct (own_discr r) as [f|] eqn:E; [reflexivity|].
  cbn [enc_discr k_truthy]. rewrite get_declared_hook_spec. cbn [bind]. rewrite dec_enc_hook.
  rewrite impl_cfg_nearest. cbn [bind].
  rewrite get_discriminator_parents. cbn [bind]. rewrite dec_enc_discr.
  replace (match nearest_discr r with Some f => Some f | None => None end) with (nearest_discr r)
    by (destruct (nearest_discr r); reflexivity).
  change (mkC _ _ _ _ (nearest_discr r)) with (class_of (rev (map fst r)) (nearest_discr r)).
  rewrite impl_eq_keymodel. reflexivity.
Qed.

(* without hooks this is KeyDiscr.impl_from_dhier *)
Lemma impl_from_class_no_hooks : forall r mixin d, impl_from_class r [] mixin d = impl_from_dhier r d.
Proof.
  intros. rewrite impl_from_class_keymodel, impl_from_dhier_keymodel. reflexivity.
Qed.

(* executable comparison for the per-run correspondence *)
Definition dfull_ok (r: list dlevel) (hooks: list (option (list hookop))) (mixin: bool) (dfl: list Z) (d: dict)
           (ob: observation) : bool :=
  match impl_from_class r hooks mixin d with
  | Ok (Body x) => observation_eqb (observe dfl x) ob
  | _ => false
  end
  && match ref_from_class r hooks d with
     | Body x => observation_eqb (observe dfl x) ob
     | Dispatcher => false
     end.
