(* C20: on the one-step fragment the chain of replacements (SchemaChain.rchain) is SchemaGen.resolve_ty *)
From Coq Require Import List String Ascii ZArith Bool Lia.
From Verif Require Import SchemaGen SchemaGenProofs SchemaChain.
Import ListNotations.
Open Scope string_scope.

Section Agree.
  Variables dial conf : list (string * ov).
  Notation RC := (rchain dial conf).

  Definition tabs_flat : bool := forallb (fun o => ov_flat dial conf (Some o)) (map snd (dial ++ conf)).

  Lemma ty_same_table a b : ty_same a b = true -> table_ov dial conf a = table_ov dial conf b.
  Proof.
    destruct a, b; simpl; try discriminate; try reflexivity; intros H; unfold table_ov; simpl; try reflexivity.
    apply String.eqb_eq in H. subst. reflexivity.
  Qed.

  Lemma mapM_id ts n : Forall (fun t => RC n t = Some t) ts -> mapM (RC n) ts = Some ts.
  Proof. induction 1 as [|x r Hx Hr IH]; simpl; [reflexivity|]. rewrite Hx, IH. reflexivity. Qed.

  Lemma existsb_false_Forall (f: ty -> bool) ts : existsb f ts = false -> Forall (fun t => f t = false) ts.
  Proof.
    induction ts as [|x r IH]; simpl; [constructor|]. intros H. apply orb_false_iff in H. destruct H. constructor; auto.
  Qed.

  Lemma fuel_all ts :
    Forall (fun t => exists n, forall m, n <= m -> RC m t = Some t) ts -> exists n, forall m, n <= m -> Forall (fun t => RC m t = Some t) ts.
  Proof.
    induction 1 as [|x r [n Hx] Hr [k IH]]; [exists 0; intros; constructor|].
    exists (Nat.max n k). intros m Hm. constructor; [apply Hx; lia|apply IH; lia].
  Qed.

  (* a type that mentions no overridden key is left alone, for every sufficient fuel *)
  Lemma nomention_id t : mentions dial conf t = false -> exists n, forall m, n <= m -> RC m t = Some t.
  Proof.
    induction t using ty_ind'; cbn [mentions]; destruct (table_ov dial conf _) eqn:Et; try discriminate; intros Hm;
      try (exists 1; intros m Hle; destruct m as [|m]; [lia|]; rewrite rchain_S, Et; reflexivity);
      try (destruct (IHt Hm) as [n Hn]; exists (S n); intros m Hle; destruct m as [|m]; [lia|];
           rewrite rchain_S, Et; cbn [step_of rdesc]; rewrite (Hn m ltac:(lia)); reflexivity);
      try (assert (HF: Forall (fun t => exists n, forall m, n <= m -> RC m t = Some t) ts);
           [apply existsb_false_Forall in Hm; clear Et; induction H as [|x r Hx Hr IHr]; [constructor|];
            inversion Hm; subst; constructor; [apply Hx; assumption|apply IHr; assumption]|];
           destruct (fuel_all ts HF) as [n Hn]; exists (S n); intros m Hle; destruct m as [|m]; [lia|];
           rewrite rchain_S, Et; cbn [step_of rdesc]; rewrite (mapM_id _ _ (Hn m ltac:(lia))); reflexivity).
    (* TMap *)
    apply orb_false_iff in Hm. destruct Hm as [H1 H2]. destruct (IHt1 H1) as [n1 Hn1]. destruct (IHt2 H2) as [n2 Hn2].
    exists (S (Nat.max n1 n2)). intros m Hle. destruct m as [|m]; [lia|].
    rewrite rchain_S, Et. cbn [step_of rdesc]. rewrite (Hn1 m ltac:(lia)), (Hn2 m ltac:(lia)). reflexivity.
  Qed.

  Lemma mapM_map ts n : Forall (fun t => RC n t = Some (resolve_ty dial conf t)) ts -> mapM (RC n) ts = Some (map (resolve_ty dial conf) ts).
  Proof. induction 1 as [|x r Hx Hr IH]; simpl; [reflexivity|]. rewrite Hx, IH. reflexivity. Qed.

  Lemma fuel_all_res ts :
    Forall (fun t => exists n, forall m, n <= m -> RC m t = Some (resolve_ty dial conf t)) ts ->
    exists n, forall m, n <= m -> Forall (fun t => RC m t = Some (resolve_ty dial conf t)) ts.
  Proof.
    induction 1 as [|x r [n Hx] Hr [k IH]]; [exists 0; intros; constructor|].
    exists (Nat.max n k). intros m Hm. constructor; [apply Hx; lia|apply IH; lia].
  Qed.

  Theorem rchain_agrees_flat : tabs_flat = true -> forall t, exists n, forall m, n <= m -> RC m t = Some (resolve_ty dial conf t).
  Proof.
    intros Hflat t. unfold tabs_flat in Hflat. rewrite forallb_forall in Hflat.
    assert (Hrepl: forall t0 o, table_ov dial conf t0 = Some o ->
              match step_of (Some o) t0 with
              | Stay => apply_ov (Some o) t0 = None
              | Final b => apply_ov (Some o) t0 = Some b
              | Again t' => apply_ov (Some o) t0 = Some t' /\ exists n, forall m, n <= m -> RC m t' = Some t'
              end).
    { intros t0 o Ht. assert (Hin := table_ov_in dial conf _ _ Ht). specialize (Hflat _ Hin).
      destruct o as [|b|[t'|]|]; cbn [step_of apply_ov]; try reflexivity.
      - cbn [ov_flat repl_of] in Hflat. apply negb_true_iff in Hflat.
        destruct (ty_same t' t0) eqn:Es.
        + exfalso. assert (E := ty_same_table _ _ Es). destruct t'; cbn [mentions] in Hflat; rewrite E, Ht in Hflat; discriminate.
        + split; [reflexivity|]. apply nomention_id. exact Hflat.
      - split; [reflexivity|]. exists 1. intros m Hle. destruct m as [|m]; [lia|]. reflexivity. }
    induction t using ty_ind';
      (match goal with |- exists n, forall m, n <= m -> RC m ?t0 = Some (resolve_ty dial conf ?t0) =>
         destruct (table_ov dial conf t0) as [o|] eqn:Et;
         [assert (Hr := Hrepl t0 o Et); destruct (step_of (Some o) t0) as [|b|t'] eqn:Es;
          [ | exists 1; intros m Hle; destruct m as [|m]; [lia|]; rewrite rchain_S, Et, Es; cbn [resolve_ty]; rewrite Et, Hr; reflexivity
            | destruct Hr as [Ha [fn Hfn]]; exists (S fn); intros m Hle; destruct m as [|m]; [lia|];
              rewrite rchain_S, Et, Es; cbn [resolve_ty]; rewrite Et, Ha; apply Hfn; lia ]
         | assert (Hr: apply_ov (table_ov dial conf t0) t0 = None) by (rewrite Et; reflexivity);
           assert (Es: step_of (table_ov dial conf t0) t0 = Stay) by (rewrite Et; reflexivity) ] end);
      try (rewrite <- Et in Hr, Es);
      try (exists 1; intros m Hle; destruct m as [|m]; [lia|]; rewrite rchain_S, Es; cbn [resolve_ty]; rewrite Hr; reflexivity);
      try (destruct IHt as [n Hn]; exists (S n); intros m Hle; destruct m as [|m]; [lia|];
           rewrite rchain_S, Es; cbn [resolve_ty rdesc]; rewrite Hr, (Hn m ltac:(lia)); reflexivity);
      try (destruct (fuel_all_res ts H) as [n Hn]; exists (S n); intros m Hle; destruct m as [|m]; [lia|];
           rewrite rchain_S, Es; cbn [resolve_ty rdesc]; rewrite Hr, (mapM_map _ _ (Hn m ltac:(lia))); reflexivity).
    (* TMap, both ways *)
    all: destruct IHt1 as [n1 Hn1]; destruct IHt2 as [n2 Hn2]; exists (S (Nat.max n1 n2)); intros m Hle; destruct m as [|m]; [lia|];
      rewrite rchain_S, Es; cbn [resolve_ty rdesc]; rewrite Hr, (Hn1 m ltac:(lia)), (Hn2 m ltac:(lia)); reflexivity.
  Qed.
End Agree.
