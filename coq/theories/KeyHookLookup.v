(* C09 -- which __pre_deserialize__ the generated from_dict calls.

   CodeBuilder.get_declared_hook and helpers.get_class_that_defines_method are translated from /repo on every run
   (VerifGen.K109b).  Here they are run on the class objects of a hierarchy -- the dataclasses of the MRO, nearest
   first, each with the hook its body defines; then DataClassDictMixin (which defines a stub) if the class uses
   the mixins; then `object` -- and proved to return the hook of the nearest class that defines one, and nothing
   when only the mixin's stub is found.  This replaces the hand-written KeyRewrite.nearest_hook in the model of
   the generated code (impl_hooked_code = KeyHook.impl_hooked). *)
From Coq Require Import List String Ascii ZArith Bool Lia.
From Verif Require Import Regex PyK PyK_alias PyK_clsdiscr KeyModel KeyImpl KeyProofs KeyCfg KeyRewrite KeyHook.
From VerifGen Require Import K4 K109b.
Import ListNotations.
Open Scope string_scope.
Open Scope list_scope.

Definition A_PRE := KStr "__pre_deserialize__".

(* the classmethod object defined in the body of class number n (counted from the far end of the hierarchy) *)
Definition hook_val (n: nat) : kv := KTuple [KStr "classmethod"; KInt (Z.of_nat n)].

(* hs: per dataclass of the MRO, nearest first, the hook its body defines *)
Fixpoint hook_entries (hs: list (option (list hookop))) : list kv :=
  match hs with
  | [] => []
  | h :: r => cls_entry (KTuple [KStr "class"; KInt (Z.of_nat (List.length r))])
                        (match h with Some _ => [(A_PRE, hook_val (List.length r))] | None => [] end)
              :: hook_entries r
  end.

Definition mixin_entry : kv := cls_entry MIXIN_ID [(A_PRE, KStr "<stub of DataClassDictMixin>")].
Definition obj_entry : kv := cls_entry (KStr "object") [].
Definition mro_tail (mixin: bool) : list kv := (if mixin then [mixin_entry] else []) ++ [obj_entry].

Definition cls_obj_h (hs: list (option (list hookop))) (mixin: bool) : kv :=
  KNs [("__id__", KStr "K"); ("__mro__", KList (hook_entries hs ++ mro_tail mixin))].

(* reference: attribute lookup finds the nearest definition *)
Fixpoint declared_hook (hs: list (option (list hookop))) : option (list hookop) :=
  match hs with
  | [] => None
  | Some h :: _ => Some h
  | None :: r => declared_hook r
  end.

Fixpoint declared_idx (hs: list (option (list hookop))) : option nat :=
  match hs with
  | [] => None
  | Some _ :: r => Some (List.length r)
  | None :: r => declared_idx r
  end.

Fixpoint hook_at (hs: list (option (list hookop))) (n: nat) : option (list hookop) :=
  match hs with
  | [] => None
  | h :: r => if Nat.eqb (List.length r) n then h else hook_at r n
  end.

Definition enc_hook (o: option nat) : kv := match o with Some n => hook_val n | None => KNone end.

Definition dec_hook (hs: list (option (list hookop))) (v: kv) : option (list hookop) :=
  match v with
  | KTuple [_; KInt z] => hook_at hs (Z.to_nat z)
  | _ => None
  end.

(* the generated code of a class given by its hierarchy, the hook found by the translated lookup *)
Definition impl_hooked_code (hooks: list (option (list hookop))) (mixin: bool) (ls: list level)
           (discr: option (option string)) (d: dict) : res outcome :=
  h <- get_declared_hook (cls_obj_h (rev hooks) mixin) A_PRE ;;
  impl_from_hier ls discr (apply_hook (dec_hook (rev hooks) h) d).

(* ------------------------------------------------------------------ *)

Definition body (name: kv) : kv -> res (option kv) :=
  fun v_cls => t1 <- k_getattr2 v_cls (KStr "__dict__") ;;
               t2 <- k_contains t1 name ;;
               (if k_truthy t2 then Ok (Some v_cls) else Ok None).

Definition found_class (n: nat) : kv :=
  mk_class (KTuple [KStr "class"; KInt (Z.of_nat n)]) [(A_PRE, hook_val n)] [].

Lemma search_hooks : forall hs tl,
  first_list (map class_of_entry (hook_entries hs ++ tl)) (body A_PRE)
  = match declared_idx hs with
    | Some n => Ok (Some (found_class n))
    | None => first_list (map class_of_entry tl) (body A_PRE)
    end.
Proof.
  induction hs as [|h r IH]; intro tl; [reflexivity|].
  cbn [hook_entries app map first_list declared_idx]. destruct h as [h|].
  - reflexivity.
  - rewrite <- IH. reflexivity.
Qed.

Lemma defining_class : forall hs mixin,
  get_class_that_defines_method A_PRE (cls_obj_h hs mixin)
  = Ok (match declared_idx hs with
        | Some n => found_class n
        | None => if mixin then class_of_entry mixin_entry else KNone
        end).
Proof.
  intros hs mixin. unfold get_class_that_defines_method.
  change (k_for_first (k_mro_classes (cls_obj_h hs mixin)) _)
    with (first_list (map class_of_entry (hook_entries hs ++ mro_tail mixin)) (body A_PRE)).
  rewrite search_hooks. destruct (declared_idx hs); [reflexivity|]. destruct mixin; reflexivity.
Qed.

(* (T) the translated get_declared_hook on the class objects of a hierarchy *)
Theorem get_declared_hook_spec : forall hs mixin,
  get_declared_hook (cls_obj_h hs mixin) A_PRE = Ok (enc_hook (declared_idx hs)).
Proof.
  intros hs mixin. unfold get_declared_hook. rewrite defining_class. cbn [bind].
  destruct (declared_idx hs) as [n|]; [reflexivity|]. destruct mixin; reflexivity.
Qed.

Lemma declared_idx_lt : forall hs n, declared_idx hs = Some n -> (n < List.length hs)%nat.
Proof.
  induction hs as [|h r IH]; intros n H; [discriminate|]. cbn [declared_idx] in H. cbn [List.length].
  destruct h; [injection H as <-; lia | specialize (IH n H); lia].
Qed.

Lemma hook_at_declared : forall hs,
  match declared_idx hs with Some n => hook_at hs n | None => None end = declared_hook hs.
Proof.
  induction hs as [|h r IH]; [reflexivity|]. cbn [declared_idx declared_hook hook_at]. destruct h as [h|].
  - now rewrite Nat.eqb_refl.
  - destruct (declared_idx r) as [n|] eqn:E; [|exact IH].
    pose proof (declared_idx_lt r n E) as Hlt.
    destruct (Nat.eqb (List.length r) n) eqn:En; [apply Nat.eqb_eq in En; lia | exact IH].
Qed.

Lemma dec_enc_hook : forall hs, dec_hook hs (enc_hook (declared_idx hs)) = declared_hook hs.
Proof.
  intro hs. rewrite <- hook_at_declared. destruct (declared_idx hs) as [n|]; [|reflexivity].
  unfold enc_hook, hook_val, dec_hook. now rewrite Nat2Z.id.
Qed.

(* KeyRewrite.nearest_hook (hierarchy base-most first) is attribute lookup along the MRO *)
Lemma nearest_hook_declared : forall hooks, nearest_hook hooks = declared_hook (rev hooks).
Proof.
  induction hooks as [|h hooks IH] using rev_ind; [reflexivity|].
  rewrite nearest_hook_app, rev_app_distr. cbn [rev app declared_hook]. destruct h; [reflexivity | exact IH].
Qed.

Theorem impl_hooked_code_eq : forall hooks mixin ls discr d,
  impl_hooked_code hooks mixin ls discr d = impl_hooked hooks ls discr d.
Proof.
  intros. unfold impl_hooked_code, impl_hooked. rewrite get_declared_hook_spec. cbn [bind].
  now rewrite dec_enc_hook, nearest_hook_declared.
Qed.

Theorem impl_hooked_code_keymodel : forall hooks mixin ls discr d,
  impl_hooked_code hooks mixin ls discr d
  = Ok (keymodel (class_of ls discr) (apply_hook (declared_hook (rev hooks)) d)).
Proof.
  intros. rewrite impl_hooked_code_eq, impl_hooked_keymodel. now rewrite nearest_hook_declared.
Qed.

(* executable comparison for the per-run correspondence: o = the level (counted from the base-most class) whose
   body defines the classmethod CodeBuilder(cls).get_declared_hook("__pre_deserialize__") returned *)
Definition hook_view_ok (hs: list (option (list hookop))) (mixin: bool) (o: option nat) : bool :=
  match get_declared_hook (cls_obj_h hs mixin) A_PRE with
  | Ok v => kv_eqb v (enc_hook o)
  | Raise _ => false
  end
  && match declared_idx hs, o with
     | Some a, Some b => Nat.eqb a b
     | None, None => true
     | _, _ => false
     end.
