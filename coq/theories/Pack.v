(* L2 (serialization side): semantic IR of the generated packers, the model of the
   generator decisions (pack.py registry order, builder.py to_dict body), and the
   value interpreter.  One IR constructor per decision of the real generator. *)
From Coq Require Import List String Ascii ZArith Bool Lia.
From Verif Require Import Core.
Import ListNotations.
Open Scope string_scope.
Open Scope Z_scope.

(* which keyword flags a nested dataclass call forwards (enabled on both sides) *)
Record fwd := { w_omit_none : bool; w_by_alias : bool; w_dialect : bool; w_context : bool }.
Definition fwd_eqb (a b: fwd) : bool :=
  Bool.eqb a.(w_omit_none) b.(w_omit_none) && Bool.eqb a.(w_by_alias) b.(w_by_alias) &&
  Bool.eqb a.(w_dialect) b.(w_dialect) && Bool.eqb a.(w_context) b.(w_context).
Definition no_fwd : fwd := {| w_omit_none := false; w_by_alias := false; w_dialect := false; w_context := false |}.

Inductive penc :=
| EId                                   (* "value" *)
| EPrim (p: pprim)                      (* value.isoformat() / str(value) / ... *)
| EB64                                  (* encodebytes(value).decode() *)
| EEnumValue                            (* value.value *)
| EOpt (e: penc)                        (* e if value is not None else None *)
| ECopyList | ECopyDict | EByRef        (* value.copy() / value (no_copy_collections) *)
| EListComp (e: penc)                   (* [e for value in x] *)
| EDictComp (ke ve: penc)               (* {ke: ve for key, value in x.items()} *)
| ETupleFix (es: list penc)             (* [e0(x[0]), e1(x[1]), ...] *)
| EUnion (idcls: list scalar) (tries: list penc)   (* class-checked identity members, then try each *)
| ELit (cases: list (lit * penc))
| EData (c: string) (w: fwd).           (* mixin: value.__mashumaro_to_dict__(flags); codec: C___mashumaro_to_dict__(value) *)

Definition is_id (e: penc) : bool := match e with EId => true | _ => false end.

(* equality of the *expression strings* the generator compares: helper methods get a
   random name, so two union / literal expressions are never equal; on the mixin path
   the dataclass call does not mention the class *)
Fixpoint penc_str_eqb (static: bool) (a b: penc) {struct a} : bool :=
  match a, b with
  | EId, EId | EB64, EB64 | EEnumValue, EEnumValue
  | ECopyList, ECopyList | ECopyDict, ECopyDict => true
  | EPrim p, EPrim q => pprim_eqb p q
  | EOpt x, EOpt y => penc_str_eqb static x y
  | EListComp x, EListComp y => penc_str_eqb static x y
  | EDictComp k v, EDictComp k' v' => penc_str_eqb static k k' && penc_str_eqb static v v'
  | ETupleFix xs, ETupleFix ys =>
      (fix go (l1 l2: list penc) : bool :=
         match l1, l2 with
         | [], [] => true
         | x :: r1, y :: r2 => penc_str_eqb static x y && go r1 r2
         | _, _ => false end) xs ys
  | EData c w, EData c' w' => if static then String.eqb c c' else fwd_eqb w w'
  | _, _ => false
  end.

(* ------------------------------------------------------------------ *)
(* effective options: K3 order (call dialect > Config.dialect > Config > default dialect) *)
Definition first_set (l: list tri) (dflt: bool) : bool :=
  (fix go (l: list tri) : bool :=
     match l with
     | [] => dflt
     | Unset :: r => go r
     | TFalse :: _ => false
     | TTrue :: _ => true end) l.

Definition dopt (f: dialect -> tri) (d: option dialect) : tri :=
  match d with Some x => f x | None => Unset end.

Record mode := {
  m_static : bool;                      (* codec path (holder objects, static dispatch) *)
  m_default_dialect : option dialect;   (* codec default_dialect / mixin format dialect *)
}.

Definition eff_omit_none (m: mode) (bd: option dialect) (g: config) : bool :=
  first_set [dopt d_omit_none bd; dopt d_omit_none g.(g_dialect); g.(g_omit_none); dopt d_omit_none m.(m_default_dialect)] false.
Definition eff_omit_default (m: mode) (bd: option dialect) (g: config) : bool :=
  first_set [dopt d_omit_default bd; dopt d_omit_default g.(g_dialect); g.(g_omit_default); dopt d_omit_default m.(m_default_dialect)] false.
Definition eff_by_alias (m: mode) (bd: option dialect) (g: config) : bool :=
  first_set [dopt d_by_alias bd; dopt d_by_alias g.(g_dialect); g.(g_by_alias); dopt d_by_alias m.(m_default_dialect)] false.
Definition eff_nt_as_dict (m: mode) (bd: option dialect) (g: config) : bool :=
  first_set [dopt d_nt_as_dict bd; dopt d_nt_as_dict g.(g_dialect); g.(g_nt_as_dict); dopt d_nt_as_dict m.(m_default_dialect)] false.

Definition eff_no_copy (m: mode) (bd: option dialect) (g: config) : list string :=
  match bd with
  | Some {| d_no_copy := Some l |} => l
  | _ => match g.(g_dialect) with
         | Some {| d_no_copy := Some l |} => l
         | _ => match m.(m_default_dialect) with
                | Some {| d_no_copy := Some l |} => l
                | _ => [] end end end.

(* ------------------------------------------------------------------ *)
(* compile: type -> IR, following the registry order of pack.py *)
Section Compile.
  Variable E : env.
  Variable static : bool.
  Variable nocopy : list string.
  Variable holder : config.             (* config of the class whose builder runs *)

  Definition fwd_for (c: string) : fwd :=
    if static then no_fwd else
    match find_cls E c with
    | Some k =>
        {| w_omit_none := k.(c_cfg).(g_flag_omit_none) && holder.(g_flag_omit_none);
           w_by_alias := k.(c_cfg).(g_flag_by_alias) && holder.(g_flag_by_alias);
           w_dialect := k.(c_cfg).(g_flag_dialect) && holder.(g_flag_dialect);
           w_context := k.(c_cfg).(g_flag_context) && holder.(g_flag_context) |}
    | None => no_fwd end.

  Definition seq_expr (origin: string) (ie: penc) : penc :=
    if is_id ie then
      if str_in origin nocopy then EByRef
      else if String.eqb origin "list" then ECopyList
      else EListComp ie
    else EListComp ie.

  Definition map_expr (origin: string) (ke ve: penc) : penc :=
    if is_id ke && is_id ve then
      if str_in origin nocopy then EByRef
      else if String.eqb origin "dict" then ECopyDict
      else EDictComp ke ve
    else EDictComp ke ve.

  Definition lit_enc (l: lit) : penc :=
    match l with
    | LBytes _ => EB64
    | LEnum _ _ => EEnumValue
    | _ => EId end.

  (* identity members of a union are guarded by an exact class check *)
  Definition id_class (t: ty) : list scalar :=
    match t with
    | TInt => [SInt] | TFloat => [SFloat] | TBool => [SBool] | TStr => [SStr] | TNone => [SNone]
    | _ => [] end.

  (* insert a member packer: distinct expression strings only, "value" first *)
  Fixpoint add_packer (ps: list penc) (p: penc) : list penc :=
    if existsb (penc_str_eqb static p) ps then ps
    else if is_id p then p :: ps else ps ++ [p].

  Fixpoint cp (cbn: bool) (t: ty) {struct t} : penc :=
    match t with
    | TPass _ => EId
    | TData c => EData c (fwd_for c)
    | TAny => EId
    | TOpt t' => let e := cp cbn t' in if cbn then EOpt e else e
    | TUnion ts =>
        let ps := fold_left add_packer (map (cp cbn) ts) [] in
        match ps with
        | [EId] => EId
        | _ => EUnion (flat_map (fun t' => if is_id (cp cbn t') then id_class t' else []) ts)
                      (filter (fun p => negb (is_id p)) ps)
        end
    | TLit ls => ELit (map (fun l => (l, lit_enc l)) ls)
    | TNone | TInt | TFloat | TBool => EId
    | TLeaf k => EPrim (prim_of_kind k)
    | TBytes | TBytearray => EB64
    | TStr => EId
    | TTupleVar t' => EListComp (cp true t')
    | TTupleFix ts => ETupleFix (map (cp true) ts)
    | TList t' => seq_expr "list" (cp true t')
    | TDeque t' => seq_expr "deque" (cp true t')
    | TSet fr t' => seq_expr (if fr then "frozenset" else "set") (cp true t')
    | TSeq t' => seq_expr "Sequence" (cp true t')
    | TDict kt vt => map_expr "dict" (cp true kt) (cp true vt)
    | TEnum _ => EEnumValue
    end.
End Compile.

(* ------------------------------------------------------------------ *)
(* per-field plan of the to_dict body (builder.py _add_pack_method_lines) *)
Definition ty_nullable (t: ty) : bool :=
  match t with TAny | TNone | TOpt _ => true | _ => false end.

Definition default_is_none (d: fdefault) : bool :=
  match d with DVal VNone | DFactory VNone => true | _ => false end.
Definition default_is_none_nofactory (d: fdefault) : bool :=
  match d with DVal VNone => true | _ => false end.

Definition default_value (d: fdefault) : option pv :=
  match d with DNo => None | DVal v | DFactory v => Some v end.

Definition field_nullable (f: field) : bool :=
  ty_nullable f.(f_ty) || default_is_none_nofactory f.(f_default).

Record fplan := {
  p_name : string;
  p_alias : option string;
  p_nullable : bool;
  p_enc : penc;
  p_default : fdefault;
}.

(* resolved keyword values inside a running to_dict method *)
Record kwvals := {
  k_omit_none : bool;
  k_by_alias : bool;
  k_dialect : option dialect;
  k_context : option pv;
}.

(* keyword arguments as passed by a caller (None = not passed) *)
Record kwargs := {
  a_omit_none : option bool;
  a_by_alias : option bool;
  a_dialect : option dialect;
  a_context : option pv;
}.
Definition no_kwargs : kwargs := {| a_omit_none := None; a_by_alias := None; a_dialect := None; a_context := None |}.

(* sorting fields by name (sort_keys): insertion sort on byte-wise string order *)
Fixpoint str_leb (a b: string) : bool :=
  match a, b with
  | EmptyString, _ => true
  | String _ _, EmptyString => false
  | String x r, String y s =>
      let n := nat_of_ascii x in let m := nat_of_ascii y in
      if (n <? m)%nat then true else if (m <? n)%nat then false else str_leb r s
  end.

Fixpoint insert_field (f: field) (l: list field) : list field :=
  match l with
  | [] => [f]
  | g :: r => if str_leb f.(f_name) g.(f_name) then f :: l else g :: insert_field f r end.
Definition sort_fields (l: list field) : list field := fold_right insert_field [] l.

Definition plan_fields (E: env) (m: mode) (bd: option dialect) (c: cls) : list fplan :=
  let g := c.(c_cfg) in
  let nocopy := eff_no_copy m bd g in
  let fs := if g.(g_sort_keys) then sort_fields c.(c_fields) else c.(c_fields) in
  map (fun f => {| p_name := f.(f_name); p_alias := f.(f_alias);
                   p_nullable := field_nullable f;
                   p_enc := cp E m.(m_static) nocopy g false f.(f_ty);
                   p_default := f.(f_default) |})
      (filter (fun f => negb f.(f_omit)) fs).

(* builder.py:891-898 *)
Definition use_kwargs_form (ps: list fplan) (omit_none omit_none_feature by_alias_feature omit_default: bool) : bool :=
  existsb (fun p => p.(p_nullable) && negb (is_id p.(p_enc))) ps
  || (existsb p_nullable ps && (omit_none || omit_none_feature))
  || (by_alias_feature && existsb (fun p => match p.(p_alias) with Some _ => true | None => false end) ps)
  || omit_default.

(* ------------------------------------------------------------------ *)
(* value interpreter *)
Definition lit_val (l: lit) : pv :=
  match l with
  | LInt z => VInt z | LStr s => VStr s | LBool b => VBool b | LNone => VNone
  | LBytes b => VBytes false b | LEnum e m => VEnum e m end.

Definition obj_field (fs: list (string * pv)) (n: string) : res pv :=
  match assoc fs n with Some v => Ok v | None => Exn XAttributeError end.

Section Run.
  Variable E : env.
  Variable o : oracle.
  Variable m : mode.
  Variable enum_value : string -> string -> option pv.   (* enum class, member -> value *)

  Definition try_each {A} (f: A -> res pv) : list A -> option pv :=
    fix go (l: list A) : option pv :=
      match l with
      | [] => None
      | x :: r => match f x with Ok y => Some y | Exn _ => go r end
      end.

  (* key under which a field is emitted *)
  Definition emit_key (g: config) (static_by_alias: bool) (kv: kwvals) (p: fplan) : string :=
    match p.(p_alias) with
    | Some a => if g.(g_flag_by_alias) then (if kv.(k_by_alias) then a else p.(p_name))
                else if static_by_alias then a else p.(p_name)
    | None => p.(p_name) end.

  (* set(key, packed, omit_default): `if value != default:` guard on the raw value *)
  Definition guarded (od: bool) (dflt: fdefault) (raw: pv) : bool :=
    if od then
      match default_value dflt with
      | Some (VFloat FNan) => match raw with VFloat FNan => false | _ => true end   (* not isnan(value) *)
      | Some d => negb (py_eq raw d)
      | None => true end
    else true.

  Fixpoint pk (v: pv) {struct v} : kwvals -> option string -> penc -> res pv :=
    fun kv hold =>
    fix on_e (e: penc) {struct e} : res pv :=
      match e with
      | EId => Ok v
      | EPrim p => apply_pprim o p v
      | EB64 => match v with
                | VBytes _ b => Ok (VStr (o.(o_b64enc) b))
                | _ => o.(o_call) "encodebytes" v end
      | EEnumValue => match v with
                      | VEnum en mn => match enum_value en mn with Some x => Ok x | None => Exn (XOther "enum") end
                      | _ => o.(o_call) "value" v end
      | EOpt e' => if is_none v then Ok VNone else on_e e'
      | ECopyList => match v with
                     | VList l => Ok (VList l)
                     | _ => o.(o_call) "copy" v end
      | ECopyDict => match v with
                     | VDict kvs => Ok (VDict kvs)
                     | _ => o.(o_call) "copy" v end
      | EByRef => Ok v
      | EListComp e' =>
          match v with
          | VList l | VTuple l | VSet _ l | VNT _ l =>
              r <- mapM (fun x => pk x kv hold e') l ;; Ok (VList r)
          | VStr _ | VBytes _ _ | VDict _ => o.(o_call) "iter-nonconforming" v
          | _ => Exn XTypeError end
      | EDictComp ke ve =>
          match v with
          | VDict kvs =>
              r <- mapM (fun p => match p with (k, x) =>
                                    k' <- pk k kv hold ke ;; x' <- pk x kv hold ve ;;
                                    if hashable k' then Ok (k', x') else Exn XTypeError end) kvs ;;
              Ok (VDict (dict_of_pairs r))
          | _ => Exn XAttributeError end
      | ETupleFix es =>
          match v with
          | VList l | VTuple l | VNT _ l =>
              r <- (fix go (es: list penc) (l: list pv) {struct l} : res (list pv) :=
                      match es, l with
                      | [], _ => Ok []
                      | _ :: _, [] => Exn XIndexError
                      | e' :: es', x :: l' =>
                          y <- pk x kv hold e' ;; ys <- go es' l' ;; Ok (y :: ys)
                      end) es l ;;
              Ok (VList r)
          | VStr _ | VBytes _ _ | VDict _ => o.(o_call) "index-nonconforming" v
          | _ => match es with [] => Ok (VList []) | _ => Exn XTypeError end end
      | EUnion idcls tries =>
          if existsb (fun s => exact_scalar s v) idcls then Ok v
          else
            match (fix go (l: list penc) : option pv :=
                     match l with
                     | [] => None
                     | e' :: r => match on_e e' with Ok y => Some y | Exn _ => go r end
                     end) tries with
            | Some y => Ok y
            | None => if m.(m_static) then Exn XValueError
                      else Exn (XInvalidFieldValue "" v (opt_default hold "")) end
      | ELit cases =>
          (fix go (l: list (lit * penc)) : res pv :=
             match l with
             | [] => if m.(m_static) then Exn XValueError
                     else Exn (XInvalidFieldValue "" v (opt_default hold ""))
             | (lt, e') :: r => if py_eq v (lit_val lt) then on_e e' else go r
             end) cases
      | EData c w =>
          match v with
          | VObj c' fs =>
              (* mixin: dynamic dispatch on the class of the value; codec: static *)
              let cn := if m.(m_static) then c else c' in
              match find_cls E cn with
              | None => Exn XAttributeError
              | Some k =>
                  let g := k.(c_cfg) in
                  (* keyword arguments received by the callee *)
                  let a_on := if w.(w_omit_none) then Some kv.(k_omit_none) else None in
                  let a_ba := if w.(w_by_alias) then Some kv.(k_by_alias) else None in
                  let a_dl := if w.(w_dialect) then kv.(k_dialect) else None in
                  let a_cx := if w.(w_context) then kv.(k_context) else None in
                  (* default method: its own keyword defaults come from the dialect-less lookup *)
                  let on0 := opt_default a_on (eff_omit_none m None g) in
                  let ba0 := opt_default a_ba (eff_by_alias m None g) in
                  (* `if dialect is None` dispatch to the dialect-specific method, which receives the
                     default method's resolved flags explicitly *)
                  let bd := if g.(g_flag_dialect) then a_dl else None in
                  let omit_none := eff_omit_none m bd g in
                  let omit_default := eff_omit_default m bd g in
                  let sba := eff_by_alias m bd g in
                  let on_feature := g.(g_flag_omit_none) in
                  let kv' := {| k_omit_none := if on_feature then on0 else omit_none;
                                k_by_alias := ba0;
                                k_dialect := bd;
                                k_context := a_cx |} in
                  let ps := plan_fields E m bd k in
                  let kwform := use_kwargs_form ps omit_none on_feature g.(g_flag_by_alias) omit_default in
                  r <- (fix go (ps: list fplan) : res (list (pv * pv)) :=
                          match ps with
                          | [] => Ok []
                          | p :: rest =>
                              match assoc fs p.(p_name) with
                              | None => Exn XAttributeError
                              | Some x =>
                                  let key := VStr (emit_key g sba kv' p) in
                                  if negb kwform then
                                    (* dict literal {key: packer(self.f)} *)
                                    y <- (fix fv (fs: list (string * pv)) : res pv :=
                                            match fs with
                                            | [] => Exn XAttributeError
                                            | (n, x') :: fr => if String.eqb n p.(p_name)
                                                               then pk x' kv' (Some cn) p.(p_enc) else fv fr
                                            end) fs ;;
                                    tl <- go rest ;; Ok ((key, y) :: tl)
                                  else
                                    let dn := default_is_none p.(p_default) in
                                    let packed :=
                                        (fix fv (fs: list (string * pv)) : res pv :=
                                           match fs with
                                           | [] => Exn XAttributeError
                                           | (n, x') :: fr => if String.eqb n p.(p_name)
                                                              then pk x' kv' (Some cn) p.(p_enc) else fv fr
                                           end) fs in
                                    if p.(p_nullable) then
                                      if is_id p.(p_enc) && negb omit_none && negb on_feature && negb (omit_default && dn)
                                      then
                                        tl <- go rest ;;
                                        Ok (if guarded omit_default p.(p_default) x then (key, x) :: tl else tl)
                                      else if negb (is_none x) then
                                        y <- packed ;; tl <- go rest ;;
                                        Ok (if guarded (omit_default && negb dn) p.(p_default) x then (key, y) :: tl else tl)
                                      else if omit_none && negb on_feature then go rest
                                      else if omit_default && dn then go rest
                                      else if on_feature then
                                        tl <- go rest ;;
                                        Ok (if negb kv'.(k_omit_none) then (key, VNone) :: tl else tl)
                                      else tl <- go rest ;; Ok ((key, VNone) :: tl)
                                    else
                                      y <- packed ;; tl <- go rest ;;
                                      Ok (if guarded omit_default p.(p_default) x then (key, y) :: tl else tl)
                              end
                          end) ps ;;
                  Ok (VDict (dict_of_pairs r))
              end
          | _ => Exn XAttributeError
          end
      end.
End Run.
