(* C08 - kernel K14 (VerifGen.K14, translated from pack_dataclass on this run): the builder created
   for a nested dataclass without a to_dict method receives the compiling builder's own default
   dialect and dialect; the owner's Config.dialect is never handed down. *)
From Coq Require Import List String Ascii ZArith Bool.
From Verif Require Import Regex PyK OptProj OptNested OptEnc.
From VerifGen Require Import K14.
Import ListNotations.
Open Scope string_scope.

Theorem K14_passdown_lemma : forall dd d cd ta : kv,
  nested_default_dialect dd d cd ta = Ok dd /\ nested_dialect dd d cd ta = Ok d.
Proof. intros. split; reflexivity. Qed.

(* OptNested.pass_dd is the translated argument *)
Theorem K14_pass_dd_lemma : forall (dd d cd: option ns) (ta: kv),
  nested_default_dialect (enc_ons dd) (enc_ons d) (enc_ons cd) ta = Ok (enc_ons (pass_dd dd d cd)).
Proof. intros. reflexivity. Qed.
