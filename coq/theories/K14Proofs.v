(* C08 - kernel K14 (VerifGen.K14, translated from pack_dataclass on this run): the builder created
   for a nested dataclass without a to_dict method receives the compiling builder's own default
   dialect (the owner's Config.dialect is never handed down) and, as dialect, None under a mixin
   builder / the builder's dialect under a codec builder. *)
From Coq Require Import List String Ascii ZArith Bool.
From Verif Require Import Regex PyK OptProj OptNested OptEnc.
From VerifGen Require Import K14.
Import ListNotations.
Open Scope string_scope.

Theorem K14_passdown_lemma : forall dd d cd ta nailed : kv,
  nested_default_dialect dd d cd ta nailed = Ok dd /\
  nested_dialect dd d cd ta nailed = Ok (if k_truthy nailed then KNone else d).
Proof.
  intros. split; [reflexivity|]. unfold nested_dialect. cbn. destruct (k_truthy nailed); reflexivity.
Qed.

(* OptNested.pass_dd / pass_dialect are the translated arguments *)
Theorem K14_pass_dd_lemma : forall (dd d cd: option ns) (ta: kv) (nailed: bool),
  nested_default_dialect (enc_ons dd) (enc_ons d) (enc_ons cd) ta (KBool nailed) = Ok (enc_ons (pass_dd dd d cd)) /\
  nested_dialect (enc_ons dd) (enc_ons d) (enc_ons cd) ta (KBool nailed) = Ok (enc_ons (pass_dialect nailed d)).
Proof.
  intros. destruct (K14_passdown_lemma (enc_ons dd) (enc_ons d) (enc_ons cd) ta (KBool nailed)) as [H1 H2].
  split; [exact H1|]. rewrite H2. cbn. destruct nailed; reflexivity.
Qed.
