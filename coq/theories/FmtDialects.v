(* C04: the merge clause of the format model (Fmt.eff_id / Fmt.eff_lsem) tied to Dialect.merge:
   - strategy maps: the hand model of the strategy loops of Dialect.merge (DialectMerge.merge_strategies,
     itself compared with /repo by C13's correspondence) yields exactly Fmt.eff_id per type and direction;
   - options: the option loop of Dialect.merge as translated from /repo on this run (VerifGen.K2) keeps the
     format dialect's omit_none when the caller's dialect does not set it. *)
From Coq Require Import List String Ascii ZArith Bool Lia.
From Verif Require Import Regex PyK Fmt DialectMerge.
From VerifGen Require Import K2 K13.
Import ListNotations.
Open Scope string_scope.

Definition enc_entry (e: sentry) : sval :=
  match e with
  | EObj i => SStrat i
  | EDict s d => SDict ((match s with Some f => [("serialize", f)] | None => [] end) ++
                        (match d with Some f => [("deserialize", f)] | None => [] end))
  end.

Definition id_of_eff (e: eff) : option nat :=
  match e with EStrat i | EFun i => Some i | ENone => None end.

Definition dir_name (ser: bool) : string := if ser then "serialize" else "deserialize".

(* per key: Dialect.merge's combination rule is Fmt.eff_id *)
Lemma spec_is_eff_id cv ov ser :
  id_of_eff (strategy_spec (option_map enc_entry cv) (option_map enc_entry ov) (dir_name ser)) = eff_id cv ov ser.
Proof.
  destruct cv as [[i|[s|] [d|]]|]; destruct ov as [[j|[s'|] [d'|]]|]; destruct ser; reflexivity.
Qed.

Definition enc_map (l: list (nat * sentry)) : smap := map (fun kv => (fst kv, enc_entry (snd kv))) l.

Fixpoint nlookup (l: list (nat * sentry)) (k: nat) : option sentry :=
  match l with [] => None | (k', e) :: r => if Nat.eqb k' k then Some e else nlookup r k end.

Lemma sm_get_enc l k : sm_get (enc_map l) k = option_map enc_entry (nlookup l k).
Proof.
  induction l as [|[k' e] r IH]; simpl; [reflexivity|].
  unfold sm_get in *. simpl. destruct (Nat.eqb k' k); [reflexivity | exact IH].
Qed.

Lemma map_fst_enc l : map fst (enc_map l) = map fst l.
Proof. induction l as [|[k e] r IH]; simpl; [reflexivity | rewrite IH; reflexivity]. Qed.

Lemma enc_entry_nodup e ent : enc_entry e = SDict ent -> NoDup (map fst ent).
Proof.
  destruct e as [i|[s|] [d|]]; simpl; intro H; inversion H; subst; simpl.
  - constructor; [simpl; intros [E|[]]; discriminate | constructor; [intros [] | constructor]].
  - constructor; [intros [] | constructor].
  - constructor; [intros [] | constructor].
  - constructor.
Qed.

(* merge(format dialect, caller's dialect), strategy part: what is in force per type and direction *)
Theorem merge_strategies_is_eff_id c o k ser :
  NoDup (map fst c) -> NoDup (map fst o) ->
  id_of_eff (effective (sm_get (merge_strategies (enc_map c) (enc_map o)) k) (dir_name ser))
  = eff_id (nlookup c k) (nlookup o k) ser.
Proof.
  intros NC NO.
  rewrite merge_strategies_effective.
  - rewrite !sm_get_enc. apply spec_is_eff_id.
  - rewrite map_fst_enc. exact NC.
  - rewrite map_fst_enc. exact NO.
  - intros e He. rewrite sm_get_enc in He. destruct (nlookup o k) as [x|]; [|discriminate].
    simpl in He. inversion He. eapply enc_entry_nodup. eassumption.
Qed.

(* merge(format dialect, caller's dialect), option part, over the code translated on this run:
   a caller's dialect that does not set omit_none leaves the format's omit_none in force
   (TOML keeps dropping None under `dialect=` / `default_dialect=`) *)
Theorem merge_keeps_format_omit_none a b n :
  has_keys merge_loop_keys a -> has_keys merge_loop_keys b ->
  option_of b "omit_none" = KMissing ->
  exists r, merge_options (KNs a) (KNs b) (KNs n) = PyK.Ok (KNs r)
            /\ option_of r "omit_none" = option_of a "omit_none".
Proof.
  intros Ha Hb Hm.
  destruct (merge_total_five a b n "omit_none" Ha Hb) as [r [E Hr]].
  { simpl. tauto. }
  exists r. split; [exact E|]. rewrite Hr, Hm. reflexivity.
Qed.

(* ... and one that sets it wins *)
Theorem merge_user_omit_none_wins a b n v :
  has_keys merge_loop_keys a -> has_keys merge_loop_keys b ->
  option_of b "omit_none" = KBool v ->
  exists r, merge_options (KNs a) (KNs b) (KNs n) = PyK.Ok (KNs r)
            /\ option_of r "omit_none" = KBool v.
Proof.
  intros Ha Hb Hm.
  destruct (merge_total_five a b n "omit_none" Ha Hb) as [r [E Hr]].
  { simpl. tauto. }
  exists r. split; [exact E|]. rewrite Hr, Hm. reflexivity.
Qed.
