(* Proofs about the C19 trace model (Hooks.v). *)
From Coq Require Import List Arith Bool Lia.
From Verif Require Import Hooks.
Import ListNotations.

(* ---------------------------------------------------------------- induction principles *)
Section ValInd.
  Variable P : val -> Prop.
  Hypothesis HInt : P VInt.
  Hypothesis HNone : P VNone.
  Hypothesis HInst : forall c i j fs, Forall (fun kx => P (snd kx)) fs -> P (VInst c i j fs).
  Hypothesis HList : forall l, Forall P l -> P (VList l).
  Fixpoint val_ind' (v: val) : P v :=
    match v with
    | VInt => HInt
    | VNone => HNone
    | VInst c i j fs =>
        HInst c i j fs
          ((fix go (l: list (nat * val)) : Forall (fun kx => P (snd kx)) l :=
              match l with
              | [] => Forall_nil _
              | kx :: r => Forall_cons kx (match kx return P (snd kx) with (k, x) => val_ind' x end) (go r)
              end) fs)
    | VList l =>
        HList l ((fix go (l: list val) : Forall P l :=
                    match l with [] => Forall_nil _ | x :: r => Forall_cons x (val_ind' x) (go r) end) l)
    end.
End ValInd.

Section WireInd.
  Variable P : wire -> Prop.
  Hypothesis HInt : P WInt.
  Hypothesis HNone : P WNone.
  Hypothesis HDict : forall tg kvs, Forall (fun kx => P (snd kx)) kvs -> P (WDict tg kvs).
  Hypothesis HList : forall l, Forall P l -> P (WList l).
  Fixpoint wire_ind' (w: wire) : P w :=
    match w with
    | WInt => HInt
    | WNone => HNone
    | WDict tg kvs =>
        HDict tg kvs
          ((fix go (l: list (nat * wire)) : Forall (fun kx => P (snd kx)) l :=
              match l with
              | [] => Forall_nil _
              | kx :: r => Forall_cons kx (match kx return P (snd kx) with (k, x) => wire_ind' x end) (go r)
              end) kvs)
    | WList l =>
        HList l ((fix go (l: list wire) : Forall P l :=
                    match l with [] => Forall_nil _ | x :: r => Forall_cons x (wire_ind' x) (go r) end) l)
    end.
End WireInd.

(* ---------------------------------------------------------------- unfolding equations *)
Section Eqs.
  Variable E : env.
  Variable stubs : bool.
  Notation pack := (pack E stubs).

  Definition subs_of (m: mode) (fs: list (nat * val)) : list (nat * sub) :=
    map (fun kx => match kx with (k, x) => (k, pack m x) end) fs.

  Lemma pack_TInt m v pc px k : pack m v TInt pc px k = ok_ [].
  Proof. destruct v; reflexivity. Qed.
  Lemma pack_TOpt m v t pc px k :
    pack m v (TOpt t) pc px k = match v with VNone => ok_ [] | _ => pack m v t pc px k end.
  Proof. destruct v; reflexivity. Qed.
  Lemma pack_TList m v t pc px k :
    pack m v (TList t) pc px k = match v with
                              | VList l => seqM (map (fun x => pack m x t pc px k) l)
                              | _ => fail_ end.
  Proof. destruct v; reflexivity. Qed.
  Lemma pack_TDc m cr i j fs c pc px k :
    pack m (VInst cr i j fs) (TDc c) pc px k =
    match m with
    | Mixin => call_mixin E stubs (pc && c_ctx (cls E c)) (xf_and px (c_xf (cls E c))) k cr i j (subs_of m fs)
    | Codec => call_codec E stubs c cr i j (subs_of m fs) end.
  Proof. reflexivity. Qed.
  Lemma pack_TDisc m v p wf sup pc px k : pack m v (TDisc p wf sup) pc px k = pack m v (TDc p) pc px k.
  Proof. destruct v; reflexivity. Qed.
  Lemma pack_TUnion m cr i j fs cs pc px k :
    pack m (VInst cr i j fs) (TUnion cs) pc px k =
    match m with
    | Mixin => try_each (map (fun a => call_mixin E stubs (fst a) (snd a) k cr i j (subs_of m fs))
                             (dedup_pf (map (fun c => (pc && c_ctx (cls E c), xf_and px (c_xf (cls E c)))) cs) []))
    | Codec => try_each (map (fun c => call_codec E stubs c cr i j (subs_of m fs)) (dedup_nat cs []))
    end.
  Proof. reflexivity. Qed.

  Variable allow : bool.
  Notation wt := (wt E allow).
  Definition wsubs_of (fs: list (nat * val)) : list (nat * subw) :=
    map (fun kx => match kx with (k, x) => (k, wt x) end) fs.
  Definition inst_ok (c cr i j: nat) (fs: list (nat * val)) : bool :=
    class_ok E allow cr c && nodupb (map fst fs) && (c_pre (cls E cr) || (i =? j))
    && all_fields (wsubs_of fs) (c_fields (cls E cr)).

  Lemma wt_TInt v : wt v TInt = match v with VInt => true | _ => false end.
  Proof. destruct v; reflexivity. Qed.
  Lemma wt_TOpt v t : wt v (TOpt t) = match v with VNone => true | _ => wt v t end.
  Proof. destruct v; reflexivity. Qed.
  Lemma wt_TList v t : wt v (TList t) = match v with VList l => forallb (fun x => wt x t) l | _ => false end.
  Proof. destruct v; reflexivity. Qed.
  Lemma wt_TDc v c : wt v (TDc c) = match v with VInst cr i j fs => inst_ok c cr i j fs | _ => false end.
  Proof. destruct v; reflexivity. Qed.
  Lemma wt_TDisc v p wf sup : wt v (TDisc p wf sup) = wt v (TDc p).
  Proof. destruct v; reflexivity. Qed.
  Lemma pack_TDiscU m v cs wf sb sp pc px k : pack m v (TDiscU cs wf sb sp) pc px k = pack m v (TUnion cs) pc px k.
  Proof. destruct v; reflexivity. Qed.
  Lemma wt_TDiscU v cs wf sb sp : wt v (TDiscU cs wf sb sp) = wt v (TUnion cs).
  Proof. destruct v; reflexivity. Qed.
  Lemma wt_TUnion v cs :
    wt v (TUnion cs) = match v with
                         | VInst cr i j fs => existsb (Nat.eqb cr) cs && inst_ok cr cr i j fs
                         | _ => false end.
  Proof. destruct v; reflexivity. Qed.
End Eqs.

(* ---------------------------------------------------------------- small facts *)
Lemma seq2_ok ta b : seq2 (true, ta) b = (fst b, ta ++ snd b).
Proof. destruct b; reflexivity. Qed.

Lemma assoc_map_nodup {A B} (g: A -> B) (fs: list (nat * A)) k x :
  nodupb (map fst fs) = true -> In (k, x) fs ->
  assoc k (map (fun kx => match kx with (k, x) => (k, g x) end) fs) = Some (g x).
Proof.
  induction fs as [|[k' x'] r IH]; simpl; intros Hn Hin; [contradiction|].
  apply andb_true_iff in Hn as [Hh Hr].
  destruct Hin as [Heq|Hin].
  - inversion Heq; subst. rewrite Nat.eqb_refl. reflexivity.
  - destruct (k =? k') eqn:Ek.
    + apply Nat.eqb_eq in Ek; subst k'.
      exfalso. apply negb_true_iff in Hh.
      assert (existsb (Nat.eqb k) (map fst r) = true) as Hc.
      { apply existsb_exists. exists k. split; [|apply Nat.eqb_refl].
        apply in_map_iff. exists (k, x). split; [reflexivity|assumption]. }
      congruence.
    + apply IH; assumption.
Qed.

Lemma env_uf_both E c : env_union_free E = true ->
  forallb (fun f => union_free (f_ty f)) (c_fields (cls E c)) = true /\ disc_det (cls E c) = true.
Proof.
  intros H. unfold cls.
  destruct (nth_in_or_default c E empty_class) as [Hin|Hd].
  - unfold env_union_free in H. rewrite forallb_forall in H. specialize (H _ Hin).
    apply andb_true_iff in H. exact H.
  - rewrite Hd. split; reflexivity.
Qed.
Lemma env_uf_fields E c : env_union_free E = true ->
  forallb (fun f => union_free (f_ty f)) (c_fields (cls E c)) = true.
Proof. intros H. apply (env_uf_both E c H). Qed.
Lemma env_uf_disc E c : env_union_free E = true -> disc_det (cls E c) = true.
Proof. intros H. apply (env_uf_both E c H). Qed.

Lemma xf_eqb_eq a b : xf_eqb a b = true -> a = b.
Proof.
  destruct a as [[a1 a2] a3], b as [[b1 b2] b3]. simpl. intros H.
  apply andb_true_iff in H as [H H3]. apply andb_true_iff in H as [H1 H2].
  apply eqb_prop in H1, H2, H3. subst. reflexivity.
Qed.
Lemma xf_le_and a b : xf_le (xf_and a b) b = true.
Proof. destruct a as [[a1 a2] a3], b as [[b1 b2] b3]. destruct a1, a2, a3, b1, b2, b3; reflexivity. Qed.
Lemma pf_eqb_eq a b : pf_eqb a b = true -> a = b.
Proof.
  destruct a as [a1 a2], b as [b1 b2]. unfold pf_eqb. simpl. intros H. apply andb_true_iff in H as [H1 H2].
  apply eqb_prop in H1. apply xf_eqb_eq in H2. subst. reflexivity.
Qed.
Lemma pf_eqb_refl a : pf_eqb a a = true.
Proof. destruct a as [a1 [[x1 x2] x3]]. unfold pf_eqb. simpl. destruct a1, x1, x2, x3; reflexivity. Qed.

Lemma dedup_pf_in (x: pf) : forall l seen, In x l -> In x (dedup_pf l seen) \/ existsb (pf_eqb x) seen = true.
Proof.
  induction l as [|a r IH]; intros seen Hin; [contradiction|]. simpl.
  destruct Hin as [Heq|Hin].
  - subst a. destruct (existsb (pf_eqb x) seen) eqn:Ex; [right; reflexivity|left; left; reflexivity].
  - destruct (existsb (pf_eqb a) seen) eqn:Ea.
    + apply IH. assumption.
    + destruct (IH (a :: seen) Hin) as [H|H].
      * left. right. assumption.
      * simpl in H. apply orb_true_iff in H as [H|H].
        -- apply pf_eqb_eq in H. subst a. left. left. reflexivity.
        -- right. assumption.
Qed.

Definition is_mixin (m: mode) : bool := match m with Mixin => true | Codec => false end.

Lemma if_same {A} (b: bool) (x: A) : (if b then x else x) = x.
Proof. destruct b; reflexivity. Qed.

Lemma early_fail_same stubs C : early_fail stubs C C = false.
Proof. unfold early_fail. destruct (c_post C); reflexivity. Qed.

(* ---------------------------------------------------------------- T1: union-free schemas, both paths *)
Section Trace.
  Variable E : env.
  Variable stubs : bool.
  Hypothesis HE : env_union_free E = true.

  Definition kcond (m: mode) (k: ctxtok) : Prop := m = Codec -> k = CNone.

  Definition good (m: mode) (x: val) : Prop :=
    forall t pc px k, union_free t = true -> wt E (is_mixin m) x t = true -> kcond m k ->
                   pack E stubs m x t pc px k = (true, trav E pc k x).

  Lemma fields_trace m (full: list (nat * sub)) pcc pxx ck :
    forall (fs: list (nat * val)) (fl: list field),
      (forall k x, In (k, x) fs -> assoc k full = Some (pack E stubs m x)) ->
      all_fields (wsubs_of E (is_mixin m) fs) fl = true ->
      Forall (fun kx => good m (snd kx)) fs ->
      forallb (fun f => union_free (f_ty f)) fl = true ->
      kcond m ck ->
      seqM (map (fun f => match assoc (f_name f) full with
                          | Some s => s (f_ty f) pcc pxx ck
                          | None => fail_ end) fl)
      = (true, flat_map (fun kx => match kx with (_, x) => trav E pcc ck x end) fs).
  Proof.
    induction fs as [|[k x] r IH]; intros fl Hfull Hall Hg Huf Hk.
    - destruct fl; [reflexivity|discriminate].
    - destruct fl as [|f fl']; [discriminate|].
      simpl in Hall. apply andb_true_iff in Hall as [Hh Hall]. apply andb_true_iff in Hh as [Hname Hwt].
      apply Nat.eqb_eq in Hname. subst k.
      simpl in Huf. apply andb_true_iff in Huf as [Huf1 Huf2].
      inversion Hg as [|? ? Hgx Hgr]; subst.
      simpl map. rewrite (Hfull (f_name f) x (or_introl eq_refl)).
      simpl seqM. simpl in Hgx. rewrite (Hgx (f_ty f) pcc pxx ck Huf1 Hwt Hk).
      rewrite seq2_ok.
      rewrite (IH fl'); auto.
      intros k0 x0 Hin. apply Hfull. right. assumption.
  Qed.

  Lemma list_trace m t pc px k :
    forall l, Forall (good m) l -> union_free t = true -> forallb (fun x => wt E (is_mixin m) x t) l = true -> kcond m k ->
      seqM (map (fun x => pack E stubs m x t pc px k) l) = (true, flat_map (trav E pc k) l).
  Proof.
    induction l as [|x r IH]; intros Hg Hu Hw Hk; [reflexivity|].
    inversion Hg; subst. simpl in Hw. apply andb_true_iff in Hw as [Hw1 Hw2].
    simpl. rewrite (H1 t pc px k Hu Hw1 Hk). rewrite seq2_ok. rewrite IH; auto.
  Qed.

  Lemma body_trace m cr i j fs kk ck :
    nodupb (map fst fs) = true ->
    (c_pre (cls E cr) || (i =? j)) = true ->
    all_fields (wsubs_of E (is_mixin m) fs) (c_fields (cls E cr)) = true ->
    Forall (fun kx => good m (snd kx)) fs ->
    kcond m ck ->
    body E stubs cr cr i j (subs_of E stubs m fs) kk ck
    = (true, (if c_pre (cls E cr) then [Pre cr i kk] else [])
             ++ flat_map (fun kx => match kx with (_, x) => trav E (c_ctx (cls E cr)) ck x end) fs
             ++ (if c_post (cls E cr) then [Post cr j kk] else [])).
  Proof.
    intros Hnd Hij Hall Hg Hk. unfold body. rewrite early_fail_same.
    rewrite (fields_trace m (subs_of E stubs m fs) (c_ctx (cls E cr)) (c_xf (cls E cr)) ck fs (c_fields (cls E cr))); auto.
    - assert ((if c_pre (cls E cr) then j else i) = j) as Hj.
      { destruct (c_pre (cls E cr)); [reflexivity|]. simpl in Hij. apply Nat.eqb_eq in Hij. assumption. }
      rewrite Hj.
      destruct (c_pre (cls E cr)), (c_post (cls E cr)); simpl; rewrite ?app_nil_r; reflexivity.
    - intros k x Hin. unfold subs_of. apply assoc_map_nodup; assumption.
    - apply env_uf_fields. assumption.
  Qed.

  Lemma class_ok_ctx a cr c : class_ok E a cr c = true -> c_ctx (cls E c) = c_ctx (cls E cr).
  Proof.
    unfold class_ok. intros H. apply orb_true_iff in H as [H|H].
    - apply Nat.eqb_eq in H. subst. reflexivity.
    - apply andb_true_iff in H as [_ H]. apply eqb_prop in H. symmetry. exact H.
  Qed.
  Lemma class_ok_xf a cr c : class_ok E a cr c = true -> c_xf (cls E c) = c_xf (cls E cr).
  Proof.
    unfold class_ok. intros H. apply orb_true_iff in H as [H|H].
    - apply Nat.eqb_eq in H. subst. reflexivity.
    - apply andb_true_iff in H as [H _]. apply andb_true_iff in H as [_ H]. apply xf_eqb_eq in H. symmetry. exact H.
  Qed.
  Lemma call_ok pc px cr :
    (pc && c_ctx (cls E cr) && negb (c_ctx (cls E cr))) || negb (xf_le (xf_and px (c_xf (cls E cr))) (c_xf (cls E cr))) = false.
  Proof. rewrite xf_le_and. destruct pc, (c_ctx (cls E cr)); reflexivity. Qed.
  Lemma class_ok_exact cr c : class_ok E false cr c = true -> cr = c.
  Proof.
    unfold class_ok. intros H. apply orb_true_iff in H as [H|H].
    - apply Nat.eqb_eq in H. exact H.
    - discriminate.
  Qed.

  Lemma inst_trace m c i j fs :
    Forall (fun kx => good m (snd kx)) fs ->
    forall c0 pc px k, wt E (is_mixin m) (VInst c i j fs) (TDc c0) = true -> kcond m k ->
      pack E stubs m (VInst c i j fs) (TDc c0) pc px k = (true, trav E pc k (VInst c i j fs)).
  Proof.
    intros H c0 pc px k Hw Hk.
    rewrite wt_TDc in Hw. unfold inst_ok in Hw.
    apply andb_true_iff in Hw as [Hw Hall]. apply andb_true_iff in Hw as [Hw Hij].
    apply andb_true_iff in Hw as [Hc Hnd].
    rewrite pack_TDc. destruct m.
    - rewrite (class_ok_ctx _ _ _ Hc), (class_ok_xf _ _ _ Hc). unfold call_mixin.
      rewrite call_ok. rewrite body_trace; auto.
      intros Hm; discriminate.
    - apply class_ok_exact in Hc. subst c0.
      unfold call_codec. rewrite (Hk eq_refl). rewrite body_trace; auto.
      + simpl trav. rewrite if_same. reflexivity.
      + intros _. reflexivity.
  Qed.

  Theorem pack_trav m : forall v, good m v.
  Proof.
    induction v using val_ind'; unfold good.
    - (* VInt *)
      induction t; intros pc px k Hu Hw Hk.
      + reflexivity.
      + rewrite wt_TDc in Hw; discriminate.
      + rewrite wt_TList in Hw; discriminate.
      + rewrite wt_TOpt in Hw. rewrite pack_TOpt. apply IHt; assumption.
      + discriminate.
      + rewrite wt_TDisc, wt_TDc in Hw; discriminate.
      + discriminate.
    - (* VNone *)
      induction t; intros pc px k Hu Hw Hk.
      + rewrite wt_TInt in Hw; discriminate.
      + rewrite wt_TDc in Hw; discriminate.
      + rewrite wt_TList in Hw; discriminate.
      + rewrite pack_TOpt. reflexivity.
      + discriminate.
      + rewrite wt_TDisc, wt_TDc in Hw; discriminate.
      + discriminate.
    - (* VInst *)
      induction t; intros pc px k Hu Hw Hk.
      + rewrite wt_TInt in Hw; discriminate.
      + apply inst_trace; assumption.
      + rewrite wt_TList in Hw; discriminate.
      + rewrite wt_TOpt in Hw. rewrite pack_TOpt. apply IHt; assumption.
      + discriminate.
      + rewrite wt_TDisc in Hw. rewrite pack_TDisc. apply inst_trace; assumption.
      + discriminate.
    - (* VList *)
      induction t; intros pc px k Hu Hw Hk.
      + rewrite wt_TInt in Hw; discriminate.
      + rewrite wt_TDc in Hw; discriminate.
      + rewrite wt_TList in Hw. rewrite pack_TList. simpl trav.
        apply list_trace; assumption.
      + rewrite wt_TOpt in Hw. rewrite pack_TOpt. apply IHt; assumption.
      + discriminate.
      + rewrite wt_TDisc, wt_TDc in Hw; discriminate.
      + discriminate.
  Qed.
End Trace.

(* ---------------------------------------------------------------- T3: the context token reaches opted-in nodes *)
Inductive onpath (E: env) : bool -> val -> nat -> nat -> nat -> Prop :=
| onpath_here c i j fs : c_ctx (cls E c) = true -> onpath E true (VInst c i j fs) c i j
| onpath_field c i j fs n x c' i' j' :
    c_ctx (cls E c) = true -> In (n, x) fs -> onpath E true x c' i' j' ->
    onpath E true (VInst c i j fs) c' i' j'
| onpath_list pc l x c' i' j' : In x l -> onpath E pc x c' i' j' -> onpath E pc (VList l) c' i' j'.

Lemma ctx_reaches E k v pc c i j :
  onpath E pc v c i j -> pc = true ->
  (c_pre (cls E c) = true -> In (Pre c i k) (trav E true k v)) /\
  (c_post (cls E c) = true -> In (Post c j k) (trav E true k v)).
Proof.
  induction 1 as [c i j fs Hc | c i j fs n x c' i' j' Hc Hin Hp IH | pc l x c' i' j' Hin Hp IH]; intros Hpc.
  - simpl. rewrite Hc. simpl. split; intros Hh; rewrite Hh.
    + left. reflexivity.
    + apply in_or_app. right. apply in_or_app. right. left. reflexivity.
  - destruct (IH eq_refl) as [IH1 IH2]. simpl. rewrite Hc. simpl.
    assert (forall e, In e (trav E true k x) ->
              In e (flat_map (fun kx : nat * val => let (_, x0) := kx in trav E true k x0) fs)) as Hsub.
    { intros e He. apply in_flat_map. exists (n, x). split; assumption. }
    split; intros Hh; apply in_or_app; right; apply in_or_app; left; apply Hsub; auto.
  - subst pc. destruct (IH eq_refl) as [IH1 IH2]. simpl.
    split; intros Hh; apply in_flat_map; exists x; split; auto.
Qed.

(* ---------------------------------------------------------------- T2: mixin path, arbitrary unions of dataclasses:
   every hook exactly once and in order (contexts erased) *)
Lemma dedup_bool_in b : forall l st sf,
  In b l -> In b (dedup_bool l st sf) \/ (if b then st else sf) = true.
Proof.
  induction l as [|a r IH]; intros st sf Hin; [contradiction|].
  destruct Hin as [Heq|Hin].
  - subst a. destruct b; simpl.
    + destruct st; [right; reflexivity|left; left; reflexivity].
    + destruct sf; [right; reflexivity|left; left; reflexivity].
  - destruct a; simpl.
    + destruct st.
      * apply IH; assumption.
      * destruct (IH true sf Hin) as [H|H].
        -- left. right. assumption.
        -- destruct b; [left; left; reflexivity|right; assumption].
    + destruct sf.
      * apply IH; assumption.
      * destruct (IH st true Hin) as [H|H].
        -- left. right. assumption.
        -- destruct b; [right; assumption|left; left; reflexivity].
Qed.

Lemma try_each_erased (X: list ev) : forall l,
  (forall a, In a l -> a = (false, []) \/ (fst a = true /\ map erase (snd a) = X)) ->
  (exists a, In a l /\ fst a = true) ->
  fst (try_each l) = true /\ map erase (snd (try_each l)) = X.
Proof.
  induction l as [|a r IH]; intros Hall [a0 [Hin Hok]]; [contradiction|].
  destruct (Hall a (or_introl eq_refl)) as [Hf|[Ht Hx]].
  - subst a. simpl. destruct Hin as [Heq|Hin]; [subst a0; discriminate|].
    destruct (IH (fun a Ha => Hall a (or_intror Ha)) (ex_intro _ a0 (conj Hin Hok))) as [H1 H2].
    destruct (try_each r) as [ok tb]. simpl in *. split; assumption.
  - destruct a as [ok ta]. simpl in Ht. subst ok. simpl. split; [reflexivity|assumption].
Qed.

Lemma map_erase_flat_map {A} (f g: A -> list ev) (l: list A) :
  Forall (fun x => map erase (f x) = map erase (g x)) l ->
  map erase (flat_map f l) = map erase (flat_map g l).
Proof.
  induction 1; simpl; [reflexivity|]. rewrite !map_app. congruence.
Qed.

Section Once.
  Variable E : env.
  Variable stubs : bool.

  Definition good1 (x: val) : Prop :=
    forall t pc px k, wt E true x t = true ->
      fst (pack E stubs Mixin x t pc px k) = true /\
      map erase (snd (pack E stubs Mixin x t pc px k)) = map erase (trav E pc k x).

  (* erased reference traversal does not depend on the context parameters *)
  Lemma trav_erase_indep : forall v pc k pc' k', map erase (trav E pc k v) = map erase (trav E pc' k' v).
  Proof.
    induction v using val_ind'; intros pc k pc' k'; try reflexivity.
    - simpl. rewrite !map_app.
      f_equal; [destruct (c_pre (cls E c)); reflexivity|].
      f_equal; [|destruct (c_post (cls E c)); reflexivity].
      apply map_erase_flat_map.
      eapply Forall_impl; [|exact H]. intros [n x] Hx. simpl in *. apply Hx.
    - simpl. apply map_erase_flat_map.
      eapply Forall_impl; [|exact H]. intros x Hx. apply Hx.
  Qed.

  Lemma fields_once (full: list (nat * sub)) pcc pxx ck :
    forall (fs: list (nat * val)) (fl: list field),
      (forall k x, In (k, x) fs -> assoc k full = Some (pack E stubs Mixin x)) ->
      all_fields (wsubs_of E true fs) fl = true ->
      Forall (fun kx => good1 (snd kx)) fs ->
      let r := seqM (map (fun f => match assoc (f_name f) full with
                                   | Some s => s (f_ty f) pcc pxx ck
                                   | None => fail_ end) fl) in
      fst r = true /\
      map erase (snd r) = map erase (flat_map (fun kx => match kx with (_, x) => trav E pcc ck x end) fs).
  Proof.
    induction fs as [|[k x] r IH]; intros fl Hfull Hall Hg.
    - destruct fl; [split; reflexivity|discriminate].
    - destruct fl as [|f fl']; [discriminate|].
      simpl in Hall. apply andb_true_iff in Hall as [Hh Hall]. apply andb_true_iff in Hh as [Hname Hwt].
      apply Nat.eqb_eq in Hname. subst k.
      inversion Hg as [|? ? Hgx Hgr]; subst.
      simpl map. rewrite (Hfull (f_name f) x (or_introl eq_refl)).
      simpl seqM. simpl in Hgx. destruct (Hgx (f_ty f) pcc pxx ck Hwt) as [H1 H2].
      destruct (pack E stubs Mixin x (f_ty f) pcc pxx ck) as [ok ta]. simpl in H1, H2. subst ok.
      rewrite seq2_ok.
      destruct (IH fl') as [H3 H4]; auto.
      { intros k0 x0 Hin. apply Hfull. right. assumption. }
      simpl. split; [assumption|]. rewrite !map_app. rewrite H2, H4. reflexivity.
  Qed.

  Lemma list_once t pc px k :
    forall l, Forall good1 l -> forallb (fun x => wt E true x t) l = true ->
      let r := seqM (map (fun x => pack E stubs Mixin x t pc px k) l) in
      fst r = true /\ map erase (snd r) = map erase (flat_map (trav E pc k) l).
  Proof.
    induction l as [|x r IH]; intros Hg Hw; [split; reflexivity|].
    inversion Hg; subst. simpl in Hw. apply andb_true_iff in Hw as [Hw1 Hw2].
    simpl. destruct (H1 t pc px k Hw1) as [Ha Hb].
    destruct (pack E stubs Mixin x t pc px k) as [ok ta]. simpl in Ha, Hb. subst ok.
    rewrite seq2_ok. destruct (IH H2 Hw2) as [Hc Hd]. simpl. split; [assumption|].
    rewrite !map_app. rewrite Hb, Hd. reflexivity.
  Qed.

  Lemma body_once cr i j fs kk ck pc k :
    nodupb (map fst fs) = true ->
    (c_pre (cls E cr) || (i =? j)) = true ->
    all_fields (wsubs_of E true fs) (c_fields (cls E cr)) = true ->
    Forall (fun kx => good1 (snd kx)) fs ->
    let r := body E stubs cr cr i j (subs_of E stubs Mixin fs) kk ck in
    fst r = true /\ map erase (snd r) = map erase (trav E pc k (VInst cr i j fs)).
  Proof.
    intros Hnd Hij Hall Hg. unfold body. rewrite early_fail_same.
    destruct (fields_once (subs_of E stubs Mixin fs) (c_ctx (cls E cr)) (c_xf (cls E cr)) ck fs (c_fields (cls E cr))) as [H1 H2]; auto.
    { intros k0 x Hin. unfold subs_of. apply assoc_map_nodup; assumption. }
    match goal with |- context [seqM ?l] => destruct (seqM l) as [ok tf] end.
    simpl in H1, H2. subst ok.
    assert ((if c_pre (cls E cr) then j else i) = j) as Hj.
    { destruct (c_pre (cls E cr)); [reflexivity|]. simpl in Hij. apply Nat.eqb_eq in Hij. assumption. }
    rewrite Hj. simpl trav.
    set (kin := if pc && c_ctx (cls E cr) then k else CNone).
    assert (map erase tf = map erase (flat_map (fun kx : nat * val => let (_, x) := kx in trav E (c_ctx (cls E cr)) kin x) fs)) as H3.
    { rewrite H2. apply map_erase_flat_map. apply Forall_forall. intros [n x] _. apply trav_erase_indep. }
    destruct (c_pre (cls E cr)), (c_post (cls E cr)); simpl; rewrite ?app_nil_r, ?map_app; simpl;
      rewrite ?H3; split; reflexivity.
  Qed.

  Lemma inst_once c i j fs :
    Forall (fun kx => good1 (snd kx)) fs ->
    forall c0 pc px k, wt E true (VInst c i j fs) (TDc c0) = true ->
      fst (pack E stubs Mixin (VInst c i j fs) (TDc c0) pc px k) = true /\
      map erase (snd (pack E stubs Mixin (VInst c i j fs) (TDc c0) pc px k)) = map erase (trav E pc k (VInst c i j fs)).
  Proof.
    intros H c0 pc px k Hw.
    rewrite wt_TDc in Hw. unfold inst_ok in Hw.
    apply andb_true_iff in Hw as [Hw Hall]. apply andb_true_iff in Hw as [Hw Hij].
    apply andb_true_iff in Hw as [Hc Hnd].
    rewrite pack_TDc. rewrite (class_ok_ctx E _ _ _ Hc), (class_ok_xf E _ _ _ Hc). unfold call_mixin.
    rewrite call_ok. apply body_once; assumption.
  Qed.

  Lemma union_once c i j fs :
    Forall (fun kx => good1 (snd kx)) fs ->
    forall cs pc px k, wt E true (VInst c i j fs) (TUnion cs) = true ->
      fst (pack E stubs Mixin (VInst c i j fs) (TUnion cs) pc px k) = true /\
      map erase (snd (pack E stubs Mixin (VInst c i j fs) (TUnion cs) pc px k)) = map erase (trav E pc k (VInst c i j fs)).
  Proof.
    intros H cs pc px k Hw.
    rewrite wt_TUnion in Hw. apply andb_true_iff in Hw as [Hmem Hok]. unfold inst_ok in Hok.
        apply andb_true_iff in Hok as [Hw Hall]. apply andb_true_iff in Hw as [Hw Hij].
        apply andb_true_iff in Hw as [_ Hnd].
        rewrite pack_TUnion.
        apply try_each_erased.
        * intros a Ha. apply in_map_iff in Ha as [pa [Ha _]]. subst a. unfold call_mixin.
          destruct ((fst pa && negb (c_ctx (cls E c))) || negb (xf_le (snd pa) (c_xf (cls E c)))); [left; reflexivity|right].
          apply body_once; assumption.
        * apply existsb_exists in Hmem as [c' [Hin Heq]]. apply Nat.eqb_eq in Heq. subst c'.
          exists (call_mixin E stubs (pc && c_ctx (cls E c)) (xf_and px (c_xf (cls E c))) k c i j (subs_of E stubs Mixin fs)). split.
          -- apply in_map_iff. exists (pc && c_ctx (cls E c), xf_and px (c_xf (cls E c))). split; [reflexivity|].
             destruct (dedup_pf_in (pc && c_ctx (cls E c), xf_and px (c_xf (cls E c)))
                                   (map (fun c0 => (pc && c_ctx (cls E c0), xf_and px (c_xf (cls E c0)))) cs) []) as [Hd|Hd].
             ++ apply in_map_iff. exists c. split; [reflexivity|assumption].
             ++ assumption.
             ++ discriminate.
          -- unfold call_mixin. rewrite (call_ok E).
             apply (body_once c i j fs _ _ pc k); assumption.
  Qed.

  Theorem pack_mixin_once : forall v, good1 v.
  Proof.
    induction v using val_ind'; unfold good1.
    - induction t; intros pc px k Hw.
      + split; reflexivity.
      + rewrite wt_TDc in Hw; discriminate.
      + rewrite wt_TList in Hw; discriminate.
      + rewrite wt_TOpt in Hw. rewrite pack_TOpt. apply IHt; assumption.
      + rewrite wt_TUnion in Hw; discriminate.
      + rewrite wt_TDisc, wt_TDc in Hw; discriminate.
      + rewrite wt_TDiscU, wt_TUnion in Hw; discriminate.
    - induction t; intros pc px k Hw.
      + rewrite wt_TInt in Hw; discriminate.
      + rewrite wt_TDc in Hw; discriminate.
      + rewrite wt_TList in Hw; discriminate.
      + rewrite pack_TOpt. split; reflexivity.
      + rewrite wt_TUnion in Hw; discriminate.
      + rewrite wt_TDisc, wt_TDc in Hw; discriminate.
      + rewrite wt_TDiscU, wt_TUnion in Hw; discriminate.
    - induction t; intros pc px k Hw.
      + rewrite wt_TInt in Hw; discriminate.
      + apply inst_once; assumption.
      + rewrite wt_TList in Hw; discriminate.
      + rewrite wt_TOpt in Hw. rewrite pack_TOpt. apply IHt; assumption.
      + apply union_once; assumption.
      + rewrite wt_TDisc in Hw. rewrite pack_TDisc. apply inst_once; assumption.
      + rewrite wt_TDiscU in Hw. rewrite pack_TDiscU. apply union_once; assumption.
    - induction t; intros pc px k Hw.
      + rewrite wt_TInt in Hw; discriminate.
      + rewrite wt_TDc in Hw; discriminate.
      + rewrite wt_TList in Hw. rewrite pack_TList. simpl trav. apply list_once; assumption.
      + rewrite wt_TOpt in Hw. rewrite pack_TOpt. apply IHt; assumption.
      + rewrite wt_TUnion in Hw; discriminate.
      + rewrite wt_TDisc, wt_TDc in Hw; discriminate.
      + rewrite wt_TDiscU, wt_TUnion in Hw; discriminate.
  Qed.
End Once.

(* ---------------------------------------------------------------- T4: deserialization, union-free schemas *)
Section DeEqs.
  Variable E : env.
  Definition dsubs_of (kvs: list (nat * wire)) : list (nat * dsub) :=
    map (fun kx => match kx with (k, x) => (k, unpack E x) end) kvs.
  Definition tag_of (w: wire) : option (option nat) := match w with WDict t _ => Some t | _ => None end.
  Definition plain_de (w: wire) (c: nat) : D :=
    match w with
    | WDict _ kvs => dbody E c (dsubs_of kvs)
    | _ => fun n => (None, if c_prede (cls E c) then [PreDe c] else [], n) end.
  Definition from_dict_f (w: wire) : nat -> nat -> D :=
    fix fd (fuel: nat) (c: nat) {struct fuel} : D :=
    match fuel with
    | 0 => plain_de w c
    | S f => match c_disc (cls E c) with
             | Some wf => dispatch E (tag_of w) wf (c_tagger (cls E c)) (subclasses E c) (fd f)
             | None => plain_de w c
             end
    end.
  Definition call_dc_de (w: wire) (c: nat) : D := from_dict_f w (S (length E)) c.
  Lemma from_dict_plain w fuel c : c_disc (cls E c) = None -> from_dict_f w fuel c = plain_de w c.
  Proof. intros H. destruct fuel; simpl; [reflexivity|]. rewrite H. reflexivity. Qed.
  Lemma unpack_TInt w : unpack E w TInt = match w with WInt => dret VInt | _ => dfail end.
  Proof. destruct w; reflexivity. Qed.
  Lemma unpack_TOpt w t : unpack E w (TOpt t) = match w with WNone => dret VNone | _ => unpack E w t end.
  Proof. destruct w; reflexivity. Qed.
  Lemma unpack_TList w t :
    unpack E w (TList t) =
    match w with
    | WList l => fun n => match dseq (map (fun x => unpack E x t) l) n with
                          | (Some vs, tr, n1) => (Some (VList vs), tr, n1)
                          | (None, tr, n1) => (None, tr, n1) end
    | _ => dfail end.
  Proof. destruct w; reflexivity. Qed.
  Lemma unpack_TDc w c : unpack E w (TDc c) = call_dc_de w c.
  Proof. destruct w; reflexivity. Qed.
  Lemma unpack_TDisc w p wf sup :
    unpack E w (TDisc p wf sup) = dispatch E (tag_of w) wf false (disc_variants E p sup) (call_dc_de w).
  Proof. destruct w; reflexivity. Qed.
  Lemma unpack_TDiscU w cs wf sb sp :
    unpack E w (TDiscU cs wf sb sp) = dispatch E (tag_of w) wf false (discu_variants E cs sb sp) (call_dc_de w).
  Proof. destruct w; reflexivity. Qed.
  Lemma unpack_TUnion w cs : unpack E w (TUnion cs) = dtry (map (call_dc_de w) (dedup_nat cs [])).
  Proof. destruct w; reflexivity. Qed.
End DeEqs.

Lemma assoc_map_some {A B} (g: A -> B) (l: list (nat * A)) k s :
  assoc k (map (fun kx => match kx with (k, x) => (k, g x) end) l) = Some s ->
  exists x, In (k, x) l /\ s = g x.
Proof.
  induction l as [|[k' x'] r IH]; simpl; intros H; [discriminate|].
  destruct (k =? k') eqn:Ek.
  - apply Nat.eqb_eq in Ek. subst k'. inversion H. exists x'. split; [left; reflexivity|reflexivity].
  - destruct (IH H) as [x [Hin Hs]]. exists x. split; [right; assumption|assumption].
Qed.

Section DeTrace.
  Variable E : env.
  Hypothesis HE : env_union_free E = true.

  Definition dgood (w: wire) : Prop :=
    forall t n r tr n', union_free t = true -> unpack E w t n = (Some r, tr, n') -> tr = trav_de E r.

  Lemma dseq_trace t : forall l, Forall dgood l -> union_free t = true ->
    forall n vs tr n', dseq (map (fun x => unpack E x t) l) n = (Some vs, tr, n') ->
                       tr = flat_map (trav_de E) vs.
  Proof.
    induction l as [|x r IH]; intros Hg Hu n vs tr n' H.
    - simpl in H. inversion H. reflexivity.
    - inversion Hg as [|? ? Hx Hr]; subst. simpl in H.
      destruct (unpack E x t n) as [[[v|] ta] n1] eqn:E1; [|discriminate].
      destruct (dseq (map (fun x0 => unpack E x0 t) r) n1) as [[[vs'|] tb] n2] eqn:E2; [|discriminate].
      inversion H; subst. simpl.
      rewrite (Hx t n v ta n1 Hu E1). rewrite (IH Hr Hu n1 vs' tb n' E2). reflexivity.
  Qed.

  Lemma dfields_trace (subs: list (nat * dsub)) :
    (forall k s, assoc k subs = Some s -> exists x, dgood x /\ s = unpack E x) ->
    forall fl, forallb (fun f => union_free (f_ty f)) fl = true ->
    forall n vs tr n', dfields fl subs n = (Some vs, tr, n') ->
                       tr = flat_map (fun kx => match kx with (_, x) => trav_de E x end) vs.
  Proof.
    intros Hs. induction fl as [|f r IH]; intros Hu n vs tr n' H.
    - simpl in H. inversion H. reflexivity.
    - simpl in Hu. apply andb_true_iff in Hu as [Hu1 Hu2]. simpl in H.
      destruct (assoc (f_name f) subs) as [s|] eqn:Ea.
      + destruct (Hs _ _ Ea) as [x [Hx Hsx]]. subst s.
        destruct (unpack E x (f_ty f) n) as [[[v|] ta] n1] eqn:E1; [|discriminate].
        destruct (dfields r subs n1) as [[[vs'|] tb] n2] eqn:E2; [|discriminate].
        inversion H; subst. simpl.
        rewrite (Hx _ _ _ _ _ Hu1 E1). rewrite (IH Hu2 _ _ _ _ E2). reflexivity.
      + destruct (f_default f); [|discriminate].
        destruct (dfields r subs n) as [[[vs'|] tb] n2] eqn:E2; [|discriminate].
        inversion H; subst. simpl. apply (IH Hu2 _ _ _ _ E2).
  Qed.

  (* a deterministic dispatch (with a field) inherits the property from the variants' from_dict *)
  Lemma dispatch_trav tg tgr vs (fd: nat -> D) :
    (forall v n r tr n', fd v n = (Some r, tr, n') -> tr = trav_de E r) ->
    forall n r tr n', dispatch E tg true tgr vs fd n = (Some r, tr, n') -> tr = trav_de E r.
  Proof.
    intros Hfd n r tr n' H. unfold dispatch in H.
    destruct tg as [[t|]|]; try discriminate.
    destruct (lookup_tag E tgr vs t) as [v|]; [|discriminate].
    apply (Hfd v n r tr n' H).
  Qed.

  Lemma plain_trav w :
    match w with WDict _ kvs => Forall (fun kx => dgood (snd kx)) kvs | _ => True end ->
    forall c n r tr n', plain_de E w c n = (Some r, tr, n') -> tr = trav_de E r.
  Proof.
    intros IH c n r tr n' H. destruct w as [| |tg kvs|l]; try discriminate.
    simpl in H. unfold dbody in H.
    destruct (dfields (c_fields (cls E c)) (dsubs_of E kvs) n) as [[[vs|] tf] n1] eqn:Ef; [|discriminate].
    inversion H; subst. simpl. f_equal. f_equal.
    eapply dfields_trace; [| |exact Ef].
    - intros k s Ha. apply assoc_map_some in Ha as [x [Hin Hsx]]. exists x. split; [|assumption].
      rewrite Forall_forall in IH. apply (IH (k, x) Hin).
    - apply env_uf_fields. assumption.
  Qed.

  Lemma call_dc_trav w :
    match w with WDict _ kvs => Forall (fun kx => dgood (snd kx)) kvs | _ => True end ->
    forall c n r tr n', call_dc_de E w c n = (Some r, tr, n') -> tr = trav_de E r.
  Proof.
    intros IH c. unfold call_dc_de. generalize (S (length E)) as fuel. intros fuel. revert c.
    induction fuel as [|f IHf]; intros c n r tr n' H; simpl in H.
    - eapply plain_trav; eauto.
    - pose proof (env_uf_disc E c HE) as Hd. unfold disc_det in Hd.
      destruct (c_disc (cls E c)) as [[|]|]; try discriminate.
      + eapply dispatch_trav; [|exact H]. intros v. apply IHf.
      + eapply plain_trav; eauto.
  Qed.

  Ltac de_case IH :=
    match goal with
    | H: unpack _ _ (TDc _) _ = _ |- _ => rewrite unpack_TDc in H; eapply call_dc_trav; [|exact H]; exact IH
    | H: unpack _ _ (TDisc _ ?wf _) _ = _, Hu: union_free (TDisc _ ?wf _) = true |- _ =>
        rewrite unpack_TDisc in H; simpl in Hu; rewrite Hu in H;
        eapply dispatch_trav; [|exact H]; intros v0; apply call_dc_trav; exact IH
    end.

  Theorem unpack_trav : forall w, dgood w.
  Proof.
    induction w as [| |tg kvs IHk | l IHl] using wire_ind'; unfold dgood.
    - induction t; intros n r tr n' Hu H.
      + inversion H. reflexivity.
      + de_case I.
      + rewrite unpack_TList in H. discriminate.
      + rewrite unpack_TOpt in H. apply (IHt n r tr n'); assumption.
      + discriminate.
      + de_case I.
      + discriminate.
    - induction t; intros n r tr n' Hu H.
      + rewrite unpack_TInt in H. discriminate.
      + de_case I.
      + rewrite unpack_TList in H. discriminate.
      + rewrite unpack_TOpt in H. inversion H. reflexivity.
      + discriminate.
      + de_case I.
      + discriminate.
    - induction t; intros n r tr n' Hu H.
      + rewrite unpack_TInt in H. discriminate.
      + de_case IHk.
      + rewrite unpack_TList in H. discriminate.
      + rewrite unpack_TOpt in H. apply (IHt n r tr n'); assumption.
      + discriminate.
      + de_case IHk.
      + discriminate.
    - induction t; intros n r tr n' Hu H.
      + rewrite unpack_TInt in H. discriminate.
      + de_case I.
      + rewrite unpack_TList in H.
        destruct (dseq (map (fun x => unpack E x t) l) n) as [[[vs|] tl] n1] eqn:El; [|discriminate].
        inversion H; subst. simpl. exact (dseq_trace t l IHl Hu n vs tr n' El).
      + rewrite unpack_TOpt in H. apply (IHt n r tr n'); assumption.
      + discriminate.
      + de_case I.
      + discriminate.
  Qed.
End DeTrace.

(* ---------------------------------------------------------------- refutations (the two known findings) *)
(* D8: BasicEncoder(Union[A, B]).encode(B(x=5)):  A = class 0, B = class 1, both with all hooks,
   disjoint field names.  B's __pre_serialize__ runs twice. *)
Definition E_d8 : env :=
  [ mk_cinfo [Build_field 0 TInt false] true true true true false;
    mk_cinfo [Build_field 1 TInt false] true true true true false ].
Definition v_d8 : val := VInst 1 7 7 [(1, VInt)].

Lemma d8_witness :
  wt E_d8 false v_d8 (TUnion [0; 1]) = true /\
  pack E_d8 true Codec v_d8 (TUnion [0; 1]) false xf_none CNone = (true, [Pre 1 7 CAbsent; Pre 1 7 CAbsent; Post 1 7 CAbsent]) /\
  trav E_d8 false CNone v_d8 = [Pre 1 7 CAbsent; Post 1 7 CAbsent].
Proof. vm_compute. repeat split. Qed.

(* D8b: Outer(u: Union[In2, In]).to_dict(context=tok); Outer = 2 and In = 1 opted in, In2 = 0 did not. *)
Definition E_d8b : env :=
  [ mk_cinfo [Build_field 0 TInt false] true true false false false;
    mk_cinfo [Build_field 1 TInt false] true true false false true;
    mk_cinfo [Build_field 2 (TUnion [0; 1]) false] true true false false true ].
Definition v_d8b : val := VInst 2 1 1 [(2, VInst 1 2 2 [(1, VInt)])].

Lemma d8b_witness :
  wt E_d8b true v_d8b (TDc 2) = true /\
  pack E_d8b true Mixin v_d8b (TDc 2) true xf_none CTok
  = (true, [Pre 2 1 CTok; Pre 1 2 CNone; Post 1 2 CNone; Post 2 1 CTok]) /\
  trav E_d8b true CTok v_d8b = [Pre 2 1 CTok; Pre 1 2 CTok; Post 1 2 CTok; Post 2 1 CTok].
Proof. vm_compute. repeat split. Qed.

Lemma d8b_onpath : onpath E_d8b true v_d8b 1 2 2.
Proof.
  eapply onpath_field with (n := 2); [reflexivity|left; reflexivity|].
  apply onpath_here. reflexivity.
Qed.

(* ---------------------------------------------------------------- statements at full strength and what holds of them *)
(* every well-typed value, both paths: the trace is the pre/post-order traversal *)
Definition trace_full : Prop :=
  forall E stubs m v t pc px k, wt E (is_mixin m) v t = true -> (m = Codec -> k = CNone) ->
    pack E stubs m v t pc px k = (true, trav E pc k v).

Theorem trace_partial :
  forall E stubs m v t pc px k,
    env_union_free E = true -> union_free t = true -> wt E (is_mixin m) v t = true -> (m = Codec -> k = CNone) ->
    pack E stubs m v t pc px k = (true, trav E pc k v).
Proof. intros E stubs m v t pc px k HE Hu Hw Hk. apply (pack_trav E stubs HE m v t pc px k Hu Hw Hk). Qed.

Theorem trace_refuted : ~ trace_full.
Proof.
  intros H. destruct d8_witness as [Hw [Hp Ht]].
  specialize (H E_d8 true Codec v_d8 (TUnion [0; 1]) false xf_none CNone Hw (fun _ => eq_refl)).
  rewrite Hp, Ht in H. discriminate.
Qed.

(* D8 in the form of the property text: a pre hook that runs twice for one instance *)
Theorem codec_union_refuted :
  exists E v t, wt E false v t = true /\
    count_occ (list_eq_dec Nat.eq_dec) (map (fun e => match e with Pre c i _ => [c; i] | _ => [] end)
                                            (snd (pack E true Codec v t false xf_none CNone))) [1; 7] = 2.
Proof. exists E_d8, v_d8, (TUnion [0; 1]). split; vm_compute; reflexivity. Qed.

Theorem mixin_once :
  forall E stubs v t pc px k, wt E true v t = true ->
    fst (pack E stubs Mixin v t pc px k) = true /\
    map erase (snd (pack E stubs Mixin v t pc px k)) = map erase (trav E pc k v).
Proof. intros. apply pack_mixin_once. assumption. Qed.

Definition context_full : Prop :=
  forall E stubs v t px k c i j, wt E true v t = true -> onpath E true v c i j ->
    (c_pre (cls E c) = true -> In (Pre c i k) (snd (pack E stubs Mixin v t true px k))) /\
    (c_post (cls E c) = true -> In (Post c j k) (snd (pack E stubs Mixin v t true px k))).

Theorem context_partial :
  forall E stubs v t px k c i j,
    env_union_free E = true -> union_free t = true -> wt E true v t = true -> onpath E true v c i j ->
    (c_pre (cls E c) = true -> In (Pre c i k) (snd (pack E stubs Mixin v t true px k))) /\
    (c_post (cls E c) = true -> In (Post c j k) (snd (pack E stubs Mixin v t true px k))).
Proof.
  intros E stubs v t px k c i j HE Hu Hw Hp.
  rewrite (pack_trav E stubs HE Mixin v t true px k Hu Hw) by (intros Hm; discriminate).
  simpl snd. apply (ctx_reaches E k v true c i j Hp eq_refl).
Qed.

Theorem union_context_refuted : ~ context_full.
Proof.
  intros H. destruct d8b_witness as [Hw [Hp _]].
  destruct (H E_d8b true v_d8b (TDc 2) xf_none CTok 1 2 2 Hw d8b_onpath) as [H1 _].
  rewrite Hp in H1. simpl in H1. specialize (H1 eq_refl).
  repeat (destruct H1 as [H1|H1]; [discriminate|]). contradiction.
Qed.

Theorem de_trace_partial :
  forall E w t n r tr n',
    env_union_free E = true -> union_free t = true ->
    unpack E w t n = (Some r, tr, n') -> tr = trav_de E r.
Proof. intros E w t n r tr n' HE Hu H. apply (unpack_trav E HE w t n r tr n' Hu H). Qed.

(* ---------------------------------------------------------------- discriminator dispatch *)
(* Decoding through a base class whose Config carries a discriminator with a field is decoding with the
   from_dict of the variant registered for the tag: same result, same identities, same events.  In
   particular the base's own hooks are not run a second time around the dispatch. *)
Theorem disc_config_dispatch E c t v kvs n :
  c_disc (cls E c) = Some true -> lookup_tag E (c_tagger (cls E c)) (subclasses E c) t = Some v -> c_disc (cls E v) = None ->
  unpack E (WDict (Some t) kvs) (TDc c) n = unpack E (WDict (Some t) kvs) (TDc v) n.
Proof.
  intros Hc Hl Hv. rewrite !unpack_TDc. unfold call_dc_de. simpl from_dict_f. rewrite Hc, Hv.
  unfold dispatch, tag_of. rewrite Hl. rewrite (from_dict_plain E _ _ v Hv). reflexivity.
Qed.

Theorem disc_annotated_dispatch E p sup t v kvs n :
  lookup_tag E false (disc_variants E p sup) t = Some v -> c_disc (cls E v) = None ->
  unpack E (WDict (Some t) kvs) (TDisc p true sup) n = unpack E (WDict (Some t) kvs) (TDc v) n.
Proof.
  intros Hl Hv. rewrite unpack_TDisc, unpack_TDc.
  unfold dispatch, tag_of. rewrite Hl. reflexivity.
Qed.

(* no tag / unknown tag: nothing runs *)
Theorem disc_no_variant E c kvs n :
  c_disc (cls E c) = Some true ->
  unpack E (WDict None kvs) (TDc c) n = (None, [], n) /\
  (forall t, lookup_tag E (c_tagger (cls E c)) (subclasses E c) t = None -> unpack E (WDict (Some t) kvs) (TDc c) n = (None, [], n)).
Proof.
  intros Hc. split; [|intros t Hl]; rewrite unpack_TDc; unfold call_dc_de; simpl from_dict_f; rewrite Hc; unfold dispatch, tag_of.
  - reflexivity.
  - rewrite Hl. reflexivity.
Qed.

(* codec path, an instance of a subclass where the parent is declared (known finding
   C19/codec-subclass-static-dispatch): H(a: A), A without hooks, A2(A) with hooks *)
Definition E_sub : env :=
  [ mk_cinfo [Build_field 0 TInt false] false false false false false;
    mk_cinfo_h [Build_field 0 TInt false; Build_field 1 TInt false] true true false false false (Some 0) None None;
    mk_cinfo [Build_field 2 (TDc 0) false] false false false false false ].
Definition v_sub : val := VInst 2 1 1 [(2, VInst 1 2 2 [(0, VInt); (1, VInt)])].
Lemma sub_witness :
  wt E_sub true v_sub (TDc 2) = true /\
  pack E_sub true Codec v_sub (TDc 2) false xf_none CNone = (true, []) /\
  pack E_sub true Mixin v_sub (TDc 2) false xf_none CNone = (true, [Pre 1 2 CAbsent; Post 1 2 CAbsent]) /\
  trav E_sub false CNone v_sub = [Pre 1 2 CAbsent; Post 1 2 CAbsent].
Proof. vm_compute. repeat split. Qed.

Definition trace_subclass_full : Prop :=
  forall E stubs m v t pc px k, wt E true v t = true -> union_free t = true -> env_union_free E = true ->
    (m = Codec -> k = CNone) -> pack E stubs m v t pc px k = (true, trav E pc k v).
Theorem codec_subclass_refuted : ~ trace_subclass_full.
Proof.
  intros H. destruct sub_witness as [Hw [Hp [_ Ht]]].
  specialize (H E_sub true Codec v_sub (TDc 2) false xf_none CNone Hw eq_refl eq_refl (fun _ => eq_refl)).
  rewrite Hp, Ht in H. discriminate.
Qed.

(* mixin path, a field declared with Base (not opted in) holding an instance of Sub(Base) (opted in) inside an
   opted-in holder (known finding C19/subclass-declared-class-flags): the keyword list is computed from the
   declared class, Sub's hooks see context=None although every class on the path of *instances* opted in *)
Definition E_subctx : env :=
  [ mk_cinfo [Build_field 0 TInt false] false false false false false;
    mk_cinfo_h [Build_field 0 TInt false] true true false false true (Some 0) None None;
    mk_cinfo [Build_field 1 (TDc 0) false] true true false false true ].
Definition v_subctx : val := VInst 2 1 1 [(1, VInst 1 2 2 [(0, VInt)])].
Lemma subctx_witness :
  is_sub E_subctx 1 0 = true /\
  pack E_subctx true Mixin v_subctx (TDc 2) true xf_none CTok = (true, [Pre 2 1 CTok; Pre 1 2 CNone; Post 1 2 CNone; Post 2 1 CTok]) /\
  trav E_subctx true CTok v_subctx = [Pre 2 1 CTok; Pre 1 2 CTok; Post 1 2 CTok; Post 2 1 CTok].
Proof. vm_compute. repeat split. Qed.

(* the context statement over all structurally typed values (subclass instances admitted whatever their options) *)
Definition context_subclass_full : Prop :=
  forall E stubs v t px k c i j, env_union_free E = true -> union_free t = true -> onpath E true v c i j ->
    fst (pack E stubs Mixin v t true px k) = true ->
    (c_pre (cls E c) = true -> In (Pre c i k) (snd (pack E stubs Mixin v t true px k))).
Theorem subclass_context_refuted : ~ context_subclass_full.
Proof.
  intros H. destruct subctx_witness as [_ [Hp _]].
  assert (onpath E_subctx true v_subctx 1 2 2) as Hon.
  { eapply onpath_field with (n := 1); [reflexivity|left; reflexivity|]. apply onpath_here. reflexivity. }
  specialize (H E_subctx true v_subctx (TDc 2) xf_none CTok 1 2 2 eq_refl eq_refl Hon).
  rewrite Hp in H. simpl in H. specialize (H eq_refl eq_refl).
  repeat (destruct H as [H|H]; [discriminate|]). contradiction.
Qed.

Theorem disc_union_dispatch E cs sb sp t v kvs n :
  lookup_tag E false (discu_variants E cs sb sp) t = Some v -> c_disc (cls E v) = None ->
  unpack E (WDict (Some t) kvs) (TDiscU cs true sb sp) n = unpack E (WDict (Some t) kvs) (TDc v) n.
Proof.
  intros Hl Hv. rewrite unpack_TDiscU, unpack_TDc.
  unfold dispatch, tag_of. rewrite Hl. reflexivity.
Qed.
