(* Kernel primitives for K5 (strategy resolution): finite generators with a lazy
   failure tail, and the few reflective predicates the translated functions call.
   Everything is total and computable.  Used by coq/gen/K5.v. *)
From Coq Require Import List String Ascii ZArith Bool Lia.
From Verif Require Import Regex PyK.
Import ListNotations.
Open Scope string_scope.
Open Scope Z_scope.

(* A Python generator that yields finitely many values and then either stops or
   raises.  The raise is *lazy*: a consumer that returns before reaching the tail
   never sees it (this matters for BadDialect in __iter_serialization_strategies). *)
Inductive gen := GNil | GYield (v: kv) (rest: gen) | GRaise (e: exn).

Fixpoint gen_app (a b: gen) : gen :=
  match a with
  | GNil => b
  | GYield v r => GYield v (gen_app r b)
  | GRaise e => GRaise e
  end.

Definition gbind {A} (r: res A) (f: A -> gen) : gen :=
  match r with Ok a => f a | Raise e => GRaise e end.
Notation "x <~ r ;; k" := (gbind r (fun x => k)) (at level 61, r at next level, right associativity).

(* the values a generator yields before stopping / raising *)
Fixpoint gen_items (g: gen) : list kv :=
  match g with GNil => [] | GYield v r => v :: gen_items r | GRaise _ => [] end.
Fixpoint gen_tail (g: gen) : option exn :=
  match g with GNil => None | GYield _ r => gen_tail r | GRaise e => Some e end.

(* mashumaro.helper.pass_through: a singleton object *)
Definition k_pass_through : kv := KObj 0.

(* mashumaro.core.meta.helpers.is_hashable: hash(x) does not raise.  Type objects
   are KObj; the unhashable ones (e.g. Annotated[int, []]) are modelled as KList/KDict. *)
Definition k_is_hashable (v: kv) : bool :=
  match v with KList _ | KDict _ => false | _ => true end.

Definition k_isinstance_dict (v: kv) : bool :=
  match v with KDict _ => true | _ => false end.

(* instances of SerializationStrategy are namespaces; pass_through is one too *)
Definition k_isinstance_strategy (v: kv) : bool :=
  match v with KNs _ => true | KObj O => true | _ => false end.

(* is_dialect_subclass: dialect classes are namespaces *)
Definition k_is_dialect (v: kv) : bool :=
  match v with KNs _ => true | _ => false end.

(* is_generic(type(strategy)): recorded on the strategy namespace *)
Definition k_type_is_generic (v: kv) : res kv :=
  match v with
  | KNs attrs => Ok (match ns_get attrs "__generic__" with Some b => b | None => KBool false end)
  | _ => Ok (KBool false)
  end.

(* ExpressionWrapper(_pack/_unpack_with_annotated_serialization_strategy(spec, strategy)) *)
Definition k_expr_wrapper (which: string) (strategy: kv) : kv :=
  KTuple [KStr "ExpressionWrapper"; KStr which; strategy].

Fixpoint insert_at {A} (n: nat) (x: A) (l: list A) : list A :=
  match n, l with
  | O, _ => x :: l
  | S n', [] => [x]
  | S n', y :: r => y :: insert_at n' x r
  end.

(* list.insert(i, x) for i >= 0 (negative indexes are not used by the kernels) *)
Definition k_list_insert (l: kv) (i: Z) (x: kv) : res kv :=
  match l with
  | KList items => if i <? 0 then Raise OtherError else Ok (KList (insert_at (Z.to_nat i) x items))
  | _ => Raise AttributeError
  end.

(* iter(list) *)
Definition k_iter_list (v: kv) : res (list kv) :=
  match v with
  | KList l | KTuple l => Ok l
  | _ => Raise TypeError
  end.

(* ---- what the first registry handler emits (abstract expression IR) ---- *)
Definition k_isinstance_wrapper (v: kv) : bool :=
  match v with KTuple [KStr "ExpressionWrapper"; _; _] => true | _ => false end.

(* ExpressionWrapper.expression: the expression built by _pack/_unpack_with_annotated_serialization_strategy *)
Definition k_wrapper_expression (v: kv) : res kv :=
  match v with
  | KTuple [KStr "ExpressionWrapper"; t; s] => Ok (KTuple [KStr "annotated_expression"; t; s])
  | _ => Raise AttributeError
  end.

(* callable(x): user callables and strategy objects are KObj; engine names (str), None and wrappers are not *)
Definition k_callable (v: kv) : bool :=
  match v with KObj _ => true | _ => false end.

(* bind `method` on the attrs holder under a fresh name and emit `holder.name(expression)` *)
Definition k_call_expr (method expression: kv) : kv :=
  KTuple [KStr "call"; method; expression].

(* ---- primitives for CodeBuilder.dataclass_fields ---- *)
(* x[-1:0:-1] and x[1:] on tuples/lists (validated against CPython by the harness on every run) *)
Definition k_slice_rev_tail (v: kv) : res kv :=
  match v with KTuple l | KList l => Ok (KList (rev (tl l))) | _ => Raise TypeError end.
Definition k_slice_tail (v: kv) : res kv :=
  match v with KTuple l | KList l => Ok (KList (tl l)) | _ => Raise TypeError end.

(* dataclasses.is_dataclass(cls) = hasattr(cls, "__dataclass_fields__") (attribute lookup through the MRO:
   a class namespace in the model carries the attribute iff getattr finds it) *)
Definition k_is_dataclass (c: kv) : bool :=
  match c with KNs attrs => match ns_get attrs "__dataclass_fields__" with Some _ => true | None => false end | _ => false end.

(* isinstance(x, dataclasses.Field): Field objects are namespaces with a `name` *)
Definition k_is_field (v: kv) : bool :=
  match v with KNs attrs => match ns_get attrs "name" with Some _ => true | None => false end | _ => false end.

Definition k_dict_values (d: kv) : res kv :=
  match d with KDict kvs => Ok (KList (map snd kvs)) | _ => Raise AttributeError end.

Fixpoint d_remove (kvs: list (kv * kv)) (k: kv) : list (kv * kv) :=
  match kvs with
  | [] => []
  | (k', x) :: r => if kv_eqb k' k then r else (k', x) :: d_remove r k
  end.

(* d.pop(k, None) used as a statement *)
Definition k_dict_pop (d k: kv) : res kv :=
  match d with KDict kvs => Ok (KDict (d_remove kvs k)) | _ => Raise AttributeError end.
