(* C19: which classes a discriminator tries and in which order - Hooks.subclasses / disc_variants / discu_variants -
   tied to the source through C12's kernel K12 (helpers.iter_all_subclasses, DiscriminatedUnionUnpackerBuilder.
   _get_variant_names and the class-level rebuild of the Discriminator in builder.py, translated on every run). *)
From Coq Require Import List Bool Arith.
From Verif Require Import PyK_discr Hooks.
From VerifGen Require Import K12.
Import ListNotations.
Local Open Scope list_scope.

(* iter_all_subclasses over cls.__subclasses__() = Hooks.children is Hooks.subclasses_f, for every recursion budget *)
Lemma k12_iter_all_subclasses : forall E fuel p,
  iter_all_subclasses fuel (children E) p = subclasses_f E fuel p.
Proof.
  intros E fuel. induction fuel as [|f IH]; intros p; simpl; [reflexivity|].
  induction (children E p) as [|c r IHr]; simpl; [reflexivity|].
  rewrite IH, IHr. reflexivity.
Qed.

Corollary k12_subclasses : forall E p, iter_all_subclasses (length E) (children E) p = subclasses E p.
Proof. intros. apply k12_iter_all_subclasses. Qed.

(* the generated variants tuple of Annotated[Union[cs...], Discriminator(include_subtypes=sb, include_supertypes=sp)] *)
Lemma k12_discu_variants : forall E cs sb sp,
  eval_names (subclasses E) (get_variant_names sb sp cs) = discu_variants E cs sb sp.
Proof.
  intros E cs sb sp. unfold get_variant_names, discu_variants, eval_names.
  rewrite flat_map_app. f_equal.
  - destruct sb; [|reflexivity]. induction cs as [|c r IH]; simpl; [reflexivity|]. rewrite IH. reflexivity.
  - destruct sp; [|reflexivity]. induction cs as [|c r IH]; simpl; [reflexivity|]. rewrite IH. reflexivity.
Qed.

(* ... of Annotated[P, Discriminator(include_subtypes=True, include_supertypes=sup)] *)
Lemma k12_disc_variants : forall E p sup,
  eval_names (subclasses E) (get_variant_names true sup [p]) = disc_variants E p sup.
Proof.
  intros E p sup. rewrite k12_discu_variants. unfold discu_variants, disc_variants. simpl. rewrite app_nil_r.
  reflexivity.
Qed.

(* ... and of a class whose own Config has the discriminator: include_supertypes is dropped when the builder rebuilds
   the Discriminator, so the dispatcher ranges over the subclasses only (Hooks.unpack: dispatch ... (subclasses E c)) *)
Lemma k12_config_variants : forall E c sup,
  eval_names (subclasses E) (get_variant_names true (sup && config_keeps_supertypes) [c]) = subclasses E c.
Proof.
  intros E c sup. rewrite k12_disc_variants. unfold config_keeps_supertypes, disc_variants.
  rewrite andb_false_r. apply app_nil_r.
Qed.
