(* C20: model of mashumaro.jsonschema (schema.py on_dataclass / containers / unions,
   builder.py build_json_schema / JSONSchemaBuilder.build) on a class table.
   Executable; compared with the real build_json_schema(...).to_dict() on every run
   (harness/props/c20_coq.py).  Proofs are in SchemaGenProofs.v. *)
From Coq Require Import List String Ascii ZArith Bool.
Import ListNotations.
Open Scope string_scope.

(* ---- JSON documents ---- *)
Inductive js :=
| JNull | JBool (b: bool) | JInt (z: Z) | JStr (s: string)
| JArr (l: list js) | JObj (kvs: list (string * js)).

(* ---- the type grammar of the model ---- *)
Inductive ty :=
| TInt | TFloat | TBool | TStr | TNone | TAny
| TList (t: ty) | TSet (t: ty)
| TWrap (t: ty)                 (* unwrap-and-redispatch wrappers: Final[t], NewType(.., t), Required/NotRequired/ReadOnly[t] *)
| TDict (v: ty)                 (* Dict[str, v] *)
| TMap (k v: ty)                (* Dict / Mapping / OrderedDict / DefaultDict[k, v]; Counter[k] = TMap k int; ChainMap = list of it *)
| TTuple (ts: list ty)          (* Tuple[t1, .., tn]; [] is Tuple[()] *)
| TUnion (ts: list ty)          (* Union[...] / Optional[...] as flattened by typing *)
| TClass (c: string)            (* a dataclass of the class table *)
| TNamed (as_dict: bool) (names: list string) (ts: list ty) (ds: list (option js))
                                (* NamedTuple: field names, field types, rendered defaults (None = no default);
                                   as_dict = namedtuple_as_dict / serialize="as_dict" in force *)
| TLeaf (tp: string) (fmt pat: option string)
                                (* leaf types rendered as {"type": tp, "format": fmt, "pattern": pat}: datetime/date/time,
                                   timedelta, timezone, ZoneInfo, UUID, ip*, Decimal, Fraction, bytes, paths *)
| TEnum (lit: bool) (vals: list js)
                                (* Enum (member values) / Literal (lit = true: one value gives "const") *)
| TTyped (names: list string) (ts: list ty) (req: list bool)
                                (* TypedDict: keys, value types, key is required *)
| TOpaque (n: string)
| TAnn (cs: list ann) (t: ty)   (* Annotated[t, constraints]: the constraints that fit the kind of t are set, the others ignored *)
with ann :=
| ANum (k: annkw) (z: Z) | APattern (p: string) | AUnique (b: bool)
with annkw :=
| AMaximum | AMinimum | AExMax | AExMin | AMultipleOf | AMinLength | AMaxLength | AMinItems | AMaxItems | AMinProps | AMaxProps.          (* a third-party class: no schema creator applies (NotImplementedError) unless its
                                   serialization is overridden by a strategy *)

(* one init-field of a dataclass: key used in "properties" (alias or name), type,
   "has neither default nor default_factory", rendered default (None = MISSING) *)
Record fld := mkfld { f_alias: string; f_ty: ty; f_req: bool; f_default: option js; f_descr: option string }.

(* ---- Instance.fields() / Instance.alias: from the dataclass fields as written to the records above ---- *)
Inductive rdef := RNone | RDefault (rendered: js) | RFactory.
(* an overridden serialization method (get_overridden_serialization_method): pass_through, one of the basic types
   str/int/float/bool, a callable with its return annotation (None: not annotated), or a strategy that has no
   "serialize" part (skipped) *)
Inductive ov := OPass | OBasic (t: ty) | ORet (t: option ty) | ODeser.
Record rfld := mkrfld {
  r_name: string; r_meta_alias: option string;   (* field(metadata={"alias": ..}) / field_options(alias=..) *)
  r_ann_alias: option string;                     (* the last Annotated[.., Alias(..)] *)
  r_ty: ty; r_final: bool;                        (* the annotation is Final[r_ty] *)
  r_init: bool; r_def: rdef; r_descr: option string;
  r_ser: option ov;                               (* field option "serialize" *)
  r_strat: option ov }.                           (* field option "serialization_strategy" *)
Record rcls := mkrcls { rc_aliases: list (string * string);   (* Config.aliases *)
                        rc_dial_omit_none: option bool;        (* Config.dialect.omit_none, if the dialect sets it *)
                        rc_omit_none: option bool;             (* Config.omit_none, if set *)
                        rc_dialect: list (string * ov);        (* Config.dialect.serialization_strategy, by type key *)
                        rc_strats: list (string * ov);         (* Config.serialization_strategy, by type key *)
                        rc_fields: list rfld }.

Definition first_some {A} (a b: option A) : option A := match a with Some _ => a | None => b end.

Definition ctab := list (string * list fld).
Definition defs := list (string * js).        (* Context.definitions, insertion ordered *)

Record bcfg := mkcfg { c_all_refs: bool; c_prefix: string }.

Fixpoint lookup {A} (k: string) (l: list (string * A)) : option A :=
  match l with
  | [] => None
  | (k', v) :: r => if String.eqb k' k then Some v else lookup k r
  end.

(* dict[k] = v : replace in place or append *)
Fixpoint aset {A} (l: list (string * A)) (k: string) (v: A) : list (string * A) :=
  match l with
  | [] => [(k, v)]
  | (k', x) :: r => if String.eqb k' k then (k', v) :: r else (k', x) :: aset r k v
  end.

Definition keys {A} (l: list (string * A)) : list string := map fst l.

(* alias = metadata alias, else Annotated Alias, else Config.aliases[name], else name; an empty alias is ignored
   (`if f_instance.alias: f_name = f_instance.alias`); fields with init=False are skipped; required = neither default nor
   default_factory; a default is rendered only for an explicit default (not for a factory) *)
(* ---- on_type_with_overridden_serialization as a rewriting of the field type ----
   Domain of this clause (ov_domain below): a replacement type mentions no overridden key and no third-party class, and a
   FIELD-level replacement type has no element positions (the implementation re-applies a field-level override to the
   derived element types: known finding field-override-container).  Strategies are looked up by the exact type
   (scalars and third-party classes carry a key); the first source that has a "serialize" part wins:
   field "serialize" option, field strategy, Config.dialect, Config. *)
Definition tykey (t: ty) : option string :=
  match t with
  | TInt => Some "int" | TFloat => Some "float" | TBool => Some "bool" | TStr => Some "str" | TOpaque n => Some n
  | _ => None
  end.
Fixpoint first_ser (l: list (option ov)) : option ov :=
  match l with
  | [] => None
  | Some ODeser :: r | None :: r => first_ser r
  | Some o :: _ => Some o
  end.
Definition apply_ov (o: option ov) (t: ty) : option ty :=   (* None: no replacement, go on with the creators *)
  match o with
  | Some (OBasic b) => Some b
  | Some (ORet (Some t')) => Some t'
  | Some (ORet None) => Some TAny
  | _ => None
  end.
(* /repo fcaa28c: the lookup keys are those of the serializer: (the Annotated form as written -- not modelled,) the type,
   then its ORIGIN class; for each key all sources in order.  A parametrised container has no key of its own here, only its
   origin: List[..] -> list, Dict[..] -> dict (other spellings of the same schema -- Sequence, Deque, Tuple[T, ...],
   Mapping, OrderedDict, Counter, ChainMap -- have other origins; the correspondence registers only list / dict and then
   spells these types List / Dict) *)
Definition okey (t: ty) : option string :=
  match t with
  | TList _ => Some "list"
  | TDict _ | TMap _ _ => Some "dict"
  | _ => None
  end.
Definition table_ov (dial conf: list (string * ov)) (t: ty) : option ov :=
  match tykey t with
  | Some k => first_ser [lookup k dial; lookup k conf]
  | None => match okey t with
            | Some k => first_ser [lookup k dial; lookup k conf]
            | None => None end
  end.
(* every position below a field (not inside another dataclass: the owner changes there) *)
Fixpoint resolve_ty (dial conf: list (string * ov)) (t: ty) {struct t} : ty :=
  match apply_ov (table_ov dial conf t) t with
  | Some t' => t'
  | None =>
    match t with
    | TList a => TList (resolve_ty dial conf a)
    | TSet a => TSet (resolve_ty dial conf a)
    | TWrap a => TWrap (resolve_ty dial conf a)
    | TDict a => TDict (resolve_ty dial conf a)
    | TMap k a => TMap (resolve_ty dial conf k) (resolve_ty dial conf a)
    | TAnn cs a => TAnn cs (resolve_ty dial conf a)
    | TTuple ts => TTuple (map (resolve_ty dial conf) ts)
    | TUnion ts => TUnion (map (resolve_ty dial conf) ts)
    | TNamed a n ts d => TNamed a n (map (resolve_ty dial conf) ts) d
    | TTyped n ts r => TTyped n (map (resolve_ty dial conf) ts) r
    | _ => t
    end
  end.
Definition resolve_field (dial conf: list (string * ov)) (r: rfld) : ty :=
  match first_ser [r.(r_ser); r.(r_strat)] with
  | Some OPass => r.(r_ty)        (* pass_through from the field: every derived position sees it again; no table lookup *)
  | Some o => match apply_ov (Some o) r.(r_ty) with
              | Some t' => match r.(r_ty) with
                           | TAnn cs _ => if r.(r_final) then t' else TAnn cs t'
                             (* the constraints stay on the instance; under Final[Annotated[..]] the field instance never saw them *)
                           | _ => t' end
              | None => resolve_ty dial conf r.(r_ty) end
  | None => resolve_ty dial conf r.(r_ty)
  end.

(* CodeBuilder.is_field_nullable for a field without default: Annotated / Final are looked through (Final is the
   field flag, Annotated carries only aliases here), then Any / None / a Union with a None member; a NewType is not *)
Fixpoint nullable_ty (t: ty) : bool :=
  match t with
  | TAny | TNone => true
  | TUnion ts => existsb (fun x => match x with TNone => true | _ => false end) ts
  | TAnn _ a => nullable_ty a
  | _ => false
  end.

(* required = neither default nor factory, and not (omit_none in force and the field nullable): with omit_none the
   serializer drops the key of a nullable field holding None *)
Definition digest_field (aliases: list (string * string)) (omit_none: bool) (dial conf: list (string * ov)) (r: rfld) : option fld :=
  if r.(r_init) then
    let a := match first_some r.(r_meta_alias) (first_some r.(r_ann_alias) (lookup r.(r_name) aliases)) with
             | Some a => a | None => r.(r_name) end in
    Some (mkfld (match a with EmptyString => r.(r_name) | _ => a end) (resolve_field dial conf r)
                (match r.(r_def) with RNone => negb (omit_none && nullable_ty r.(r_ty)) | _ => false end)
                (match r.(r_def) with RDefault v => Some v | _ => None end) r.(r_descr))
  else None.
Fixpoint digest_fields (aliases: list (string * string)) (omit_none: bool) (dial conf: list (string * ov)) (l: list rfld) : list fld :=
  match l with
  | [] => []
  | r :: t => match digest_field aliases omit_none dial conf r with
              | Some f => f :: digest_fields aliases omit_none dial conf t | None => digest_fields aliases omit_none dial conf t end
  end.
(* get_dialect_or_config_option("omit_none", False): Config.dialect first, then Config *)
Definition eff_omit_none (c: rcls) : bool :=
  match first_some c.(rc_dial_omit_none) c.(rc_omit_none) with Some b => b | None => false end.
Definition digest_tab (E: list (string * rcls)) : ctab :=
  map (fun c => (fst c, digest_fields (snd c).(rc_aliases) (eff_omit_none (snd c)) (snd c).(rc_dialect) (snd c).(rc_strats)
                                      (snd c).(rc_fields))) E.

(* ---- one JSONSchema object (children already rendered); to_dict order = field order of
        the JSONSchema dataclass, None fields omitted (Config.omit_none) ---- *)
Record sk := mk_sk {
  k_schema: option string; k_type: option string; k_enum: option (list js); k_const: option js; k_format: option string;
  k_title: option string; k_description: option string;
  k_anyOf: option (list js); k_ref: option string; k_defs: option defs;
  k_default: option js; k_props: option (list (string * js)); k_addl: option js;
  k_pnames: option js; k_prefix: option (list js); k_items: option js;
  k_multipleOf: option Z; k_maximum: option Z; k_exMax: option Z; k_minimum: option Z; k_exMin: option Z;
  k_maxLength: option Z; k_minLength: option Z; k_pattern: option string;
  k_maxItems: option Z; k_minItems: option Z; k_unique: option bool; k_maxProps: option Z; k_minProps: option Z;
  k_required: option (list string) }.

Definition sk0 : sk := mk_sk None None None None None None None None None None None None None None None None None None None None None None None None None None None None None None.

Definition optkv {A} (k: string) (f: A -> js) (o: option A) : list (string * js) :=
  match o with Some a => [(k, f a)] | None => [] end.

Definition render (r: sk) : js :=
  JObj (optkv "$schema" JStr r.(k_schema) ++ optkv "type" JStr r.(k_type) ++ optkv "enum" JArr r.(k_enum)
        ++ optkv "const" (fun d => d) r.(k_const) ++ optkv "format" JStr r.(k_format)
        ++ optkv "title" JStr r.(k_title) ++ optkv "description" JStr r.(k_description)
        ++ optkv "anyOf" JArr r.(k_anyOf) ++ optkv "$ref" JStr r.(k_ref) ++ optkv "$defs" JObj r.(k_defs)
        ++ optkv "default" (fun d => d) r.(k_default) ++ optkv "properties" JObj r.(k_props)
        ++ optkv "additionalProperties" (fun d => d) r.(k_addl) ++ optkv "propertyNames" (fun d => d) r.(k_pnames)
        ++ optkv "prefixItems" JArr r.(k_prefix) ++ optkv "items" (fun d => d) r.(k_items)
        ++ optkv "multipleOf" JInt r.(k_multipleOf) ++ optkv "maximum" JInt r.(k_maximum)
        ++ optkv "exclusiveMaximum" JInt r.(k_exMax) ++ optkv "minimum" JInt r.(k_minimum)
        ++ optkv "exclusiveMinimum" JInt r.(k_exMin)
        ++ optkv "maxLength" JInt r.(k_maxLength) ++ optkv "minLength" JInt r.(k_minLength)
        ++ optkv "pattern" JStr r.(k_pattern)
        ++ optkv "maxItems" JInt r.(k_maxItems) ++ optkv "minItems" JInt r.(k_minItems)
        ++ optkv "uniqueItems" JBool r.(k_unique)
        ++ optkv "maxProperties" JInt r.(k_maxProps) ++ optkv "minProperties" JInt r.(k_minProps)
        ++ optkv "required" (fun l => JArr (map JStr l)) r.(k_required))%list.

Definition set_type (s: sk) (t: string) : sk :=
  mk_sk s.(k_schema) (Some t) s.(k_enum) s.(k_const) s.(k_format) s.(k_title) s.(k_description) s.(k_anyOf) s.(k_ref) s.(k_defs) s.(k_default) s.(k_props) s.(k_addl) s.(k_pnames) s.(k_prefix) s.(k_items) s.(k_multipleOf) s.(k_maximum) s.(k_exMax) s.(k_minimum) s.(k_exMin) s.(k_maxLength) s.(k_minLength) s.(k_pattern) s.(k_maxItems) s.(k_minItems) s.(k_unique) s.(k_maxProps) s.(k_minProps) s.(k_required).
Definition set_default (s: sk) (d: option js) : sk :=
  match d with
  | None => s
  | Some _ =>
    mk_sk s.(k_schema) s.(k_type) s.(k_enum) s.(k_const) s.(k_format) s.(k_title) s.(k_description) s.(k_anyOf) s.(k_ref) s.(k_defs) d s.(k_props) s.(k_addl) s.(k_pnames) s.(k_prefix) s.(k_items) s.(k_multipleOf) s.(k_maximum) s.(k_exMax) s.(k_minimum) s.(k_exMin) s.(k_maxLength) s.(k_minLength) s.(k_pattern) s.(k_maxItems) s.(k_minItems) s.(k_unique) s.(k_maxProps) s.(k_minProps) s.(k_required)
  end.
(* description = f_instance.metadata.get("description"); if description: f_schema.description = description *)
Definition set_description (s: sk) (d: option string) : sk :=
  match d with
  | None | Some EmptyString => s
  | Some _ =>
    mk_sk s.(k_schema) s.(k_type) s.(k_enum) s.(k_const) s.(k_format) s.(k_title) d s.(k_anyOf) s.(k_ref) s.(k_defs) s.(k_default) s.(k_props) s.(k_addl) s.(k_pnames) s.(k_prefix) s.(k_items) s.(k_multipleOf) s.(k_maximum) s.(k_exMax) s.(k_minimum) s.(k_exMin) s.(k_maxLength) s.(k_minLength) s.(k_pattern) s.(k_maxItems) s.(k_minItems) s.(k_unique) s.(k_maxProps) s.(k_minProps) s.(k_required)
  end.
Definition set_defs (s: sk) (d: defs) : sk :=
  mk_sk s.(k_schema) s.(k_type) s.(k_enum) s.(k_const) s.(k_format) s.(k_title) s.(k_description) s.(k_anyOf) s.(k_ref) (Some d) s.(k_default) s.(k_props) s.(k_addl) s.(k_pnames) s.(k_prefix) s.(k_items) s.(k_multipleOf) s.(k_maximum) s.(k_exMax) s.(k_minimum) s.(k_exMin) s.(k_maxLength) s.(k_minLength) s.(k_pattern) s.(k_maxItems) s.(k_minItems) s.(k_unique) s.(k_maxProps) s.(k_minProps) s.(k_required).
Definition set_schema (s: sk) (u: string) : sk :=
  mk_sk (Some u) s.(k_type) s.(k_enum) s.(k_const) s.(k_format) s.(k_title) s.(k_description) s.(k_anyOf) s.(k_ref) s.(k_defs) s.(k_default) s.(k_props) s.(k_addl) s.(k_pnames) s.(k_prefix) s.(k_items) s.(k_multipleOf) s.(k_maximum) s.(k_exMax) s.(k_minimum) s.(k_exMin) s.(k_maxLength) s.(k_minLength) s.(k_pattern) s.(k_maxItems) s.(k_minItems) s.(k_unique) s.(k_maxProps) s.(k_minProps) s.(k_required).

Definition ty_sk (t: string) : sk := set_type sk0 t.
Definition leaf_sk (t: string) (fmt pat: option string) : sk :=
  mk_sk None (Some t) None None fmt None None None None None None None None None None None None None None None None None None pat None None None None None None.
(* Enum: enum = member values; Literal: const for one value, else enum *)
Definition enum_sk (lit: bool) (vals: list js) : sk :=
  match lit, vals with
  | true, [v] => mk_sk None None None (Some v) None None None None None None None None None None None None None None None None None None None None None None None None None None
  | _, _ => mk_sk None None (Some vals) None None None None None None None None None None None None None None None None None None None None None None None None None None None
  end.
Definition arr_sk (items: option js) (unique: option bool) : sk :=
  mk_sk None (Some "array") None None None None None None None None None None None None None items None None None None None None None None None None unique None None None.
Definition tuple_sk (prefix: list js) : sk :=
  match prefix with
  | [] => mk_sk None (Some "array") None None None None None None None None None None None None None None None None None None None None None None (Some 0%Z) None None None None None
  | _ => let n := Z.of_nat (List.length prefix) in
         mk_sk None (Some "array") None None None None None None None None None None None None (Some prefix) None None None None None None None None None (Some n) (Some n) None None None None
  end.
Definition dict_sk (addl pn: option js) : sk :=
  mk_sk None (Some "object") None None None None None None None None None None addl pn None None None None None None None None None None None None None None None None.
Definition union_sk (l: list js) : sk :=
  mk_sk None None None None None None None (Some l) None None None None None None None None None None None None None None None None None None None None None None.
Definition ref_sk (r: string) : sk :=
  mk_sk None None None None None None None None (Some r) None None None None None None None None None None None None None None None None None None None None None.
(* NamedTuple, list form: JSONArraySchema(prefixItems=items or None, maxItems=n or None, minItems=n or None) *)
Definition ntuple_sk (prefix: list js) : sk :=
  match prefix with
  | [] => arr_sk None None
  | _ => tuple_sk prefix
  end.
(* NamedTuple, dict form: JSONObjectSchema(properties=props or None, required=list(fields), additionalProperties=False) *)
Definition ntobj_sk (props: list (string * js)) (req: list string) : sk :=
  mk_sk None (Some "object") None None None None None None None None None (match props with [] => None | _ => Some props end) (Some (JBool false)) None None None None None None None None None None None None None None None None (Some req).

(* dataclass (title = class name) and TypedDict (no title): properties or None, additionalProperties False, required or None *)
Definition obj_sk (title: option string) (props: list (string * js)) (req: list string) : sk :=
  mk_sk None (Some "object") None None None title None None None None None (match props with [] => None | _ => Some props end) (Some (JBool false)) None None None None None None None None None None None None None None None None (match req with [] => None | _ => Some req end).

Definition setn_multipleOf (s: sk) (z: Z) : sk :=
  mk_sk s.(k_schema) s.(k_type) s.(k_enum) s.(k_const) s.(k_format) s.(k_title) s.(k_description) s.(k_anyOf) s.(k_ref) s.(k_defs) s.(k_default) s.(k_props) s.(k_addl) s.(k_pnames) s.(k_prefix) s.(k_items) (Some z) s.(k_maximum) s.(k_exMax) s.(k_minimum) s.(k_exMin) s.(k_maxLength) s.(k_minLength) s.(k_pattern) s.(k_maxItems) s.(k_minItems) s.(k_unique) s.(k_maxProps) s.(k_minProps) s.(k_required).
Definition setn_maximum (s: sk) (z: Z) : sk :=
  mk_sk s.(k_schema) s.(k_type) s.(k_enum) s.(k_const) s.(k_format) s.(k_title) s.(k_description) s.(k_anyOf) s.(k_ref) s.(k_defs) s.(k_default) s.(k_props) s.(k_addl) s.(k_pnames) s.(k_prefix) s.(k_items) s.(k_multipleOf) (Some z) s.(k_exMax) s.(k_minimum) s.(k_exMin) s.(k_maxLength) s.(k_minLength) s.(k_pattern) s.(k_maxItems) s.(k_minItems) s.(k_unique) s.(k_maxProps) s.(k_minProps) s.(k_required).
Definition setn_exMax (s: sk) (z: Z) : sk :=
  mk_sk s.(k_schema) s.(k_type) s.(k_enum) s.(k_const) s.(k_format) s.(k_title) s.(k_description) s.(k_anyOf) s.(k_ref) s.(k_defs) s.(k_default) s.(k_props) s.(k_addl) s.(k_pnames) s.(k_prefix) s.(k_items) s.(k_multipleOf) s.(k_maximum) (Some z) s.(k_minimum) s.(k_exMin) s.(k_maxLength) s.(k_minLength) s.(k_pattern) s.(k_maxItems) s.(k_minItems) s.(k_unique) s.(k_maxProps) s.(k_minProps) s.(k_required).
Definition setn_minimum (s: sk) (z: Z) : sk :=
  mk_sk s.(k_schema) s.(k_type) s.(k_enum) s.(k_const) s.(k_format) s.(k_title) s.(k_description) s.(k_anyOf) s.(k_ref) s.(k_defs) s.(k_default) s.(k_props) s.(k_addl) s.(k_pnames) s.(k_prefix) s.(k_items) s.(k_multipleOf) s.(k_maximum) s.(k_exMax) (Some z) s.(k_exMin) s.(k_maxLength) s.(k_minLength) s.(k_pattern) s.(k_maxItems) s.(k_minItems) s.(k_unique) s.(k_maxProps) s.(k_minProps) s.(k_required).
Definition setn_exMin (s: sk) (z: Z) : sk :=
  mk_sk s.(k_schema) s.(k_type) s.(k_enum) s.(k_const) s.(k_format) s.(k_title) s.(k_description) s.(k_anyOf) s.(k_ref) s.(k_defs) s.(k_default) s.(k_props) s.(k_addl) s.(k_pnames) s.(k_prefix) s.(k_items) s.(k_multipleOf) s.(k_maximum) s.(k_exMax) s.(k_minimum) (Some z) s.(k_maxLength) s.(k_minLength) s.(k_pattern) s.(k_maxItems) s.(k_minItems) s.(k_unique) s.(k_maxProps) s.(k_minProps) s.(k_required).
Definition setn_maxLength (s: sk) (z: Z) : sk :=
  mk_sk s.(k_schema) s.(k_type) s.(k_enum) s.(k_const) s.(k_format) s.(k_title) s.(k_description) s.(k_anyOf) s.(k_ref) s.(k_defs) s.(k_default) s.(k_props) s.(k_addl) s.(k_pnames) s.(k_prefix) s.(k_items) s.(k_multipleOf) s.(k_maximum) s.(k_exMax) s.(k_minimum) s.(k_exMin) (Some z) s.(k_minLength) s.(k_pattern) s.(k_maxItems) s.(k_minItems) s.(k_unique) s.(k_maxProps) s.(k_minProps) s.(k_required).
Definition setn_minLength (s: sk) (z: Z) : sk :=
  mk_sk s.(k_schema) s.(k_type) s.(k_enum) s.(k_const) s.(k_format) s.(k_title) s.(k_description) s.(k_anyOf) s.(k_ref) s.(k_defs) s.(k_default) s.(k_props) s.(k_addl) s.(k_pnames) s.(k_prefix) s.(k_items) s.(k_multipleOf) s.(k_maximum) s.(k_exMax) s.(k_minimum) s.(k_exMin) s.(k_maxLength) (Some z) s.(k_pattern) s.(k_maxItems) s.(k_minItems) s.(k_unique) s.(k_maxProps) s.(k_minProps) s.(k_required).
Definition setn_maxItems (s: sk) (z: Z) : sk :=
  mk_sk s.(k_schema) s.(k_type) s.(k_enum) s.(k_const) s.(k_format) s.(k_title) s.(k_description) s.(k_anyOf) s.(k_ref) s.(k_defs) s.(k_default) s.(k_props) s.(k_addl) s.(k_pnames) s.(k_prefix) s.(k_items) s.(k_multipleOf) s.(k_maximum) s.(k_exMax) s.(k_minimum) s.(k_exMin) s.(k_maxLength) s.(k_minLength) s.(k_pattern) (Some z) s.(k_minItems) s.(k_unique) s.(k_maxProps) s.(k_minProps) s.(k_required).
Definition setn_minItems (s: sk) (z: Z) : sk :=
  mk_sk s.(k_schema) s.(k_type) s.(k_enum) s.(k_const) s.(k_format) s.(k_title) s.(k_description) s.(k_anyOf) s.(k_ref) s.(k_defs) s.(k_default) s.(k_props) s.(k_addl) s.(k_pnames) s.(k_prefix) s.(k_items) s.(k_multipleOf) s.(k_maximum) s.(k_exMax) s.(k_minimum) s.(k_exMin) s.(k_maxLength) s.(k_minLength) s.(k_pattern) s.(k_maxItems) (Some z) s.(k_unique) s.(k_maxProps) s.(k_minProps) s.(k_required).
Definition setn_maxProps (s: sk) (z: Z) : sk :=
  mk_sk s.(k_schema) s.(k_type) s.(k_enum) s.(k_const) s.(k_format) s.(k_title) s.(k_description) s.(k_anyOf) s.(k_ref) s.(k_defs) s.(k_default) s.(k_props) s.(k_addl) s.(k_pnames) s.(k_prefix) s.(k_items) s.(k_multipleOf) s.(k_maximum) s.(k_exMax) s.(k_minimum) s.(k_exMin) s.(k_maxLength) s.(k_minLength) s.(k_pattern) s.(k_maxItems) s.(k_minItems) s.(k_unique) (Some z) s.(k_minProps) s.(k_required).
Definition setn_minProps (s: sk) (z: Z) : sk :=
  mk_sk s.(k_schema) s.(k_type) s.(k_enum) s.(k_const) s.(k_format) s.(k_title) s.(k_description) s.(k_anyOf) s.(k_ref) s.(k_defs) s.(k_default) s.(k_props) s.(k_addl) s.(k_pnames) s.(k_prefix) s.(k_items) s.(k_multipleOf) s.(k_maximum) s.(k_exMax) s.(k_minimum) s.(k_exMin) s.(k_maxLength) s.(k_minLength) s.(k_pattern) s.(k_maxItems) s.(k_minItems) s.(k_unique) s.(k_maxProps) (Some z) s.(k_required).
Definition set_pattern (s: sk) (p: string) : sk :=
  mk_sk s.(k_schema) s.(k_type) s.(k_enum) s.(k_const) s.(k_format) s.(k_title) s.(k_description) s.(k_anyOf) s.(k_ref) s.(k_defs) s.(k_default) s.(k_props) s.(k_addl) s.(k_pnames) s.(k_prefix) s.(k_items) s.(k_multipleOf) s.(k_maximum) s.(k_exMax) s.(k_minimum) s.(k_exMin) s.(k_maxLength) s.(k_minLength) (Some p) s.(k_maxItems) s.(k_minItems) s.(k_unique) s.(k_maxProps) s.(k_minProps) s.(k_required).
Definition set_unique (s: sk) (b: bool) : sk :=
  mk_sk s.(k_schema) s.(k_type) s.(k_enum) s.(k_const) s.(k_format) s.(k_title) s.(k_description) s.(k_anyOf) s.(k_ref) s.(k_defs) s.(k_default) s.(k_props) s.(k_addl) s.(k_pnames) s.(k_prefix) s.(k_items) s.(k_multipleOf) s.(k_maximum) s.(k_exMax) s.(k_minimum) s.(k_exMin) s.(k_maxLength) s.(k_minLength) s.(k_pattern) s.(k_maxItems) s.(k_minItems) (Some b) s.(k_maxProps) s.(k_minProps) s.(k_required).

(* which group of constraint annotations a type takes: on_number, str, apply_array_constraints,
   apply_object_constraints, on_pathlike *)
Inductive akind := AKNum | AKStr | AKArr | AKObj | AKPath | AKNone.
Definition akind_of (t: ty) : akind :=
  match t with
  | TInt | TFloat => AKNum
  | TStr => AKStr
  | TList _ | TSet _ | TTuple _ | TNamed _ _ _ _ => AKArr
  | TDict _ | TMap _ _ => AKObj
  | TLeaf _ (Some "path") _ => AKPath
  | _ => AKNone
  end.
Definition apply_ann (c: ann) (k: akind) (s: sk) : sk :=
  match c, k with
  | ANum AMaximum z, AKNum => setn_maximum s z
  | ANum AMinimum z, AKNum => setn_minimum s z
  | ANum AExMax z, AKNum => setn_exMax s z
  | ANum AExMin z, AKNum => setn_exMin s z
  | ANum AMultipleOf z, AKNum => setn_multipleOf s z
  | ANum AMinLength z, (AKStr | AKPath) => setn_minLength s z
  | ANum AMaxLength z, (AKStr | AKPath) => setn_maxLength s z
  | APattern p, AKStr => set_pattern s p
  | ANum AMinItems z, AKArr => setn_minItems s z
  | ANum AMaxItems z, AKArr => setn_maxItems s z
  | AUnique b, AKArr => set_unique s b
  | ANum AMinProps z, AKObj => setn_minProps s z
  | ANum AMaxProps z, AKObj => setn_maxProps s z
  | _, _ => s
  end.
Fixpoint apply_anns (cs: list ann) (k: akind) (s: sk) : sk :=
  match cs with [] => s | c :: r => apply_anns r k (apply_ann c k s) end.
(* the metaschema wants non-negative lengths / counts *)
Definition ann_ok (c: ann) : bool :=
  match c with
  | ANum (AMinLength | AMaxLength | AMinItems | AMaxItems | AMinProps | AMaxProps) z => (0 <=? z)%Z
  | _ => true
  end.

Definition formats : list string :=
  ["date-time"; "date"; "time"; "duration"; "email"; "idn-email"; "hostname"; "idn-hostname"; "ipv4"; "ipv6"; "uri";
   "uri-reference"; "iri"; "iri-reference"; "uuid"; "uri-template"; "json-pointer"; "relative-json-pointer"; "regex";
   "time-delta"; "time-zone"; "ipv4network"; "ipv6network"; "ipv4interface"; "ipv6interface"; "decimal"; "fraction";
   "base64"; "path"].

Definition is_type_name (s: string) : bool :=
  String.eqb s "null" || String.eqb s "boolean" || String.eqb s "object" || String.eqb s "array"
  || String.eqb s "number" || String.eqb s "string" || String.eqb s "integer".

Fixpoint str_mem (s: string) (l: list string) : bool :=
  match l with [] => false | x :: r => String.eqb x s || str_mem s r end.
Fixpoint str_nodup (l: list string) : bool :=
  match l with [] => true | x :: r => negb (str_mem x r) && str_nodup r end.

(* sorted(required_keys): insertion sort by code points (= byte order of UTF-8) *)
Fixpoint insert_str (x: string) (l: list string) : list string :=
  match l with
  | [] => [x]
  | y :: r => if String.leb x y then x :: y :: r else y :: insert_str x r
  end.
Fixpoint isort (l: list string) : list string :=
  match l with [] => [] | x :: r => insert_str x (isort r) end.
Fixpoint req_keys (names: list string) (req: list bool) : list string :=
  match names, req with
  | n :: ns, true :: rs => n :: req_keys ns rs
  | _ :: ns, false :: rs => req_keys ns rs
  | _, _ => []
  end.

(* _get_schema_or_none looks at the class of the RESULT (EmptyJSONSchema), which a wrapper passes through *)
Fixpoint is_any (t: ty) : bool := match t with TAny => true | TWrap a | TAnn _ a => is_any a | _ => false end.
Definition or_none (t: ty) (s: sk) : option js := if is_any t then None else Some (render s).

(* ---- results: value, fuel exhausted (= RecursionError of the implementation), error ---- *)
Inductive sres (A: Type) := SOk (a: A) | SFuel | SErr.
Arguments SOk {A} a.
Arguments SFuel {A}.
Arguments SErr {A}.

Section MapSt.
  (* get_schema over the arguments of a tuple / union / the fields of a NamedTuple (with their
     defaults), threading the definitions *)
  Context (rec: ty -> defs -> sres (sk * defs)).
  Fixpoint map_st (l: list ty) (ds: list (option js)) (st: defs) : sres (list js * defs) :=
    match l with
    | [] => SOk ([], st)
    | t1 :: r =>
        match rec t1 st with
        | SOk (s, st1) =>
            match map_st r (tl ds) st1 with
            | SOk (ss, st2) => SOk (render (set_default s (hd None ds)) :: ss, st2)
            | SFuel => SFuel | SErr => SErr end
        | SFuel => SFuel | SErr => SErr end
    end.
End MapSt.

Section Fields.
  (* the loop of on_dataclass over Instance.fields(); [rec] is get_schema on the field type *)
  Context (rec: ty -> defs -> sres (sk * defs)).
  Fixpoint fields_fold (fs: list fld) (props: list (string * js)) (req: list string) (st: defs)
    : sres ((list (string * js) * list string) * defs) :=
    match fs with
    | [] => SOk ((props, req), st)
    | f :: r =>
        match rec f.(f_ty) st with
        | SOk (s, st1) =>
            let s' := set_description (set_default s f.(f_default)) f.(f_descr) in
            fields_fold r (aset props f.(f_alias) (render s'))
                        (if f.(f_req) then (req ++ [f.(f_alias)])%list else req) st1
        | SFuel => SFuel
        | SErr => SErr
        end
    end.
End Fields.

Section Gen.
  Variable E: ctab.
  Variable cfg: bcfg.

  (* get_schema: fuel is consumed only when a dataclass is entered *)
  Fixpoint schema_fuel (fuel: nat) : ty -> defs -> sres (sk * defs) :=
    fix on_ty (t: ty) : defs -> sres (sk * defs) :=
      match t with
      | TInt => fun st => SOk (ty_sk "integer", st)
      | TFloat => fun st => SOk (ty_sk "number", st)
      | TBool => fun st => SOk (ty_sk "boolean", st)
      | TStr => fun st => SOk (ty_sk "string", st)
      | TNone => fun st => SOk (ty_sk "null", st)
      | TAny => fun st => SOk (sk0, st)
      | TWrap a => fun st => on_ty a st
      | TList a => fun st =>
          match on_ty a st with
          | SOk (s, st1) => SOk (arr_sk (or_none a s) None, st1)
          | SFuel => SFuel | SErr => SErr end
      | TSet a => fun st =>
          match on_ty a st with
          | SOk (s, st1) => SOk (arr_sk (or_none a s) (Some true), st1)
          | SFuel => SFuel | SErr => SErr end
      | TDict a => fun st =>
          match on_ty a st with
          | SOk (s, st1) => SOk (dict_sk (or_none a s) (Some (render (ty_sk "string"))), st1)
          | SFuel => SFuel | SErr => SErr end
      | TMap k a => fun st =>      (* keyword arguments are evaluated in order: additionalProperties (value type) first *)
          match on_ty a st with
          | SOk (s, st1) =>
              match on_ty k st1 with
              | SOk (sk', st2) => SOk (dict_sk (or_none a s) (or_none k sk'), st2)
              | SFuel => SFuel | SErr => SErr end
          | SFuel => SFuel | SErr => SErr end
      | TTuple ts => fun st =>
          match map_st on_ty ts [] st with
          | SOk (ss, st1) => SOk (tuple_sk ss, st1)
          | SFuel => SFuel | SErr => SErr end
      | TUnion ts => fun st =>
          match ts with
          | [] => SErr
          | _ =>
          match map_st on_ty ts [] st with
          | SOk (ss, st1) => SOk (union_sk ss, st1)
          | SFuel => SFuel | SErr => SErr end
          end
      | TNamed asd names ts ds => fun st =>
          if str_nodup names && Nat.eqb (List.length names) (List.length ts)
          then match map_st on_ty ts ds st with
               | SOk (ss, st1) => SOk (if asd then ntobj_sk (combine names ss) names else ntuple_sk ss, st1)
               | SFuel => SFuel | SErr => SErr end
          else SErr
      | TLeaf tp fmt pat => fun st =>
          if is_type_name tp && match fmt with Some f => str_mem f formats | None => true end
          then SOk (leaf_sk tp fmt pat, st) else SErr
      | TOpaque _ => fun st => SErr
      | TAnn cs a => fun st =>
          if forallb ann_ok cs
          then match on_ty a st with
               | SOk (s, st1) => SOk (apply_anns cs (akind_of a) s, st1)
               | SFuel => SFuel | SErr => SErr end
          else SErr
      | TEnum lit vals => fun st => SOk (enum_sk lit vals, st)
      | TTyped names ts req => fun st =>
          if str_nodup names && Nat.eqb (List.length names) (List.length ts)
          then match map_st on_ty ts [] st with
               | SOk (ss, st1) => SOk (obj_sk None (combine names ss) (isort (req_keys names req)), st1)
               | SFuel => SFuel | SErr => SErr end
          else SErr
      | TClass c => fun st =>
          match fuel with
          | O => SFuel
          | S fuel' =>
              match lookup c E with
              | None => SErr
              | Some fs =>
                  match fields_fold (schema_fuel fuel') fs [] [] st with
                  | SOk ((props, req), st1) =>
                      let obj := obj_sk (Some c) props req in
                      if cfg.(c_all_refs)
                      then SOk (ref_sk (cfg.(c_prefix) ++ "/" ++ c), aset st1 c (render obj))
                      else SOk (obj, st1)
                  | SFuel => SFuel | SErr => SErr end
              end
          end
      end.

  (* build_json_schema(t, context=ctx(st), with_definitions, with_dialect_uri) *)
  Definition build (fuel: nat) (with_defs: bool) (uri: option string) (t: ty) (st: defs) : sres (js * defs) :=
    match schema_fuel fuel t st with
    | SOk (s, st1) =>
        let s1 := match uri with Some u => set_schema s u | None => s end in
        let s2 := if with_defs then match st1 with [] => s1 | _ => set_defs s1 st1 end else s1 in
        SOk (render s2, st1)
    | SFuel => SFuel | SErr => SErr end.

  (* JSONSchemaBuilder: a sequence of build() calls on one context *)
  Fixpoint build_seq (fuel: nat) (ts: list ty) (st: defs) : sres (list js * defs) :=
    match ts with
    | [] => SOk ([], st)
    | t :: r =>
        match build fuel false None t st with
        | SOk (d, st1) =>
            match build_seq fuel r st1 with
            | SOk (ds, st2) => SOk (d :: ds, st2)
            | SFuel => SFuel | SErr => SErr end
        | SFuel => SFuel | SErr => SErr end
    end.
End Gen.

(* ---- classes mentioned by a type ---- *)
Fixpoint classes_of (t: ty) : list string :=
  match t with
  | TList a | TSet a | TDict a | TWrap a | TAnn _ a => classes_of a
  | TMap k a => (classes_of a ++ classes_of k)%list
  | TTuple ts | TUnion ts | TNamed _ _ ts _ | TTyped _ ts _ => (fix go (l: list ty) := match l with [] => [] | x :: r => (classes_of x ++ go r)%list end) ts
  | TClass c => [c]
  | _ => []
  end.

(* no empty Union (typing cannot build one) *)
Fixpoint ty_ok (t: ty) : bool :=
  match t with
  | TList a | TSet a | TDict a | TWrap a => ty_ok a
  | TAnn cs a => forallb ann_ok cs && ty_ok a
  | TMap k a => ty_ok a && ty_ok k
  | TTuple ts => (fix go (l: list ty) := match l with [] => true | x :: r => ty_ok x && go r end) ts
  | TUnion ts => match ts with [] => false | _ => (fix go (l: list ty) := match l with [] => true | x :: r => ty_ok x && go r end) ts end
  | TNamed _ names ts _ =>
      str_nodup names && Nat.eqb (List.length names) (List.length ts)
      && (fix go (l: list ty) := match l with [] => true | x :: r => ty_ok x && go r end) ts
  | TTyped names ts _ =>
      str_nodup names && Nat.eqb (List.length names) (List.length ts)
      && (fix go (l: list ty) := match l with [] => true | x :: r => ty_ok x && go r end) ts
  | TLeaf tp fmt _ => is_type_name tp && match fmt with Some f => str_mem f formats | None => true end
  | TOpaque _ => false
  | _ => true
  end.

(* ---- $ref strings at schema positions of a document (Draft 2020-12 keyword positions) ---- *)
Inductive kwclass := KRef | KSch | KSchList | KSchDict | KData.
Definition kwclass_of (k: string) : kwclass :=
  if String.eqb k "$ref" then KRef
  else if String.eqb k "items" || String.eqb k "additionalProperties" || String.eqb k "propertyNames"
          || String.eqb k "contains" || String.eqb k "not" then KSch
  else if String.eqb k "anyOf" || String.eqb k "allOf" || String.eqb k "oneOf" || String.eqb k "prefixItems" then KSchList
  else if String.eqb k "properties" || String.eqb k "$defs" || String.eqb k "patternProperties" then KSchDict
  else KData.

Fixpoint refs (d: js) : list string :=
  match d with
  | JObj kvs =>
      (fix go (l: list (string * js)) : list string :=
         match l with
         | [] => []
         | (k, v) :: r =>
             (match kwclass_of k with
              | KRef => match v with JStr s => [s] | _ => [] end
              | KSch => refs v
              | KSchList => match v with
                            | JArr xs => (fix gl (xs: list js) : list string :=
                                            match xs with [] => [] | x :: xr => (refs x ++ gl xr)%list end) xs
                            | _ => [] end
              | KSchDict => match v with
                            | JObj m => (fix gm (m: list (string * js)) : list string :=
                                           match m with [] => [] | (_, x) :: mr => (refs x ++ gm mr)%list end) m
                            | _ => [] end
              | KData => []
              end ++ go r)%list
         end) kvs
  | _ => []
  end.

(* ---- the part of the Draft 2020-12 metaschema that constrains the emitted keywords ---- *)

Fixpoint all_strs (l: list js) : option (list string) :=
  match l with
  | [] => Some []
  | JStr s :: r => match all_strs r with Some ss => Some (s :: ss) | None => None end
  | _ => None
  end.

Inductive mkind := MStr | MType | MNonNeg | MBool | MStrSet | MSch | MSchArr | MSchDict | MArr | MAny.
Definition mkind_of (k: string) : mkind :=
  if String.eqb k "$ref" || String.eqb k "$schema" || String.eqb k "title" || String.eqb k "description"
     || String.eqb k "format" || String.eqb k "pattern" then MStr
  else if String.eqb k "type" then MType
  else if String.eqb k "maxItems" || String.eqb k "minItems" || String.eqb k "maxLength" || String.eqb k "minLength"
          || String.eqb k "maxProperties" || String.eqb k "minProperties" || String.eqb k "maxContains"
          || String.eqb k "minContains" then MNonNeg
  else if String.eqb k "uniqueItems" || String.eqb k "deprecated" then MBool
  else if String.eqb k "required" then MStrSet
  else if String.eqb k "items" || String.eqb k "additionalProperties" || String.eqb k "propertyNames"
          || String.eqb k "contains" || String.eqb k "not" then MSch
  else if String.eqb k "anyOf" || String.eqb k "allOf" || String.eqb k "oneOf" || String.eqb k "prefixItems" then MSchArr
  else if String.eqb k "properties" || String.eqb k "$defs" || String.eqb k "patternProperties" then MSchDict
  else if String.eqb k "enum" || String.eqb k "examples" then MArr
  else MAny.

(* a schema is an object or a boolean *)
Fixpoint meta_ok (d: js) : bool :=
  match d with
  | JBool _ => true
  | JObj kvs =>
      (fix go (l: list (string * js)) : bool :=
         match l with
         | [] => true
         | (k, v) :: r =>
             (match mkind_of k with
              | MStr => match v with JStr _ => true | _ => false end
              | MType => match v with
                         | JStr s => is_type_name s
                         | JArr xs => match all_strs xs with
                                      | Some ss => forallb is_type_name ss && str_nodup ss
                                      | None => false end
                         | _ => false end
              | MNonNeg => match v with JInt z => (0 <=? z)%Z | _ => false end
              | MBool => match v with JBool _ => true | _ => false end
              | MStrSet => match v with
                           | JArr xs => match all_strs xs with Some ss => str_nodup ss | None => false end
                           | _ => false end
              | MSch => meta_ok v
              | MSchArr => match v with
                           | JArr [] => false
                           | JArr xs => (fix gl (xs: list js) : bool :=
                                           match xs with [] => true | x :: xr => meta_ok x && gl xr end) xs
                           | _ => false end
              | MSchDict => match v with
                            | JObj m => (fix gm (m: list (string * js)) : bool :=
                                           match m with [] => true | (_, x) :: mr => meta_ok x && gm mr end) m
                            | _ => false end
              | MArr => match v with JArr _ => true | _ => false end
              | MAny => true
              end) && go r
         end) kvs
  | _ => false
  end.

(* ---- canonical text of a document, for the comparison with the implementation ---- *)
Definition nl : string := String (ascii_of_nat 10) EmptyString.

Fixpoint pos_digits (fuel: nat) (n: N) (acc: string) : string :=
  match fuel with
  | O => acc
  | S f => let d := N.modulo n 10 in
           let acc' := String (ascii_of_nat (48 + N.to_nat d)) acc in
           if N.leb n 9 then acc' else pos_digits f (N.div n 10) acc'
  end.
Definition z_str (z: Z) : string :=
  match z with
  | Z0 => "0"
  | Zpos p => pos_digits (S (Pos.to_nat (Pos.size p))) (Npos p) ""
  | Zneg p => "-" ++ pos_digits (S (Pos.to_nat (Pos.size p))) (Npos p) ""
  end.

(* strings are written as <len>:<bytes> (no escaping needed, unambiguous) *)
Definition s_str (s: string) : string := z_str (Z.of_nat (String.length s)) ++ ":" ++ s.

Fixpoint canon (d: js) : string :=
  match d with
  | JNull => "n"
  | JBool true => "t"
  | JBool false => "f"
  | JInt z => "i" ++ z_str z ++ ";"
  | JStr s => "s" ++ s_str s
  | JArr l => "[" ++ (fix go (l: list js) : string := match l with [] => "" | x :: r => canon x ++ go r end) l ++ "]"
  | JObj kvs => "{" ++ (fix go (l: list (string * js)) : string :=
                          match l with [] => "" | (k, v) :: r => s_str k ++ canon v ++ go r end) kvs ++ "}"
  end.
