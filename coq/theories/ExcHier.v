(* Python's `except` matching, as far as the C05 model needs it: subclass test over the builtin exception
   hierarchy (a fixed table: CPython fact, trusted) extended by the classes of mashumaro/exceptions.py
   (translated from the source on every run: VerifGen.K16.exc_bases). *)
From Coq Require Import List String Bool.
From Verif Require Import Core.
Import ListNotations.
Open Scope string_scope.

Definition builtin_bases : list (string * list string) :=
  [("BaseException", []); ("Exception", ["BaseException"]);
   ("KeyboardInterrupt", ["BaseException"]); ("SystemExit", ["BaseException"]); ("GeneratorExit", ["BaseException"]);
   ("LookupError", ["Exception"]); ("KeyError", ["LookupError"]); ("IndexError", ["LookupError"]);
   ("ValueError", ["Exception"]); ("TypeError", ["Exception"]); ("AttributeError", ["Exception"]);
   ("NameError", ["Exception"]); ("ImportError", ["Exception"]); ("ModuleNotFoundError", ["ImportError"]);
   ("ArithmeticError", ["Exception"]); ("RuntimeError", ["Exception"]); ("RecursionError", ["RuntimeError"]);
   ("StopIteration", ["Exception"]); ("AssertionError", ["Exception"]); ("UnicodeError", ["ValueError"])].

Definition bases_of (tbl: list (string * list string)) (c: string) : list string :=
  match find (fun p => String.eqb (fst p) c) tbl with Some p => snd p | None => [] end.

(* issubclass(c, target), following base classes at most [fuel] levels up *)
Fixpoint is_sub (fuel: nat) (tbl: list (string * list string)) (c target: string) : bool :=
  String.eqb c target ||
  match fuel with
  | O => false
  | S n => existsb (fun b => is_sub n tbl b target) (bases_of tbl c) end.

(* does the handler `except <classes>:` ([] = bare except) catch an instance of class c *)
Definition catches (tbl: list (string * list string)) (handler: list string) (c: string) : bool :=
  match handler with
  | [] => true
  | _ => existsb (fun h => is_sub 8 tbl c h) handler end.

(* the Python class a constructor of Core.exn stands for *)
Definition cls_of_exn (e: exn) : string :=
  match e with
  | XValueError => "ValueError" | XTypeError => "TypeError" | XAttributeError => "AttributeError"
  | XKeyError => "KeyError" | XIndexError => "IndexError"
  | XInvalidFieldValue _ _ _ => "InvalidFieldValue"
  | XMissingField _ _ => "MissingField"
  | XExtraKeys _ _ => "ExtraKeysError"
  | XMissingDiscriminator _ => "MissingDiscriminatorError"
  | XNoVariant => "SuitableVariantNotFoundError"
  | XOther t => t end.

Definition named_exn (e: exn) : bool := match e with XOther _ => false | _ => true end.
