(* Definitions around kernel K12 that must keep running when a proof about it breaks:
   the class graph as CPython presents it, and the case-file comparison. *)
From Coq Require Import List Arith Bool.
From Verif Require Import Discr PyK_discr.
From VerifGen Require Import K12.
Import ListNotations.

(* cls.__subclasses__(): the direct subclasses in definition order (modelled, compared with CPython every run) *)
Fixpoint children_from (c: nat) (l: list cls) (i: nat) : list nat :=
  match l with
  | [] => []
  | d :: r => if memb c (c_parents d) then i :: children_from c r (S i) else children_from c r (S i)
  end.

Definition subclasses_of (cl: list cls) (c: nat) : list nat := children_from c cl 0.

(* case-file helper: translated walk vs CPython on a concrete forest *)
Definition k12_case_ok (c: list op * nat * list nat) : bool :=
  let '(ops, cid, expected) := c in
  let cl := defs ops in
  list_eqb Nat.eqb (iter_all_subclasses (S (length cl)) (subclasses_of cl) cid) expected
  && list_eqb Nat.eqb (subclasses_of cl cid) (filter (fun d => memb cid (c_parents (nth d cl dummy_cls))) (seq 0 (length cl))).
