(* C20: the default VALUE of a property.  schema.py renders the default of a field by serializing it
   with the field's type under a dialect that switches omit_none / omit_default / serialize_by_alias
   off (_default, _DefaultValueDialect).  Here: rendered default = js_of_pv (TyModel.ref_enc value type),
   i.e. the reference serialization of the lead's type model (the model of to_dict), composed with the
   embedding of this model's type grammar into TyModel.sty.  Domain of the clause ([sty_of] defined):
   scalars, None, Any, List / Set / Dict[str, .] / fixed Tuple, Optional, Final / NewType wrappers,
   stdlib leaves (text through the prims oracle), Enum members, Literal values; no overridden
   serialization below the field.  Compared with the real _default on every run. *)
From Coq Require Import List String Ascii ZArith Bool.
From Verif Require Core TyModel.
From Verif Require Import SchemaGen.
Import ListNotations.
Open Scope string_scope.

Fixpoint all_some {A} (l: list (option A)) : option (list A) :=
  match l with
  | [] => Some []
  | Some x :: r => match all_some r with Some xs => Some (x :: xs) | None => None end
  | None :: _ => None
  end.

Fixpoint sty_of (t: ty) : option TyModel.sty :=
  match t with
  | TInt => Some TyModel.SIntT | TFloat => Some TyModel.SFloatT | TBool => Some TyModel.SBoolT
  | TStr => Some TyModel.SStrT | TNone => Some TyModel.SNoneT | TAny => Some TyModel.SAny
  | TList a => option_map TyModel.SList (sty_of a)
  | TSet a => option_map (TyModel.SSet false) (sty_of a)
  | TDict a => option_map (TyModel.SDict TyModel.SStrT) (sty_of a)
  | TMap k a => match sty_of k, sty_of a with Some sk', Some sa => Some (TyModel.SDict sk' sa) | _, _ => None end
  | TWrap a | TAnn _ a => sty_of a
  | TTuple ts => option_map TyModel.STupleFix (all_some (map sty_of ts))
  | TUnion [a; TNone] => option_map TyModel.SOpt (sty_of a)
  | TLeaf _ _ _ => Some (TyModel.SLeaf "leaf")
  | TEnum false _ => Some (TyModel.SEnum "enum")
  | TEnum true _ => Some TyModel.SAny            (* a Literal member is emitted as it is *)
  | _ => None
  end.

Fixpoint js_of_pv (v: Core.pv) : option js :=
  match v with
  | Core.VNone => Some JNull
  | Core.VBool b => Some (JBool b)
  | Core.VInt z => Some (JInt z)
  | Core.VStr s => Some (JStr s)
  | Core.VList l => option_map JArr (all_some (map js_of_pv l))
  | Core.VDict kvs =>
      option_map JObj (all_some (map (fun kv => match kv with
                                                | (Core.VStr k, x) => option_map (fun d => (k, d)) (js_of_pv x)
                                                | _ => None end) kvs))
  | _ => None
  end.

(* stdlib leaves carry their canonical text (filled by the harness from CPython); enum members by a table *)
Definition prims_of (enum_tab: list (string * Core.pv)) : TyModel.prims :=
  TyModel.Build_prims (fun _ w => Core.VStr w) (fun _ _ => None) (fun _ m => lookup m enum_tab) (fun _ _ => None)
                      (fun b => b) (fun _ => None) (fun _ => None) (fun _ => None) (fun _ => None).

(* the throw-away class declares x: t = v; a field whose default is None is nullable for the serializer
   (CodeBuilder.is_field_nullable), so None is emitted as None whatever t is *)
Definition render_default (enum_tab: list (string * Core.pv)) (t: ty) (v: Core.pv) : option js :=
  match v with Core.VNone => Some JNull | _ =>
  match sty_of t with
  | Some st => match TyModel.ref_enc [] (prims_of enum_tab) v st with
               | Core.Ok w => js_of_pv w
               | Core.Exn _ => None end
  | None => None
  end end.

(* raw class tables whose explicit defaults are given as VALUES: (class, field) -> value *)
Definition dvals := list (string * (string * Core.pv)).
Fixpoint find_val (c f: string) (l: dvals) : option Core.pv :=
  match l with
  | [] => None
  | (c', (f', v)) :: r => if String.eqb c' c && String.eqb f' f then Some v else find_val c f r
  end.

Definition prerender_field (enum_tab: list (string * Core.pv)) (vals: dvals) (c: string) (r: rfld) : rfld :=
  match find_val c r.(r_name) vals with
  | None => r
  | Some v =>
      mkrfld r.(r_name) r.(r_meta_alias) r.(r_ann_alias) r.(r_ty) r.(r_final) r.(r_init)
             (match render_default enum_tab r.(r_ty) v with Some j => RDefault j | None => RFactory end)
             r.(r_descr) r.(r_ser) r.(r_strat)
  end.
Definition prerender (enum_tab: list (string * Core.pv)) (vals: dvals) (E: list (string * rcls)) : list (string * rcls) :=
  map (fun c => (fst c, mkrcls (snd c).(rc_aliases) (snd c).(rc_dial_omit_none) (snd c).(rc_omit_none) (snd c).(rc_dialect)
                               (snd c).(rc_strats) (map (prerender_field enum_tab vals (fst c)) (snd c).(rc_fields)))) E.

(* ---- laws ---- *)
Lemma render_scalar tab :
  (forall z, render_default tab TInt (Core.VInt z) = Some (JInt z)) /\
  (forall b, render_default tab TBool (Core.VBool b) = Some (JBool b)) /\
  (forall s, render_default tab TStr (Core.VStr s) = Some (JStr s)) /\
  (forall t, render_default tab t Core.VNone = Some JNull) /\
  (forall k w fmt pat tp, render_default tab (TLeaf tp fmt pat) (Core.VLeaf k w) = Some (JStr w)).
Proof.
  repeat split; intros; reflexivity.
Qed.

(* the default rendered by the pre-pass is exactly the reference serialization of the value *)
Lemma prerender_field_spec tab vals c r v :
  find_val c (r_name r) vals = Some v ->
  r_def (prerender_field tab vals c r) =
    match render_default tab (r_ty r) v with Some j => RDefault j | None => RFactory end /\
  r_ty (prerender_field tab vals c r) = r_ty r /\ r_name (prerender_field tab vals c r) = r_name r /\
  r_init (prerender_field tab vals c r) = r_init r.
Proof. intros H. unfold prerender_field. rewrite H. repeat split; reflexivity. Qed.

Lemma prerender_field_id tab vals c r : find_val c (r_name r) vals = None -> prerender_field tab vals c r = r.
Proof. intros H. unfold prerender_field. rewrite H. reflexivity. Qed.

Example render_default_examples :
  render_default [] (TTuple [TInt; TStr]) (Core.VTuple [Core.VInt 1; Core.VStr "a"]) = Some (JArr [JInt 1; JStr "a"]) /\
  render_default [] (TDict (TList TBool)) (Core.VDict [(Core.VStr "k", Core.VList [Core.VBool true])])
    = Some (JObj [("k", JArr [JBool true])]) /\
  render_default [("A", Core.VStr "a")] (TEnum false [JStr "a"; JInt 2]) (Core.VEnum "enum" "A") = Some (JStr "a") /\
  render_default [] (TSet TInt) (Core.VSet false [Core.VInt 3]) = Some (JArr [JInt 3]) /\
  render_default [] TInt (Core.VStr "x") = Some (JStr "x") /\            (* no type check: the value is copied *)
  render_default [] (TClass "K") (Core.VInt 1) = None /\ render_default [] (TClass "K") Core.VNone = Some JNull.
Proof. repeat split; reflexivity. Qed.
