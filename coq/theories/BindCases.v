(* C07 — executable glue for the harness-generated correspondence cases (no proofs):
   concrete conversions (with their failures), alias resolution through the translated kernel K4,
   decidable equality of outcomes, per-run check. *)
From Coq Require Import List String Ascii ZArith NArith Bool Arith.
From Verif Require Import Bind PyK PyK_alias.
From Verif Require OptProj BindK17.
From VerifGen Require K4.
Import ListNotations.
Open Scope string_scope.

Inductive ckind := CId | CInt | CFloat | CStr | CList | CBool | CDec | CTd | CTup | CEnum.

(* ---------- str() of the basic values ---------- *)
Fixpoint digits (fuel: nat) (n: N) : string :=
  match fuel with
  | O => ""
  | S f => let q := N.div n 10 in
           (if N.eqb q 0 then "" else digits f q) ++ String (ascii_of_N (48 + N.modulo n 10)) ""
  end.
Definition str_Z (z: Z) : string :=
  let n := Z.abs_N z in
  (if Z.ltb z 0 then "-" else "") ++ digits (S (N.size_nat n)) n.
Fixpoint join_Z (l: list Z) : string :=
  match l with
  | [] => ""
  | [x] => str_Z x
  | x :: r => str_Z x ++ ", " ++ join_Z r
  end.
Definition py_str (v: pv) : option string :=
  match v with
  | PNone => Some "None"
  | PBool b => Some (if b then "True" else "False")
  | PInt z => Some (str_Z z)
  | PFloat z => Some (str_Z z ++ ".0")
  | PStr s => Some s
  | PList l => Some ("[" ++ join_Z l ++ "]")
  | _ => None
  end.

(* the decimal literals the generator emits: optional minus, 0 or a number without leading zero, optional fraction *)
Definition is_digit (c: ascii) : bool := let n := nat_of_ascii c in (48 <=? n)%nat && (n <=? 57)%nat.
Fixpoint all_digits (s: string) : bool :=
  match s with EmptyString => true | String c r => is_digit c && all_digits r end.
Fixpoint frac_ok (s: string) : bool :=        (* after the integer part: "" or "." digits+ *)
  match s with
  | EmptyString => true
  | String "." r => negb (String.eqb r "") && all_digits r
  | _ => false
  end.
Fixpoint int_then_frac (s: string) : bool :=
  match s with
  | EmptyString => true
  | String c r => if is_digit c then int_then_frac r else frac_ok s
  end.
Definition simple_dec (s: string) : bool :=
  let body := match s with String "-" r => r | _ => s end in
  match body with
  | EmptyString => false
  | String "0" r => frac_ok r
  | String c r => is_digit c && int_then_frac r
  end.

Open Scope list_scope.

Definition bool_Z (b: bool) : Z := if b then 1%Z else 0%Z.
Definition in_color (z: Z) : bool := (Z.leb 0 z && Z.leb z 2)%bool.     (* class Color(IntEnum): ZERO ONE TWO *)

(* the unpacker expressions of the generated field types on the generated value domain; None = it raises.
   Strings handed to int()/float() by the generator never parse as numbers (they contain a letter or are
   empty); iterating a non-empty such string therefore fails at its first character. *)
Definition conv_k (k: ckind) (v: pv) : option pv :=
  match k, v with
  | CId, v => Some v
  | CInt, PInt z => Some (PInt z)                 (* int(3) *)
  | CInt, PFloat z => Some (PInt z)               (* int(3.0) *)
  | CInt, PBool b => Some (PInt (bool_Z b))       (* int(True) *)
  | CFloat, PInt z => Some (PFloat z)             (* float(3) *)
  | CFloat, PFloat z => Some (PFloat z)
  | CFloat, PBool b => Some (PFloat (bool_Z b))
  | CBool, PNone => Some (PBool false)            (* bool(value) never raises *)
  | CBool, PBool b => Some (PBool b)
  | CBool, PInt z => Some (PBool (negb (Z.eqb z 0)))
  | CBool, PFloat z => Some (PBool (negb (Z.eqb z 0)))
  | CBool, PStr s => Some (PBool (negb (String.eqb s "")))
  | CBool, PList l => Some (PBool (match l with [] => false | _ => true end))
  | CStr, v => option_map PStr (py_str v)         (* str(value) never raises *)
  | CList, PList l => Some (PList l)              (* [int(value) for value in value] *)
  | CList, PStr s => if String.eqb s "" then Some (PList []) else None
  | CTup, PList l => Some (PTup l)                (* tuple([int(value) for value in value]) *)
  | CTup, PStr s => if String.eqb s "" then Some (PTup []) else None
  | CDec, PInt z => Some (PDec (str_Z z))         (* Decimal(3) *)
  | CDec, PFloat z => Some (PDec (str_Z z))       (* Decimal(3.0) *)
  | CDec, PStr s => if simple_dec s then Some (PDec s) else None
  | CTd, PInt z => Some (PTd z)                   (* timedelta(seconds=value) *)
  | CTd, PFloat z => Some (PTd z)
  | CTd, PBool b => Some (PTd (bool_Z b))
  | CEnum, PInt z => if in_color z then Some (PEnum z) else None     (* Color(value) *)
  | CEnum, PFloat z => if in_color z then Some (PEnum z) else None
  | CEnum, PBool b => Some (PEnum (bool_Z b))
  | _, _ => None                                  (* TypeError / ValueError / InvalidOperation *)
  end.

Definition conv_of (ks: list (string * ckind)) (f: string) (v: pv) : option pv :=
  match lookup f ks with Some k => conv_k k v | None => Some v end.

Fixpoint zlist_eqb (a b: list Z) : bool :=
  match a, b with
  | [], [] => true
  | x :: r, y :: s => Z.eqb x y && zlist_eqb r s
  | _, _ => false
  end.

Definition pv_eqb (a b: pv) : bool :=
  match a, b with
  | PNone, PNone => true
  | PBool x, PBool y => Bool.eqb x y
  | PInt x, PInt y => Z.eqb x y
  | PFloat x, PFloat y => Z.eqb x y
  | PStr x, PStr y => String.eqb x y
  | PList x, PList y => zlist_eqb x y
  | PDec x, PDec y => String.eqb x y
  | PTd x, PTd y => Z.eqb x y
  | PTup x, PTup y => zlist_eqb x y
  | PEnum x, PEnum y => Z.eqb x y
  | PFresh x, PFresh y => Nat.eqb x y
  | _, _ => false
  end.

Definition opv_eqb (a b: option pv) : bool :=
  match a, b with
  | None, None => true
  | Some x, Some y => pv_eqb x y
  | _, _ => false
  end.

Fixpoint attrs_eqb (a b: list (string * option pv)) : bool :=
  match a, b with
  | [], [] => true
  | (n, x) :: r, (m, y) :: s => String.eqb n m && opv_eqb x y && attrs_eqb r s
  | _, _ => false
  end.

Fixpoint strs_eqb (a b: list string) : bool :=
  match a, b with
  | [], [] => true
  | x :: r, y :: s => String.eqb x y && strs_eqb r s
  | _, _ => false
  end.

Fixpoint nats_eqb (a b: list nat) : bool :=
  match a, b with
  | [], [] => true
  | x :: r, y :: s => Nat.eqb x y && nats_eqb r s
  | _, _ => false
  end.

(* label-blind view of the attributes *)
Definition strip (a: list (string * option pv)) : list (string * option pv) :=
  map (fun p => (fst p, match snd p with Some (PFresh _) => Some (PFresh 0) | x => x end)) a.

(* what the real implementation did on one input, two calls in a row *)
Inductive rout :=
| RMissing (f: string)
| RInvalid (f: string)
| RTypeError
| ROther
| ROk (a1: list (string * option pv)) (labels2: list nat).

(* ---------- alias resolution by the translated kernel (builder.py __get_field_alias) ---------- *)
(* the three places an alias can come from, as the harness found them on the real class *)
Record asrc := {
  as_meta : option string;          (* Field.metadata.get("alias") *)
  as_annotated : list string;       (* names of the Alias(...) annotations of Annotated[T, ...], in order *)
  as_is_annotated : bool;           (* the type hint is Annotated *)
  as_config : option string         (* Config.aliases.get(field name) *)
}.
Definition no_alias : asrc := {| as_meta := None; as_annotated := []; as_is_annotated := false; as_config := None |}.

Definition kopt (o: option string) : kv := match o with Some s => KStr s | None => KNone end.
Definition alias_ns (n: string) : kv := KNs [("__class__", KStr "Alias"); ("name", KStr n)].

Definition resolve_alias (fname: string) (a: asrc) : option (option string) :=
  match K4.get_field_alias (KStr fname)
          (KDict (match as_meta a with Some s => [(KStr "alias", KStr s)] | None => [] end))
          (KBool (as_is_annotated a))
          (KList (map alias_ns (as_annotated a)))
          (KDict (match as_config a with Some s => [(KStr fname, KStr s)] | None => [] end)) with
  | Ok (KStr s) => Some (Some s)
  | Ok KNone => Some None
  | _ => None
  end.

(* builder.py 240-243: `for ancestor in cls.__mro__[-1:0:-1]: if is_dataclass(ancestor): for field in
   ancestor.__dataclass_fields__.values(): d[field.name] = field` - later ancestors overwrite earlier ones *)
Definition anc_of (tables: list (list (string * bfield))) (n: string) : option bfield :=
  fold_left (fun acc t => match lookup n t with Some b => Some b | None => acc end) tables None.

Record lay := {
  ly_L : layout;                 (* m_alias and m_anc of the members are filled in by [resolved] *)
  ly_asrc : list (string * asrc);
  ly_anc : list (list (string * bfield));   (* __dataclass_fields__ of the dataclass ancestors, in cls.__mro__[-1:0:-1] order *)
  ly_ty : list (string * OptProj.fty);      (* shape of the type hint of every normal member, as is_field_nullable looks at it *)
  ly_kinds : list (string * ckind);
  ly_nba : bool;                (* Config.allow_deserialization_not_by_alias *)
  ly_sigpos : list string;      (* inspect.signature(cls.__init__): positional-or-keyword names *)
  ly_sigkw : list string        (* keyword-only names *)
}.

(* m_nullty is computed by the translated is_field_nullable (kernel K17) from the type shape; the flag given
   as m_unull by the harness says that the type admits None at all: it is hidden behind a wrapper exactly
   when the field block does not see it *)
Definition set_alias (anc: option bfield) (a: option string) (t: OptProj.fty) (m: member) : member :=
  let nul := BindK17.nullty_code t in
  Build_member (m_name m) (m_kind m) (m_field m) (m_param m) (m_kw m) (m_def m) anc (m_own m)
               (m_ns m) (m_df m) nul (m_ident m) a (m_unull m && negb nul).

(* the layout with every alias computed by K4; None when the kernel fails *)
Fixpoint resolved_list (srcs: list (string * asrc)) (tables: list (list (string * bfield)))
         (tys: list (string * OptProj.fty)) (L: layout) : option layout :=
  match L with
  | [] => Some []
  | m :: r =>
    let a := match lookup (m_name m) srcs with Some a => a | None => no_alias end in
    match (if match m_kind m with KNormal => true | _ => false end
           then resolve_alias (m_name m) a else Some None), resolved_list srcs tables tys r with
    | Some al, Some r' =>
        Some (set_alias (anc_of tables (m_name m)) al
                        (match lookup (m_name m) tys with Some t => t | None => OptProj.TyPlain end) m :: r')
    | _, _ => None
    end
  end.
Definition resolved (y: lay) : option layout := resolved_list (ly_asrc y) (ly_anc y) (ly_ty y) (ly_L y).

(* the model's signature of __init__ equals the real one, and the layout is in the domain *)
Definition lay_ok (y: lay) : bool :=
  match resolved y with
  | None => false
  | Some L =>
    layout_ok L
    && strs_eqb (map m_name (pos_params L)) (ly_sigpos y)
    && strs_eqb (map m_name (filter (fun m => m_param m && m_kw m) L)) (ly_sigkw y)
  end.

Definition run_ok (y: lay) (d: inp) (r: rout) : bool :=
  let cv := conv_of (ly_kinds y) in
  match resolved y with
  | None => false
  | Some L =>
    match decode cv (ly_nba y) true L d 0, r with
    | OMissing f, RMissing g => String.eqb f g
    | OInvalid f, RInvalid g => String.eqb f g
    | OTypeError, RTypeError => true
    | OOk a1 c1, ROk e1 l2 =>
        attrs_eqb a1 e1 &&
        match decode cv (ly_nba y) false L d 0 with OOk b1 _ => attrs_eqb b1 e1 | _ => false end &&
        match decode cv (ly_nba y) true L d c1 with
        | OOk a2 _ => nats_eqb (labels a2) l2 && attrs_eqb (strip a2) (strip a1)
        | _ => false
        end
    | _, _ => false
    end
  end.

Definition dummy_lay : lay :=
  {| ly_L := []; ly_asrc := []; ly_anc := []; ly_ty := []; ly_kinds := []; ly_nba := false; ly_sigpos := []; ly_sigkw := [] |}.

Definition case_ok (lays: list lay) (c: nat * inp * rout) : bool :=
  match c with (i, d, r) =>
    let y := nth i lays dummy_lay in lay_ok y && run_ok y d r
  end.

(* does the reference semantics agree with the model on this input (false exactly on the modelled defects) *)
Definition ref_agrees (lays: list lay) (c: nat * inp * rout) : bool :=
  match c with (i, d, _) =>
    let y := nth i lays dummy_lay in
    let cv := conv_of (ly_kinds y) in
    match resolved y with
    | None => false
    | Some L =>
      match decode cv (ly_nba y) true L d 0, ref_decode cv (ly_nba y) L d 0 with
      | OMissing f, OMissing g => String.eqb f g
      | OInvalid f, OInvalid g => String.eqb f g
      | OTypeError, OTypeError => true
      | OOk a1 c1, OOk a2 c2 => attrs_eqb a1 a2 && Nat.eqb c1 c2
      | _, _ => false
      end
    end
  end.

Definition mkm n k fld par kw df own ns dff idt sem : member :=
  Build_member n k fld par kw df None own ns dff false idt None sem.
Definition bf d i k : bfield := Build_bfield d i k.
Definition asr m an ia c : asrc := Build_asrc m an ia c.
