(* C07 — executable glue for the harness-generated correspondence cases (no proofs):
   concrete conversions, decidable equality of outcomes, per-run check. *)
From Coq Require Import List String ZArith Bool Arith.
From Verif Require Import Bind.
Import ListNotations.
Open Scope string_scope.
Open Scope list_scope.

Inductive ckind := CId | CInt | CFloat | CStr | CList | CBool.

Definition conv_k (k: ckind) (v: pv) : pv :=
  match k, v with
  | CId, v => v
  | CInt, PInt z => PInt z            (* int(3) *)
  | CInt, PFloat z => PInt z          (* int(3.0) *)
  | CInt, PBool b => PInt (if b then 1 else 0)%Z      (* int(True) *)
  | CFloat, PInt z => PFloat z        (* float(3) *)
  | CFloat, PFloat z => PFloat z
  | CFloat, PBool b => PFloat (if b then 1 else 0)%Z
  | CBool, PBool b => PBool b         (* bool(value) *)
  | CBool, PInt z => PBool (negb (Z.eqb z 0))
  | CBool, PFloat z => PBool (negb (Z.eqb z 0))
  | CStr, PStr s => PStr s
  | CList, PList l => PList l         (* [int(value) for value in value] on ints *)
  | _, _ => PStr "<outside the generated value domain>"
  end.

Definition conv_of (ks: list (string * ckind)) (f: string) (v: pv) : pv :=
  match lookup f ks with Some k => conv_k k v | None => v end.

Fixpoint zlist_eqb (a b: list Z) : bool :=
  match a, b with
  | [], [] => true
  | x :: r, y :: s => Z.eqb x y && zlist_eqb r s
  | _, _ => false
  end.

Definition pv_eqb (a b: pv) : bool :=
  match a, b with
  | PNone, PNone => true
  | PBool x, PBool y => Bool.eqb x y
  | PInt x, PInt y => Z.eqb x y
  | PFloat x, PFloat y => Z.eqb x y
  | PStr x, PStr y => String.eqb x y
  | PList x, PList y => zlist_eqb x y
  | PFresh x, PFresh y => Nat.eqb x y
  | _, _ => false
  end.

Definition opv_eqb (a b: option pv) : bool :=
  match a, b with
  | None, None => true
  | Some x, Some y => pv_eqb x y
  | _, _ => false
  end.

Fixpoint attrs_eqb (a b: list (string * option pv)) : bool :=
  match a, b with
  | [], [] => true
  | (n, x) :: r, (m, y) :: s => String.eqb n m && opv_eqb x y && attrs_eqb r s
  | _, _ => false
  end.

Fixpoint strs_eqb (a b: list string) : bool :=
  match a, b with
  | [], [] => true
  | x :: r, y :: s => String.eqb x y && strs_eqb r s
  | _, _ => false
  end.

Fixpoint nats_eqb (a b: list nat) : bool :=
  match a, b with
  | [], [] => true
  | x :: r, y :: s => Nat.eqb x y && nats_eqb r s
  | _, _ => false
  end.

(* label-blind view of the attributes *)
Definition strip (a: list (string * option pv)) : list (string * option pv) :=
  map (fun p => (fst p, match snd p with Some (PFresh _) => Some (PFresh 0) | x => x end)) a.

(* what the real implementation did on one input, two calls in a row *)
Inductive rout :=
| RMissing (f: string)
| RTypeError
| ROther
| ROk (a1: list (string * option pv)) (labels2: list nat).

Record lay := {
  ly_L : layout;
  ly_kinds : list (string * ckind);
  ly_nba : bool;                (* Config.allow_deserialization_not_by_alias *)
  ly_sigpos : list string;      (* inspect.signature(cls.__init__): positional-or-keyword names *)
  ly_sigkw : list string        (* keyword-only names *)
}.

(* the model's signature of __init__ equals the real one, and the layout is in the domain *)
Definition lay_ok (y: lay) : bool :=
  layout_ok (ly_L y)
  && strs_eqb (map m_name (pos_params (ly_L y))) (ly_sigpos y)
  && strs_eqb (map m_name (filter (fun m => m_param m && m_kw m) (ly_L y))) (ly_sigkw y).

Definition run_ok (y: lay) (d: inp) (r: rout) : bool :=
  let cv := conv_of (ly_kinds y) in
  match decode cv (ly_nba y) true (ly_L y) d 0, r with
  | OMissing f, RMissing g => String.eqb f g
  | OTypeError, RTypeError => true
  | OOk a1 c1, ROk e1 l2 =>
      attrs_eqb a1 e1 &&
      match decode cv (ly_nba y) false (ly_L y) d 0 with OOk b1 _ => attrs_eqb b1 e1 | _ => false end &&
      match decode cv (ly_nba y) true (ly_L y) d c1 with
      | OOk a2 _ => nats_eqb (labels a2) l2 && attrs_eqb (strip a2) (strip a1)
      | _ => false
      end
  | _, _ => false
  end.

(* flags returned to the harness: 0 = agree, 1 = model and implementation differ, 2 = layout not in domain /
   signature differs *)
Definition dummy_lay : lay := {| ly_L := []; ly_kinds := []; ly_nba := false; ly_sigpos := []; ly_sigkw := [] |}.

Definition case_ok (lays: list lay) (c: nat * inp * rout) : bool :=
  match c with (i, d, r) =>
    let y := nth i lays dummy_lay in lay_ok y && run_ok y d r
  end.

(* does the reference semantics agree with the model on this input (false exactly on the modelled defects) *)
Definition ref_agrees (lays: list lay) (c: nat * inp * rout) : bool :=
  match c with (i, d, _) =>
    let y := nth i lays dummy_lay in
    let cv := conv_of (ly_kinds y) in
    match decode cv (ly_nba y) true (ly_L y) d 0, ref_decode cv (ly_nba y) (ly_L y) d 0 with
    | OMissing f, OMissing g => String.eqb f g
    | OTypeError, OTypeError => true
    | OOk a1 c1, OOk a2 c2 => attrs_eqb a1 a2 && Nat.eqb c1 c2
    | _, _ => false
    end
  end.

Definition mkm n k fld par kw df anc own ns dff nul idt ali unl : member :=
  Build_member n k fld par kw df anc own ns dff nul idt ali unl.
Definition bf d i k : bfield := Build_bfield d i k.
