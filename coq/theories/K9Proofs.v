(* Theorems about kernel K9 = context handling of mashumaro.jsonschema as translated from
   /repo on this run (VerifGen.K9), and its link to the configuration of the model. *)
From Coq Require Import List String Ascii ZArith Bool Lia.
From Verif Require Import Regex PyK PyK_schema SchemaGen.
From VerifGen Require Import K9.
Import ListNotations.
Open Scope string_scope.

(* ---- str.rstrip("/") ---- *)
Lemma rstrip_no_trailing s : ends_with_slash (rstrip_slash s) = false.
Proof.
  induction s as [|c r IH]; [reflexivity|]. simpl.
  destruct (rstrip_slash r) as [|c' r'] eqn:Er.
  - destruct (Ascii.eqb c slash) eqn:Ec; simpl; [reflexivity|exact Ec].
  - simpl in *. exact IH.
Qed.

Lemma rstrip_idem s : rstrip_slash (rstrip_slash s) = rstrip_slash s.
Proof.
  induction s as [|c r IH]; [reflexivity|]. simpl.
  destruct (rstrip_slash r) as [|c' r'] eqn:Er.
  - destruct (Ascii.eqb c slash) eqn:Ec; simpl; [reflexivity|rewrite Ec; reflexivity].
  - simpl. simpl in IH. rewrite IH. reflexivity.
Qed.

Lemma rstrip_fix s : ends_with_slash s = false -> rstrip_slash s = s.
Proof.
  induction s as [|c r IH]; [reflexivity|]. simpl. intros H.
  destruct r as [|c' r'].
  - simpl. rewrite H. reflexivity.
  - rewrite (IH H). reflexivity.
Qed.

(* ---- the context computed by build_json_schema(context=None, ...) ---- *)
Definition dialects : list kv := [KNone; DRAFT_2020_12; OPEN_API_3_1].
Definition tri : list kv := [KNone; KBool true; KBool false].

Definition eff_dialect (d: kv) : kv := match d with KNone => DRAFT_2020_12 | _ => d end.
Definition pointer_of (d: kv) : string :=
  match k_getattr2 (eff_dialect d) (KStr "definitions_root_pointer") with Ok (KStr s) => s | _ => "" end.
Definition dialect_all_refs (d: kv) : kv :=
  match k_getattr2 (eff_dialect d) (KStr "all_refs") with Ok b => b | _ => KNone end.

Theorem K9_prefix_stripped : forall wd ar D p pl, In D dialects -> In ar tri ->
  exists c, build_ctx KNone wd ar D (KStr p) pl = Ok c
            /\ k_getattr2 c (KStr "ref_prefix") = Ok (KStr (rstrip_slash p))
            /\ k_getattr2 c (KStr "all_refs") = Ok (match ar with KNone => dialect_all_refs D | _ => ar end)
            /\ k_getattr2 c (KStr "definitions") = Ok (KDict []).
Proof.
  intros wd ar D p pl HD Har. unfold dialects, tri in *. simpl in HD, Har.
  destruct HD as [<-|[<-|[<-|[]]]]; destruct Har as [<-|[<-|[<-|[]]]];
    unfold build_ctx; simpl; destruct (k_truthy pl); simpl; eexists; repeat split; reflexivity.
Qed.

Theorem K9_prefix_default : forall wd ar D pl, In D dialects -> In ar tri ->
  exists c, build_ctx KNone wd ar D KNone pl = Ok c
            /\ k_getattr2 c (KStr "ref_prefix") = Ok (KStr (pointer_of D))
            /\ k_getattr2 c (KStr "all_refs") = Ok (match ar with KNone => dialect_all_refs D | _ => ar end).
Proof.
  intros wd ar D pl HD Har. unfold dialects, tri in *. simpl in HD, Har.
  destruct HD as [<-|[<-|[<-|[]]]]; destruct Har as [<-|[<-|[<-|[]]]];
    unfold build_ctx; simpl; destruct (k_truthy pl); simpl; eexists; repeat split; reflexivity.
Qed.

Theorem K9_dialect_defaults :
  pointer_of OPEN_API_3_1 = "#/components/schemas" /\ dialect_all_refs OPEN_API_3_1 = KBool true /\
  pointer_of DRAFT_2020_12 = "#/$defs" /\ dialect_all_refs DRAFT_2020_12 = KBool false /\
  pointer_of KNone = "#/$defs" /\ dialect_all_refs KNone = KBool false.
Proof. repeat split; reflexivity. Qed.

(* ---- JSONSchemaBuilder.__init__ ---- *)
Theorem K9_builder_init : forall D ar p pl, In D [DRAFT_2020_12; OPEN_API_3_1] -> In ar tri ->
  exists c, builder_init (KNs []) D ar (KStr p) pl = Ok c
            /\ k_getattr2 c (KStr "ref_prefix") = Ok (KStr (rstrip_slash p))
            /\ k_getattr2 c (KStr "all_refs") = Ok (match ar with KNone => dialect_all_refs D | _ => ar end)
            /\ k_getattr2 c (KStr "dialect") = Ok D.
Proof.
  intros D ar p pl HD Har. unfold tri in *. simpl in HD, Har.
  destruct HD as [<-|[<-|[]]]; destruct Har as [<-|[<-|[<-|[]]]];
    unfold builder_init; simpl; eexists; repeat split; reflexivity.
Qed.

Theorem K9_builder_init_default : forall D ar pl, In D [DRAFT_2020_12; OPEN_API_3_1] -> In ar tri ->
  exists c, builder_init (KNs []) D ar KNone pl = Ok c
            /\ k_getattr2 c (KStr "ref_prefix") = Ok (KStr (pointer_of D)).
Proof.
  intros D ar pl HD Har. unfold tri in *. simpl in HD, Har.
  destruct HD as [<-|[<-|[]]]; destruct Har as [<-|[<-|[<-|[]]]];
    unfold builder_init; simpl; eexists; repeat split; reflexivity.
Qed.

(* a build through the builder re-reads the builder's context unchanged
   (build_json_schema(context=self.context, with_definitions=False), no overrides) *)
Theorem K9_builder_build_keeps : forall D ar q defs pl, In D [DRAFT_2020_12; OPEN_API_3_1] -> In ar [KBool true; KBool false] ->
  let c := KNs [("dialect", D); ("definitions", defs); ("all_refs", ar); ("ref_prefix", KStr q); ("plugins", pl)] in
  build_ctx c builder_build_with_definitions KNone KNone KNone (KTuple []) = Ok c.
Proof.
  intros D ar q defs pl HD Har. simpl in HD, Har.
  destruct HD as [<-|[<-|[]]]; destruct Har as [<-|[<-|[]]]; reflexivity.
Qed.

Lemma str_app_nil_r s : (s ++ "")%string = s.
Proof. induction s as [|c r IH]; simpl; [reflexivity|rewrite IH; reflexivity]. Qed.

(* ---- the reference emitted by on_dataclass, and the key it is registered under ---- *)
Definition used_prefix (q: string) (D: kv) : string := if String.eqb q "" then pointer_of D else q.

Theorem K9_ref_shape : forall D ar q defs pl name tn, In D [DRAFT_2020_12; OPEN_API_3_1] ->
  let c := KNs [("dialect", D); ("definitions", defs); ("all_refs", ar); ("ref_prefix", KStr q); ("plugins", pl)] in
  ref_of c (KStr name) tn = Ok (KStr (used_prefix q D ++ "/" ++ name)) /\
  reg_key (KStr name) tn = Ok (KStr name).
Proof.
  intros D ar q defs pl name tn HD. simpl in HD. unfold used_prefix.
  destruct HD as [<-|[<-|[]]]; (split; [|reflexivity]);
    unfold ref_of; destruct q as [|ch q']; simpl; rewrite str_app_nil_r; reflexivity.
Qed.

(* with_definitions / empty definitions: when "$defs" is attached *)
Theorem K9_attach : forall wd c s d,
  k_getattr2 c (KStr "definitions") = Ok d ->
  In wd [KBool true; KBool false] ->
  (exists attrs, s = KNs attrs) ->
  attach_defs wd c s = if (match wd with KBool true => true | _ => false end) && k_truthy d
                       then k_setattr s (KStr "definitions") d else Ok s.
Proof.
  intros wd c s d Hd Hwd [attrs ->]. simpl in Hwd. unfold attach_defs.
  destruct Hwd as [<-|[<-|[]]]; simpl; rewrite ?Hd; simpl; destruct (k_truthy d); reflexivity.
Qed.

(* ---- the configuration of the model, read from a K9 context ---- *)
Definition cfg_of_ctx (c: kv) : option bcfg :=
  match k_getattr2 c (KStr "all_refs"), k_getattr2 c (KStr "ref_prefix"), k_getattr2 c (KStr "dialect") with
  | Ok (KBool b), Ok (KStr q), Ok D => Some (mkcfg b (used_prefix q D))
  | _, _, _ => None
  end.

(* the prefix used by the model for a single build with an explicit ref_prefix is the
   configured prefix without trailing slashes (or the dialect pointer when that is empty) *)
Theorem K9_model_prefix : forall wd ar D p pl, In D dialects -> In ar tri ->
  exists c cfg, build_ctx KNone wd ar D (KStr p) pl = Ok c /\ cfg_of_ctx c = Some cfg /\
    c_prefix cfg = (if String.eqb (rstrip_slash p) "" then pointer_of D else rstrip_slash p) /\
    (rstrip_slash p <> "" -> ends_with_slash (c_prefix cfg) = false).
Proof.
  intros wd ar D p pl HD Har. unfold dialects, tri in *. simpl in HD, Har.
  destruct HD as [<-|[<-|[<-|[]]]]; destruct Har as [<-|[<-|[<-|[]]]];
    unfold build_ctx; simpl; destruct (k_truthy pl); simpl; eexists; eexists;
    (split; [reflexivity|]); unfold cfg_of_ctx; simpl; (split; [reflexivity|]); unfold used_prefix; simpl;
    (split; [reflexivity|]); intros Hne; destruct (String.eqb (rstrip_slash p) "") eqn:Ee;
    try (apply String.eqb_eq in Ee; contradiction); apply rstrip_no_trailing.
Qed.

(* ---- full resolution order of build_json_schema for a PASSED context:
        explicit argument > field of the passed context > default of the effective dialect ---- *)
Definition opt_str (o: option string) : kv := match o with Some s => KStr s | None => KNone end.
Definition pick_dialect (D cD: kv) : kv := match D with KNone => cD | _ => D end.

Definition opt_bool (o: option bool) : kv := match o with Some b => KBool b | None => KNone end.

Theorem K9_passed_context : forall cD (car: option bool) cq defs pl wd (ar: option bool) D p pl',
  In cD [DRAFT_2020_12; OPEN_API_3_1] -> In D dialects ->
  let c0 := KNs [("dialect", cD); ("definitions", defs); ("all_refs", opt_bool car); ("ref_prefix", opt_str cq); ("plugins", pl)] in
  exists c, build_ctx c0 wd (opt_bool ar) D (opt_str p) pl' = Ok c
    /\ k_getattr2 c (KStr "plugins") = Ok (if k_truthy pl' then pl' else pl)
    /\ k_getattr2 c (KStr "ref_prefix") =
       Ok (KStr (match p with
                 | Some p' => rstrip_slash p'
                 | None => match cq with Some q => q | None => pointer_of (pick_dialect D cD) end
                 end))
    /\ k_getattr2 c (KStr "all_refs") =
       Ok (match ar with
           | Some b => KBool b
           | None => match car with Some b => KBool b | None => dialect_all_refs (pick_dialect D cD) end end)
    /\ k_getattr2 c (KStr "dialect") = Ok (pick_dialect D cD)
    /\ k_getattr2 c (KStr "definitions") = Ok defs.
Proof.
  intros cD car cq defs pl wd ar D p pl' HcD HD. unfold dialects in *. simpl in HcD, HD.
  destruct HcD as [<-|[<-|[]]]; destruct HD as [<-|[<-|[<-|[]]]];
    destruct car as [cb|]; destruct ar as [b|]; destruct cq as [q|]; destruct p as [p'|];
    unfold build_ctx; simpl; destruct (k_truthy pl'); simpl; eexists; repeat split; reflexivity.
Qed.
