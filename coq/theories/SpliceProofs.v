(* C16 - the splice table regenerated from /repo (VerifGen.K10) satisfies site_ok, and what
   that means together with the string-literal theorem. *)
From Coq Require Import List String Ascii NArith Bool.
From Verif Require Import PyStrLit PyStrLitProofs PyLit PyLitProofs PyLine PyLineProofs Splice DefaultLit DefaultLitProofs.
From VerifGen Require Import K10.
Import ListNotations.
Open Scope string_scope.
Open Scope N_scope.
Open Scope list_scope.

(* finite table: evaluation is a proof *)
Lemma sites_ok : forallb site_ok splice_sites = true.
Proof. vm_compute. reflexivity. Qed.

Lemma sites_nonempty : Nat.leb 20 (List.length splice_sites) = true.
Proof. vm_compute. reflexivity. Qed.

(* every position class the property names occurs in the table *)
Definition has_origin (o: string) : bool :=
  existsb (fun s => String.eqb (s_origin s) o) splice_sites.
Lemma sites_cover :
  has_origin "field alias" && has_origin "Config.aliases value" && has_origin "TypedDict key"
  && has_origin "discriminator field" && has_origin "Literal value" && has_origin "enum member name" = true.
Proof. vm_compute. reflexivity. Qed.

(* at every data site of the generator, for every data string, the generated line contains a
   string literal that denotes exactly that string and ends exactly where repr ended *)
Theorem site_literal st :
  In st splice_sites -> s_kind st <> KGuardedIdent ->
  forall p d rest, oracle_ok p -> wf_str d ->
  lex_string (site_text (s_kind st) p d ++ codes (s_after st) ++ rest)
    = Some (d, codes (s_after st) ++ rest)
  /\ before_ok (codes (s_before st)) = true.
Proof.
  intros Hin Hg p d rest Hp Hw.
  pose proof (proj1 (forallb_forall _ _) sites_ok st Hin) as Hok.
  unfold site_ok in Hok. apply andb_true_iff in Hok. destruct Hok as [Hok _].
  apply andb_true_iff in Hok. destruct Hok as [Hok _].
  apply andb_true_iff in Hok. destruct Hok as [Hok Ha].
  apply andb_true_iff in Hok. destruct Hok as [Hk Hb].
  split; [|exact Hb].
  pose proof (after_ok_ctx _ rest Ha) as Hc.
  destruct (s_kind st); try discriminate; try congruence; cbn [site_text].
  - apply repr_lex; assumption.
  - apply ascii_lex; assumption.
Qed.

(* the guarded raw sites: only identifier characters are ever placed there, and the text around
   them does not continue the name *)
Theorem site_guarded st :
  In st splice_sites -> s_kind st = KGuardedIdent ->
  before_ok (codes (s_before st)) = true /\ after_ident_ok (codes (s_after st)) = true
  /\ after_ok (codes (s_after st)) = true.
Proof.
  intros Hin Hk.
  pose proof (proj1 (forallb_forall _ _) sites_ok st Hin) as Hok.
  unfold site_ok in Hok. rewrite Hk in Hok.
  apply andb_true_iff in Hok. destruct Hok as [Hok _].
  repeat (apply andb_true_iff in Hok; destruct Hok as [Hok ?]). auto.
Qed.

(* the same for bytes Literal values (repr of a bytes object carries its own b prefix) *)
Theorem site_literal_bytes st :
  In st splice_sites -> s_kind st = KRepr ->
  forall d rest, wf_bytes d ->
  lex_bytes (py_repr_bytes d ++ codes (s_after st) ++ rest) = Some (d, codes (s_after st) ++ rest).
Proof.
  intros Hin _ d rest Hw.
  pose proof (proj1 (forallb_forall _ _) sites_ok st Hin) as Hok.
  unfold site_ok in Hok. apply andb_true_iff in Hok. destruct Hok as [Hok _].
  apply andb_true_iff in Hok. destruct Hok as [Hok _].
  apply andb_true_iff in Hok. destruct Hok as [_ Ha].
  apply repr_bytes_lex; [assumption | apply after_ok_ctx, Ha].
Qed.

(* round 3: VALUES at repr()/ascii() sites.  The types that reach such a site (guards in the
   generator's source, or str by API) are all literal kinds, and for every str / bytes / int / bool /
   None value the text placed there evaluates back to exactly that value (finite floats: not modelled) *)
Theorem site_value st :
  In st splice_sites -> s_kind st = KRepr \/ s_kind st = KAscii ->
  s_types st <> [] /\ forallb literal_kind (s_types st) = true /\
  forall v p rest, atom_ty v <> None -> wf_lit v -> oracle_ok p ->
    eval_lit (site_value_text (s_kind st) p v ++ codes (s_after st) ++ rest)
    = Some (v, codes (s_after st) ++ rest).
Proof.
  intros Hin Hk.
  pose proof (proj1 (forallb_forall _ _) sites_ok st Hin) as Hok.
  unfold site_ok in Hok. apply andb_true_iff in Hok. destruct Hok as [Hok Ht].
  apply andb_true_iff in Hok. destruct Hok as [Hok _].
  apply andb_true_iff in Hok. destruct Hok as [_ Ha].
  unfold types_ok, types_ok_gen in Ht.
  assert (Ht': s_types st <> [] /\ forallb literal_kind (s_types st) = true).
  { destruct Hk as [E|E]; rewrite E in Ht; apply andb_true_iff in Ht; destruct Ht as [Hn Hl];
      (split; [destruct (s_types st); [discriminate | discriminate] | exact Hl]). }
  destruct Ht' as [Hn Hl]. split; [exact Hn|]. split; [exact Hl|].
  intros v p rest _ Hw Hp.
  pose proof (after_ok_ends _ rest Ha) as He.
  destruct Hk as [E|E]; rewrite E; cbn [site_value_text].
  - apply render_eval; assumption.
  - apply render_eval; [intros c _; reflexivity | assumption | assumption].
Qed.

(* full strength: no repr()/ascii() site admits instances of str/bytes/int subclasses *)
Lemma sites_full : forallb site_ok_full splice_sites = true.
Proof. vm_compute. reflexivity. Qed.

(* the default-value renderer of /repo, as read from its source on this run, is a safe table *)
Lemma default_branches_safe : branches_safe default_literal_branches = true.
Proof. vm_compute. reflexivity. Qed.

Theorem default_literal v : dwf default_literal_branches v = true ->
  exists l, shape default_literal_branches v = Some l /\ denotes l v /\
    forall p rest, oracle_ok p -> ends_token rest = true ->
      eval_lit (render_lit p l ++ rest) = Some (l, rest).
Proof. apply shape_sound. exact default_branches_safe. Qed.

(* round 4: the site seen from the whole LINE.  Reading the generated line template of a site from
   its start (whatever was emitted before: [acc], [prev]), the tokenizer passes the before-text
   character by character, then reads exactly ONE string token whose value is the data string, and
   continues in default state with the after-text *)
Theorem site_line st :
  In st splice_sites -> s_kind st = KRepr \/ s_kind st = KAscii ->
  forall p d rest prev acc, oracle_ok p -> wf_str d ->
  tok_line (LDef prev) acc (codes (s_before st) ++ site_text (s_kind st) p d ++ codes (s_after st) ++ rest)
  = tok_line (LDef false) (TkStr d :: rev (map TkChar (codes (s_before st))) ++ acc) (codes (s_after st) ++ rest).
Proof.
  intros Hin Hk p d rest prev acc Hp Hw.
  pose proof (proj1 (forallb_forall _ _) sites_ok st Hin) as Hok.
  unfold site_ok in Hok. apply andb_true_iff in Hok. destruct Hok as [Hok _].
  apply andb_true_iff in Hok. destruct Hok as [Hok _].
  apply andb_true_iff in Hok. destruct Hok as [Hok Ha].
  apply andb_true_iff in Hok. destruct Hok as [_ Hb].
  pose proof (after_ok_ctx _ rest Ha) as Hc.
  destruct Hk as [E|E]; rewrite E; cbn [site_text].
  - apply line_literal; assumption.
  - apply line_literal; [intros c _; reflexivity | assumption ..].
Qed.

(* round 4: every library-text placeholder that sits inside a static string literal of a template
   is of a plain origin and is surrounded by plain text; for plain text the static literal then
   denotes exactly before ++ text ++ after *)
Lemma ident_sites_ok : forallb isite_ok ident_sites = true.
Proof. vm_compute. reflexivity. Qed.

Lemma forallb_inner_plain l : forallb inner_char_ok l = true -> Forall (fun c => plain_char c = true) l.
Proof.
  intros H. apply Forall_forall. intros c Hc. eapply forallb_forall in H; eauto.
  unfold inner_char_ok in H. apply andb_true_iff in H. apply H.
Qed.

Theorem ident_site st :
  In st ident_sites ->
  forall q t rest, codes (i_quote st) = [q] ->
  Forall (fun c => plain_char c = true) t -> ctx_ok rest = true ->
  is_quote q = true /\
  lex_string (q :: (codes (i_before st) ++ t ++ codes (i_after st)) ++ q :: rest)
  = Some (codes (i_before st) ++ t ++ codes (i_after st), rest).
Proof.
  intros Hin q t rest Eq Ht Hc.
  pose proof (proj1 (forallb_forall _ _) ident_sites_ok st Hin) as Hok.
  unfold isite_ok in Hok. apply andb_true_iff in Hok. destruct Hok as [Hok Ha].
  apply andb_true_iff in Hok. destruct Hok as [Hok Hb].
  apply andb_true_iff in Hok. destruct Hok as [_ Hq]. rewrite Eq in Hq.
  split; [exact Hq|].
  apply quoted_plain_lex; [exact Hq | | exact Hc].
  apply Forall_app. split; [apply forallb_inner_plain, Hb|].
  apply Forall_app. split; [exact Ht | apply forallb_inner_plain, Ha].
Qed.
