(* C16 - the splice table regenerated from /repo (VerifGen.K10) satisfies site_ok, and what
   that means together with the string-literal theorem. *)
From Coq Require Import List String Ascii NArith Bool.
From Verif Require Import PyStrLit PyStrLitProofs Splice.
From VerifGen Require Import K10.
Import ListNotations.
Open Scope string_scope.
Open Scope N_scope.
Open Scope list_scope.

(* finite table: evaluation is a proof *)
Lemma sites_ok : forallb site_ok splice_sites = true.
Proof. vm_compute. reflexivity. Qed.

Lemma sites_nonempty : Nat.leb 20 (List.length splice_sites) = true.
Proof. vm_compute. reflexivity. Qed.

(* every position class the property names occurs in the table *)
Definition has_origin (o: string) : bool :=
  existsb (fun s => String.eqb (s_origin s) o) splice_sites.
Lemma sites_cover :
  has_origin "field alias" && has_origin "Config.aliases value" && has_origin "TypedDict key"
  && has_origin "discriminator field" && has_origin "Literal value" && has_origin "enum member name" = true.
Proof. vm_compute. reflexivity. Qed.

(* at every data site of the generator, for every data string, the generated line contains a
   string literal that denotes exactly that string and ends exactly where repr ended *)
Theorem site_literal st :
  In st splice_sites -> s_kind st <> KGuardedIdent ->
  forall p d rest, oracle_ok p -> wf_str d ->
  lex_string (site_text (s_kind st) p d ++ codes (s_after st) ++ rest)
    = Some (d, codes (s_after st) ++ rest)
  /\ before_ok (codes (s_before st)) = true.
Proof.
  intros Hin Hg p d rest Hp Hw.
  pose proof (proj1 (forallb_forall _ _) sites_ok st Hin) as Hok.
  unfold site_ok in Hok. apply andb_true_iff in Hok. destruct Hok as [Hok _].
  apply andb_true_iff in Hok. destruct Hok as [Hok Ha].
  apply andb_true_iff in Hok. destruct Hok as [Hk Hb].
  split; [|exact Hb].
  pose proof (after_ok_ctx _ rest Ha) as Hc.
  destruct (s_kind st); try discriminate; try congruence; cbn [site_text].
  - apply repr_lex; assumption.
  - apply ascii_lex; assumption.
Qed.

(* the guarded raw sites: only identifier characters are ever placed there, and the text around
   them does not continue the name *)
Theorem site_guarded st :
  In st splice_sites -> s_kind st = KGuardedIdent ->
  before_ok (codes (s_before st)) = true /\ after_ident_ok (codes (s_after st)) = true
  /\ after_ok (codes (s_after st)) = true.
Proof.
  intros Hin Hk.
  pose proof (proj1 (forallb_forall _ _) sites_ok st Hin) as Hok.
  unfold site_ok in Hok. rewrite Hk in Hok.
  repeat (apply andb_true_iff in Hok; destruct Hok as [Hok ?]). auto.
Qed.

(* the same for bytes Literal values (repr of a bytes object carries its own b prefix) *)
Theorem site_literal_bytes st :
  In st splice_sites -> s_kind st = KRepr ->
  forall d rest, wf_bytes d ->
  lex_bytes (py_repr_bytes d ++ codes (s_after st) ++ rest) = Some (d, codes (s_after st) ++ rest).
Proof.
  intros Hin _ d rest Hw.
  pose proof (proj1 (forallb_forall _ _) sites_ok st Hin) as Hok.
  unfold site_ok in Hok. apply andb_true_iff in Hok. destruct Hok as [Hok _].
  apply andb_true_iff in Hok. destruct Hok as [_ Ha].
  apply repr_bytes_lex; [assumption | apply after_ok_ctx, Ha].
Qed.
