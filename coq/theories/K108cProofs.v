(* C08 - kernel K108c (VerifGen.K108c.literal_part = body of the loop that builds the parts of the dict literal in
   _add_pack_method_lines, translated from /repo on every run): the (key, value expression) pair written for a field in
   the dict-literal form is the model's emit_lit -- key_lit for the key, the packer expression (the attribute itself for
   the identity packer) for the value.  The table `aliases` is the one the bookkeeping loop builds (kernel K18). *)
From Coq Require Import List String ZArith Bool.
From Verif Require Import Regex PyK PyK_c08 OptProj K18Proofs.
From VerifGen Require Import K108c.
Import ListNotations.
Open Scope string_scope.

(* what the literal reads for a field: the attribute for the identity packer, else the packer expression *)
Definition lit_value_expr (name packer: string) : string :=
  if String.eqb packer "value" then "self." ++ name else packer.

Lemma append_empty : forall s: string, s ++ "" = s.
Proof. induction s; cbn; [reflexivity | now f_equal]. Qed.

Lemma kv_eqb_str : forall a b: string, kv_eqb (KStr a) (KStr b) = String.eqb a b.
Proof. reflexivity. Qed.

Lemma K108c_literal_part_lemma : forall (c: sctx) (p: fplan) (al: list (kv * kv)) (packer: string),
  d_get al (KStr p.(p_name)) = option_map KStr p.(p_alias) ->
  literal_part (KBool c.(s_ba)) (KDict al) (KStr p.(p_name)) (KStr packer)
  = Ok (KTuple [KStr (key_lit c p); KStr (lit_value_expr p.(p_name) packer)]).
Proof.
  intros c p al packer H. unfold literal_part, key_lit, lit_value_expr, k_dict_get3, k_eq. rewrite H.
  change (kv_eqb (KStr packer) (KStr "value")) with (String.eqb packer "value").
  destruct (s_ba c); destruct (p_alias p); cbn; destruct (String.eqb packer "value"); cbn; rewrite ?append_empty; reflexivity.
Qed.

(* the table of kernel K18 after the field's own step answers the hypothesis *)
Lemma K108c_table_one_lemma : forall (p: fplan), p.(p_omit) = false ->
  d_get (b_aliases (step_b p empty_b)) (KStr p.(p_name)) = option_map KStr p.(p_alias).
Proof.
  intros p H. unfold step_b. rewrite H. cbn. destruct (p_alias p); cbn; [|reflexivity].
  unfold f_name. change (kv_eqb (KStr (p_name p)) (KStr (p_name p))) with (String.eqb (p_name p) (p_name p)).
  rewrite String.eqb_refl. reflexivity.
Qed.
