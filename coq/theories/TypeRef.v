(* C17: from the model of type_name (Render.v, strings) through the translated get_type_name_identifier (K44) and
   clean_id (K42) to the lexical shape the closedness analysis resolves (K44Proofs.name_chain):

     a class rendered as  module.qualname  is referred to, in generated code, by a NAME CHAIN -
     the dotted path itself when module and qualname are dotted identifiers, the clean_id alias when the
     qualified name contains the marker of a local class.

   Also: the hand-written ASCII model NsBind.clean_id (used by the string-level binding lemmas) IS the translated
   kernel K42.clean_id on 7-bit input. *)
From Coq Require Import List NArith Bool String Ascii Lia.
From VerifGen Require Import K42 K44.
From Verif Require Import K42Proofs K44Proofs NsBind Render.
Import ListNotations.
Open Scope N_scope.

Fixpoint codes (s : string) : list N :=
  match s with
  | EmptyString => []
  | String c r => N_of_ascii c :: codes r
  end.

Lemma codes_app a b : codes (a ++ b) = (codes a ++ codes b)%list.
Proof. induction a as [| c r IH]; simpl; [reflexivity | rewrite IH; reflexivity]. Qed.

(* ---- name chains compose at a dot *)
Lemma chain_dot a : forall b st, chain st (a ++ 46 :: b) = chain st a && chain true b.
Proof.
  induction a as [| c r IH]; intros b st.
  - simpl. reflexivity.
  - simpl. destruct (N.eqb c 46).
    + rewrite IH. rewrite andb_assoc. reflexivity.
    + rewrite IH. rewrite !andb_assoc. reflexivity.
Qed.

Lemma codes_dot m q : codes (m ++ "." ++ q) = (codes m ++ 46 :: codes q)%list.
Proof. rewrite codes_app. reflexivity. Qed.

(* a class reachable by name: module path and qualified name are dotted identifiers => so is the rendering *)
Theorem render_named_chain nn m q :
  name_chain (codes m) = true -> name_chain (codes q) = true ->
  name_chain (codes (render nn (RNamed m q))) = true.
Proof.
  intros Hm Hq. rewrite render_named, codes_dot. unfold name_chain in *. rewrite chain_dot, Hm, Hq. reflexivity.
Qed.

(* ---- the marker survives a prefix *)
Lemma contains_app_r p a b : contains p b = true -> contains p (a ++ b) = true.
Proof.
  intros H. induction a as [| c r IH]; [exact H|].
  simpl. rewrite IH. apply orb_true_r.
Qed.

Theorem render_named_local nn m q :
  is_local_type_name (codes q) = true -> is_local_type_name (codes (render nn (RNamed m q))) = true.
Proof.
  intros H. rewrite render_named, codes_dot. unfold is_local_type_name in *.
  apply contains_app_r. apply (contains_app_r locals_marker [46] (codes q)). exact H.
Qed.

(* ---- end to end: the text get_type_name_identifier pastes for a class is a name chain *)
Theorem class_reference_is_chain nn m q :
  is_local_type_name (codes q) = true \/ (name_chain (codes m) = true /\ name_chain (codes q) = true) ->
  name_chain (fst (type_ident (codes (render nn (RNamed m q))))) = true.
Proof.
  intros [H | [Hm Hq]]; apply type_ident_chain.
  - left. apply render_named_local. exact H.
  - right. apply render_named_chain; assumption.
Qed.

(* and for a local class the registered alias is that text: clean_id of the rendering *)
Theorem local_class_alias nn m q :
  is_local_type_name (codes q) = true ->
  type_ident (codes (render nn (RNamed m q))) =
    (K42.clean_id (codes (render nn (RNamed m q))), Some (K42.clean_id (codes (render nn (RNamed m q))))).
Proof. intros H. apply type_ident_local. apply render_named_local. exact H. Qed.

(* ---- NsBind.clean_id (ASCII model) = K42.clean_id (translated) on 7-bit strings *)

Definition ascii7 (c : ascii) : bool := (N_of_ascii c <? 128)%N.

Lemma word_agree c : ascii7 c = true -> K42.is_word (N_of_ascii c) = NsBind.is_word c.
Proof.
  destruct c as [b0 b1 b2 b3 b4 b5 b6 b7].
  destruct b7; [intros H; vm_compute in H; destruct b0, b1, b2, b3, b4, b5, b6; discriminate H|].
  intros _. destruct b0, b1, b2, b3, b4, b5, b6; vm_compute; reflexivity.
Qed.

Lemma digit_agree c : ascii7 c = true -> K42.is_digit (N_of_ascii c) = NsBind.is_digit c.
Proof.
  destruct c as [b0 b1 b2 b3 b4 b5 b6 b7].
  destruct b7; [intros H; vm_compute in H; destruct b0, b1, b2, b3, b4, b5, b6; discriminate H|].
  intros _. destruct b0, b1, b2, b3, b4, b5, b6; vm_compute; reflexivity.
Qed.

Fixpoint all7 (s : string) : bool :=
  match s with EmptyString => true | String c r => ascii7 c && all7 r end.

Lemma map_nonword_agree s : all7 s = true -> codes (map_nonword s) = map sub_char (codes s).
Proof.
  induction s as [| c r IH]; intros H; [reflexivity|].
  simpl in H. apply andb_true_iff in H as [Hc Hr]. simpl.
  rewrite (IH Hr). f_equal. unfold sub_char. rewrite (word_agree c Hc).
  destruct (NsBind.is_word c); reflexivity.
Qed.

Theorem clean_id_model_is_kernel s : all7 s = true -> codes (NsBind.clean_id s) = K42.clean_id (codes s).
Proof.
  destruct s as [| c r]; intros H; [reflexivity|].
  pose proof (map_nonword_agree (String c r) H) as M.
  simpl in H. apply andb_true_iff in H as [Hc Hr].
  unfold NsBind.clean_id, K42.clean_id. cbn [codes]. rewrite (digit_agree c Hc).
  destruct (NsBind.is_digit c).
  - cbn [codes]. rewrite M. reflexivity.
  - rewrite M. reflexivity.
Qed.

(* the string-level alias of a local class (NsBind.local_render) is what the translated get_type_name_identifier pastes *)
Theorem local_render_is_type_ident s :
  all7 s = true -> is_local_type_name (codes s) = true ->
  fst (type_ident (codes s)) = codes (local_render s).
Proof.
  intros H7 HL. rewrite (type_ident_local _ HL). simpl. unfold local_render.
  symmetry. apply clean_id_model_is_kernel. exact H7.
Qed.
