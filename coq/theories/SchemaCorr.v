(* C20: executable comparison functions used by the harness-generated case files
   (model + K9 context vs. observations of the real implementation). *)
From Coq Require Import List String Ascii ZArith Bool.
From Verif Require Core TyModel.
From Verif Require Import Regex PyK PyK_schema SchemaGen K9Proofs SchemaRoundtrip SchemaDefault SchemaChain.
From VerifGen Require Import K9.
Import ListNotations.
Open Scope string_scope.

Fixpoint strs_eqb (a b: list string) : bool :=
  match a, b with
  | [], [] => true
  | x :: r, y :: s => String.eqb x y && strs_eqb r s
  | _, _ => false
  end.

Fixpoint defs_eqb (st: defs) (e: list (string * string)) : bool :=
  match st, e with
  | [], [] => true
  | (k, d) :: r, (k', c) :: s => String.eqb k k' && String.eqb (canon d) c && defs_eqb r s
  | _, _ => false
  end.

Definition b2k (b: bool) : kv := KBool b.

(* the context as the implementation computes it (K9), for a direct call or through a builder *)
Definition ctx_for (builder: bool) (wd: bool) (ctx ar D p: kv) : res kv :=
  if builder
  then bind (builder_init (KNs []) (eff_dialect D) ar p (KTuple []))
            (fun c0 => build_ctx c0 builder_build_with_definitions KNone KNone KNone (KTuple []))
  else build_ctx ctx (b2k wd) ar D p (KTuple []).

Definition uri_of (c: kv) : option string :=
  match k_getattr2 c (KStr "dialect") with
  | Ok d => match k_getattr2 d (KStr "uri") with Ok (KStr u) => Some u | _ => None end
  | _ => None end.

(* one correspondence case: class table, (all_refs, dialect, ref_prefix), with_definitions, with_dialect_uri,
   builder?, roots, expected canonical documents, expected definitions, expected RecursionError *)
Definition mcase : Type :=
  (list (string * rcls) * (list (string * Core.pv) * dvals) * kv * (kv * kv * kv) * (bool * bool) * bool * list ty * list string
   * list (string * string) * bool)%type.

Definition corr_run (E: ctab) (c: mcase) : bool :=
  let '(ER, (etab, vals), pctx, (ar, D, p), (wd, wu), builder, roots, exp_docs, exp_defs, exp_rec) := c in
  match ctx_for builder wd pctx ar D p with
  | Ok ctx =>
      match cfg_of_ctx ctx with
      | Some cfg =>
          if builder
          then match build_seq E cfg 8 roots [] with
               | SOk (ds, st) => negb exp_rec && strs_eqb (map canon ds) exp_docs && defs_eqb st exp_defs
               | SFuel => exp_rec
               | SErr => false end
          else match roots with
               | [t] =>
                   match build E cfg 8 wd (if wu then uri_of ctx else None) t [] with
                   | SOk (d, st) => negb exp_rec && strs_eqb [canon d] exp_docs && defs_eqb st exp_defs
                   | SFuel => exp_rec
                   | SErr => false end
               | _ => false end
      | None => false end
  | Raise _ => false
  end.

(* overridden serialization: the class table is digested with the CHAIN of replacements (SchemaChain, what the implementation
   runs); on the one-step fragment (tab_flat: no replacement type mentions an overridden key) the digest of SchemaGen, which the
   theorems C20_override_* are about, must reproduce the same observations *)
Definition corr_ok (c: mcase) : bool :=
  let '(ER, (etab, vals), pctx, (ar, D, p), (wd, wu), builder, roots, exp_docs, exp_defs, exp_rec) := c in
  let ER' := prerender etab vals ER in
  match digest_tab_chain 12 ER' with
  | Some E => corr_run E c && (if tab_flat ER' then corr_run (digest_tab ER') c else true)
  | None => false
  end.
Definition corr_chained (c: mcase) : bool :=
  let '(ER, (etab, vals), pctx, (ar, D, p), (wd, wu), builder, roots, exp_docs, exp_defs, exp_rec) := c in
  negb (tab_flat (prerender etab vals ER)).

(* K9 sampling: observable behaviour of build_json_schema / JSONSchemaBuilder on a one-field
   dataclass named A: (a $ref was emitted, its text, "$defs" attached) *)
Definition k9_obs (builder: bool) (ctx: kv) (wd: bool) (ar D p: kv) : option (bool * string * bool) :=
  let rc := if builder
            then bind (builder_init (KNs []) (eff_dialect D) ar p (KTuple []))
                      (fun c0 => build_ctx c0 builder_build_with_definitions KNone KNone KNone (KTuple []))
            else build_ctx ctx (b2k wd) ar D p (KTuple []) in
  let wdk := if builder then builder_build_with_definitions else b2k wd in
  match rc with
  | Ok c =>
      match k_getattr2 c (KStr "all_refs") with
      | Ok (KBool true) =>
          match ref_of c (KStr "A") KNone, reg_key (KStr "A") KNone with
          | Ok (KStr r), Ok key =>
              match k_setattr c (KStr "definitions") (KDict [(key, KNone)]) with
              | Ok c' =>
                  match attach_defs wdk c' (KNs []) with
                  | Ok (KNs attrs) => Some (true, r, match ns_get attrs "definitions" with Some _ => true | None => false end)
                  | _ => None end
              | _ => None end
          | _, _ => None end
      | Ok (KBool false) =>
          match attach_defs wdk c (KNs []) with
          | Ok (KNs attrs) => Some (false, "", match ns_get attrs "definitions" with Some _ => true | None => false end)
          | _ => None end
      | _ => None end
  | Raise _ => None
  end.

Definition k9case : Type := (bool * kv * bool * (kv * kv * kv) * (bool * string * bool))%type.
Definition k9_ok (c: k9case) : bool :=
  let '(builder, ctx, wd, (ar, D, p), (e1, e2, e3)) := c in
  match k9_obs builder ctx wd ar D p with
  | Some (o1, o2, o3) => Bool.eqb o1 e1 && String.eqb o2 e2 && Bool.eqb o3 e3
  | None => false end.

Definition mk_ctx (D ar q: kv) : kv :=
  KNs [("dialect", D); ("definitions", KDict []); ("all_refs", ar); ("ref_prefix", q); ("plugins", KTuple [])].

(* round trip: document, expected canonical text of JSONSchema.from_dict(d).to_dict() or "ERR" when from_dict raised.
   Documents outside the modelled value domain (NOut) make no claim; they are counted separately. *)
Definition rt_ok (c: js * string) : bool :=
  match norm (fst c) with
  | NOk d => String.eqb (canon d) (snd c)
  | NErr => String.eqb (snd c) "ERR"
  | NOut => true
  end.
Definition rt_out (c: js * string) : bool := match norm (fst c) with NOut => false | _ => true end.

(* debugging aid: the model's documents for a case *)
Definition corr_dump (c: mcase) : list string :=
  let '(ER, (etab, vals), pctx, (ar, D, p), (wd, wu), builder, roots, exp_docs, exp_defs, exp_rec) := c in
  let E := match digest_tab_chain 12 (prerender etab vals ER) with Some E => E | None => [] end in
  match ctx_for builder wd pctx ar D p with
  | Ok ctx =>
      match cfg_of_ctx ctx with
      | Some cfg =>
          if builder
          then match build_seq E cfg 8 roots [] with
               | SOk (ds, st) => (map canon ds ++ map (fun kv => canon (snd kv)) st)%list
               | SFuel => ["FUEL"] | SErr => ["ERR"] end
          else match roots with
               | [t] => match build E cfg 8 wd (if wu then uri_of ctx else None) t [] with
                        | SOk (d, st) => (canon d :: map (fun kv => canon (snd kv)) st)%list
                        | SFuel => ["FUEL"] | SErr => ["ERR"] end
               | _ => ["?"] end
      | None => ["nocfg"] end
  | Raise _ => ["raise"]
  end.
