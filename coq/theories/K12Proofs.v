(* Theorems about kernel K12 = iter_all_subclasses / _get_variant_names / the class-level rebuild of
   the Discriminator, as translated from /repo on this run (VerifGen.K12): the model's [variants]
   (Discr.v) is what the code computes on the class graph. *)
From Coq Require Import List Arith Bool Lia.
From Verif Require Import Discr DiscrSpec DiscrProofs PyK_discr K12Defs DiscrEmit DiscrEmitProofs.
From VerifGen Require Import K12.
Import ListNotations.

Lemma flat_map_ext_in' {A B} (f g: A -> list B) l :
  (forall a, In a l -> f a = g a) -> flat_map f l = flat_map g l.
Proof.
  induction l as [|a l IH]; intros H; cbn; [reflexivity|].
  rewrite (H a (or_introl eq_refl)). f_equal. apply IH. intros b Hb. apply H. right. exact Hb.
Qed.

Lemma children_ge c l : forall i d, In d (children_from c l i) -> i <= d.
Proof.
  induction l as [|a l IH]; intros i d; cbn; [intros []|].
  destruct (memb c (c_parents a)).
  - intros [<-|H]; [lia|]. apply IH in H. lia.
  - intros H. apply IH in H. lia.
Qed.

Lemma children_child c l : forall pre d, In d (children_from c l (length pre)) -> child (pre ++ l) c d.
Proof.
  induction l as [|a l IH]; intros pre d; cbn; [intros []|].
  assert (EQ: pre ++ a :: l = (pre ++ [a]) ++ l) by (rewrite <- app_assoc; reflexivity).
  assert (LEN: length (pre ++ [a]) = S (length pre)) by (rewrite app_length; cbn; lia).
  destruct (memb c (c_parents a)) eqn:M.
  - intros [<-|H].
    + exists a. split; [|apply memb_In; exact M].
      rewrite nth_error_app2 by lia. rewrite Nat.sub_diag. reflexivity.
    + rewrite EQ. apply IH. rewrite LEN. exact H.
  - intros H. rewrite EQ. apply IH. rewrite LEN. exact H.
Qed.

(* the walk, one level unfolded: every direct subclass followed by its own walk *)
Lemma walk_children : forall l i c,
  walk c l i = flat_map (fun d => d :: walk d (skipn (S d - i) l) (S d)) (children_from c l i).
Proof.
  induction l as [|a l IH]; intros i c; cbn [walk children_from]; [reflexivity|].
  assert (STEP: flat_map (fun d => d :: walk d (skipn (S d - S i) l) (S d)) (children_from c l (S i))
                = flat_map (fun d => d :: walk d (skipn (S d - i) (a :: l)) (S d)) (children_from c l (S i))).
  { apply flat_map_ext_in'. intros d Hd. apply children_ge in Hd.
    replace (S d - i) with (S (S d - S i)) by lia. reflexivity. }
  destruct (memb c (c_parents a)).
  - cbn [flat_map]. replace (S i - i) with 1 by lia. cbn [skipn app]. f_equal. f_equal.
    rewrite IH. exact STEP.
  - rewrite IH. exact STEP.
Qed.

Lemma walk_skip_prefix d : forall pre pre0 l, wf (pre0 ++ pre ++ l) -> length pre0 + length pre <= S d ->
  walk d (pre ++ l) (length pre0) = walk d l (length pre0 + length pre).
Proof.
  induction pre as [|a pre IH]; intros pre0 l W L; cbn [app length].
  - rewrite Nat.add_0_r. reflexivity.
  - cbn [walk]. destruct (memb d (c_parents a)) eqn:M.
    + exfalso. apply memb_In in M.
      assert (N: nth_error (pre0 ++ (a :: pre) ++ l) (length pre0) = Some a).
      { rewrite nth_error_app2 by lia. rewrite Nat.sub_diag. reflexivity. }
      pose proof (W _ _ N d M). cbn in L. lia.
    + assert (EQ: pre0 ++ (a :: pre) ++ l = (pre0 ++ [a]) ++ pre ++ l) by (rewrite <- app_assoc; reflexivity).
      rewrite EQ in W.
      assert (LEN: length (pre0 ++ [a]) = S (length pre0)) by (rewrite app_length; cbn; lia).
      pose proof (IH (pre0 ++ [a]) l W) as H. rewrite LEN in H. cbn in L.
      rewrite H by lia. f_equal. lia.
Qed.

Lemma walk_skipn cl d : wf cl -> walk d (skipn (S d) cl) (S d) = walk d cl 0.
Proof.
  intros W. destruct (Nat.le_gt_cases (S d) (length cl)) as [L|L].
  - pose proof (walk_skip_prefix d (firstn (S d) cl) [] (skipn (S d) cl)) as H.
    cbn [app length] in H. rewrite firstn_skipn in H. rewrite firstn_length_le in H by exact L.
    rewrite H; [reflexivity | exact W | lia].
  - rewrite skipn_all2 by lia. cbn.
    pose proof (walk_skip_prefix d cl [] []) as H. cbn [app length] in H. rewrite app_nil_r in H.
    rewrite H; [reflexivity | exact W | lia].
Qed.

Lemma all_sub_eq cl c : wf cl ->
  all_sub cl c = flat_map (fun d => d :: all_sub cl d) (subclasses_of cl c).
Proof.
  intros W. unfold all_sub, subclasses_of. rewrite walk_children.
  apply flat_map_ext_in'. intros d _. rewrite Nat.sub_0_r. rewrite walk_skipn by exact W. reflexivity.
Qed.

(* (T) the translated generator computes the model's walk *)
Theorem iter_all_subclasses_is_walk cl : wf cl -> forall fuel c, length cl - c < fuel ->
  iter_all_subclasses fuel (subclasses_of cl) c = all_sub cl c.
Proof.
  intros W. induction fuel as [|f IH]; intros c L; [lia|].
  cbn [iter_all_subclasses]. rewrite (all_sub_eq cl c W).
  apply flat_map_ext_in'. intros d Hd. cbn [app]. f_equal.
  pose proof (children_child c cl [] d Hd) as CH. cbn [app] in CH.
  pose proof (child_lt _ _ _ W CH). pose proof (child_bound _ _ _ CH).
  apply IH. lia.
Qed.

Lemma eval_names_app f a b : eval_names f (a ++ b) = eval_names f a ++ eval_names f b.
Proof. unfold eval_names. apply flat_map_app. Qed.

Lemma eval_names_star f bs : eval_names f (map VStar bs) = flat_map f bs.
Proof. unfold eval_names. induction bs as [|b bs IH]; cbn; [reflexivity|]. rewrite IH. reflexivity. Qed.

Lemma eval_names_name f bs : eval_names f (map VName bs) = bs.
Proof. unfold eval_names. induction bs as [|b bs IH]; cbn; [reflexivity|]. rewrite IH. reflexivity. Qed.

(* (T) the translated _get_variant_names, evaluated with the translated walk, is the model's [variants];
   the class-level form does not forward include_supertypes *)
Theorem code_variants_is_model cl s : wf cl ->
  eval_names (iter_all_subclasses (S (length cl)) (subclasses_of cl))
             (get_variant_names (s_sub s) (s_sup s && negb (s_config s && negb config_keeps_supertypes)) (s_bases s))
  = variants cl s.
Proof.
  intros W. unfold get_variant_names, variants, eff_sup.
  replace (s_sup s && negb (s_config s && negb config_keeps_supertypes)) with (s_sup s && negb (s_config s))
    by (unfold config_keeps_supertypes; destruct (s_config s); reflexivity).
  rewrite eval_names_app. f_equal.
  - destruct (s_sub s); [|reflexivity]. rewrite eval_names_star.
    apply flat_map_ext_in'. intros b _. apply iter_all_subclasses_is_walk; [exact W | lia].
  - destruct (s_sup s && negb (s_config s)); [|reflexivity]. apply eval_names_name.
Qed.


(* (T) the statements the source emits for the registry region of the field-mode dispatcher (translated on this run) are
   the program DiscrEmitProofs.prog, for a nailed builder / a codec, with / without a tagger function *)
Lemma emit_lookup_is_prog nailed tagger : emit_lookup nailed tagger = prog nailed tagger.
Proof. destruct nailed, tagger; reflexivity. Qed.

(* ... hence the model's field-mode clause Discr.field_body (registry hit with an own method / miss, refill in walk order
   with own-tag or tagger registration, `continue` for a class without the key, rebuilt variants, retry, not found) IS
   what running the emitted statements does *)
Theorem code_field_body_is_emitted nailed enter top codec k s t x tr :
  (forall v, flat (tr v) = match assoc (s_tgid s) (c_ttags (nth v (classes x) dummy_cls)) with Some l => l | None => [] end) ->
  option_map (commit_lookup enter top codec k x)
             (result_of (exec_block (classes x) s t (variants (classes x) s) (has_method codec x) tr
                                    (emit_lookup nailed (s_tagger s)) (env0 (get_reg k (regs x)))))
  = Some (field_body enter top codec k s t x).
Proof. rewrite emit_lookup_is_prog. apply field_body_runs. Qed.
