(* C01 at the reference level: decoding the reference encoding of a conforming value of a
   lossless type gives the value back (same concrete classes: equality of [pv] terms).
   Combined with C02 (pk∘cp = ref_enc) and C03 (uk∘cu = ref_dec) this is the round trip of
   the generated code. *)
From Coq Require Import List String Ascii ZArith Bool Lia.
From Verif Require Import Core TupleIdx TyModel TyTuple TyProofs.
Import ListNotations.
Open Scope string_scope.
Open Scope Z_scope.
Open Scope list_scope.

(* ------------------------------------------------------------------ *)
(* sets: elements pairwise distinct *)
Fixpoint nodup_elems (l: list pv) : bool :=
  match l with
  | [] => true
  | x :: r => negb (existsb (fun y => py_eq x y) r) && nodup_elems r end.

Lemma s_insert_fresh acc x :
  (forall a, In a acc -> py_eq a x = false) -> s_insert acc x = acc ++ [x].
Proof.
  induction acc as [|y acc IH]; intros H; [reflexivity|].
  cbn [s_insert]. rewrite (H y (or_introl eq_refl)). cbn [app]. f_equal.
  apply IH. intros a Ha. apply H. right. exact Ha.
Qed.

Lemma fold_s_insert_nodup (l acc: list pv) :
  nodup_elems l = true ->
  (forall a p, In a acc -> In p l -> py_eq a p = false) ->
  fold_left s_insert l acc = acc ++ l.
Proof.
  revert acc. induction l as [|x r IH]; intros acc Hn Hd.
  - cbn. rewrite app_nil_r. reflexivity.
  - cbn [fold_left]. cbn [nodup_elems] in Hn. apply andb_prop in Hn. destruct Hn as [Hk Hr].
    rewrite s_insert_fresh.
    + rewrite IH; [rewrite <- app_assoc; reflexivity | exact Hr |].
      intros a p Ha Hp. apply in_app_or in Ha. destruct Ha as [Ha|[Ha|[]]].
      * apply Hd; [exact Ha | right; exact Hp].
      * subst a. apply negb_true_iff in Hk.
        destruct (py_eq x p) eqn:Epe; [|reflexivity].
        exfalso. assert (existsb (fun y => py_eq x y) r = true) as Hx.
        { apply existsb_exists. exists p. split; assumption. }
        rewrite Hx in Hk. discriminate.
    + intros a Ha. apply (Hd a x Ha (or_introl eq_refl)).
Qed.

Lemma set_of_list_nodup l : nodup_elems l = true -> set_of_list l = l.
Proof.
  intros H. unfold set_of_list. rewrite fold_s_insert_nodup; [reflexivity | exact H |].
  intros a p [].
Qed.

(* ------------------------------------------------------------------ *)
(* a predicate on every node of a value *)
Section AllNodes.
  Variable q : pv -> bool.
  Fixpoint all_nodes (v: pv) {struct v} : bool :=
    q v &&
    match v with
    | VList l | VTuple l | VSet _ l | VNT _ l => forallb all_nodes l
    | VDict kvs => forallb (fun p => match p with (k, x) => all_nodes k && all_nodes x end) kvs
    | VObj _ fs => forallb (fun p => match p with (_, x) => all_nodes x end) fs
    | _ => true end.
End AllNodes.

(* types whose values survive the basic form.  Mapping keys: the scalar key types, whose packer is the
   identity, and leaf / enum / bytes key types, whose wire form is a rendering -- for those the round trip
   needs the renderings of the keys present to be pairwise distinct ([atom_ok] on the dict, below). *)
Definition key_id (t: sty) : bool :=
  match t with SIntT | SFloatT | SBoolT | SStrT => true | _ => false end.
Definition key_ok (t: sty) : bool :=
  match t with SIntT | SFloatT | SBoolT | SStrT | SLeaf _ | SEnum _ | SBytes _ => true | _ => false end.

Fixpoint lossless (t: sty) : bool :=
  match t with
  | SList t' | SSet _ t' | STupleVar t' | SOpt t' | SSeq t' => lossless t'
  | STupleFix ts => forallb lossless ts
  | STupleU pre mid post => forallb lossless pre && lossless mid && forallb lossless post
  | SDict kt vt | SMap kt vt => key_ok kt && lossless vt
  | SBox b t' =>
      (* the content of a boxed collection is a list or a dict; a ChainMap holds a list of maps (the
         normalisation of the canonical empty one relies on that shape) *)
      (if is_chain b then match t' with SSeq (SMap _ _) => true | _ => false end
       else match t' with SSeq _ | SMap _ _ => true | _ => false end) && lossless t'
  | _ => true end.

Definition cls_ok (c: scls) : bool :=
  names_nodup c.(sc_fields) && forallb (fun f => lossless f.(sf_ty)) c.(sc_fields).

(* ---- TypedDict: walking a dict whose keys are already in canonical order gives it back ---- *)
Lemma look_app {D} (a b: list (pv * D)) n :
  look (a ++ b) n = match look a n with Some d => Some d | None => look b n end.
Proof.
  induction a as [|[key d] a IH]; [reflexivity|].
  cbn [app look]. destruct (py_eq key (VStr n)); [reflexivity | exact IH].
Qed.

Lemma td_sorted_nil order : td_sorted order [] = true.
Proof. destruct order; reflexivity. Qed.

Lemma td_sorted_look_none order : forall kvs n, td_sorted order kvs = true ->
  (forall g, In g order -> String.eqb (sf_name g) n = false) -> look kvs n = None.
Proof.
  induction order as [|f order IH]; intros kvs n Hs Hn.
  - destruct kvs; [reflexivity | discriminate Hs].
  - destruct kvs as [|[key x] r]; [reflexivity|]. cbn [td_sorted] in Hs.
    destruct (py_eq key (VStr (sf_name f))) eqn:Ek.
    + apply py_eq_str_l in Ek. subst key. cbn [look]. rewrite py_eq_str_str, (Hn f (or_introl eq_refl)).
      apply (IH r n Hs). intros g Hg. apply Hn. right. exact Hg.
    + apply (IH _ n Hs). intros g Hg. apply Hn. right. exact Hg.
Qed.

Lemma td_go_id ms order : names_nodup order = true -> forall (kvs pre: list (pv * pv)),
  td_sorted order kvs = true ->
  (forall f, In f order -> look pre (sf_name f) = None) ->
  (forall f, In f order -> sf_opt f = false -> look (pre ++ kvs) (sf_name f) <> None) ->
  td_go (fun _ x => Ok x) (fun _ => None) ms (pre ++ kvs) order = Ok kvs.
Proof.
  induction order as [|f order IH]; intros Hn kvs pre Hs Hpre Hreq.
  - destruct kvs; [reflexivity | discriminate Hs].
  - cbn [names_nodup] in Hn. apply andb_prop in Hn. destruct Hn as [Hh Hr]. apply negb_true_iff in Hh.
    cbn [td_go]. unfold td_field.
    assert (Hskip: td_sorted order kvs = true -> look (pre ++ kvs) (sf_name f) = None ->
                   td_go (fun _ x => Ok x) (fun _ => None) ms (pre ++ kvs) (f :: order) = Ok kvs).
    { intros Hs' Hl. cbn [td_go]. unfold td_field. rewrite Hl.
      destruct (sf_opt f) eqn:Eo.
      - apply (IH Hr kvs pre Hs'); [intros g Hg; apply Hpre; right; exact Hg | intros g Hg; apply Hreq; right; exact Hg].
      - exfalso. apply (Hreq f (or_introl eq_refl) Eo). exact Hl. }
    destruct kvs as [|[key x] r].
    + apply Hskip; [apply td_sorted_nil|]. rewrite app_nil_r. apply Hpre. left. reflexivity.
    + cbn [td_sorted] in Hs. destruct (py_eq key (VStr (sf_name f))) eqn:Ek.
      * pose proof (py_eq_str_l _ _ Ek) as Hkey. subst key.
        assert (Hl: look (pre ++ (VStr (sf_name f), x) :: r) (sf_name f) = Some x).
        { rewrite look_app, (Hpre f (or_introl eq_refl)). cbn [look]. rewrite Ek. reflexivity. }
        rewrite Hl.
        assert (Hrest: td_go (fun _ x0 => Ok x0) (fun _ => None) ms (pre ++ (VStr (sf_name f), x) :: r) order = Ok r).
        { replace (pre ++ (VStr (sf_name f), x) :: r) with ((pre ++ [(VStr (sf_name f), x)]) ++ r) by (rewrite <- app_assoc; reflexivity).
          apply (IH Hr r (pre ++ [(VStr (sf_name f), x)]) Hs).
          - intros g Hg. rewrite look_app, (Hpre g (or_intror Hg)). cbn [look].
            rewrite py_eq_str_str, (names_nodup_notin f order g Hh Hg). reflexivity.
          - intros g Hg Ho. rewrite <- app_assoc. apply (Hreq g (or_intror Hg) Ho). }
        destruct (sf_opt f); cbn [bind]; rewrite Hrest; reflexivity.
      * apply Hskip; [exact Hs|]. rewrite look_app, (Hpre f (or_introl eq_refl)).
        apply (td_sorted_look_none order _ _ Hs). intros g Hg.
        rewrite String.eqb_sym. apply (names_nodup_notin f order g Hh Hg).
Qed.

(* ---- NamedTuple: item-wise round trip ---- *)
Lemma nt_items_rt (qc: sfield -> pv -> bool) (run1 run2: sfield -> pv -> res pv) k1 m1 k2 m2 fds (l: list pv) r :
  nt_all qc fds l = true ->
  (forall f x y, In f fds -> In x l -> qc f x = true -> run1 f x = Ok y -> run2 f y = Ok x) ->
  nt_items run1 k1 m1 fds l = Ok r -> nt_items run2 k2 m2 fds r = Ok l.
Proof.
  revert fds r. induction l as [|x l IH]; intros fds r HA Hr H.
  - destruct fds as [|f rest]; [inversion H; reflexivity | discriminate HA].
  - destruct fds as [|f rest]; [discriminate HA|]. cbn [nt_items] in H.
    cbn [nt_all] in HA. apply andb_prop in HA. destruct HA as [Hq HA].
    destruct (run1 f x) as [y|] eqn:Ey; [|discriminate H].
    destruct (nt_items run1 k1 m1 rest l) as [ys|] eqn:Eys; [|discriminate H]. inversion H; subst.
    cbn [nt_items]. rewrite (Hr f x y (or_introl eq_refl) (or_introl eq_refl) Hq Ey).
    rewrite (IH rest ys HA); [reflexivity | | exact Eys].
    intros f0 x0 y0 Hf0 Hx0. apply Hr; right; assumption.
Qed.

Section C01.
  Variable E : senv.
  Variable P : prims.
  Hypothesis env_ok : forallb cls_ok E = true.

  (* every atomic value present round-trips through its stdlib primitive, and Python's
     container invariants hold (set elements / dict keys hashable and pairwise distinct).
     Exactly the documented lossy representations fail [atom_ok]. *)
  (* what a mapping key looks like on the wire *)
  Definition key_wire (k: pv) : pv :=
    match k with
    | VLeaf kd w => P.(p_render) kd w
    | VEnum e m => match P.(p_enum_value) e m with Some val => val | None => k end
    | VBytes _ b => VStr (P.(p_b64enc) b)
    | _ => k end.

  Definition atom_ok (x: pv) : bool :=
    match x with
    | VLeaf k w =>
        negb (is_none (P.(p_render) k w)) &&
        match P.(p_parse) k (P.(p_render) k w) with Some w' => String.eqb w' w | None => false end
    | VEnum e m =>
        match P.(p_enum_value) e m with
        | Some val => negb (is_none val) &&
                      match P.(p_enum_of) e val with Some m' => String.eqb m' m | None => false end
        | None => false end
    | VBytes _ b =>
        match P.(p_b64dec) (VStr (P.(p_b64enc) b)) with Some b' => String.eqb b' b | None => false end
    | VSet _ l => nodup_elems l && forallb hashable l
    | VDict kvs =>
        (* keys hashable; the wire forms of the keys pairwise distinct (for scalar keys this is the dict invariant
           itself; for leaf / enum / bytes keys: the rendering does not identify two keys that are present) *)
        forallb (fun p => hashable (fst p)) kvs &&
        nodup_keys (map (fun p => (key_wire (fst p), snd p)) kvs)
    | _ => true end.

  Definition vals_ok := all_nodes atom_ok.

  Lemma vals_ok_unfold v : vals_ok v =
    atom_ok v &&
    match v with
    | VList l | VTuple l | VSet _ l | VNT _ l => forallb vals_ok l
    | VDict kvs => forallb (fun p => match p with (k, x) => vals_ok k && vals_ok x end) kvs
    | VObj _ fs => forallb (fun p => match p with (_, x) => vals_ok x end) fs
    | _ => true end.
  Proof. destruct v; reflexivity. Qed.

  Lemma is_none_eq0 x : is_none x = true -> x = VNone.
  Proof. destruct x; try discriminate. reflexivity. Qed.

  (* Literal: what is found is the value itself *)
  Lemma lit_find_same ls v w : lit_find ls v = Ok w -> v = w.
  Proof.
    unfold lit_find. destruct (find (exact_eq v) ls) as [l|] eqn:Ef; intros H; [|discriminate H]. inversion H; subst w.
    apply find_some in Ef. destruct Ef as [_ He]. destruct v, l; cbn in He; try discriminate He; try reflexivity.
    - apply Bool.eqb_prop in He. subst. reflexivity.
    - apply Z.eqb_eq in He. subst. reflexivity.
    - apply String.eqb_eq in He. subst. reflexivity.
  Qed.

  (* a non-None conforming value never encodes to None (needed under Optional) *)
  Lemma enc_not_none v : forall t w,
    conf_ord E v t = true -> lossless t = true -> is_none v = false -> atom_ok v = true ->
    ref_enc E P v t = Ok w -> is_none w = false.
  Proof.
    intros t. induction t; intros w HC HL HN HA HE; rewrite conf_unfold in HC; rewrite ref_enc_unfold in HE.
    all: try (injection HE as Hw; rewrite <- Hw; exact HN).
    - (* bytes *) destruct v; try discriminate. inversion HE. reflexivity.
    - (* leaf *) destruct v; try discriminate. inversion HE; subst. cbn [atom_ok] in HA.
      apply andb_prop in HA. destruct HA as [HA _]. apply negb_true_iff in HA. exact HA.
    - (* enum *) destruct v as [| | | | | | | | | | | en mn | | |]; try discriminate. cbn [atom_ok] in HA.
      destruct (p_enum_value P en mn) as [val|]; cbn [lift] in HE; [|discriminate]. inversion HE; subst.
      apply andb_prop in HA. destruct HA as [HA _]. apply negb_true_iff in HA. exact HA.
    - destruct v; try discriminate. destruct (mapM _ _); inversion HE. reflexivity.
    - destruct v; try discriminate. destruct (mapM _ _); inversion HE. reflexivity.
    - destruct v; try discriminate. destruct (mapM _ _); inversion HE. reflexivity.
    - destruct v; try discriminate.
      match type of HE with (bind ?X _ = _) => destruct X end; inversion HE. reflexivity.
    - (* tuple with an unpacked segment *)
      destruct v; try discriminate. destruct (_ <? _)%nat; [discriminate|]. cbv zeta in HE.
      match type of HE with (bind ?X _ = _) => destruct X end; inversion HE. reflexivity.
    - destruct v; try discriminate. destruct (mapM _ _); inversion HE. reflexivity.
    - (* Optional *) rewrite HN in HE, HC. cbn [orb] in HC. apply (IHt w HC HL HN HA HE).
    - destruct v; try discriminate. destruct (sfind E _ c); [|discriminate].
      match type of HE with (bind ?X _ = _) => destruct X end; inversion HE. reflexivity.
    - destruct v; try discriminate. destruct (sfind E _ c); [|discriminate].
      match type of HE with (bind ?X _ = _) => destruct X end; inversion HE. reflexivity.
    - destruct v; try discriminate. destruct (sfind E _ c); [|discriminate]. cbv zeta in HE.
      match type of HE with (bind ?X _ = _) => destruct X end; inversion HE. reflexivity.
    - (* Sequence *) destruct v; try discriminate. destruct (mapM _ _); inversion HE. reflexivity.
    - (* Mapping *) destruct v; try discriminate. destruct (mapM _ _); inversion HE. reflexivity.
    - (* boxed collection: its content is a list or a dict *)
      destruct v as [ | | | | | | | | | | c fs | | | | ]; try discriminate HC.
      destruct fs as [|[n inner] [|]]; try discriminate HC.
      destruct (chain_empty (is_chain b) inner); [inversion HE; reflexivity|].
      apply andb_prop in HC. destruct HC as [_ HC]. cbn [lossless] in HL. apply andb_prop in HL. destruct HL as [Hs _].
      assert (Hshape: match t with SSeq _ | SMap _ _ => True | _ => False end).
      { destruct (is_chain b); destruct t; try discriminate Hs; exact I. }
      rewrite conf_unfold in HC. rewrite ref_enc_unfold in HE.
      destruct t; try contradiction; destruct inner; try discriminate HC; destruct (mapM _ _); inversion HE; reflexivity.
    - (* literal *) rewrite <- (lit_find_same _ _ _ HE). exact HN.
  Qed.

  Lemma omapM_nt_eq {B} (g: sfield -> option B) (q: sfield -> B -> bool) fds (l cs: list B) :
    (forall f x c, q f x = true -> g f = Some c -> x = c) -> nt_all q fds l = true -> omapM g fds = Some cs -> l = cs.
  Proof.
    intros Hq. revert fds cs. induction l as [|x l IH]; intros fds cs HA Hm.
    - destruct fds; [inversion Hm; reflexivity | discriminate HA].
    - destruct fds as [|f r]; [discriminate HA|]. cbn [nt_all] in HA. apply andb_prop in HA. destruct HA as [Hx HA].
      cbn [omapM] in Hm. destruct (g f) as [c|] eqn:Eg; [|discriminate Hm].
      destruct (omapM g r) as [ys|] eqn:Er; [|discriminate Hm]. inversion Hm; subst.
      rewrite (Hq f x c Hx Eg), (IH r ys HA Er). reflexivity.
  Qed.

  Lemma omapM_tuple_eq (g: sty -> option pv) ts (l cs: list pv) :
    Forall (fun t => forall c x, g t = Some c -> conf_ord E x t = true -> x = c) ts -> omapM g ts = Some cs ->
    (fix go (ts: list sty) (l: list pv) {struct l} : bool :=
       match ts, l with
       | [], [] => true
       | t' :: ts', x :: l' => conf_ord E x t' && go ts' l'
       | _, _ => false end) ts l = true -> l = cs.
  Proof.
    intros HF. revert l cs. induction HF as [|t1 ts H1 Hts IH]; intros l cs Em HC.
    - inversion Em. destruct l; [reflexivity | discriminate HC].
    - destruct l as [|x l]; [discriminate HC|]. apply andb_prop in HC. destruct HC as [Cx Cl].
      cbn [omapM] in Em. destruct (g t1) as [c1|] eqn:E1; [|discriminate Em].
      destruct (omapM g ts) as [cs1|] eqn:E2; [|discriminate Em]. inversion Em.
      rewrite (H1 c1 x eq_refl Cx), (IH l cs1 eq_refl Cl). reflexivity.
  Qed.

  (* a conforming value of a constant type is that constant *)
  Lemma const_ty_conf_eq_n n : forall t c x, const_ty_n E n t = Some c -> conf_ord E x t = true -> x = c.
  Proof.
    induction n as [|n IHn].
    all: induction t as [ | | | | | | m' | k' | e' | t' IHt | fr' t' IHt | t' IHt | ts IHts | pre IHpre mid IHmid IHmide post IHpost | kt IHkt vt IHvt | t' IHt | c' | c' | c' | t' IHt | kt IHkt vt IHvt | bx t' IHt | ls ]
      using sty_ind'; intros c x Hc HC; rewrite const_ty_n_unfold in Hc; try discriminate Hc.
    all: try solve [
      destruct (omapM (const_ty_n E _) pre) as [a|] eqn:Ea; [|discriminate Hc];
      destruct mid; try discriminate Hc;
      match type of Hc with (match omapM ?g ?l with _ => _ end = _) => destruct (omapM g l) as [m|] eqn:Em end; [|discriminate Hc];
      destruct (omapM (const_ty_n E _) post) as [b|] eqn:Eb; [|discriminate Hc];
      inversion Hc; destruct x; try (rewrite conf_unfold in HC; discriminate HC);
      destruct (conf_tupleu_parts _ _ _ _ _ _ HC) as [Hlen [Hpre [Hmid Hpost]]];
      f_equal; rewrite <- (parts_rejoin l _ _ Hlen);
      rewrite (omapM_pos_eq _ _ _ _ _ (fun d x0 c0 Hd Hq Hg => Forall_In _ _ IHpre d Hd c0 x0 Hg Hq) Hpre Ea);
      rewrite (omapM_pos_eq _ _ _ _ _ (fun d x0 c0 Hd Hq Hg => Forall_In _ _ IHmide d Hd c0 x0 Hg Hq) Hmid Em);
      rewrite (omapM_pos_eq _ _ _ _ _ (fun d x0 c0 Hd Hq Hg => Forall_In _ _ IHpost d Hd c0 x0 Hg Hq) Hpost Eb);
      reflexivity ].
    all: rewrite conf_unfold in HC.
    all: try (inversion Hc; apply is_none_eq0; exact HC).

    all: try (match type of Hc with (match omapM ?g ?l with _ => _ end = _) => destruct (omapM g l) as [cs|] eqn:Em end; [|discriminate Hc];
              inversion Hc; destruct x; try discriminate HC; f_equal; apply (omapM_tuple_eq _ _ _ _ IHts Em HC)).
    destruct (sfind E KNamed c') as [k|] eqn:Ef; [|discriminate Hc].
    destruct (has_default (sc_fields k)); [discriminate Hc|].
    match type of Hc with (match ?X with _ => _ end = _) => destruct X as [cs|] eqn:Em end; [|discriminate Hc].
    inversion Hc. destruct x; try discriminate HC. apply andb_prop in HC. destruct HC as [Hn HC].
    apply String.eqb_eq in Hn. subst. f_equal.
    refine (omapM_nt_eq _ _ _ _ _ _ HC Em). intros f xx cc Hq Hg. apply (IHn _ _ _ Hg Hq).
  Qed.

  Lemma const_ty_conf_eq t c x : const_ty E t = Some c -> conf_ord E x t = true -> x = c.
  Proof. apply const_ty_conf_eq_n. Qed.

  Lemma enc_key_wire k kt k' : key_ok kt = true -> conf_ord E k kt = true -> ref_enc E P k kt = Ok k' -> k' = key_wire k.
  Proof.
    intros Hk HC HE. rewrite conf_unfold in HC. rewrite ref_enc_unfold in HE.
    destruct kt; try discriminate Hk; destruct k; try discriminate HC; try (inversion HE; reflexivity).
    cbn [key_wire]. destruct (p_enum_value P e0 m) as [val|]; cbn [lift] in HE; [|discriminate HE]. inversion HE. reflexivity.
  Qed.

  Lemma key_ok_lossless kt : key_ok kt = true -> lossless kt = true.
  Proof. destruct kt; intros H; try discriminate H; reflexivity. Qed.

  Definition rt_ok (v: pv) : Prop :=
    forall t w, conf_ord E v t = true -> lossless t = true -> vals_ok v = true ->
                ref_enc E P v t = Ok w -> ref_dec E P w t = Ok v.

  (* element-wise round trip of a list *)
  Lemma mapM_rt (l: list pv) t' :
    Forall rt_ok l -> forallb (fun x => conf_ord E x t') l = true -> lossless t' = true ->
    forallb vals_ok l = true ->
    forall r, mapM (fun x => ref_enc E P x t') l = Ok r -> mapM (fun x => ref_dec E P x t') r = Ok l.
  Proof.
    intros HF. induction HF as [|x l Hx HF IH]; intros HC HL HV r HE.
    - cbn in HE. inversion HE. reflexivity.
    - cbn [mapM] in HE. cbn [forallb] in HC, HV.
      apply andb_prop in HC. destruct HC as [Cx Cl]. apply andb_prop in HV. destruct HV as [Vx Vl].
      destruct (ref_enc E P x t') as [y|] eqn:Ey; [|discriminate].
      destruct (mapM (fun x0 => ref_enc E P x0 t') l) as [ys|] eqn:Eys; [|discriminate].
      inversion HE; subst. cbn [mapM].
      rewrite (Hx t' y Cx HL Vx Ey). rewrite (IH Cl HL Vl ys eq_refl). reflexivity.
  Qed.

  Lemma nodup_keys_fst (a b: list (pv * pv)) : map fst a = map fst b -> nodup_keys a = nodup_keys b.
  Proof.
    revert b. induction a as [|[k x] a IH]; intros [|[k' x'] b] H; try discriminate; [reflexivity|].
    cbn [map fst] in H. inversion H; subst. cbn [nodup_keys].
    rewrite (IH b H2). f_equal. f_equal.
    clear - H2. revert b H2. induction a as [|p a IH]; intros [|p' b] H; try discriminate; [reflexivity|].
    cbn [map] in H. inversion H. cbn [existsb]. rewrite H1. rewrite (IH b H2). reflexivity.
  Qed.


  (* ---- the dataclass field loop ---- *)
  Definition enc_fields (fds: list sfield) (fs: list (string * pv)) : res (list (pv * pv)) :=
    (fix go (fds: list sfield) (fs: list (string * pv)) {struct fs} : res (list (pv * pv)) :=
       match fds, fs with
       | [], _ => Ok []
       | _ :: _, [] => Exn XAttributeError
       | f :: fds', (n, x) :: fs' =>
           if String.eqb n f.(sf_name) then
             y <- (if sfield_nullable f && is_none x then Ok VNone
                   else ref_enc E P x f.(sf_ty)) ;;
             tl <- go fds' fs' ;; Ok ((VStr f.(sf_name), y) :: tl)
           else Exn XAttributeError
       end) fds fs.

  Definition conf_fields (fds: list sfield) (fs: list (string * pv)) : bool :=
    (fix go (fds: list sfield) (fs: list (string * pv)) {struct fs} : bool :=
       match fds, fs with
       | [], [] => true
       | f :: fds', (n, x) :: fs' =>
           String.eqb n f.(sf_name) &&
           ((sfield_nullable f && is_none x) || conf_ord E x f.(sf_ty)) && go fds' fs'
       | _, _ => false end) fds fs.

  Definition dec_fields (c: string) (R: list (pv * pv)) (fds: list sfield) : res (list (string * pv)) :=
    (fix go (fds: list sfield) : res (list (string * pv)) :=
       match fds with
       | [] => Ok []
       | f :: rest =>
           y <- match (fix look (es: list (pv * (pv * (sty -> res pv)))) : option (pv * (sty -> res pv)) :=
                         match es with
                         | [] => None
                         | (key, xd) :: er =>
                             if py_eq key (VStr f.(sf_name)) then Some xd else look er
                         end) (map (fun p : pv * pv => match p with (key, x) => (key, (x, ref_dec E P x)) end) R) with
                | Some (x, dx) =>
                    if is_none x && sfield_nullable f then Ok VNone else dx f.(sf_ty)
                | None => match f.(sf_default) with
                          | Some dv => Ok dv
                          | None => Exn (XMissingField f.(sf_name) c) end
                end ;;
           tl <- go rest ;; Ok ((f.(sf_name), y) :: tl)
       end) fds.

  Lemma is_none_eq x : is_none x = true -> x = VNone.
  Proof. destruct x; try discriminate. reflexivity. Qed.

  Lemma dec_fields_rt c R : forall fds fs rr pre,
    R = pre ++ rr ->
    Forall (fun p => rt_ok (snd p)) fs ->
    conf_fields fds fs = true ->
    forallb (fun f => lossless f.(sf_ty)) fds = true ->
    names_nodup fds = true ->
    forallb (fun p : string * pv => match p with (_, x) => vals_ok x end) fs = true ->
    enc_fields fds fs = Ok rr ->
    (forall p f, In p pre -> In f fds -> py_eq (fst p) (VStr f.(sf_name)) = false) ->
    dec_fields c R fds = Ok fs.
  Proof.
    induction fds as [|f fds IH]; intros fs rr pre HR HF HC HL HN HV HE HD.
    - destruct fs as [|[n x] fs]; [reflexivity | discriminate].
    - destruct fs as [|[n x] fs]; [discriminate|].
      unfold conf_fields in HC. apply andb_prop in HC. destruct HC as [HC Cr]. apply andb_prop in HC. destruct HC as [Hn Cx].
      fold (conf_fields fds fs) in Cr.
      cbn [forallb] in HL, HV. apply andb_prop in HL. destruct HL as [Lx Lr]. apply andb_prop in HV. destruct HV as [Vx Vr].
      cbn [names_nodup] in HN. apply andb_prop in HN. destruct HN as [Nf Nr].
      inversion HF as [|? ? Qx Qr]; subst. cbn [snd] in Qx.
      unfold enc_fields in HE. rewrite Hn in HE. fold (enc_fields fds fs) in HE.
      apply String.eqb_eq in Hn. subst n.
      (* the encoded value of this field *)
      destruct (if sfield_nullable f && is_none x then Ok VNone else ref_enc E P x (sf_ty f)) as [y|] eqn:Ey; [|discriminate].
      cbn [bind] in HE. destruct (enc_fields fds fs) as [tl|] eqn:Etl; [|discriminate]. cbn [bind] in HE.
      inversion HE; subst rr. clear HE.
      (* the lookup skips [pre] and hits this field's entry *)
      assert (Hlook: forall (F: pv * pv -> pv * (pv * (sty -> res pv))),
                 (forall key x0, F (key, x0) = (key, (x0, ref_dec E P x0))) ->
                 (fix look (es: list (pv * (pv * (sty -> res pv)))) : option (pv * (sty -> res pv)) :=
                    match es with
                    | [] => None
                    | (key, xd) :: er => if py_eq key (VStr f.(sf_name)) then Some xd else look er
                    end) (map F (pre ++ (VStr (sf_name f), y) :: tl)) = Some (y, ref_dec E P y)).
      { intros F HFd. clear - HD HFd. induction pre as [|[pk px] pre IHp].
        - cbn [app map]. rewrite HFd. cbn. rewrite String.eqb_refl. reflexivity.
        - cbn [app map]. rewrite HFd.
          pose proof (HD (pk, px) f (or_introl eq_refl) (or_introl eq_refl)) as Hne. cbn [fst] in Hne. rewrite Hne.
          apply IHp. intros p g Hp Hg. apply HD; [right; exact Hp | exact Hg]. }
      unfold dec_fields. fold (dec_fields c (pre ++ (VStr (sf_name f), y) :: tl) fds).
      rewrite (Hlook _ (fun key x0 => eq_refl)).
      (* decode of this field gives x back *)
      assert (Hy: (if is_none y && sfield_nullable f then Ok VNone else ref_dec E P y (sf_ty f)) = Ok x).
      { destruct (sfield_nullable f && is_none x) eqn:Hnull.
        - inversion Ey; subst y. apply andb_prop in Hnull. destruct Hnull as [Hnf Hnx].
          cbn [is_none andb]. rewrite Hnf. rewrite (is_none_eq x Hnx). reflexivity.
        - cbn [orb] in Cx.
          destruct (is_none y && sfield_nullable f) eqn:Hyn.
          + exfalso. apply andb_prop in Hyn. destruct Hyn as [Hyn Hnf]. rewrite Hnf in Hnull. cbn [andb] in Hnull.
            rewrite vals_ok_unfold in Vx. apply andb_prop in Vx. destruct Vx as [Ax _].
            rewrite (enc_not_none x (sf_ty f) y Cx Lx Hnull Ax Ey) in Hyn. discriminate.
          + apply (Qx (sf_ty f) y Cx Lx Vx Ey). }
      rewrite Hy. cbn [bind].
      rewrite (IH fs tl (pre ++ [(VStr (sf_name f), y)])); [reflexivity | | exact Qr | exact Cr | exact Lr | exact Nr | exact Vr | exact Etl | ].
      + rewrite <- app_assoc. reflexivity.
      + intros p g Hp Hg. apply in_app_or in Hp. destruct Hp as [Hp|[Hp|[]]].
        * apply HD; [exact Hp | right; exact Hg].
        * subst p. cbn [fst]. cbn. apply negb_true_iff in Nf.
          destruct (String.eqb (sf_name f) (sf_name g)) eqn:Eq; [|reflexivity].
          exfalso. assert (existsb (fun g0 => String.eqb (sf_name f) (sf_name g0)) fds = true) as Hx.
          { apply existsb_exists. exists g. split; assumption. }
          rewrite Hx in Nf. discriminate.
  Qed.

  (* ---- tuple with an unpacked segment ---- *)
  Lemma rt_tupleu l pre mid post w0 : Forall rt_ok l ->
    conf_ord E (VTuple l) (STupleU pre mid post) = true -> lossless (STupleU pre mid post) = true ->
    vals_ok (VTuple l) = true ->
    ref_enc E P (VTuple l) (STupleU pre mid post) = Ok w0 -> ref_dec E P w0 (STupleU pre mid post) = Ok (VTuple l).
  Proof.
    intros IHl HC HL HV HE. destruct (conf_tupleu_parts _ _ _ _ _ _ HC) as [Hlen [Hpre [Hmid Hpost]]].
    cbn [lossless] in HL. apply andb_prop in HL. destruct HL as [HL Lpost]. apply andb_prop in HL. destruct HL as [Lpre Lmid].
    rewrite forallb_forall in Lpre, Lpost.
    rewrite vals_ok_unfold in HV. apply andb_prop in HV. destruct HV as [_ HVl]. rewrite forallb_forall in HVl.
    rewrite ref_enc_unfold in HE.
    replace (List.length l <? List.length pre + List.length post)%nat with false in HE by (symmetry; apply Nat.ltb_ge; exact Hlen).
    cbv zeta in HE. unfold tu_split in HE. rewrite !map_length in HE. rewrite !skipn_map, !firstn_map in HE.
    match type of HE with (bind (bind ?X _) _ = _) => destruct X as [a|] eqn:Ea end; [|discriminate HE]. cbn [bind] in HE.
    match type of HE with (bind (bind ?X _) _ = _) => destruct X as [m|] eqn:Em end; [|discriminate HE]. cbn [bind] in HE.
    match type of HE with (bind (bind ?X _) _ = _) => destruct X as [b|] eqn:Eb end; [|discriminate HE]. cbn [bind] in HE.
    inversion HE; subst w0. clear HE.
    set (genc := fun x0 : pv => ref_enc E P x0) in *.
    set (renc := fun (t': sty) (dx: sty -> res pv) => dx t') in *.
    set (qc := fun (t': sty) (x0: pv) => conf_ord E x0 t') in *.
    (* one step back: the decoder of a type inverts the encoder on a conforming item of the value *)
    assert (Hback: forall M d x y, (forall x0, In x0 M -> In x0 l) -> lossless d = true ->
              stepR genc renc qc M d x y -> ref_dec E P y d = Ok x /\ conf_ord E x d = true).
    { intros M d x y HM Ld [Hq [Hx Hy]]. split; [|exact Hq].
      apply (Forall_In _ _ IHl x (HM x Hx) d y Hq Ld (HVl x (HM x Hx)) Hy). }
    assert (Hstep: forall M d x y, (forall x0, In x0 M -> In x0 l) -> lossless d = true ->
              stepR genc renc qc M d x y ->
              match const_ty E d with Some c => Ok c | None => ref_dec E P y d end = Ok x).
    { intros M d x y HM Ld Hs. destruct (Hback M d x y HM Ld Hs) as [Hd Hq].
      destruct (const_ty E d) as [c|] eqn:Ec; [|exact Hd]. rewrite (const_ty_conf_eq d c x Ec Hq). reflexivity. }
    pose proof (zip3_in _ _ _ _ (pos_walk_zip _ _ _ _ _ _ Hpre Ea)) as Za.
    pose proof (zip3_in _ _ _ _ (pos_walk_zip _ _ _ _ _ _ Hpost Eb)) as Zb.
    assert (La: List.length a = List.length pre).
    { rewrite (proj1 (zip3_length _ _ _ _ Za)). apply (pos_all_length _ _ _ Hpre). }
    assert (Lb: List.length b = List.length post).
    { rewrite (proj1 (zip3_length _ _ _ _ Zb)). apply (pos_all_length _ _ _ Hpost). }
    destruct (app3_parts a m b) as [P1 [P2 P3]]. rewrite La in P1, P2. rewrite Lb in P2, P3.
    rewrite (ref_dec_unfold E P true). unfold tu_ref. rewrite map_length.
    replace (List.length (a ++ m ++ b) <? List.length pre + List.length post)%nat with false
      by (symmetry; apply Nat.ltb_ge; rewrite !app_length; lia).
    unfold tu_split. rewrite map_length. rewrite !skipn_map, !firstn_map. rewrite P1, P2, P3.
    (* head *)
    rewrite (zip3_pos_walk_back _ (fun y0 => ref_dec E P y0) (fun (t': sty) (dx: sty -> res pv) => dx t') (const_ty E) (fun x0 => x0) _ _ _
               (fun d x y H0 => Hstep _ d x y (fun x0 Hx0 => in_firstn _ _ _ Hx0) (Lpre d (proj1 H0)) (proj2 H0)) Za).
    cbn [bind].
    (* tail *)
    rewrite (zip3_pos_walk_back _ (fun y0 => ref_dec E P y0) (fun (t': sty) (dx: sty -> res pv) => dx t') (const_ty E) (fun x0 => x0) _ _ _
               (fun d x y H0 => Hstep _ d x y (fun x0 Hx0 => in_skipn _ _ _ Hx0) (Lpost d (proj1 H0)) (proj2 H0)) Zb).
    (* middle *)
    assert (Hm: (match mid with
                 | STupleVar t' => mid_var (fun (t': sty) (dx: sty -> res pv) => dx t') t'
                 | STupleFix ts => mid_fix (fun (t': sty) (dx: sty -> res pv) => dx t') (const_ty E) (none_tail_t E) ts
                 | _ => fun _ => Exn XTypeError end) (Some (map (fun y0 => ref_dec E P y0) m)) =
                Ok (firstn (List.length l - List.length pre - List.length post) (skipn (List.length pre) l))).
    { destruct mid; try discriminate Hmid.
      - cbn [lossless] in Lmid.
        pose proof (mid_var_zip genc renc qc _ mid _ Hmid Em) as Zm.
        unfold mid_var.
        rewrite (Forall2_mapM_back _ (fun y0 => ref_dec E P y0) (fun dx : sty -> res pv => dx mid) (fun x0 => x0) _ _
                   (fun x y H0 => proj1 (Hback _ mid x y (fun x0 Hx0 => in_skipn _ _ _ (in_firstn _ _ _ Hx0)) Lmid H0)) Zm).
        rewrite map_id. reflexivity.
      - cbn [lossless] in Lmid. rewrite forallb_forall in Lmid.
        unfold mid_fix.
        destruct (omapM (const_ty E) ts) as [cs|] eqn:Ec.
        + f_equal. symmetry. refine (omapM_pos_eq (const_ty E) qc ts _ cs _ Hmid Ec).
          intros d x c _ Hq Hg. apply (const_ty_conf_eq d c x Hg Hq).
        + unfold mid_fix in Em. destruct ts as [|t1 ts]; [discriminate Ec|]. cbn [omapM] in Em.
          pose proof (zip3_in _ _ _ _ (fix_walk_zip _ _ _ _ _ _ _ Hmid Em)) as Zm.
          rewrite (zip3_fix_walk_back _ (fun y0 => ref_dec E P y0) (fun (t': sty) (dx: sty -> res pv) => dx t') (none_tail_t E) (fun x0 => x0) _ _ _
                     (fun d x y H0 => proj1 (Hback _ d x y (fun x0 Hx0 => in_skipn _ _ _ (in_firstn _ _ _ Hx0)) (Lmid d (proj1 H0)) (proj2 H0))) Zm).
          rewrite map_id. reflexivity. }
    rewrite Hm. cbn [bind]. rewrite !map_id. rewrite (parts_rejoin l _ _ Hlen). reflexivity.
  Qed.

  (* ---- dicts / Mappings: keys through their wire form ---- *)
  Lemma rt_pairs kvs kt vt : Forall (fun p => rt_ok (fst p) /\ rt_ok (snd p)) kvs ->
    key_ok kt = true -> lossless vt = true ->
    forallb (fun p : pv * pv => match p with (k, x) => conf_ord E k kt && conf_ord E x vt end) kvs = true ->
    forallb (fun p : pv * pv => match p with (k, x) => vals_ok k && vals_ok x end) kvs = true ->
    forallb (fun p : pv * pv => hashable (fst p)) kvs = true ->
    forall r, mapM (fun p : pv * pv => match p with (k, x) =>
                      k' <- ref_enc E P k kt ;; x' <- ref_enc E P x vt ;; Ok (k', x') end) kvs = Ok r ->
    map fst r = map (fun p => key_wire (fst p)) kvs /\
    mapM (fun p : pv * pv => match p with (k, x) =>
            k' <- ref_dec E P k kt ;; x' <- ref_dec E P x vt ;;
            if hashable k' then Ok (k', x') else Exn XTypeError end) r = Ok kvs.
  Proof.
    intros IHk Hkok HLv. induction kvs as [|[k x] kvs IHkvs]; intros HC HVl HA r Em.
    - cbn in Em. inversion Em. split; reflexivity.
    - cbn [mapM] in Em. cbn [forallb] in HC, HVl, HA.
      apply andb_prop in HC. destruct HC as [Ckx Cl]. apply andb_prop in Ckx. destruct Ckx as [Ck Cx].
      apply andb_prop in HVl. destruct HVl as [Vkx Vl]. apply andb_prop in Vkx. destruct Vkx as [Vk Vx].
      apply andb_prop in HA. destruct HA as [Hk Hl]. cbn [fst] in Hk.
      inversion IHk as [|? ? [Qk Qx] Qkvs]; subst. cbn [fst snd] in Qk, Qx.
      destruct (ref_enc E P k kt) as [k1|] eqn:Ek; [|discriminate Em]. cbn [bind] in Em.
      destruct (ref_enc E P x vt) as [y|] eqn:Ey; [|discriminate Em]. cbn [bind] in Em.
      match type of Em with (match ?X with _ => _ end = _) => destruct X as [ys|] eqn:Eys end; [|discriminate Em].
      inversion Em; subst. destruct (IHkvs Qkvs Cl Vl Hl ys eq_refl) as [F1 F2].
      split; [cbn [map fst]; rewrite F1, (enc_key_wire k kt k1 Hkok Ck Ek); reflexivity|].
      cbn [mapM]. rewrite (Qk kt k1 Ck (key_ok_lossless kt Hkok) Vk Ek). cbn [bind].
      rewrite (Qx vt y Cx HLv Vx Ey). cbn [bind]. rewrite Hk. rewrite F2. reflexivity.
  Qed.

  Lemma rt_dict kvs kt vt w0 : Forall (fun p => rt_ok (fst p) /\ rt_ok (snd p)) kvs ->
    nodup_keys kvs && forallb (fun p : pv * pv => match p with (k, x) => conf_ord E k kt && conf_ord E x vt end) kvs = true ->
    key_ok kt && lossless vt = true -> vals_ok (VDict kvs) = true ->
    (r <- mapM (fun p : pv * pv => match p with (k, x) =>
                  k' <- ref_enc E P k kt ;; x' <- ref_enc E P x vt ;; Ok (k', x') end) kvs ;;
     Ok (VDict (dict_of_pairs r))) = Ok w0 ->
    (r <- mapM (fun p : pv * pv => match p with (k, x) =>
                  k' <- ref_dec E P k kt ;; x' <- ref_dec E P x vt ;;
                  if hashable k' then Ok (k', x') else Exn XTypeError end)
               (match w0 with VDict kvs' => kvs' | _ => [] end) ;;
     Ok (VDict (dict_of_pairs r))) = Ok (VDict kvs) /\ exists kvs', w0 = VDict kvs'.
  Proof.
    intros IHk HC HL HV HE.
    apply andb_prop in HC. destruct HC as [Hnd HC]. apply andb_prop in HL. destruct HL as [Hkok HLv].
    rewrite vals_ok_unfold in HV. apply andb_prop in HV. destruct HV as [HA HVl]. cbn [atom_ok] in HA.
    apply andb_prop in HA. destruct HA as [Hh Hw].
    match type of HE with (bind ?X _ = _) => destruct X as [r|] eqn:Em end; [|discriminate HE]. cbn [bind] in HE. inversion HE; subst w0.
    destruct (rt_pairs kvs kt vt IHk Hkok HLv HC HVl Hh r Em) as [Hk Hm].
    assert (Hnr: nodup_keys r = true).
    { rewrite (nodup_keys_fst r (map (fun p => (key_wire (fst p), snd p)) kvs)); [exact Hw|].
      rewrite Hk, map_map. reflexivity. }
    rewrite (dict_of_pairs_nodup r Hnr). split; [|eexists; reflexivity].
    rewrite Hm. cbn [bind]. rewrite (dict_of_pairs_nodup kvs Hnd). reflexivity.
  Qed.

  (* ---- boxed collections ---- *)
  Lemma rt_box c n inner bx t' w0 : rt_ok inner ->
    String.eqb c (box_name bx) && String.eqb n "" && chain_canon bx inner && conf_ord E inner t' = true ->
    lossless (SBox bx t') = true -> vals_ok inner = true ->
    (if chain_empty (is_chain bx) inner then Ok (VList [VDict []]) else ref_enc E P inner t') = Ok w0 ->
    (r <- ref_dec E P w0 t' ;; Ok (box_val bx r)) = Ok (VObj c [(n, inner)]).
  Proof.
    intros Qi HC HL HV HE.
    apply andb_prop in HC. destruct HC as [HC Ci]. apply andb_prop in HC. destruct HC as [HC Hcan].
    apply andb_prop in HC. destruct HC as [Hc Hn]. apply String.eqb_eq in Hc. apply String.eqb_eq in Hn. subst c n.
    cbn [lossless] in HL. apply andb_prop in HL. destruct HL as [Hs Ll].
    destruct (chain_empty (is_chain bx) inner) eqn:Ece.
    - (* the canonical empty ChainMap: wire [{}] *)
      unfold chain_empty in Ece. apply andb_prop in Ece. destruct Ece as [Hch Hin]. rewrite Hch in Hs.
      destruct inner as [ | | | | | | l | | | | | | | | ]; try discriminate Hin. destruct l; [|discriminate Hin].
      inversion HE; subst w0. destruct t' as [ | | | | | | | | | | | | | | | | | | | t'' | | | ]; try discriminate Hs.
      destruct t''; try discriminate Hs.
      rewrite (ref_dec_unfold E P true). cbn [mapM]. rewrite (ref_dec_unfold E P true). cbn [mapM bind dict_of_pairs fold_left].
      destruct bx; try discriminate Hch. reflexivity.
    - rewrite (Qi t' w0 Ci Ll HV HE). cbn [bind]. unfold box_val. f_equal. f_equal. f_equal.
      unfold chain_canon in Hcan. destruct bx; try reflexivity. cbn [is_chain andb] in Hcan.
      destruct inner as [ | | | | | | l | | | | | | | | ]; try reflexivity.
      destruct l as [|x l']; try reflexivity. destruct x as [ | | | | | | | | | kvs | | | | | ]; destruct l'; try reflexivity.
      all: destruct kvs; first [discriminate Hcan | reflexivity].
  Qed.

  Theorem ref_roundtrip : forall v, rt_ok v.
  Proof.
    induction v as [ | b | z | f | s | m b | l IHl | l IHl | fr l IHl | kvs IHk | c fs IHf | e m | k w | c l IHl | tg ]
      using pv_rect'; unfold rt_ok.
    all: intros t; induction t as [ | | | | | | m' | k' | e' | t' IHt | fr' t' IHt | t' IHt | ts | pre mid IHmid post | kt IHkt vt IHvt | t' IHt | c' | c' | c' | t' IHt | kt IHkt vt IHvt | bx t' IHt | ls ];
      intros w0 HC HL HV HE; try (solve [apply (rt_tupleu _ _ _ _ _ IHl HC HL HV HE)]);
      rewrite conf_unfold in HC; try discriminate HC;
      rewrite ref_enc_unfold in HE;
      try (inversion HE; subst; rewrite (ref_dec_unfold E P true); reflexivity).
    (* Optional holding a non-None value *)
    all: try solve [ cbn [is_none orb] in HC, HE; cbn [lossless] in HL; rewrite (ref_dec_unfold E P true);
                     pose proof HV as HV'; rewrite vals_ok_unfold in HV'; apply andb_prop in HV'; destruct HV' as [HA _];
                     rewrite (enc_not_none _ t' w0 HC HL eq_refl HA HE); apply IHt; assumption ].
    (* lists, variadic tuples, Sequences *)
    all: try solve [
      cbn [lossless] in HL; rewrite vals_ok_unfold in HV; apply andb_prop in HV; destruct HV as [_ HVl];
      destruct (mapM (fun x => ref_enc E P x t') l) as [r|] eqn:Em; [|discriminate]; inversion HE; subst;
      rewrite (ref_dec_unfold E P true); rewrite (mapM_rt l t' IHl HC HL HVl r Em); reflexivity ].
    (* dicts, Mappings *)
    all: try solve [
      cbn [lossless] in HL; destruct (rt_dict kvs kt vt w0 IHk HC HL HV HE) as [Hd [kvs' Hw]]; subst w0;
      rewrite (ref_dec_unfold E P true); exact Hd ].
    (* literals *)
    all: try solve [ pose proof (lit_find_same _ _ _ HE) as Hsame; rewrite <- Hsame in *; rewrite (ref_dec_unfold E P true); exact HE ].
    (* boxed collections *)
    all: try solve [
      destruct fs as [|[n inner] [|]]; try discriminate HC;
      rewrite vals_ok_unfold in HV; apply andb_prop in HV; destruct HV as [_ HVf]; cbn [forallb] in HVf; rewrite andb_true_r in HVf;
      inversion IHf as [|? ? Qi _]; subst; cbn [snd] in Qi;
      rewrite (ref_dec_unfold E P true); apply (rt_box _ _ _ _ _ _ Qi HC HL HVf HE) ].
    - (* bytes *)
      inversion HE; subst. rewrite (ref_dec_unfold E P true).
      rewrite vals_ok_unfold in HV. apply andb_prop in HV. destruct HV as [HA _]. cbn [atom_ok] in HA.
      destruct (p_b64dec P (VStr (p_b64enc P b))) as [b'|]; [|discriminate].
      apply String.eqb_eq in HA. subst b'. cbn [lift bind].
      apply Bool.eqb_prop in HC. subst. reflexivity.
    - (* fixed tuple *)
      cbn [lossless] in HL. rewrite vals_ok_unfold in HV. apply andb_prop in HV. destruct HV as [_ HVl].
      match type of HE with (bind ?X _ = _) => destruct X as [r|] eqn:Em end; [|discriminate]. inversion HE; subst.
      rewrite (ref_dec_unfold E P true).
      match goal with |- bind ?X _ = _ => assert (Hgo: X = Ok l) end; [|rewrite Hgo; reflexivity].
      clear HE. revert ts r HC HL Em. induction l as [|x l IHl']; intros ts r HC HL Em.
      + destruct ts; [|discriminate]. inversion Em. reflexivity.
      + destruct ts as [|t1 ts]; [discriminate|].
        apply andb_prop in HC. destruct HC as [Cx Cl]. cbn [forallb] in HL, HVl.
        apply andb_prop in HL. destruct HL as [Lx Ll]. apply andb_prop in HVl. destruct HVl as [Vx Vl].
        inversion IHl as [|? ? Qx Ql]; subst.
        destruct (ref_enc E P x t1) as [y|] eqn:Ey; [|discriminate]. cbn [bind] in Em.
        match type of Em with (bind ?X _ = _) => destruct X as [ys|] eqn:Eys end; [|discriminate].
        inversion Em; subst. rewrite (Qx t1 y Cx Lx Vx Ey). cbn [bind].
        rewrite (IHl' Ql Vl ts ys Cl Ll Eys). reflexivity.
    - (* set *)
      apply andb_prop in HC. destruct HC as [Hfr HC].
      cbn [lossless] in HL. rewrite vals_ok_unfold in HV. apply andb_prop in HV. destruct HV as [HA HVl].
      cbn [atom_ok] in HA. apply andb_prop in HA. destruct HA as [Hnd Hh].
      destruct (mapM (fun x => ref_enc E P x t') l) as [r|] eqn:Em; [|discriminate]. inversion HE; subst.
      rewrite (ref_dec_unfold E P true). rewrite (mapM_rt l t' IHl HC HL HVl r Em). cbn [bind].
      rewrite Hh. rewrite (set_of_list_nodup l Hnd). apply Bool.eqb_prop in Hfr. subst. reflexivity.
    - (* TypedDict *)
      destruct (sfind E _ c') as [k|] eqn:Ef; [|discriminate HC].
      assert (Hk: cls_ok k = true).
      { rewrite forallb_forall in env_ok. apply env_ok. apply (sfind_In E _ c' k Ef). }
      unfold cls_ok in Hk. apply andb_prop in Hk. destruct Hk as [Hnn Hll].
      apply andb_prop in HC. destruct HC as [HC Hs]. apply andb_prop in HC. destruct HC as [_ HCf].
      rewrite vals_ok_unfold in HV. apply andb_prop in HV. destruct HV as [_ HVl].
      cbv zeta in HE, HCf.
      match type of HE with (bind ?X _ = _) => destruct X as [R|] eqn:Em end; [|discriminate HE]. inversion HE; subst w0. clear HE.
      rewrite (ref_dec_unfold E P true), Ef. cbv zeta.
      pose proof (names_nodup_td_order _ Hnn) as Hno.
      assert (Hgo: td_go (fun f dx => dx (sf_ty f)) (konst_t E) XKeyError
                     (map (fun p : pv * pv => match p with (key, x) => (key, ref_dec E P x) end) R) (td_order (sc_fields k)) = Ok kvs);
        [|rewrite Hgo; reflexivity].
      rewrite forallb_forall in HCf, Hll.
      (* facts about the entry of a field in the value *)
      assert (Hent: forall f x, In f (sc_fields k) -> look kvs (sf_name f) = Some x ->
                forall y, ref_enc E P x (sf_ty f) = Ok y ->
                  ref_dec E P y (sf_ty f) = Ok x /\ conf_ord E x (sf_ty f) = true).
      { intros f x Hf El y Hy. pose proof (HCf f Hf) as Cx. rewrite (look_map (conf_ord E) kvs), El in Cx. cbn [option_map] in Cx.
        destruct (look_In _ _ _ El) as [key [Hin _]].
        pose proof (Forall_In _ _ IHk (key, x) Hin) as [_ Qx]. cbn [snd] in Qx.
        rewrite forallb_forall in HVl. pose proof (HVl (key, x) Hin) as Vx. cbn in Vx. apply andb_prop in Vx. destruct Vx as [_ Vx].
        split; [apply (Qx (sf_ty f) y Cx (Hll f Hf) Vx Hy) | exact Cx]. }
      rewrite (td_go_ext _ (fun (_: sfield) (x: pv) => Ok x) _ (fun _ => None) XKeyError _ ([] ++ kvs)).
      + apply (td_go_id XKeyError _ Hno kvs [] Hs); [reflexivity|].
        intros f Hf Ho Hl. cbn [app] in Hl. pose proof (HCf f (In_td_order _ _ Hf)) as Cx.
        rewrite (look_map (conf_ord E) kvs), Hl, Ho in Cx. discriminate Cx.
      + intros f Hf. cbn [app]. unfold td_field. rewrite (look_map (ref_dec E P) R).
        pose proof (In_td_order _ _ Hf) as Hf'.
        destruct (td_go_look _ _ _ _ _ _ Hno Em f Hf) as [[Hnone Hl] | [y [Hsome Hl]]]; rewrite Hl; cbn [option_map];
          unfold td_field in *; rewrite (look_map (ref_enc E P) kvs) in *.
        * (* the key was left out: it is optional and absent from the value *)
          destruct (sf_opt f); [|destruct (look kvs (sf_name f)); discriminate Hnone].
          destruct (look kvs (sf_name f)); [discriminate Hnone | reflexivity].
        * destruct (look kvs (sf_name f)) as [x|] eqn:El; cbn [option_map] in Hsome.
          2: { destruct (sf_opt f); discriminate Hsome. }
          assert (Hy: ref_enc E P x (sf_ty f) = Ok y).
          { destruct (sf_opt f); cbv beta iota in Hsome; injection Hsome as Hy'; exact Hy'. }
          destruct (Hent f x Hf' El y Hy) as [Hd Cx].
          destruct (sf_opt f); [rewrite Hd; reflexivity|].
          destruct ((konst_t E) f) as [c|] eqn:Ek; [|rewrite Hd; reflexivity].
          rewrite (const_ty_conf_eq _ c x Ek Cx). reflexivity.
    - (* dataclass *)
      apply andb_prop in HC. destruct HC as [Hc HC]. apply String.eqb_eq in Hc. subst c'.
      destruct (sfind E _ c) as [k|] eqn:Ef; [|discriminate].
      assert (Hk: cls_ok k = true).
      { rewrite forallb_forall in env_ok. apply env_ok. apply (sfind_In E _ c k Ef). }
      unfold cls_ok in Hk. apply andb_prop in Hk. destruct Hk as [Hnn Hll].
      rewrite vals_ok_unfold in HV. apply andb_prop in HV. destruct HV as [_ HVf].
      fold (enc_fields (sc_fields k) fs) in HE. fold (conf_fields (sc_fields k) fs) in HC.
      destruct (enc_fields (sc_fields k) fs) as [r|] eqn:Er; [|discriminate]. inversion HE; subst. clear HE.
      rewrite (ref_dec_unfold E P true). rewrite Ef. cbv zeta.
      fold (dec_fields c r (sc_fields k)).
      rewrite (dec_fields_rt c r (sc_fields k) fs r [] eq_refl IHf HC Hll Hnn HVf Er); [reflexivity|].
      intros p f [].
    - (* enum *)
      rewrite vals_ok_unfold in HV. apply andb_prop in HV. destruct HV as [HA _]. cbn [atom_ok] in HA.
      destruct (p_enum_value P e m) as [val|]; [|discriminate]. cbn [lift] in HE. inversion HE; subst.
      apply andb_prop in HA. destruct HA as [_ HA].
      rewrite (ref_dec_unfold E P true). destruct (p_enum_of P e' w0) as [m'|] eqn:Eo.
      + apply String.eqb_eq in HC. subst e'. rewrite Eo in HA. apply String.eqb_eq in HA. subst. reflexivity.
      + apply String.eqb_eq in HC. subst e'. rewrite Eo in HA. discriminate.
    - (* leaf *)
      inversion HE; subst. rewrite vals_ok_unfold in HV. apply andb_prop in HV. destruct HV as [HA _]. cbn [atom_ok] in HA.
      apply andb_prop in HA. destruct HA as [_ HA]. apply String.eqb_eq in HC. subst k'.
      rewrite (ref_dec_unfold E P true). destruct (p_parse P k (p_render P k w)) as [w'|]; [|discriminate].
      apply String.eqb_eq in HA. subst. reflexivity.
    - (* NamedTuple *)
      apply andb_prop in HC. destruct HC as [Hc HC]. apply String.eqb_eq in Hc. subst c'.
      destruct (sfind E _ c) as [k|] eqn:Ef; [|discriminate HC].
      assert (Hk: cls_ok k = true).
      { rewrite forallb_forall in env_ok. apply env_ok. apply (sfind_In E _ c k Ef). }
      unfold cls_ok in Hk. apply andb_prop in Hk. destruct Hk as [_ Hll].
      rewrite vals_ok_unfold in HV. apply andb_prop in HV. destruct HV as [_ HVl].
      match type of HE with (bind ?X _ = _) => destruct X as [r|] eqn:Em end; [|discriminate HE]. inversion HE; subst w0. clear HE.
      rewrite (ref_dec_unfold E P true), Ef.
      assert (Hr: forall f x y, In f (sc_fields k) -> In x l -> conf_ord E x (sf_ty f) = true ->
                    ref_enc E P x (sf_ty f) = Ok y -> ref_dec E P y (sf_ty f) = Ok x).
      { intros f x y Hf Hx Hq Hy. rewrite forallb_forall in Hll, HVl.
        apply (Forall_In _ _ IHl x Hx (sf_ty f) y Hq (Hll f Hf) (HVl x Hx) Hy). }
      rewrite (nt_items_rt _ _ (fun f y => ref_dec E P y (sf_ty f)) _ _ (konst_t E)
                 (nt_exhausted (has_default (sc_fields k))) _ l r HC Hr Em). reflexivity.
  Qed.
End C01.

(* ------------------------------------------------------------------ *)
(* totality: a conforming value whose enum members have values is always encoded, so
   the round-trip theorem is not vacuous for any such value *)
Lemma td_go_total {D} (run: sfield -> D -> res pv) konst ms es order :
  (forall f, In f order -> forall e, td_field run konst ms es f <> Some (Exn e)) ->
  exists R, td_go run konst ms es order = Ok R.
Proof.
  induction order as [|f rest IH]; intros H; [exists []; reflexivity|].
  destruct IH as [tl Htl]; [intros g Hg; apply H; right; exact Hg|].
  cbn [td_go]. pose proof (H f (or_introl eq_refl)) as Hf.
  destruct (td_field run konst ms es f) as [[y|e]|].
  - cbn [bind]. rewrite Htl. eexists. reflexivity.
  - exfalso. apply (Hf e). reflexivity.
  - exists tl. exact Htl.
Qed.

Lemma nt_items_total {X} (qc: sfield -> X -> bool) (run: sfield -> X -> res pv) kn ms fds (l: list X) :
  nt_all qc fds l = true -> (forall f x, In x l -> qc f x = true -> exists y, run f x = Ok y) ->
  exists r, nt_items run kn ms fds l = Ok r.
Proof.
  revert fds. induction l as [|x l IH]; intros fds HA Hr.
  - destruct fds; [exists []; reflexivity | discriminate HA].
  - destruct fds as [|f rest]; [discriminate HA|]. cbn [nt_all] in HA. apply andb_prop in HA. destruct HA as [Hq HA].
    destruct (Hr f x (or_introl eq_refl) Hq) as [y Hy].
    destruct (IH rest HA) as [ys Hys]; [intros f0 x0 Hx0; apply Hr; right; exact Hx0|].
    exists (y :: ys). cbn [nt_items]. rewrite Hy, Hys. reflexivity.
Qed.

Section Total.
  Variable o : bool.
  Variable E : senv.
  Variable P : prims.

  Definition enc_total_ok (v: pv) : Prop :=
    forall t, conf_g o E v t = true -> vals_ok P v = true -> exists w, ref_enc E P v t = Ok w.

  Lemma mapM_total (l: list pv) t' :
    Forall enc_total_ok l -> forallb (fun x => conf_g o E x t') l = true -> forallb (vals_ok P) l = true ->
    exists r, mapM (fun x => ref_enc E P x t') l = Ok r.
  Proof.
    intros HF. induction HF as [|x l Hx HF IH]; intros HC HV.
    - exists []. reflexivity.
    - cbn [forallb] in HC, HV. apply andb_prop in HC. destruct HC as [Cx Cl]. apply andb_prop in HV. destruct HV as [Vx Vl].
      destruct (Hx t' Cx Vx) as [y Ey]. destruct (IH Cl Vl) as [ys Eys].
      exists (y :: ys). cbn [mapM]. rewrite Ey, Eys. reflexivity.
  Qed.

  Lemma total_tupleu l pre mid post : Forall enc_total_ok l ->
    conf_g o E (VTuple l) (STupleU pre mid post) = true -> vals_ok P (VTuple l) = true ->
    exists w, ref_enc E P (VTuple l) (STupleU pre mid post) = Ok w.
  Proof.
    intros IHl HC HV. destruct (conf_tupleu_parts _ _ _ _ _ _ HC) as [Hlen [Hpre [Hmid Hpost]]].
    rewrite vals_ok_unfold in HV. apply andb_prop in HV. destruct HV as [_ HVl]. rewrite forallb_forall in HVl.
    assert (Hr: forall (d: sty) (x: pv), In x l -> conf_g o E x d = true -> exists y, ref_enc E P x d = Ok y)
      by (intros d x Hx Hq; apply (Forall_In _ _ IHl x Hx d Hq (HVl x Hx))).
    rewrite ref_enc_unfold.
    replace (List.length l <? List.length pre + List.length post)%nat with false by (symmetry; apply Nat.ltb_ge; exact Hlen).
    cbv zeta. unfold tu_split. rewrite !map_length. rewrite !skipn_map, !firstn_map.
    destruct (pos_walk_total (fun x0 => ref_enc E P x0) (fun (t': sty) (dx: sty -> res pv) => dx t') (fun t' x0 => conf_g o E x0 t') _ _ Hpre
                (fun d x Hx => Hr d x (in_firstn _ _ _ Hx))) as [a Ea].
    destruct (pos_walk_total (fun x0 => ref_enc E P x0) (fun (t': sty) (dx: sty -> res pv) => dx t') (fun t' x0 => conf_g o E x0 t') _ _ Hpost
                (fun d x Hx => Hr d x (in_skipn _ _ _ Hx))) as [b Eb].
    rewrite Ea. cbn [bind].
    assert (Hm: exists m, (match mid with
                 | STupleVar t' => mid_var (fun (t': sty) (dx: sty -> res pv) => dx t') t'
                 | STupleFix ts => mid_fix (fun (t': sty) (dx: sty -> res pv) => dx t') (fun _ => None) (fun _ => Exn XIndexError) ts
                 | _ => fun _ => Exn XTypeError end)
                (Some (map (fun x0 => ref_enc E P x0) (firstn (List.length l - List.length pre - List.length post) (skipn (List.length pre) l)))) = Ok m).
    { destruct mid; try discriminate Hmid.
      - apply (mid_var_total (fun x0 => ref_enc E P x0) (fun (t': sty) (dx: sty -> res pv) => dx t') (fun t' x0 => conf_g o E x0 t') _ mid Hmid).
        intros x Hx. apply Hr. apply (in_skipn _ _ _ (in_firstn _ _ _ Hx)).
      - unfold mid_fix. destruct ts as [|t1 ts]; [exists []; reflexivity|]. cbn [omapM].
        apply (fix_walk_total (fun x0 => ref_enc E P x0) (fun (t': sty) (dx: sty -> res pv) => dx t') _ (fun t' x0 => conf_g o E x0 t') _ _ Hmid).
        intros d x Hx. apply Hr. apply (in_skipn _ _ _ (in_firstn _ _ _ Hx)). }
    destruct Hm as [m Em]. rewrite Em. cbn [bind]. rewrite Eb. cbn [bind]. eexists. reflexivity.
  Qed.

  Theorem ref_enc_total : forall v, enc_total_ok v.
  Proof.
    induction v as [ | b | z | f | s | m b | l IHl | l IHl | fr l IHl | kvs IHk | c fs IHf | e m | k w | c l IHl | tg ]
      using pv_rect'; unfold enc_total_ok.
    all: intros t; induction t as [ | | | | | | m' | k' | e' | t' IHt | fr' t' IHt | t' IHt | ts | pre mid IHmid post | kt IHkt vt IHvt | t' IHt | c' | c' | c' | t' IHt | kt IHkt vt IHvt | bx t' IHt | ls ];
      intros HC HV; try (solve [apply (total_tupleu _ _ _ _ IHl HC HV)]);
      rewrite conf_unfold in HC; try discriminate HC;
      rewrite ref_enc_unfold; try (eexists; reflexivity).
    (* Optional of a non-None value *)
    all: try solve [ cbn [is_none orb] in HC |- *; apply (IHt HC HV) ].
    (* homogeneous containers *)
    all: try solve [ try (apply andb_prop in HC; destruct HC as [_ HC]);
                     rewrite vals_ok_unfold in HV; apply andb_prop in HV; destruct HV as [_ HVl];
                     destruct (mapM_total l t' IHl HC HVl) as [r Er]; rewrite Er; eexists; reflexivity ].
    (* dict / Mapping *)
    all: try solve [
      apply andb_prop in HC; destruct HC as [_ HC];
      rewrite vals_ok_unfold in HV; apply andb_prop in HV; destruct HV as [_ HVl];
      match goal with |- exists w, bind ?X _ = _ => assert (Hgo: exists r, X = Ok r) end;
        [|destruct Hgo as [r Er]; rewrite Er; eexists; reflexivity];
      clear IHkt IHvt; induction kvs as [|[k x] kvs IHkvs];
      [ exists []; reflexivity
      | cbn [forallb] in HC, HVl;
        apply andb_prop in HC; destruct HC as [Ckx Cl]; apply andb_prop in Ckx; destruct Ckx as [Ck Cx];
        apply andb_prop in HVl; destruct HVl as [Vkx Vl]; apply andb_prop in Vkx; destruct Vkx as [Vk Vx];
        inversion IHk as [|? ? [Qk Qx] Qkvs]; subst; cbn [fst snd] in Qk, Qx;
        destruct (Qk kt Ck Vk) as [k1 Ek]; destruct (Qx vt Cx Vx) as [x1 Ex]; destruct (IHkvs Qkvs Cl Vl) as [ys Eys];
        exists ((k1, x1) :: ys); cbn [mapM]; rewrite Ek; cbn [bind]; rewrite Ex; cbn [bind]; rewrite Eys; reflexivity ] ].
    (* literals *)
    all: try solve [ unfold lit_find; apply existsb_exists in HC; destruct HC as [lit0 [Hin He]];
                     destruct (find (exact_eq _) ls) as [lit1|] eqn:Ef; [eexists; reflexivity|];
                     rewrite (find_none _ _ Ef lit0 Hin) in He; discriminate He ].
    (* boxed collections *)
    all: try solve [
      destruct fs as [|[n inner] [|]]; try discriminate HC;
      apply andb_prop in HC; destruct HC as [_ HC];
      destruct (chain_empty (is_chain bx) inner); [eexists; reflexivity|];
      rewrite vals_ok_unfold in HV; apply andb_prop in HV; destruct HV as [_ HVf]; cbn [forallb] in HVf; rewrite andb_true_r in HVf;
      inversion IHf as [|? ? Qi _]; subst; cbn [snd] in Qi; apply (Qi t' HC HVf) ].
    - (* fixed tuple *)
      rewrite vals_ok_unfold in HV. apply andb_prop in HV. destruct HV as [_ HVl].
      match goal with |- exists w, bind ?X _ = _ => assert (Hgo: exists r, X = Ok r) end;
        [|destruct Hgo as [r Er]; rewrite Er; eexists; reflexivity].
      revert ts HC. induction l as [|x l IHl']; intros ts HC.
      + destruct ts; [|discriminate HC]. exists []. reflexivity.
      + destruct ts as [|t1 ts]; [discriminate HC|].
        apply andb_prop in HC. destruct HC as [Cx Cl]. cbn [forallb] in HVl. apply andb_prop in HVl. destruct HVl as [Vx Vl].
        inversion IHl as [|? ? Qx Ql]; subst.
        destruct (Qx t1 Cx Vx) as [y Ey]. destruct (IHl' Ql Vl ts Cl) as [ys Eys].
        exists (y :: ys). rewrite Ey. cbn [bind]. rewrite Eys. reflexivity.
    - (* TypedDict *)
      destruct (sfind E _ c') as [k0|]; [|discriminate HC].
      apply andb_prop in HC. destruct HC as [HC _]. apply andb_prop in HC. destruct HC as [_ HCf].
      rewrite vals_ok_unfold in HV. apply andb_prop in HV. destruct HV as [_ HVl].
      cbv zeta in HCf |- *.
      match goal with |- exists w, bind ?X _ = _ => assert (Hgo: exists r, X = Ok r) end;
        [|destruct Hgo as [r Er]; rewrite Er; eexists; reflexivity].
      apply td_go_total. intros f Hf e He. apply In_td_order in Hf.
      rewrite forallb_forall in HCf. specialize (HCf f Hf). rewrite (look_map (conf_g o E) kvs) in HCf.
      unfold td_field in He. rewrite (look_map (ref_enc E P) kvs) in He.
      destruct (look kvs (sf_name f)) as [x|] eqn:El; cbn [option_map] in *.
      + destruct (look_In _ _ _ El) as [key [Hin _]].
        pose proof (Forall_In _ _ IHk (key, x) Hin) as [_ Qx]. cbn [snd] in Qx.
        rewrite forallb_forall in HVl. pose proof (HVl (key, x) Hin) as Vx. cbn in Vx. apply andb_prop in Vx. destruct Vx as [_ Vx].
        destruct (Qx (sf_ty f) HCf Vx) as [y Hy]. rewrite Hy in He. destruct (sf_opt f); discriminate He.
      + rewrite HCf in He. discriminate He.
    - (* dataclass *)
      apply andb_prop in HC. destruct HC as [_ HC].
      destruct (sfind E _ c') as [k0|]; [|discriminate HC].
      rewrite vals_ok_unfold in HV. apply andb_prop in HV. destruct HV as [_ HVf].
      match goal with |- exists w, bind ?X _ = _ => assert (Hgo: exists r, X = Ok r) end;
        [|destruct Hgo as [r Er]; rewrite Er; eexists; reflexivity].
      revert HC. generalize (sc_fields k0) as fds. intros fds. revert fds.
      induction fs as [|[n x] fs IHfs]; intros fds HC.
      + destruct fds; [|discriminate HC]. exists []. reflexivity.
      + destruct fds as [|f fds]; [discriminate HC|].
        apply andb_prop in HC. destruct HC as [HC Cr]. apply andb_prop in HC. destruct HC as [Hn Cx].
        cbn [forallb] in HVf. apply andb_prop in HVf. destruct HVf as [Vx Vr].
        inversion IHf as [|? ? Qx Qr]; subst. cbn [snd] in Qx.
        destruct (IHfs Qr Vr fds Cr) as [tl Etl]. rewrite Hn.
        destruct (sfield_nullable f && is_none x) eqn:Hnull.
        * exists ((VStr (sf_name f), VNone) :: tl). cbn [bind]. rewrite Etl. reflexivity.
        * cbn [orb] in Cx. destruct (Qx (sf_ty f) Cx Vx) as [y Ey]. rewrite Ey. cbn [bind]. rewrite Etl.
          eexists. reflexivity.
    - (* enum *)
      rewrite vals_ok_unfold in HV. apply andb_prop in HV. destruct HV as [HA _]. cbn [atom_ok] in HA.
      destruct (p_enum_value P e m) as [val|]; [|discriminate HA]. eexists. reflexivity.
    - (* NamedTuple *)
      apply andb_prop in HC. destruct HC as [_ HC].
      destruct (sfind E _ c') as [k0|]; [|discriminate HC].
      rewrite vals_ok_unfold in HV. apply andb_prop in HV. destruct HV as [_ HVl].
      match goal with |- exists w, bind ?X _ = _ => assert (Hgo: exists r, X = Ok r) end;
        [|destruct Hgo as [r Er]; rewrite Er; eexists; reflexivity].
      apply (nt_items_total (fun f x => conf_g o E x (sf_ty f))); [exact HC|].
      intros f x Hx Hq. rewrite forallb_forall in HVl. apply (Forall_In _ _ IHl x Hx (sf_ty f) Hq (HVl x Hx)).
  Qed.
End Total.
