(* C08 - kernel K108b (VerifGen.K108b = the condition and the sort key of the statement
   `if self.get_config().sort_keys: fnames_and_types = sorted(fnames_and_types, key=lambda x: x[0])` in front of the
   bookkeeping loop of _add_pack_method_lines, translated from /repo on every run): the order in which the model of the
   generated body (OptProj.body) visits the fields is the order the translated statement produces.
   `sorted` itself is modelled (OptProj.sort_by: insertion sort, code point order on the key). *)
From Coq Require Import List String ZArith Bool.
From Verif Require Import Regex PyK PyK_c08 OptProj.
From VerifGen Require Import K108b.
Import ListNotations.
Open Scope string_scope.

(* the element the lambda's parameter x ranges over: an item of field_types.items() *)
Definition order_item (ty: row -> kv) (r: row) : kv := KTuple [KStr (row_name r); ty r].

(* the string the translated key yields on an item ("" if it yields anything else: then the theorems below fail) *)
Definition kernel_key (ty: row -> kv) (r: row) : string :=
  match order_key (order_item ty r) with Ok (KStr s) => s | _ => "" end.

(* the translated statement applied to the rows *)
Definition kernel_order (sort_keys: bool) (ty: row -> kv) (rows: list row) : res (list row) :=
  match order_cond (KBool sort_keys) with
  | Ok c => Ok (if k_truthy c then sort_by (kernel_key ty) rows else rows)
  | Raise e => Raise e end.

Lemma sort_by_ext : forall (A: Type) (k1 k2: A -> string) (l: list A),
  (forall x, k1 x = k2 x) -> sort_by k1 l = sort_by k2 l.
Proof.
  intros A k1 k2 l H. induction l as [|a l IH]; [reflexivity|].
  unfold sort_by in *. simpl. rewrite IH. generalize (fold_right (insert_by k2) [] l). intro m.
  induction m as [|y m IHm]; [reflexivity|]. simpl. rewrite !H. rewrite IHm. reflexivity.
Qed.

(* the key reads the field NAME of the item and nothing else (whatever the field's type, alias, options) *)
Lemma K108b_key_lemma : forall (n: string) (t: kv), order_key (KTuple [KStr n; t]) = Ok (KStr n).
Proof. reflexivity. Qed.

Lemma K108b_cond_lemma : forall (b: bool), order_cond (KBool b) = Ok (KBool b).
Proof. reflexivity. Qed.

Lemma K108b_order_lemma : forall (sort_keys: bool) (ty: row -> kv) (rows: list row),
  kernel_order sort_keys ty rows = Ok (if sort_keys then sort_by row_name rows else rows).
Proof.
  intros s ty rows. unfold kernel_order. rewrite K108b_cond_lemma. destruct s; [|reflexivity]. cbv beta iota delta [k_truthy].
  apply f_equal. apply sort_by_ext. intro r. unfold kernel_key, order_item. rewrite K108b_key_lemma. reflexivity.
Qed.

Lemma K108b_body_lemma : forall (c: sctx) (sort_keys: bool) (ty: row -> kv) (rows: list row),
  exists ordered, kernel_order sort_keys ty rows = Ok ordered /\ body c sort_keys rows = body c false ordered.
Proof.
  intros c s ty rows. eexists. split; [apply K108b_order_lemma|]. unfold body. reflexivity.
Qed.
