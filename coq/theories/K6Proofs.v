(* Theorems about the kernel K6 = arithmetic of mashumaro.jsonschema.schema.on_tuple as
   translated from /repo on this run (VerifGen.K6.on_tuple_k). *)
From Coq Require Import List ZArith Bool Lia.
From Verif Require Import PyK_tuple.
From VerifGen Require Import K6.
Import ListNotations.
Open Scope Z_scope.

Section Spec.
Context {A: Type}.

Fixpoint nplain (l: list (targ A)) : Z :=
  match l with [] => 0 | Plain _ :: r => 1 + nplain r | Unpack _ :: r => nplain r end.

(* schemas of the plain arguments before the first Unpack *)
Fixpoint lead (l: list (targ A)) : list A :=
  match l with Plain s :: r => s :: lead r | _ => [] end.

Fixpoint unpacks (l: list (targ A)) : list (uschema A) :=
  match l with [] => [] | Plain _ :: r => unpacks r | Unpack u :: r => u :: unpacks r end.

(* the last Unpack argument and its 1-based position *)
Fixpoint last_unpack (i: Z) (l: list (targ A)) (acc: option (uschema A) * Z) : option (uschema A) * Z :=
  match l with
  | [] => acc
  | Plain _ :: r => last_unpack (i + 1) r acc
  | Unpack u :: r => last_unpack (i + 1) r (Some u, i)
  end.

Definition umin (u: uschema A) : Z := oz_or (u_min u) 0.
Definition tmin (r: tschema A) : Z := oz_or (t_min r) 0.
Definition tprefix (r: tschema A) : list A := ol_or_nil (t_prefix r).
Definition uprefix (u: uschema A) : list A := ol_or_nil (u_prefix u).

(* closed form of the kernel *)
Definition tuple_spec (args: list (targ A)) : tschema A :=
  match last_unpack 1 args (None, 0) with
  | (None, _) => mkT (l_or_none (lead args)) None (z_or_none (zlen args)) (z_or_none (zlen args))
  | (Some u, ix) =>
      mkT (l_or_none (lead args ++ uprefix u))
          (if ix =? zlen args then u_items u else None)
          (z_or_none (nplain args + umin u))
          (z_or_none (match u_max u with Some mx => nplain args + mx | None => 0 end))
  end.

Lemma nplain_nonneg l : 0 <= nplain l.
Proof. induction l as [|[s|u] r IH]; cbn [nplain]; lia. Qed.

Lemma zlen_cons (x: targ A) r : zlen (x :: r) = 1 + zlen r.
Proof. unfold zlen. cbn [length]. lia. Qed.

Lemma nplain_le_len l : nplain l <= zlen l.
Proof. induction l as [|[s|u] r IH]; [unfold zlen; cbn; lia| |]; rewrite zlen_cons; cbn [nplain]; lia. Qed.

Lemma lead_len_le l : zlen (lead l) <= nplain l.
Proof.
  induction l as [|[s|u] r IH]; cbn [lead nplain].
  - unfold zlen; cbn; lia.
  - unfold zlen in *. cbn [length]. lia.
  - pose proof (nplain_nonneg r). unfold zlen; cbn; lia.
Qed.

(* the translated kernel computes the closed form: the proof only needs the loop body
   of the generated term to satisfy the state invariant, whatever its syntax *)
Theorem on_tuple_k_spec (args: list (targ A)) : on_tuple_k args = tuple_spec args.
Proof.
  unfold on_tuple_k, tuple_spec.
  match goal with |- context [fold_left ?F _ _] => set (F0 := F) end.
  assert (H: forall l i m p us ix,
             fold_left F0 (enum_from i l) (m, p, us, ix) =
             (m + nplain l,
              p ++ (match us with None => lead l | Some _ => [] end),
              fst (last_unpack i l (us, ix)), snd (last_unpack i l (us, ix)))).
  { induction l as [|[s|u] r IH]; intros i m p us ix.
    - cbn. rewrite Z.add_0_r. destruct us; rewrite ?app_nil_r; reflexivity.
    - cbn [enum_from fold_left nplain lead last_unpack]. unfold F0 at 2. cbn beta iota.
      destruct us as [u0|].
      + rewrite IH. rewrite (Z.add_assoc m 1). reflexivity.
      + rewrite IH. rewrite <- app_assoc. cbn [app]. rewrite (Z.add_assoc m 1). reflexivity.
    - cbn [enum_from fold_left nplain lead last_unpack]. unfold F0 at 2. cbn beta iota.
      rewrite IH. destruct us; rewrite ?app_nil_r; reflexivity. }
  rewrite H. clear H F0. cbn [fst snd app].
  destruct (last_unpack 1 args (None, 0)) as [[u|] ix]; cbn [fst snd].
  - rewrite Z.add_0_l. unfold uprefix, umin. destruct (u_max u); reflexivity.
  - reflexivity.
Qed.

(* ---------------- facts about last_unpack ---------------- *)
Lemma last_unpack_none l : forall i acc, unpacks l = [] -> last_unpack i l acc = acc.
Proof. induction l as [|[s|u] r IH]; intros i acc H; cbn in *; auto; discriminate. Qed.

Lemma last_unpack_in l : forall i acc u ix, last_unpack i l acc = (Some u, ix) ->
  acc = (Some u, ix) \/ In u (unpacks l).
Proof.
  induction l as [|[s|u0] r IH]; intros i acc u ix H; cbn [last_unpack unpacks] in *.
  - left; exact H.
  - eapply IH; exact H.
  - destruct (IH _ _ _ _ H) as [E|E].
    + inversion E; subst. right. left. reflexivity.
    + right. right. exact E.
Qed.

Lemma last_unpack_some_if l : forall i acc, unpacks l <> [] -> exists u ix, last_unpack i l acc = (Some u, ix).
Proof.
  induction l as [|[s|u0] r IH]; intros i acc H; cbn in *; [congruence|auto|].
  destruct (unpacks r) eqn:E.
  - rewrite last_unpack_none by assumption. eauto.
  - apply IH. congruence.
Qed.

Lemma last_unpack_single l : forall i acc u, unpacks l = [u] -> fst (last_unpack i l acc) = Some u.
Proof.
  induction l as [|[s|u0] r IH]; intros i acc u H; cbn in *; [discriminate|auto|].
  inversion H; subst. rewrite last_unpack_none by assumption. reflexivity.
Qed.

(* ---------------- well-formedness carried through nesting ---------------- *)
(* what is known (inductively) of the schema of an unpacked inner tuple *)
Definition u_ok (u: uschema A) : Prop :=
  0 <= umin u /\ (forall mx, u_max u = Some mx -> umin u <= mx) /\ zlen (uprefix u) <= umin u.

Definition t_ok (r: tschema A) : Prop :=
  0 <= tmin r /\ (forall mx, t_max r = Some mx -> tmin r <= mx) /\ zlen (tprefix r) <= tmin r.

Lemma oz_or_z_or_none z : oz_or (z_or_none z) 0 = z.
Proof. unfold z_or_none, oz_or. destruct (z =? 0) eqn:E; [apply Z.eqb_eq in E; lia | rewrite E; reflexivity]. Qed.

Lemma z_or_none_some z mx : z_or_none z = Some mx -> z = mx.
Proof. unfold z_or_none. destruct (z =? 0); congruence. Qed.

Lemma ol_or_nil_l_or_none (l: list A) : ol_or_nil (l_or_none l) = l.
Proof. destruct l; reflexivity. Qed.

Lemma zlen_app (l1 l2: list A) : zlen (l1 ++ l2) = zlen l1 + zlen l2.
Proof. unfold zlen. rewrite app_length. lia. Qed.

Theorem tuple_spec_ok args : (forall u, In u (unpacks args) -> u_ok u) -> t_ok (tuple_spec args).
Proof.
  intros Hu. unfold tuple_spec.
  destruct (last_unpack 1 args (None, 0)) as [[u|] ix] eqn:E.
  - destruct (last_unpack_in _ _ _ _ _ E) as [E'|Hin]; [discriminate|].
    destruct (Hu u Hin) as (H0 & Hmx & Hp).
    pose proof (nplain_nonneg args) as Hn. pose proof (lead_len_le args) as Hl.
    unfold t_ok, tmin, tprefix. cbn [t_min t_max t_prefix].
    rewrite oz_or_z_or_none, ol_or_nil_l_or_none, zlen_app. repeat split; try lia.
    intros mx Hm. destruct (u_max u) as [m|] eqn:Em.
    + apply z_or_none_some in Hm. specialize (Hmx m eq_refl). lia.
    + cbn in Hm. discriminate.
  - unfold t_ok, tmin, tprefix. cbn [t_min t_max t_prefix].
    rewrite oz_or_z_or_none, ol_or_nil_l_or_none.
    pose proof (lead_len_le args). pose proof (nplain_le_len args).
    assert (0 <= zlen args) by (unfold zlen; lia).
    repeat split; try lia. intros mx Hm. apply z_or_none_some in Hm. lia.
Qed.


Theorem K6_closed args : (forall u, In u (unpacks args) -> u_ok u) -> t_ok (on_tuple_k args).
Proof. rewrite on_tuple_k_spec. apply tuple_spec_ok. Qed.

(* satisfiable: whenever maxItems is emitted it is not below minItems *)
Theorem K6_min_le_max_thm args : (forall u, In u (unpacks args) -> u_ok u) ->
  forall mx, t_max (on_tuple_k args) = Some mx -> tmin (on_tuple_k args) <= mx.
Proof. intros H. exact (proj1 (proj2 (K6_closed args H))). Qed.

(* admissible lengths of a value of Tuple[args] (at most one Unpack, as typing requires):
   one element per plain argument plus any admissible length of the unpacked segment *)
Definition len_adm (args: list (targ A)) (n: Z) : Prop :=
  match unpacks args with
  | [] => n = zlen args
  | [u] => exists k, umin u <= k /\ (forall mx, u_max u = Some mx -> k <= mx) /\ n = nplain args + k
  | _ => False
  end.

Theorem K6_accepts_lengths_thm args n : len_adm args n ->
  tmin (on_tuple_k args) <= n /\ (forall mx, t_max (on_tuple_k args) = Some mx -> n <= mx).
Proof.
  rewrite on_tuple_k_spec. unfold len_adm, tuple_spec. intros H.
  destruct (unpacks args) as [|u [|u2 r]] eqn:E; [| |contradiction].
  - rewrite last_unpack_none by assumption. unfold tmin. cbn [t_min t_max].
    rewrite oz_or_z_or_none. subst n. split; [lia|]. intros mx Hm. apply z_or_none_some in Hm. lia.
  - pose proof (last_unpack_single args 1 (None, 0) u E) as Hl.
    destruct (last_unpack 1 args (None, 0)) as [o ix]. cbn [fst] in Hl. subst o.
    destruct H as (k & Hk1 & Hk2 & Hn). unfold tmin. cbn [t_min t_max].
    rewrite oz_or_z_or_none. split; [lia|]. intros mx Hm.
    destruct (u_max u) as [m|].
    + apply z_or_none_some in Hm. specialize (Hk2 m eq_refl). lia.
    + cbn in Hm. discriminate.
Qed.

End Spec.

(* ---- documentation: the arithmetic before fix D11a (hand copy of the old lines
   `min_items += unpack.minItems or 0; max_items += unpack.maxItems or 0`) is unsatisfiable ---- *)
Definition old_arith {A} (args: list (targ A)) : option Z * option Z :=
  match last_unpack 1 args (None, 0) with
  | (None, _) => (z_or_none (zlen args), z_or_none (zlen args))
  | (Some u, _) => (z_or_none (nplain args + oz_or (u_min u) 0), z_or_none (0 + oz_or (u_max u) 0))
  end.

(* Tuple[int, Unpack[Tuple[str, float]]] *)
Definition d11a_witness : list (targ unit) := [Plain tt; Unpack (mkU (Some [tt; tt]) None (Some 2) (Some 2))].

Theorem K6_pre_fix_refuted_thm : old_arith d11a_witness = (Some 3, Some 2).
Proof. reflexivity. Qed.

Theorem K6_post_fix_witness : t_min (on_tuple_k d11a_witness) = Some 3 /\ t_max (on_tuple_k d11a_witness) = Some 3.
Proof. split; reflexivity. Qed.
