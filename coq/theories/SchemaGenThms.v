(* C20: the property theorems about the model SchemaGen.v
   (instances of the generic invariant of SchemaGenProofs.v, totality, divergence). *)
From Coq Require Import List String Ascii ZArith Bool Lia Btauto.
From Verif Require Import SchemaGen SchemaGenProofs.
Import ListNotations.
Open Scope string_scope.

(* ================================================================== *)
(* 1. references: refs of a rendered schema object                     *)

Definition refs_list (l: list js) : list string := flat_map refs l.
Definition refs_dict (m: list (string * js)) : list string := flat_map (fun kv => refs (snd kv)) m.
Definition orefs (o: option js) : list string := match o with Some d => refs d | None => [] end.
Definition orefs_list (o: option (list js)) : list string := match o with Some l => refs_list l | None => [] end.
Definition orefs_dict (o: option (list (string * js))) : list string := match o with Some l => refs_dict l | None => [] end.
Definition oref (o: option string) : list string := match o with Some r => [r] | None => [] end.

Lemma refs_app a b : refs (JObj (a ++ b)) = (refs (JObj a) ++ refs (JObj b))%list.
Proof.
  induction a as [|[k v] r IH]; [reflexivity|].
  simpl in *. rewrite IH. rewrite app_assoc. reflexivity.
Qed.

Lemma refs_data {A} k (f: A -> js) o : kwclass_of k = KData -> refs (JObj (optkv k f o)) = [].
Proof. intros H. destruct o; simpl; [rewrite H|]; reflexivity. Qed.

Lemma refs_arr_list l : refs (JObj [("anyOf", JArr l)]) = refs_list l /\ refs (JObj [("prefixItems", JArr l)]) = refs_list l.
Proof.
  simpl. rewrite !app_nil_r. unfold refs_list.
  split; induction l as [|x r IH]; simpl; try reflexivity; rewrite IH; reflexivity.
Qed.

Lemma refs_obj_dict m : refs (JObj [("$defs", JObj m)]) = refs_dict m /\ refs (JObj [("properties", JObj m)]) = refs_dict m.
Proof.
  simpl. rewrite !app_nil_r. unfold refs_dict.
  split; induction m as [|[k x] r IH]; simpl; try reflexivity; rewrite IH; reflexivity.
Qed.

Lemma refs_render s :
  refs (render s) =
  (orefs_list (k_anyOf s) ++ oref (k_ref s) ++ orefs_dict (k_defs s) ++ orefs_dict (k_props s)
   ++ orefs (k_addl s) ++ orefs (k_pnames s) ++ orefs_list (k_prefix s) ++ orefs (k_items s))%list.
Proof.
  destruct s as [sc tp en cn fm ti de ao rf df dv pr ad pn pf it mo mx ex mn en' xl ml pa ma mi un xp mp rq]. unfold render.
  cbn [k_schema k_type k_enum k_const k_format k_title k_description k_anyOf k_ref k_defs k_default k_props k_addl k_pnames k_prefix k_items k_multipleOf k_maximum k_exMax k_minimum k_exMin k_maxLength k_minLength k_pattern k_maxItems k_minItems k_unique k_maxProps k_minProps k_required].
  repeat rewrite refs_app.
  rewrite (refs_data "$schema") by reflexivity. rewrite (refs_data "type") by reflexivity.
  rewrite (refs_data "title") by reflexivity. rewrite (refs_data "default") by reflexivity.
  rewrite (refs_data "enum") by reflexivity. rewrite (refs_data "const") by reflexivity.
  rewrite (refs_data "format") by reflexivity. rewrite (refs_data "description") by reflexivity.
  rewrite (refs_data "pattern") by reflexivity.
  rewrite (refs_data "multipleOf") by reflexivity. rewrite (refs_data "maximum") by reflexivity.
  rewrite (refs_data "exclusiveMaximum") by reflexivity. rewrite (refs_data "minimum") by reflexivity.
  rewrite (refs_data "exclusiveMinimum") by reflexivity. rewrite (refs_data "maxLength") by reflexivity.
  rewrite (refs_data "minLength") by reflexivity. rewrite (refs_data "maxProperties") by reflexivity.
  rewrite (refs_data "minProperties") by reflexivity.
  rewrite (refs_data "maxItems") by reflexivity. rewrite (refs_data "minItems") by reflexivity.
  rewrite (refs_data "uniqueItems") by reflexivity. rewrite (refs_data "required") by reflexivity.
  simpl. rewrite !app_nil_r.
  f_equal; [destruct ao; [apply refs_arr_list|reflexivity]|].
  f_equal; [destruct rf; reflexivity|].
  f_equal; [destruct df; [apply refs_obj_dict|reflexivity]|].
  f_equal; [destruct pr; [apply refs_obj_dict|reflexivity]|].
  f_equal; [destruct ad; simpl; [rewrite app_nil_r|]; reflexivity|].
  f_equal; [destruct pn; simpl; [rewrite app_nil_r|]; reflexivity|].
  f_equal; [destruct pf; [apply refs_arr_list|reflexivity]|].
  destruct it; simpl; [rewrite app_nil_r|]; reflexivity.
Qed.

(* every reference is <prefix>/<name> with <name> a key of the definitions *)
Definition refs_ok (pfx: string) (ks: list string) (d: js) : Prop :=
  forall r, In r (refs d) -> exists c, r = pfx ++ "/" ++ c /\ In c ks.

Lemma in_refs_list r l : In r (refs_list l) -> exists d, In d l /\ In r (refs d).
Proof. unfold refs_list. rewrite in_flat_map. auto. Qed.
Lemma in_refs_dict r m : In r (refs_dict m) -> exists k d, In (k, d) m /\ In r (refs d).
Proof. unfold refs_dict. rewrite in_flat_map. intros [[k d] [H1 H2]]. eauto. Qed.

Section RefsInstance.
  Variable pfx: string.
  Notation G := (refs_ok pfx).

  Lemma R_mono ks ks' d : incl ks ks' -> G ks d -> G ks' d.
  Proof. intros Hi Hg r Hr. destruct (Hg r Hr) as [c [H1 H2]]. eauto. Qed.
  Lemma R_ty ks n : is_type_name n = true -> G ks (render (ty_sk n)).
  Proof. intros _ r Hr. rewrite refs_render in Hr. simpl in Hr. contradiction. Qed.
  Lemma R_any ks : G ks (render sk0).
  Proof. intros r Hr. rewrite refs_render in Hr. simpl in Hr. contradiction. Qed.
  Lemma R_arr ks o u : (forall d, o = Some d -> G ks d) -> G ks (render (arr_sk o u)).
  Proof.
    intros H r Hr. rewrite refs_render in Hr. simpl in Hr. destruct o as [d|]; simpl in Hr; [|contradiction].
    eapply H; eauto.
  Qed.
  Lemma R_dict ks o p : (forall d, o = Some d -> G ks d) -> (forall d, p = Some d -> G ks d) -> G ks (render (dict_sk o p)).
  Proof.
    intros H Hp r Hr. rewrite refs_render in Hr. simpl in Hr. rewrite app_nil_r in Hr.
    apply in_app_iff in Hr. destruct Hr as [Hr|Hr].
    - destruct o as [d|]; simpl in Hr; [|contradiction]. eapply H; eauto.
    - destruct p as [d|]; simpl in Hr; [|contradiction]. eapply Hp; eauto.
  Qed.
  Lemma R_listall ks l : Forall (G ks) l -> forall r, In r (refs_list l) -> exists c, r = pfx ++ "/" ++ c /\ In c ks.
  Proof.
    intros HF r Hr. apply in_refs_list in Hr. destruct Hr as [d [Hd Hr]].
    rewrite Forall_forall in HF. eapply HF; eauto.
  Qed.
  Lemma R_tuple ks l : Forall (G ks) l -> G ks (render (tuple_sk l)).
  Proof.
    intros HF r Hr. rewrite refs_render in Hr. destruct l as [|x l']; simpl in Hr; [contradiction|].
    rewrite app_nil_r in Hr. eapply (R_listall ks (x :: l')); eauto.
  Qed.
  Lemma R_union ks l : l <> [] -> Forall (G ks) l -> G ks (render (union_sk l)).
  Proof.
    intros _ HF r Hr. rewrite refs_render in Hr. simpl in Hr. rewrite app_nil_r in Hr.
    eapply R_listall; eauto.
  Qed.
  Lemma R_ref ks c : In c ks -> G ks (render (ref_sk (pfx ++ "/" ++ c))).
  Proof.
    intros Hc r Hr. rewrite refs_render in Hr. simpl in Hr. destruct Hr as [Hr|[]]. exists c. split; [symmetry; exact Hr|exact Hc].
  Qed.
  Lemma R_obj ks c props req :
    (forall k d, In (k, d) props -> G ks d) -> NoDup req -> G ks (render (obj_sk c props req)).
  Proof.
    intros H _ r Hr. rewrite refs_render in Hr. unfold obj_sk in Hr. simpl in Hr.
    destruct props as [|p ps]; simpl in Hr; [contradiction|].
    rewrite app_nil_r in Hr.
    apply (in_refs_dict r (p :: ps)) in Hr. destruct Hr as [k [d [H1 H2]]]. eapply H; eauto.
  Qed.
  Lemma R_leaf ks tp fmt pat :
    is_type_name tp = true -> match fmt with Some f => str_mem f formats | None => true end = true -> G ks (render (leaf_sk tp fmt pat)).
  Proof. intros _ _ r Hr. rewrite refs_render in Hr. simpl in Hr. contradiction. Qed.
  Lemma R_enum ks lit vals : G ks (render (enum_sk lit vals)).
  Proof. intros r Hr. rewrite refs_render in Hr. destruct lit; [destruct vals as [|v [|w l]]|]; simpl in Hr; contradiction. Qed.
  Lemma R_descr ks s d : G ks (render s) -> G ks (render (set_description s d)).
  Proof. intros H r Hr. apply H. rewrite refs_render in *. destruct d as [[|c d']|]; exact Hr. Qed.
  Lemma apply_ann_refs c k s : refs (render (apply_ann c k s)) = refs (render s).
  Proof. rewrite !refs_render. destruct c as [kw z|p|b]; try destruct kw; destruct k; reflexivity. Qed.
  Lemma R_ann ks cs k s : forallb ann_ok cs = true -> G ks (render s) -> G ks (render (apply_anns cs k s)).
  Proof.
    intros _. revert s. induction cs as [|c r IH]; intros s H; [exact H|].
    simpl. apply IH. intros x Hx. apply H. rewrite apply_ann_refs in Hx. exact Hx.
  Qed.
  Lemma R_ntobj ks props req :
    (forall k d, In (k, d) props -> G ks d) -> NoDup req -> G ks (render (ntobj_sk props req)).
  Proof.
    intros H _ r Hr. rewrite refs_render in Hr. unfold ntobj_sk in Hr. simpl in Hr.
    destruct props as [|p ps]; simpl in Hr; [contradiction|].
    rewrite app_nil_r in Hr.
    apply (in_refs_dict r (p :: ps)) in Hr. destruct Hr as [k [d [H1 H2]]]. eapply H; eauto.
  Qed.
  Lemma R_default ks s d : G ks (render s) -> G ks (render (set_default s d)).
  Proof.
    intros H r Hr. apply H. rewrite refs_render in *. destruct d; exact Hr.
  Qed.
  Lemma R_schema ks s u : G ks (render s) -> G ks (render (set_schema s u)).
  Proof. intros H r Hr. apply H. rewrite refs_render in *. exact Hr. Qed.
  Lemma R_defs ks s st :
    G ks (render s) -> (forall c d, In (c, d) st -> G ks d) -> G ks (render (set_defs s st)).
  Proof.
    intros H Hst r Hr. rewrite refs_render in Hr. simpl in Hr.
    specialize (H r). rewrite refs_render in H.
    repeat rewrite in_app_iff in Hr. repeat rewrite in_app_iff in H.
    destruct Hr as [Hr|[Hr|[Hr|Hr]]]; auto.
    all: try (apply in_refs_dict in Hr; destruct Hr as [k [d [H1 H2]]]; eapply Hst; eauto; fail).
    all: apply H; right; right; right; exact Hr.
  Qed.
End RefsInstance.

(* the state invariant of the refs instance *)
Definition defs_closed (pfx: string) (st: defs) : Prop :=
  forall c d, In (c, d) st -> refs_ok pfx (keys st) d.

Theorem refs_closed_seq E cfg fuel ts st ds st' :
  tab_nodup E ->
  build_seq E cfg fuel ts st = SOk (ds, st') -> defs_closed cfg.(c_prefix) st ->
  defs_closed cfg.(c_prefix) st' /\ Forall (refs_ok cfg.(c_prefix) (keys st')) ds /\ incl (keys st) (keys st').
Proof.
  intros Hn Hb Hc.
  eapply (build_seq_inv E cfg (refs_ok cfg.(c_prefix)) (R_mono _) (fun ks s => refs_ok cfg.(c_prefix) ks (render s)) (fun _ _ H => H)
                        (fun ks ks' s Hi H => R_mono _ ks ks' _ Hi H)); eauto using R_mono, R_ty, R_any, R_arr, R_dict, R_tuple,
    R_union, R_ref, R_obj, R_leaf, R_enum, R_descr, R_ann, R_ntobj, R_default, R_defs, R_schema.
Qed.

Theorem refs_closed_build E cfg fuel wd uri t st d st' :
  tab_nodup E ->
  build E cfg fuel wd uri t st = SOk (d, st') -> defs_closed cfg.(c_prefix) st ->
  defs_closed cfg.(c_prefix) st' /\ refs_ok cfg.(c_prefix) (keys st') d /\ incl (keys st) (keys st').
Proof.
  intros Hn Hb Hc.
  eapply (build_inv E cfg (refs_ok cfg.(c_prefix)) (R_mono _) (fun ks s => refs_ok cfg.(c_prefix) ks (render s)) (fun _ _ H => H)
                    (fun ks ks' s Hi H => R_mono _ ks ks' _ Hi H)); eauto using R_mono, R_ty, R_any, R_arr, R_dict, R_tuple,
    R_union, R_ref, R_obj, R_leaf, R_enum, R_descr, R_ann, R_ntobj, R_default, R_defs, R_schema.
Qed.

(* without all_refs nothing is registered and no reference is emitted *)
Definition norefs (ks: list string) (d: js) : Prop := refs d = [].

(* ================================================================== *)
(* 2. metaschema constraints on the emitted keywords                    *)

Definition ometa (o: option js) : bool := match o with Some d => meta_ok d | None => true end.
Definition ometa_list (o: option (list js)) : bool :=
  match o with Some [] => false | Some l => forallb meta_ok l | None => true end.
Definition ometa_dict (o: option (list (string * js))) : bool :=
  match o with Some l => forallb (fun kv => meta_ok (snd kv)) l | None => true end.

Lemma meta_app a b : meta_ok (JObj (a ++ b)) = meta_ok (JObj a) && meta_ok (JObj b).
Proof.
  induction a as [|[k v] r IH]; [reflexivity|].
  simpl in *. rewrite IH. rewrite andb_assoc. reflexivity.
Qed.

Lemma all_strs_map l : all_strs (map JStr l) = Some l.
Proof. induction l as [|x r IH]; simpl; [reflexivity|rewrite IH; reflexivity]. Qed.

Lemma meta_arr_list l :
  meta_ok (JObj [("anyOf", JArr l)]) = ometa_list (Some l) /\ meta_ok (JObj [("prefixItems", JArr l)]) = ometa_list (Some l).
Proof.
  destruct l as [|x0 l]; [split; reflexivity|].
  simpl. rewrite !andb_true_r.
  split; f_equal; induction l as [|x r IH]; simpl; try reflexivity; rewrite IH; reflexivity.
Qed.

Lemma meta_obj_dict m :
  meta_ok (JObj [("$defs", JObj m)]) = ometa_dict (Some m) /\ meta_ok (JObj [("properties", JObj m)]) = ometa_dict (Some m).
Proof.
  simpl. rewrite !andb_true_r.
  split; induction m as [|[k x] r IH]; simpl; try reflexivity; rewrite IH; reflexivity.
Qed.

Lemma meta_render s :
  meta_ok (render s) =
  match k_type s with Some t => is_type_name t | None => true end
  && ometa_list (k_anyOf s) && ometa_dict (k_defs s) && ometa_dict (k_props s)
  && ometa (k_addl s) && ometa (k_pnames s) && ometa_list (k_prefix s) && ometa (k_items s)
  && match k_maxItems s with Some z => (0 <=? z)%Z | None => true end
  && match k_minItems s with Some z => (0 <=? z)%Z | None => true end
  && match k_required s with Some l => str_nodup l | None => true end
  && match k_maxLength s with Some z => (0 <=? z)%Z | None => true end
  && match k_minLength s with Some z => (0 <=? z)%Z | None => true end
  && match k_maxProps s with Some z => (0 <=? z)%Z | None => true end
  && match k_minProps s with Some z => (0 <=? z)%Z | None => true end.
Proof.
  destruct s as [sc tp en cn fm ti de ao rf df dv pr ad pn pf it mo mx ex mn en' xl ml pa ma mi un xp mp rq]. unfold render.
  cbn [k_schema k_type k_enum k_const k_format k_title k_description k_anyOf k_ref k_defs k_default k_props k_addl k_pnames k_prefix k_items k_multipleOf k_maximum k_exMax k_minimum k_exMin k_maxLength k_minLength k_pattern k_maxItems k_minItems k_unique k_maxProps k_minProps k_required].
  repeat rewrite meta_app.
  assert (H1: meta_ok (JObj (optkv "$schema" JStr sc)) = true) by (destruct sc; reflexivity).
  assert (H2: meta_ok (JObj (optkv "title" JStr ti)) = true) by (destruct ti; reflexivity).
  assert (H3: meta_ok (JObj (optkv "$ref" JStr rf)) = true) by (destruct rf; reflexivity).
  assert (H4: meta_ok (JObj (optkv "default" (fun d => d) dv)) = true) by (destruct dv; reflexivity).
  assert (H5: meta_ok (JObj (optkv "uniqueItems" JBool un)) = true) by (destruct un; reflexivity).
  assert (H6: meta_ok (JObj (optkv "enum" JArr en)) = true) by (destruct en; reflexivity).
  assert (H7: meta_ok (JObj (optkv "const" (fun d => d) cn)) = true) by (destruct cn; reflexivity).
  assert (H8: meta_ok (JObj (optkv "format" JStr fm)) = true) by (destruct fm; reflexivity).
  assert (H9: meta_ok (JObj (optkv "description" JStr de)) = true) by (destruct de; reflexivity).
  assert (H10: meta_ok (JObj (optkv "pattern" JStr pa)) = true) by (destruct pa; reflexivity).
  assert (H11: meta_ok (JObj (optkv "multipleOf" JInt mo)) = true) by (destruct mo; reflexivity).
  assert (H12: meta_ok (JObj (optkv "maximum" JInt mx)) = true) by (destruct mx; reflexivity).
  assert (H13: meta_ok (JObj (optkv "exclusiveMaximum" JInt ex)) = true) by (destruct ex; reflexivity).
  assert (H14: meta_ok (JObj (optkv "minimum" JInt mn)) = true) by (destruct mn; reflexivity).
  assert (H15: meta_ok (JObj (optkv "exclusiveMinimum" JInt en')) = true) by (destruct en'; reflexivity).
  assert (XL: meta_ok (JObj (optkv "maxLength" JInt xl)) = match xl with Some z => (0 <=? z)%Z | None => true end)
    by (destruct xl; simpl; [rewrite andb_true_r|]; reflexivity).
  assert (ML: meta_ok (JObj (optkv "minLength" JInt ml)) = match ml with Some z => (0 <=? z)%Z | None => true end)
    by (destruct ml; simpl; [rewrite andb_true_r|]; reflexivity).
  assert (XP: meta_ok (JObj (optkv "maxProperties" JInt xp)) = match xp with Some z => (0 <=? z)%Z | None => true end)
    by (destruct xp; simpl; [rewrite andb_true_r|]; reflexivity).
  assert (MP: meta_ok (JObj (optkv "minProperties" JInt mp)) = match mp with Some z => (0 <=? z)%Z | None => true end)
    by (destruct mp; simpl; [rewrite andb_true_r|]; reflexivity).
  assert (T: meta_ok (JObj (optkv "type" JStr tp)) = match tp with Some t => is_type_name t | None => true end)
    by (destruct tp; simpl; [rewrite andb_true_r|]; reflexivity).
  assert (A: meta_ok (JObj (optkv "anyOf" JArr ao)) = ometa_list ao) by (destruct ao; [apply meta_arr_list|reflexivity]).
  assert (D: meta_ok (JObj (optkv "$defs" JObj df)) = ometa_dict df) by (destruct df; [apply meta_obj_dict|reflexivity]).
  assert (P: meta_ok (JObj (optkv "properties" JObj pr)) = ometa_dict pr) by (destruct pr; [apply meta_obj_dict|reflexivity]).
  assert (AD: meta_ok (JObj (optkv "additionalProperties" (fun d => d) ad)) = ometa ad)
    by (destruct ad; simpl; [rewrite andb_true_r|]; reflexivity).
  assert (PN: meta_ok (JObj (optkv "propertyNames" (fun d => d) pn)) = ometa pn)
    by (destruct pn; simpl; [rewrite andb_true_r|]; reflexivity).
  assert (PF: meta_ok (JObj (optkv "prefixItems" JArr pf)) = ometa_list pf) by (destruct pf; [apply meta_arr_list|reflexivity]).
  assert (IT: meta_ok (JObj (optkv "items" (fun d => d) it)) = ometa it)
    by (destruct it; simpl; [rewrite andb_true_r|]; reflexivity).
  assert (MA: meta_ok (JObj (optkv "maxItems" JInt ma)) = match ma with Some z => (0 <=? z)%Z | None => true end)
    by (destruct ma; simpl; [rewrite andb_true_r|]; reflexivity).
  assert (MI: meta_ok (JObj (optkv "minItems" JInt mi)) = match mi with Some z => (0 <=? z)%Z | None => true end)
    by (destruct mi; simpl; [rewrite andb_true_r|]; reflexivity).
  assert (RQ: meta_ok (JObj (optkv "required" (fun l => JArr (map JStr l)) rq)) = match rq with Some l => str_nodup l | None => true end)
    by (destruct rq; simpl; [rewrite all_strs_map, andb_true_r|]; reflexivity).
  rewrite H1, H2, H3, H4, H5, H6, H7, H8, H9, H10, H11, H12, H13, H14, H15, T, A, D, P, AD, PN, PF, IT, MA, MI, RQ, XL, ML, XP, MP.
  rewrite ?andb_true_l, ?andb_true_r.
  repeat match goal with |- context [match ?o with Some z => (0 <=? z)%Z | None => true end] =>
    let b := fresh "b" in set (b := match o with Some z => (0 <=? z)%Z | None => true end) end.
  repeat match goal with |- context [match ?o with Some l => str_nodup l | None => true end] =>
    let b := fresh "b" in set (b := match o with Some l => str_nodup l | None => true end) end.
  repeat match goal with |- context [ometa ?o] => let b := fresh "b" in set (b := ometa o) end.
  repeat match goal with |- context [ometa_list ?o] => let b := fresh "b" in set (b := ometa_list o) end.
  repeat match goal with |- context [ometa_dict ?o] => let b := fresh "b" in set (b := ometa_dict o) end.
  repeat match goal with |- context [match ?o with Some t => is_type_name t | None => true end] =>
    let b := fresh "b" in set (b := match o with Some t => is_type_name t | None => true end) end.
  btauto.
Qed.

Lemma str_mem_in s l : str_mem s l = true <-> In s l.
Proof.
  induction l as [|x r IH]; simpl; [split; [discriminate|contradiction]|].
  rewrite orb_true_iff, String.eqb_eq, IH. tauto.
Qed.
Lemma str_nodup_NoDup l : NoDup l -> str_nodup l = true.
Proof.
  induction 1 as [|x r Hx Hr IH]; simpl; [reflexivity|].
  rewrite IH, andb_true_r. destruct (str_mem x r) eqn:Em; [|reflexivity].
  apply str_mem_in in Em. contradiction.
Qed.

Lemma forallb_Forall_meta l : Forall (fun d => meta_ok d = true) l -> forallb meta_ok l = true.
Proof. induction 1; simpl; [reflexivity|]. rewrite H, IHForall. reflexivity. Qed.

Definition Gm (ks: list string) (d: js) : Prop := meta_ok d = true.

Lemma M_mono ks ks' d : incl ks ks' -> Gm ks d -> Gm ks' d.
Proof. auto. Qed.
Lemma M_ty ks n : is_type_name n = true -> Gm ks (render (ty_sk n)).
Proof. intros H. unfold Gm. rewrite meta_render. simpl. rewrite H. reflexivity. Qed.
Lemma M_any ks : Gm ks (render sk0).
Proof. reflexivity. Qed.
Lemma M_arr ks o u : (forall d, o = Some d -> Gm ks d) -> Gm ks (render (arr_sk o u)).
Proof.
  intros H. unfold Gm. rewrite meta_render. simpl. destruct o as [d|]; simpl; [|reflexivity].
  rewrite (H d eq_refl). reflexivity.
Qed.
Lemma M_dict ks o p : (forall d, o = Some d -> Gm ks d) -> (forall d, p = Some d -> Gm ks d) -> Gm ks (render (dict_sk o p)).
Proof.
  intros H Hp. unfold Gm. rewrite meta_render. simpl.
  assert (Ho: ometa o = true) by (destruct o as [d|]; [apply (H d eq_refl)|reflexivity]).
  assert (Hq: ometa p = true) by (destruct p as [d|]; [apply (Hp d eq_refl)|reflexivity]).
  rewrite Ho, Hq. reflexivity.
Qed.
Lemma M_tuple ks l : Forall (Gm ks) l -> Gm ks (render (tuple_sk l)).
Proof.
  intros H. unfold Gm. rewrite meta_render. destruct l as [|x r]; [reflexivity|].
  cbn [tuple_sk k_type k_anyOf k_defs k_props k_addl k_pnames k_prefix k_items k_maxItems k_minItems k_required
       ometa ometa_list ometa_dict is_type_name].
  rewrite (forallb_Forall_meta (x :: r) H).
  assert (Hz: (0 <=? Z.of_nat (List.length (x :: r)))%Z = true) by (apply Z.leb_le; lia).
  rewrite Hz. reflexivity.
Qed.
Lemma M_union ks l : l <> [] -> Forall (Gm ks) l -> Gm ks (render (union_sk l)).
Proof.
  intros Hne H. unfold Gm. rewrite meta_render. simpl. destruct l as [|x r]; [contradiction|].
  rewrite (forallb_Forall_meta (x :: r) H). reflexivity.
Qed.
Lemma M_ref ks r : Gm ks (render (ref_sk r)).
Proof. reflexivity. Qed.
Lemma M_obj ks c props req :
  (forall k d, In (k, d) props -> Gm ks d) -> NoDup req -> Gm ks (render (obj_sk c props req)).
Proof.
  intros H Hn. unfold Gm. rewrite meta_render. unfold obj_sk. simpl.
  assert (Hp: ometa_dict (match props with [] => None | _ :: _ => Some props end) = true).
  { destruct props as [|p ps]; [reflexivity|]. unfold ometa_dict. apply forallb_forall. intros [k d] Hin. eapply H; eauto. }
  assert (Hr: match match req with [] => None | _ :: _ => Some req end with Some l => str_nodup l | None => true end = true).
  { destruct req; [reflexivity|]. apply str_nodup_NoDup. exact Hn. }
  rewrite Hp, Hr. reflexivity.
Qed.
Lemma M_leaf ks tp fmt pat :
  is_type_name tp = true -> match fmt with Some f => str_mem f formats | None => true end = true -> Gm ks (render (leaf_sk tp fmt pat)).
Proof. intros H _. unfold Gm. rewrite meta_render. simpl. rewrite H. reflexivity. Qed.
Lemma M_enum ks lit vals : Gm ks (render (enum_sk lit vals)).
Proof. unfold Gm. rewrite meta_render. destruct lit; [destruct vals as [|v [|w l]]|]; reflexivity. Qed.
Lemma M_descr ks s d : Gm ks (render s) -> Gm ks (render (set_description s d)).
Proof. unfold Gm. rewrite !meta_render. destruct d as [[|c d']|]; auto. Qed.
Lemma apply_ann_meta c k s : ann_ok c = true -> meta_ok (render s) = true -> meta_ok (render (apply_ann c k s)) = true.
Proof.
  intros Hc. rewrite !meta_render.
  destruct c as [kw z|p|b]; try destruct kw; destruct k; cbn [apply_ann]; try (intros H; exact H);
    cbn [ann_ok] in Hc; intros H;
    repeat (apply andb_true_iff in H; destruct H as [H ?]);
    repeat (apply andb_true_iff; split); simpl; auto.
Qed.
Lemma M_ann ks cs k s : forallb ann_ok cs = true -> Gm ks (render s) -> Gm ks (render (apply_anns cs k s)).
Proof.
  unfold Gm. revert s. induction cs as [|c r IH]; intros s Hc H; [exact H|].
  simpl in Hc. apply andb_true_iff in Hc. destruct Hc as [Hc1 Hc2].
  simpl. apply IH; [exact Hc2|]. apply apply_ann_meta; assumption.
Qed.
Lemma M_ntobj ks props req :
  (forall k d, In (k, d) props -> Gm ks d) -> NoDup req -> Gm ks (render (ntobj_sk props req)).
Proof.
  intros H Hn. unfold Gm. rewrite meta_render. unfold ntobj_sk. simpl.
  assert (Hp: ometa_dict (match props with [] => None | _ :: _ => Some props end) = true).
  { destruct props as [|p ps]; [reflexivity|]. unfold ometa_dict. apply forallb_forall. intros [k d] Hin. eapply H; eauto. }
  rewrite Hp, (str_nodup_NoDup req Hn). reflexivity.
Qed.
Lemma M_default ks s d : Gm ks (render s) -> Gm ks (render (set_default s d)).
Proof. unfold Gm. rewrite !meta_render. destruct d; auto. Qed.
Lemma M_schema ks s u : Gm ks (render s) -> Gm ks (render (set_schema s u)).
Proof. unfold Gm. rewrite !meta_render. auto. Qed.
Lemma M_defs ks s st :
  Gm ks (render s) -> (forall c d, In (c, d) st -> Gm ks d) -> Gm ks (render (set_defs s st)).
Proof.
  unfold Gm. rewrite !meta_render. simpl. intros H Hst.
  assert (Hd: forallb (fun kv => meta_ok (snd kv)) st = true).
  { apply forallb_forall. intros [c d] Hin. eapply Hst; eauto. }
  rewrite Hd.
  repeat (apply andb_true_iff in H; destruct H as [H ?]).
  repeat (apply andb_true_iff; split); auto.
Qed.

Definition defs_meta (st: defs) : Prop := forall c d, In (c, d) st -> meta_ok d = true.

Theorem meta_seq E cfg fuel ts st ds st' :
  tab_nodup E ->
  build_seq E cfg fuel ts st = SOk (ds, st') -> defs_meta st ->
  defs_meta st' /\ Forall (fun d => meta_ok d = true) ds.
Proof.
  intros Hn Hb Hc.
  destruct (build_seq_inv E cfg Gm M_mono (fun ks s => Gm ks (render s)) (fun _ _ H => H)
                          (fun ks ks' s Hi H => M_mono ks ks' _ Hi H) M_ty M_any M_arr M_dict M_tuple M_union
                          (fun ks c _ => M_ref ks _) M_obj M_leaf M_enum M_descr M_ann M_ntobj M_default M_defs M_schema Hn fuel ts st ds st' Hb Hc) as (A & B & _).
  split; assumption.
Qed.

Theorem meta_build E cfg fuel wd uri t st d st' :
  tab_nodup E ->
  build E cfg fuel wd uri t st = SOk (d, st') -> defs_meta st ->
  defs_meta st' /\ meta_ok d = true.
Proof.
  intros Hn Hb Hc.
  destruct (build_inv E cfg Gm M_mono (fun ks s => Gm ks (render s)) (fun _ _ H => H)
                      (fun ks ks' s Hi H => M_mono ks ks' _ Hi H) M_ty M_any M_arr M_dict M_tuple M_union
                      (fun ks c _ => M_ref ks _) M_obj M_leaf M_enum M_descr M_ann M_ntobj M_default M_defs M_schema Hn fuel wd uri t st d st' Hb Hc) as (A & B & _).
  split; assumption.
Qed.

(* ================================================================== *)
(* 3. totality on acyclic class tables                                  *)

(* rk is a rank of the class table: every class mentioned by a field of c exists and has a
   smaller rank (= the class graph is acyclic and closed); unions are non-empty *)
Definition tab_ranked (E: ctab) (rk: string -> nat) : Prop :=
  forall c fs, lookup c E = Some fs ->
    forall f, In f fs -> ty_ok (f_ty f) = true /\
      forall d, In d (classes_of (f_ty f)) -> lookup d E <> None /\ rk d < rk c.

Lemma classes_of_tuple ts : classes_of (TTuple ts) = flat_map classes_of ts.
Proof. simpl. induction ts as [|x r IH]; simpl; [reflexivity|rewrite IH; reflexivity]. Qed.
Lemma classes_of_union ts : classes_of (TUnion ts) = flat_map classes_of ts.
Proof. simpl. induction ts as [|x r IH]; simpl; [reflexivity|rewrite IH; reflexivity]. Qed.
Lemma ty_ok_tuple ts : ty_ok (TTuple ts) = forallb ty_ok ts.
Proof. simpl. induction ts as [|x r IH]; simpl; [reflexivity|rewrite IH; reflexivity]. Qed.
Lemma classes_of_named a n ts d : classes_of (TNamed a n ts d) = flat_map classes_of ts.
Proof. simpl. induction ts as [|x r IH]; simpl; [reflexivity|rewrite IH; reflexivity]. Qed.
Lemma ty_ok_named a n ts d :
  ty_ok (TNamed a n ts d) = str_nodup n && Nat.eqb (List.length n) (List.length ts) && forallb ty_ok ts.
Proof. simpl. f_equal; try reflexivity. all: induction ts as [|x r IH]; simpl; [reflexivity|rewrite IH; reflexivity]. Qed.
Lemma classes_of_typed n ts r : classes_of (TTyped n ts r) = flat_map classes_of ts.
Proof. simpl. induction ts as [|x t IH]; simpl; [reflexivity|rewrite IH; reflexivity]. Qed.
Lemma ty_ok_typed n ts r :
  ty_ok (TTyped n ts r) = str_nodup n && Nat.eqb (List.length n) (List.length ts) && forallb ty_ok ts.
Proof. simpl. f_equal; try reflexivity. all: induction ts as [|x t IH]; simpl; [reflexivity|rewrite IH; reflexivity]. Qed.
Lemma ty_ok_union ts : ty_ok (TUnion ts) = match ts with [] => false | _ => forallb ty_ok ts end.
Proof. destruct ts as [|t0 tr]; [reflexivity|]. simpl. f_equal; try reflexivity. all: induction tr as [|x r IH]; simpl; [reflexivity|rewrite IH; reflexivity]. Qed.

Section Total.
  Variable E: ctab.
  Variable cfg: bcfg.
  Variable rk: string -> nat.
  Hypothesis HR: tab_ranked E rk.

  Definition ty_ready (fuel: nat) (t: ty) : Prop :=
    ty_ok t = true /\ forall d, In d (classes_of t) -> lookup d E <> None /\ rk d < fuel.

  Definition total_at (rec: ty -> defs -> sres (sk * defs)) (fuel: nat) : Prop :=
    forall t st, ty_ready fuel t -> exists s st', rec t st = SOk (s, st').

  Lemma map_st_total rec fuel ts :
    Forall (fun t => forall st, ty_ready fuel t -> exists s st', rec t st = SOk (s, st')) ts ->
    (forall t, In t ts -> ty_ready fuel t) ->
    forall ds st, exists ss st', map_st rec ts ds st = SOk (ss, st').
  Proof.
    induction 1 as [|t r Ht Hr IH]; intros Hall ds st; simpl.
    - eauto.
    - destruct (Ht st (Hall t (or_introl eq_refl))) as [s [st1 E1]]. rewrite E1.
      destruct (IH (fun t' Hin => Hall t' (or_intror Hin)) (tl ds) st1) as [ss [st2 E2]]. rewrite E2. eauto.
  Qed.

  Lemma fields_total rec fuel : total_at rec fuel ->
    forall fs, (forall f, In f fs -> ty_ready fuel (f_ty f)) ->
    forall props req st, exists res st', fields_fold rec fs props req st = SOk (res, st').
  Proof.
    intros Hrec. induction fs as [|f r IH]; intros Hall props req st; simpl.
    - eauto.
    - destruct (Hrec (f_ty f) st (Hall f (or_introl eq_refl))) as [s [st1 E1]]. rewrite E1.
      apply IH. intros f' Hin. apply Hall. right; exact Hin.
  Qed.

  Lemma ready_members fuel ts :
    forallb ty_ok ts = true -> (forall d, In d (flat_map classes_of ts) -> lookup d E <> None /\ rk d < fuel) ->
    forall t, In t ts -> ty_ready fuel t.
  Proof.
    intros Hok Hcl t Hin. split.
    - rewrite forallb_forall in Hok. apply Hok; exact Hin.
    - intros d Hd. apply Hcl. apply in_flat_map. eauto.
  Qed.

  Lemma total_structural fuel :
    (forall c st, ty_ready fuel (TClass c) -> exists s st', schema_fuel E cfg fuel (TClass c) st = SOk (s, st')) ->
    total_at (schema_fuel E cfg fuel) fuel.
  Proof.
    intros Hclass t. induction t using ty_ind'; intros st Hr.
    1-6: destruct (sf_scalar E cfg fuel st) as (H1 & H2 & H3 & H4 & H5 & H6); eauto.
    - rewrite sf_list. destruct (IHt st Hr) as [s [st1 E1]]. rewrite E1. eauto.
    - rewrite sf_wrap. exact (IHt st Hr).
    - rewrite sf_set. destruct (IHt st Hr) as [s [st1 E1]]. rewrite E1. eauto.
    - rewrite sf_dict. destruct (IHt st Hr) as [s [st1 E1]]. rewrite E1. eauto.
    - rewrite sf_map. destruct Hr as [Hok Hcl]. cbn [ty_ok] in Hok. apply andb_true_iff in Hok. destruct Hok as [Hoa Hok'].
      cbn [classes_of] in Hcl.
      destruct (IHt2 st) as [s [st1 E1]]; [split; [exact Hoa|intros d Hd; apply Hcl; apply in_app_iff; left; exact Hd]|].
      rewrite E1.
      destruct (IHt1 st1) as [s2 [st2 E2]]; [split; [exact Hok'|intros d Hd; apply Hcl; apply in_app_iff; right; exact Hd]|].
      rewrite E2. eauto.
    - rewrite sf_tuple. destruct Hr as [Hok Hcl]. rewrite ty_ok_tuple in Hok. rewrite classes_of_tuple in Hcl.
      destruct (map_st_total _ fuel ts H (ready_members fuel ts Hok Hcl) [] st) as [ss [st1 E1]]. rewrite E1. eauto.
    - rewrite sf_union. destruct Hr as [Hok Hcl]. rewrite ty_ok_union in Hok. rewrite classes_of_union in Hcl.
      destruct ts as [|t0 tr]; [discriminate|].
      destruct (map_st_total _ fuel (t0 :: tr) H (ready_members fuel (t0 :: tr) Hok Hcl) [] st) as [ss [st1 E1]]. rewrite E1. eauto.
    - apply Hclass. exact Hr.
    - rewrite sf_named. destruct Hr as [Hok Hcl]. rewrite ty_ok_named in Hok. rewrite classes_of_named in Hcl.
      apply andb_true_iff in Hok. destruct Hok as [Hg Hok]. rewrite Hg.
      destruct (map_st_total _ fuel ts H (ready_members fuel ts Hok Hcl) ds st) as [ss [st1 E1]]. rewrite E1. eauto.
    - rewrite sf_leaf. destruct Hr as [Hok _]. cbn [ty_ok] in Hok. rewrite Hok. eauto.
    - rewrite sf_enum. eauto.
    - rewrite sf_typed. destruct Hr as [Hok Hcl]. rewrite ty_ok_typed in Hok. rewrite classes_of_typed in Hcl.
      apply andb_true_iff in Hok. destruct Hok as [Hg Hok]. rewrite Hg.
      destruct (map_st_total _ fuel ts H (ready_members fuel ts Hok Hcl) [] st) as [ss [st1 E1]]. rewrite E1. eauto.
    - destruct Hr as [Hok _]. discriminate.
    - rewrite sf_ann. destruct Hr as [Hok Hcl]. cbn [ty_ok] in Hok. apply andb_true_iff in Hok. destruct Hok as [Ha Hok].
      rewrite Ha. destruct (IHt st) as [s [st1 E1]]; [split; [exact Hok|exact Hcl]|]. rewrite E1. eauto.
  Qed.

  Theorem total_fuel : forall fuel, total_at (schema_fuel E cfg fuel) fuel.
  Proof.
    induction fuel as [|fuel IH]; apply total_structural; intros c st [_ Hc].
    - destruct (Hc c (or_introl eq_refl)) as [_ Hlt]. lia.
    - rewrite sf_classS. destruct (Hc c (or_introl eq_refl)) as [Hl Hlt].
      destruct (lookup c E) as [fs|] eqn:El; [|contradiction].
      destruct (fields_total _ fuel IH fs) with (props := @nil (string * js)) (req := @nil string) (st := st) as [[props req] [st1 Ef]].
      + intros f Hin. destruct (HR c fs El f Hin) as [Hok Hcl]. split; [exact Hok|].
        intros d Hd. destruct (Hcl d Hd) as [A B]. split; [exact A|lia].
      + rewrite Ef. cbv zeta. destruct (c_all_refs cfg); eauto.
  Qed.
End Total.

(* ================================================================== *)
(* 4. a self-referencing class: no amount of fuel suffices (defect D10) *)

Definition E_self : ctab :=
  [("Node", [mkfld "next" (TUnion [TClass "Node"; TNone]) false (Some JNull) None])].

Theorem self_ref_diverges : forall fuel cfg st, schema_fuel E_self cfg fuel (TClass "Node") st = SFuel.
Proof.
  induction fuel as [|fuel IH]; intros cfg st; [reflexivity|].
  rewrite sf_classS. simpl lookup. cbv iota. simpl fields_fold.
  rewrite sf_union. simpl map_st. rewrite IH. reflexivity.
Qed.

(* and no rank exists for it *)
Theorem self_ref_unranked : forall rk, ~ tab_ranked E_self rk.
Proof.
  intros rk H. destruct (H "Node" _ eq_refl _ (or_introl eq_refl)) as [_ Hc].
  destruct (Hc "Node" (or_introl eq_refl)) as [_ Hlt]. lia.
Qed.

(* ================================================================== *)
(* 5. definitions are stored under the bare class name: a second class table entry with the
      same name (another specialisation of a generic class) overwrites the first (KF)      *)
Definition E_g1 : ctab := [("G", [mkfld "x" (TList TInt) true None None])].
Definition E_g2 : ctab := [("G", [mkfld "x" (TList TStr) true None None])].
Theorem bare_name_overwrites :
  exists d1 st1 d2 st2,
    build E_g1 (mkcfg true "#/$defs") 1 false None (TClass "G") [] = SOk (d1, st1) /\
    build E_g2 (mkcfg true "#/$defs") 1 false None (TClass "G") st1 = SOk (d2, st2) /\
    d1 = d2 /\ lookup "G" st1 <> lookup "G" st2.
Proof.
  eexists _, _, _, _. split; [reflexivity|]. split; [reflexivity|]. split; [reflexivity|].
  vm_compute. discriminate.
Qed.

Lemma lookup_in {A} c (l: list (string * A)) v : lookup c l = Some v -> In (c, v) l.
Proof.
  induction l as [|[k x] r IH]; simpl; [discriminate|].
  destruct (String.eqb k c) eqn:Ek.
  - apply String.eqb_eq in Ek. intros H; inversion H; subst. left; reflexivity.
  - intros H. right. apply IH. exact H.
Qed.

Lemma digest_fields_spec al om dial conf l f :
  In f (digest_fields al om dial conf l) ->
  exists r, In r l /\ r_init r = true /\ digest_field al om dial conf r = Some f /\ f_ty f = resolve_field dial conf r /\
            f_req f = (match r_def r with RNone => negb (om && nullable_ty (r_ty r)) | _ => false end) /\
            (f_default f <> None <-> exists v, r_def r = RDefault v).
Proof.
  induction l as [|r t IH]; simpl; [contradiction|].
  destruct (digest_field al om dial conf r) as [g|] eqn:Ed.
  - intros [<-|H].
    + exists r. assert (Ei: r_init r = true) by (unfold digest_field in Ed; destruct (r_init r); [reflexivity|discriminate]).
      split; [left; reflexivity|]. split; [exact Ei|]. split; [exact Ed|].
      unfold digest_field in Ed. rewrite Ei in Ed. inversion Ed; subst; simpl.
      split; [reflexivity|]. split; [reflexivity|].
      destruct (r_def r); split; try (intros H; exfalso; apply H; reflexivity); try (intros [v Hv]; discriminate); eauto.
    + destruct (IH H) as [r' [A B]]. exists r'. split; [right; exact A|exact B].
  - intros H. destruct (IH H) as [r' [A B]]. exists r'. split; [right; exact A|exact B].
Qed.

(* ---- overridden serialization: what the rewriting does ---- *)
Lemma resolve_ty_noop t : resolve_ty [] [] t = t.
Proof.
  induction t using ty_ind'; try reflexivity; cbn [resolve_ty table_ov tykey okey apply_ov first_ser lookup]; try (rewrite IHt; reflexivity); try (rewrite IHt1, IHt2; reflexivity).
  all: f_equal; induction H as [|x r Hx Hr IH]; simpl; [reflexivity|rewrite Hx; f_equal; exact IH].
Qed.

(* third-party classes are eliminated when every one of them is covered by a serializing strategy whose replacement is supported *)
Fixpoint covered (dial conf: list (string * ov)) (t: ty) : bool :=
  match apply_ov (table_ov dial conf t) t with
  | Some t' => ty_ok t'
  | None =>
    match t with
    | TList a | TSet a | TDict a | TWrap a => covered dial conf a
    | TMap k a => covered dial conf a && covered dial conf k
    | TAnn cs a => forallb ann_ok cs && covered dial conf a
    | TTuple ts => forallb (covered dial conf) ts
    | TUnion ts => match ts with [] => false | _ => forallb (covered dial conf) ts end
    | TNamed _ n ts _ | TTyped n ts _ => str_nodup n && Nat.eqb (List.length n) (List.length ts) && forallb (covered dial conf) ts
    | TOpaque _ => false
    | _ => ty_ok t
    end
  end.

Lemma forallb_map_ok dial conf ts :
  Forall (fun t => covered dial conf t = true -> ty_ok (resolve_ty dial conf t) = true) ts ->
  forallb (covered dial conf) ts = true -> forallb ty_ok (map (resolve_ty dial conf) ts) = true.
Proof.
  induction 1 as [|x r Hx Hr IH]; simpl; [reflexivity|]. intros H. apply andb_true_iff in H. destruct H as [H1 H2].
  rewrite (Hx H1), (IH H2). reflexivity.
Qed.

Theorem covered_ok dial conf t : covered dial conf t = true -> ty_ok (resolve_ty dial conf t) = true.
Proof.
  induction t using ty_ind'; intros Hc; cbn [covered resolve_ty] in *;
    destruct (apply_ov (table_ov dial conf _) _) as [t'|] eqn:Ea; try exact Hc; try (cbn [ty_ok]; apply IHt; exact Hc).
  - (* map *) cbn [ty_ok]. apply andb_true_iff in Hc. destruct Hc as [Ha Hk]. rewrite (IHt2 Ha), (IHt1 Hk). reflexivity.
  - (* tuple *) rewrite ty_ok_tuple. apply forallb_map_ok; assumption.
  - (* union *) rewrite ty_ok_union. destruct ts as [|t0 tr]; [discriminate|].
    cbn [map]. apply (forallb_map_ok dial conf (t0 :: tr)); assumption.
  - (* named *) rewrite ty_ok_named. apply andb_true_iff in Hc. destruct Hc as [Hg Hc].
    rewrite map_length, Hg. apply forallb_map_ok; assumption.
  - (* typed *) rewrite ty_ok_typed. apply andb_true_iff in Hc. destruct Hc as [Hg Hc].
    rewrite map_length, Hg. apply forallb_map_ok; assumption.
  - (* annotated *) cbn [ty_ok]. apply andb_true_iff in Hc. destruct Hc as [Ha Hc]. rewrite Ha. apply IHt. exact Hc.
Qed.
