(* Kernel K20 = CodeBuilder.is_field_nullable, translated from /repo on this run (VerifGen.K20).
   (C08 translates the same function independently as kernel K17.) *)
From Coq Require Import Bool List.
From Verif Require Import PyK_nullable.
From VerifGen Require Import K20.
Import ListNotations.

(* reference: remove every Annotated[...] / Final[T] wrapper (a bare Final stays) *)
Fixpoint strip_spec (t: fty) : fty :=
  match t with
  | FAnnotated t' => strip_spec t'
  | FFinal (Some t') => strip_spec t'
  | _ => t end.

(* since /repo 4da7e9e the tests look at the type as written AND at what its type variables are bound to in this
   specialisation (real_type): `gv: T` of G[Optional[int]] is nullable.  c_union_none (the union test on the type
   as written) is no longer consulted. *)
Definition core_nullable (c: fcore) : bool :=
  c_any_none c || c_real_any_none c || c_tv_any c || c_optional c || c_real_union_none c.

(* nullable = the stripped core is Any/None (as written or after substitution), an unbound unconstrained TypeVar, an
   Optional, or its substituted form is a Union with a None member (906a805, 4da7e9e), or the default is None *)
Theorem K20_spec_thm : forall t d,
  is_field_nullable t d =
  (match strip_spec t with FCore c => core_nullable c | _ => false end) || d.
Proof.
  intros t d. unfold is_field_nullable.
  assert (H: strip_wrappers t = strip_spec t).
  { induction t as [t' IH | [t'|] | c] using fty_ind'; cbn; auto. }
  rewrite H. destruct (strip_spec t) as [t'|o|c]; cbn; unfold core_nullable;
    repeat rewrite ?orb_false_l, ?orb_assoc; reflexivity.
Qed.

(* Annotated[...] and Final[...] do not change nullability (false before fix 0e35f6e) *)
Theorem K20_wrappers_transparent_thm : forall t d,
  is_field_nullable (FAnnotated t) d = is_field_nullable t d /\
  is_field_nullable (FFinal (Some t)) d = is_field_nullable t d.
Proof. intros t d. split; reflexivity. Qed.

Theorem K20_default_none_thm : forall t, is_field_nullable t true = true.
Proof. intros t. rewrite K20_spec_thm. apply orb_true_r. Qed.

(* any stack of wrappers around a core *)
Fixpoint wrap (ws: list bool) (t: fty) : fty :=
  match ws with [] => t | true :: r => FAnnotated (wrap r t) | false :: r => FFinal (Some (wrap r t)) end.

Theorem K20_wrapped_core_thm : forall ws c d, is_field_nullable (wrap ws (FCore c)) d = core_nullable c || d.
Proof.
  induction ws as [|[|] r IH]; intros c d.
  - rewrite K20_spec_thm. reflexivity.
  - cbn [wrap]. rewrite (proj1 (K20_wrappers_transparent_thm _ _)). apply IH.
  - cbn [wrap]. rewrite (proj2 (K20_wrappers_transparent_thm _ _)). apply IH.
Qed.
