(* C11 / K43a: comparing the translated scalar creators with the expression the real registries return. *)
From Coq Require Import List Bool.
From Verif Require Import UnionModel UnionEmit ScalarCreators K43aProofs.
From VerifGen Require Import K43a.
Import ListNotations.

(* (origin type, unpacker expression observed, packer expression observed); an expression that is neither a
   TypeMatchEligibleExpression nor "value" is reported as None *)
Definition k43acase_ok (c: oty * (option sexpr * option sexpr)) : bool :=
  let norm (x: option sexpr) := x in
  osexpr_eqb (norm (scalar_unpack (fst c))) (fst (snd c)) && osexpr_eqb (norm (scalar_pack (fst c))) (snd (snd c)).
