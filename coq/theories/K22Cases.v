(* C11 / K22: comparing the translated Literal loops with the method text the real generator produced. *)
From Coq Require Import List Bool Arith.
From Verif Require Import UnionModel LitEmit.
From VerifGen Require Import K22.
Import ListNotations.

(* 0 = enum line, 1 = bytes try block, 2 = plain line, 3 = raise *)
Definition ucode (l: uline) : nat := match l with ULEnum _ => 0 | ULBytes _ => 1 | ULPlain _ => 2 | ULRaise => 3 end.
Definition kcode (l: kline) : nat := match l with KLEnum _ => 0 | KLPlain _ => 2 | KLRaise => 3 end.

Fixpoint nats_eqb (a b: list nat) : bool :=
  match a, b with [], [] => true | x :: r, y :: r' => Nat.eqb x y && nats_eqb r r' | _, _ => false end.

(* listed values by kind: 0 enum, 1 bytes, 2 plain *)
Definition lit_of_kind (k: nat) : lit :=
  match k with 0 => LEnum UNone UNone | 1 => LBytes UNone | _ => LNone end.

Definition k22case_ok (c: list nat * (list nat * list nat)) : bool :=
  nats_eqb (map ucode (emit_unpack (map lit_of_kind (fst c)))) (fst (snd c))
  && nats_eqb (map kcode (emit_pack (map lit_of_kind (fst c)))) (snd (snd c)).
