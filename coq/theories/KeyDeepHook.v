(* C09 -- __pre_deserialize__ on nested classes.

   Every class of the table may define a hook; whenever a mapping is handed to that class -- as the
   outermost input or as the value of a dataclass-typed field, at any depth and inside containers -- the
   hook rewrites it first, and the class's key rules (and its extra-key check) then work on the result.
   The hook of the outer class does not touch inner mappings and vice versa.

   KeyDeep.dec with this one addition; hooks are the rewrites of KeyRewrite, here on mappings whose values
   are trees. *)
From Coq Require Import List String Ascii ZArith Bool Arith Lia.
From Verif Require Import Regex PyK PyK_alias KeyModel KeyImpl KeyProofs KeyNested KeyRewrite KeyDeep.
From VerifGen Require Import K4.
Import ListNotations.
Open Scope string_scope.
Open Scope list_scope.

Definition tdict := list (key * nv).

Fixpoint tget (d: tdict) (k: key) : option nv :=
  match d with [] => None | (k', v) :: r => if key_eqb k' k then Some v else tget r k end.

Fixpoint tremove (d: tdict) (k: key) : tdict :=
  match d with [] => [] | (k', v) :: r => if key_eqb k' k then tremove r k else (k', v) :: tremove r k end.

Fixpoint tset (d: tdict) (k: key) (v: nv) : tdict :=
  match d with
  | [] => [(k, v)]
  | (k', x) :: r => if key_eqb k' k then (k', v) :: r else (k', x) :: tset r k v
  end.

Definition tapply_op (d: tdict) (o: hookop) : tdict :=
  match o with
  | HDrop k => tremove d k
  | HPut k v => tset d k (VZ v)
  | HRename a b => match tget d a with Some v => tset (tremove d a) b v | None => d end
  end.

Definition tapply_hook (h: option (list hookop)) (d: tdict) : tdict :=
  match h with Some ops => fold_left tapply_op ops d | None => d end.

(* per class of the table (same order): the hook it sees *)
Definition hook_of (hs: list (option (list hookop))) (i: nat) : option (list hookop) := nth i hs None.

Section Generic.
Variable rd : cls -> dict -> fld -> option (key * Z).
Variable ex : cls -> dict -> list key.

Fixpoint dech (fuel: nat) (tb: list ncls) (hs: list (option (list hookop))) (t: nty) (v: nv) : option rv :=
  match fuel with
  | O => None
  | S fu =>
      match t with
      | TScalar => match v with VZ z => Some (RZ z) | _ => None end
      | TCls i => match v, nth_error tb i with
                  | VD d, Some nc =>
                      match obj rd ex (dech fu tb hs) nc (tapply_hook (hook_of hs i) d) with
                      | DInst vs => Some (RObj vs) | _ => None end
                  | _, _ => None
                  end
      | TOpt t' => match v with
                   | VZ z => if Z.eqb z NONEZ then Some (RZ NONEZ) else dech fu tb hs t' v
                   | _ => dech fu tb hs t' v
                   end
      | TList t' => match v with
                    | VL l => option_map RList (all_some (map (dech fu tb hs t') l))
                    | VD [] => Some (RList [])
                    | _ => None
                    end
      | TMap t' => match v with
                   | VD d => option_map (fun xs => RMap (combine (map fst d) xs))
                                        (all_some (map (fun p => dech fu tb hs t' (snd p)) d))
                   | _ => None
                   end
      end
  end.

Definition deeph (fuel: nat) (tb: list ncls) (hs: list (option (list hookop))) (k: nat) (d: tdict) : doutcome :=
  match nth_error tb k with
  | Some nc => obj rd ex (dech fuel tb hs) nc (tapply_hook (hook_of hs k) d)
  | None => DInvalid "<no such class>"
  end.
End Generic.

Definition deeph_ref := deeph field_read extra_keys.
Definition deeph_impl := deeph impl_rd impl_ex.

Lemma dech_ext : forall rd1 rd2 ex1 ex2,
  (forall c d f, rd1 c d f = rd2 c d f) -> (forall c d, ex1 c d = ex2 c d) ->
  forall fuel tb hs t v, dech rd1 ex1 fuel tb hs t v = dech rd2 ex2 fuel tb hs t v.
Proof.
  intros rd1 rd2 ex1 ex2 Hr He fuel. induction fuel as [|fu IH]; intros tb hs t v; [reflexivity|].
  cbn [dech]. destruct t as [|i|t'|t'|t'].
  - reflexivity.
  - destruct v as [z|d|l]; try reflexivity. destruct (nth_error tb i) as [nc|]; [|reflexivity].
    rewrite (obj_ext rd1 rd2 ex1 ex2 (dech rd1 ex1 fu tb hs) (dech rd2 ex2 fu tb hs) Hr He (IH tb hs)). reflexivity.
  - destruct v as [z|d|l]; try apply IH. destruct (Z.eqb z NONEZ); [reflexivity | apply IH].
  - destruct v as [z|d|l]; [reflexivity | now destruct d | now rewrite (map_ext_eq _ _ l (IH tb hs t'))].
  - destruct v as [z|d|l]; try reflexivity.
    now rewrite (map_ext_eq _ _ d (fun p => IH tb hs t' (snd p))).
Qed.

Theorem deeph_impl_eq_ref : forall fuel tb hs k d, deeph_impl fuel tb hs k d = deeph_ref fuel tb hs k d.
Proof.
  intros. unfold deeph_impl, deeph_ref, deeph. destruct (nth_error tb k) as [nc|]; [|reflexivity].
  assert (Hr: forall c d f, impl_rd c d f = field_read c d f).
  { intros c0 d0 f. unfold impl_rd, field_read. rewrite impl_alias_spec, impl_field_read_spec.
    now rewrite code_plan_candidates. }
  assert (He: forall c d, impl_ex c d = extra_keys c d).
  { intros c0 d0. unfold impl_ex, extra_keys. rewrite impl_filtered_spec, enc_filtered_ff, allowed_keys_spec.
    rewrite impl_forbidden_spec. apply filter_ext. intro x. fold (code_accepted c0). now rewrite code_accepted_members. }
  apply obj_ext; [exact Hr | exact He | apply dech_ext; assumption].
Qed.

(* without hooks this is KeyDeep *)
Lemma dech_no_hooks : forall rd ex fuel tb t v, dech rd ex fuel tb [] t v = dec rd ex fuel tb t v.
Proof.
  intros rd ex fuel. induction fuel as [|fu IH]; intros tb t v; [reflexivity|].
  cbn [dech dec]. destruct t as [|i|t'|t'|t'].
  - reflexivity.
  - destruct v as [z|d|l]; try reflexivity. destruct (nth_error tb i) as [nc|]; [|reflexivity].
    unfold hook_of. replace (nth i [] None) with (@None (list hookop)) by (now destruct i). cbn [tapply_hook].
    rewrite (obj_ext rd rd ex ex (dech rd ex fu tb []) (dec rd ex fu tb)); auto.
  - destruct v as [z|d|l]; try apply IH. destruct (Z.eqb z NONEZ); [reflexivity | apply IH].
  - destruct v as [z|d|l]; [reflexivity | now destruct d | now rewrite (map_ext_eq _ _ l (IH tb t'))].
  - destruct v as [z|d|l]; try reflexivity. now rewrite (map_ext_eq _ _ d (fun p => IH tb t' (snd p))).
Qed.

Theorem deeph_no_hooks : forall rd ex fuel tb k d, deeph rd ex fuel tb [] k d = deep rd ex fuel tb k d.
Proof.
  intros. unfold deeph, deep. destruct (nth_error tb k) as [nc|]; [|reflexivity].
  unfold hook_of. replace (nth k [] None) with (@None (list hookop)) by (now destruct k). cbn [tapply_hook].
  apply obj_ext; auto. intros. apply dech_no_hooks.
Qed.

(* the hook of a class sees exactly the mapping handed to that class: a dataclass-typed value is decoded as the
   inner class decodes the rewritten mapping *)
Theorem inner_hook_applies : forall rd ex fu tb hs i nc d,
  nth_error tb i = Some nc ->
  dech rd ex (S fu) tb hs (TCls i) (VD d)
  = match obj rd ex (dech rd ex fu tb hs) nc (tapply_hook (hook_of hs i) d) with
    | DInst vs => Some (RObj vs) | _ => None end.
Proof. intros. cbn [dech]. now rewrite H. Qed.
