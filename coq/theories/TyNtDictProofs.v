(* Proofs about the as_dict form of a NamedTuple class (TyNtDict.v): generated = reference (pack on
   conforming values, unpack on EVERY input), results conform, only basic values come out, round trip.
   Everything about the items is inherited from the theorems of TyProofs / TyConform / TyBasic /
   TyRoundtrip / TyStrict; what is proved here is the by-name layer (lookup, "in" tests, defaults, constant
   positions, evaluation order). *)
From Coq Require Import List String Ascii ZArith Bool Lia.
From Verif Require Import Core TupleIdx TyModel TyTuple TyProofs TyStrict TyConform TyBasic TyRoundtrip TyNtDict.
Import ListNotations.
Open Scope string_scope.
Open Scope list_scope.

(* ---- generic lemmas about the walkers ---- *)
Lemma nd_fields_ext {D1 D2} (run1: sfield -> D1 -> res pv) (run2: sfield -> D2 -> res pv) k1 k2 i1 i2 fds :
  (forall f, In f fds -> nd_field run1 k1 i1 f = nd_field run2 k2 i2 f) ->
  nd_fields run1 k1 i1 fds = nd_fields run2 k2 i2 fds.
Proof.
  induction fds as [|f r IH]; intros H; [reflexivity|].
  cbn [nd_fields]. rewrite (H f (or_introl eq_refl)). rewrite IH; [reflexivity|].
  intros g Hg. apply H. right. exact Hg.
Qed.

Lemma nd_field_input_of {D1 D2} (run1: sfield -> D1 -> res pv) (run2: sfield -> D2 -> res pv) k1 k2
      (mk1: pv -> D1) (mk2: pv -> D2) d f :
  k1 f = k2 f -> (forall x, run1 f (mk1 x) = run2 f (mk2 x)) ->
  nd_field run1 k1 (nd_input_of mk1 d) f = nd_field run2 k2 (nd_input_of mk2 d) f.
Proof.
  intros Hk Hr. unfold nd_field, nd_has, nd_read. rewrite Hk.
  destruct d; cbn [nd_input_of]; try reflexivity.
  rewrite !look_map. destruct (look kvs (sf_name f)) as [x|]; cbn [option_map]; [rewrite Hr|]; reflexivity.
Qed.

Lemma nd_fields_all {D} (run: sfield -> D -> res pv) konst inp (q: sfield -> pv -> bool) fds r :
  (forall f y, In f fds -> nd_field run konst inp f = Ok y -> q f y = true) ->
  nd_fields run konst inp fds = Ok r -> nt_all q fds r = true.
Proof.
  revert r. induction fds as [|f rest IH]; intros r Hq H.
  - inversion H. reflexivity.
  - cbn [nd_fields] in H. destruct (nd_field run konst inp f) as [y|] eqn:Ey; [|discriminate H]. cbn [bind] in H.
    destruct (nd_fields run konst inp rest) as [ys|] eqn:Eys; [|discriminate H]. inversion H; subst.
    cbn [nt_all]. rewrite (Hq f y (or_introl eq_refl) Ey). apply IH; [|reflexivity].
    intros g z Hg. apply Hq. right. exact Hg.
Qed.

Lemma nt_items_length {X} (run: sfield -> X -> res pv) fds (l: list X) r :
  nt_items run (fun _ => None) (fun _ => Exn XIndexError) fds l = Ok r -> List.length r = List.length fds.
Proof.
  revert fds r. induction l as [|x l IH]; intros fds r H.
  - destruct fds as [|f rest]; [inversion H; reflexivity | discriminate H].
  - destruct fds as [|f rest]; [inversion H; reflexivity|]. cbn [nt_items] in H.
    destruct (run f x) as [y|]; [|discriminate H].
    destruct (nt_items run _ _ rest l) as [ys|] eqn:Eys; [|discriminate H]. inversion H; subst.
    cbn [List.length]. rewrite (IH rest ys Eys). reflexivity.
Qed.

(* the by-name round trip: what [nd_pack] wrote is found again under every field's name *)
Lemma nd_fields_rt {D} (mk: pv -> D) (qc: sfield -> pv -> bool) (run1: sfield -> pv -> res pv) (run2: sfield -> D -> res pv) konst m1 :
  forall (l: list pv) fds r (pre: list (pv * pv)),
  names_nodup fds = true ->
  (forall f, In f fds -> look pre f.(sf_name) = None) ->
  nt_all qc fds l = true ->
  (forall f x y, In f fds -> qc f x = true -> run1 f x = Ok y -> run2 f (mk y) = Ok x) ->
  (forall f c x, In f fds -> konst f = Some c -> qc f x = true -> x = c) ->
  nt_items run1 (fun _ => None) m1 fds l = Ok r ->
  nd_fields run2 konst (NDict (map (fun p => match p with (key, y) => (key, mk y) end) (pre ++ nd_zip fds r))) fds = Ok l.
Proof.
  induction l as [|x l IH]; intros fds r pre Hnd Hpre HA Hrt Hk H.
  - destruct fds as [|f rest]; [reflexivity | discriminate HA].
  - destruct fds as [|f rest]; [discriminate HA|]. cbn [nt_items] in H.
    cbn [nt_all] in HA. apply andb_prop in HA. destruct HA as [Hq HA].
    destruct (run1 f x) as [y|] eqn:Ey; [|discriminate H].
    destruct (nt_items run1 _ m1 rest l) as [ys|] eqn:Eys; [|discriminate H]. inversion H; subst. clear H.
    cbn [names_nodup] in Hnd. apply andb_prop in Hnd. destruct Hnd as [Hnf Hnd]. apply negb_true_iff in Hnf.
    assert (Hlook: look (map (fun p => match p with (key, y0) => (key, mk y0) end) (pre ++ nd_zip (f :: rest) (y :: ys))) (sf_name f)
                   = Some (mk y)).
    { rewrite look_map, look_app, (Hpre f (or_introl eq_refl)).
      unfold nd_zip. cbn [map combine look]. rewrite py_eq_str_str, String.eqb_refl. reflexivity. }
    assert (Hread: nd_read run2 konst (NDict (map (fun p => match p with (key, y0) => (key, mk y0) end) (pre ++ nd_zip (f :: rest) (y :: ys)))) f = Ok x).
    { unfold nd_read. destruct (konst f) as [c|] eqn:Ec.
      - rewrite (Hk f c x (or_introl eq_refl) Ec Hq). reflexivity.
      - rewrite Hlook. apply (Hrt f x y (or_introl eq_refl) Hq Ey). }
    cbn [nd_fields]. unfold nd_field at 1.
    assert (Hf: (match sf_default f with
                 | Some dv => b <- nd_has (NDict (map (fun p => match p with (key, y0) => (key, mk y0) end) (pre ++ nd_zip (f :: rest) (y :: ys)))) (sf_name f) ;;
                              if b then nd_read run2 konst (NDict (map (fun p => match p with (key, y0) => (key, mk y0) end) (pre ++ nd_zip (f :: rest) (y :: ys)))) f else Ok dv
                 | None => nd_read run2 konst (NDict (map (fun p => match p with (key, y0) => (key, mk y0) end) (pre ++ nd_zip (f :: rest) (y :: ys)))) f end) = Ok x).
    { destruct (sf_default f); [|exact Hread]. unfold nd_has. rewrite Hlook. cbn [bind]. exact Hread. }
    rewrite Hf. cbn [bind].
    assert (Hrest: nd_fields run2 konst (NDict (map (fun p => match p with (key, y0) => (key, mk y0) end) (pre ++ nd_zip (f :: rest) (y :: ys)))) rest = Ok l).
    { replace (pre ++ nd_zip (f :: rest) (y :: ys)) with ((pre ++ [(VStr (sf_name f), y)]) ++ nd_zip rest ys)
        by (rewrite <- app_assoc; reflexivity).
      apply (IH rest ys (pre ++ [(VStr (sf_name f), y)]) Hnd); try exact HA; try exact Eys.
      - intros g Hg. rewrite look_app, (Hpre g (or_intror Hg)). cbn [look]. rewrite py_eq_str_str.
        rewrite (names_nodup_notin f rest g Hnf Hg). reflexivity.
      - intros g x0 y0 Hg. apply Hrt. right. exact Hg.
      - intros g c x0 Hg. apply Hk. right. exact Hg. }
    rewrite Hrest. reflexivity.
Qed.

Lemma nd_zip_basic fds r : forallb basic r = true ->
  forallb (fun p => match p with (k, x) => scalar_basic k && basic x end) (nd_zip fds r) = true.
Proof.
  unfold nd_zip. revert r. induction fds as [|f rest IH]; intros r H; [reflexivity|].
  destruct r as [|y ys]; [reflexivity|]. cbn [map combine forallb]. cbn [forallb] in H.
  apply andb_prop in H. destruct H as [Hy Hys]. rewrite Hy. cbn [scalar_basic andb]. apply IH. exact Hys.
Qed.

(* ------------------------------------------------------------------ *)
Section NdTheorems.
  Variable E : senv.
  Variable P : prims.

  Lemma conf_named_inv o v c : conf_g o E v (SNamed c) = true ->
    exists l k, v = VNT c l /\ sfind E KNamed c = Some k /\ nt_all (fun f x => conf_g o E x f.(sf_ty)) k.(sc_fields) l = true.
  Proof.
    intros HC. rewrite conf_unfold in HC.
    destruct v as [ | b | z | f | s | m b | l | l | fr l | kvs | c' fs | e m | k w | c' l | tg ]; try discriminate HC.
    apply andb_prop in HC. destruct HC as [Hn HC]. apply String.eqb_eq in Hn. subst c'.
    destruct (sfind E KNamed c) as [k|] eqn:Ef; [|discriminate HC].
    exists l, k. split; [reflexivity | split; [reflexivity | exact HC]].
  Qed.

  (* C02: generated packer = reference on conforming instances *)
  Theorem nd_pack_is_ref o v c : conf_g o E v (SNamed c) = true -> pk_nd E P v c = ref_enc_nd E P v c.
  Proof.
    intros HC. destruct (conf_named_inv o v c HC) as [l [k [Hv [Ef HA]]]]. subst v.
    unfold pk_nd, ref_enc_nd, nd_pack. rewrite Ef. f_equal.
    apply (nt_items_ext_all (fun f x => conf_g o E x (sf_ty f))); [exact HA|].
    intros f x _ Hq. apply (encode_is_ref o E P x (sf_ty f) Hq).
  Qed.

  (* C03: generated unpacker = (as-generated reading of the) reference, on every input *)
  Theorem nd_unpack_is_ref d c : uk_nd E P d c = ref_dec_nd_l E P d c.
  Proof.
    unfold uk_nd, ref_dec_nd_g. destruct (sfind E KNamed c) as [k|]; [|reflexivity]. f_equal.
    apply nd_fields_ext. intros f _. apply nd_field_input_of.
    - apply konst_u_t.
    - intros x. apply (decode_is_ref E P x (sf_ty f)).
  Qed.

  (* the documented reading differs only where an item says "too few items" (tuples with an unpacked segment) *)
  Lemma nd_field_strict_or_same d f :
    let run := fun (g: sfield) (dx: sty -> res pv) => dx g.(sf_ty) in
    nd_field run (konst_t E) (nd_input_of (fun x => ref_dec_g E P true x) d) f
      = nd_field run (konst_t E) (nd_input_of (fun x => ref_dec_g E P false x) d) f \/
    nd_field run (konst_t E) (nd_input_of (fun x => ref_dec_g E P true x) d) f = Exn XTooFew.
  Proof.
    cbv zeta. unfold nd_field, nd_has, nd_read.
    destruct d; cbn [nd_input_of]; try (left; reflexivity).
    rewrite !look_map.
    destruct (look kvs (sf_name f)) as [x|]; cbn [option_map]; [|left; reflexivity].
    destruct (strict_or_same E P x (sf_ty f)) as [Hs|Hs]; rewrite Hs.
    - left. reflexivity.
    - destruct (sf_default f); cbn [bind]; destruct (konst_t E f); (left; reflexivity) || (right; reflexivity).
  Qed.

  Theorem nd_strict_or_same d c : ref_dec_nd E P d c = ref_dec_nd_l E P d c \/ ref_dec_nd E P d c = Exn XTooFew.
  Proof.
    unfold ref_dec_nd_g. destruct (sfind E KNamed c) as [k|]; [|left; reflexivity].
    assert (H: forall fds,
      nd_fields (fun g (dx: sty -> res pv) => dx g.(sf_ty)) (konst_t E) (nd_input_of (fun x => ref_dec_g E P true x) d) fds
        = nd_fields (fun g (dx: sty -> res pv) => dx g.(sf_ty)) (konst_t E) (nd_input_of (fun x => ref_dec_g E P false x) d) fds \/
      nd_fields (fun g (dx: sty -> res pv) => dx g.(sf_ty)) (konst_t E) (nd_input_of (fun x => ref_dec_g E P true x) d) fds = Exn XTooFew).
    { induction fds as [|f rest IH]; [left; reflexivity|]. cbn [nd_fields].
      destruct (nd_field_strict_or_same d f) as [Hs|Hs]; cbv zeta in Hs; rewrite Hs; [|right; reflexivity].
      destruct (nd_field _ (konst_t E) (nd_input_of (fun x => ref_dec_g E P false x) d) f) as [y|e]; [|left; reflexivity].
      cbn [bind]. destruct IH as [Hr|Hr]; rewrite Hr; [left; reflexivity | right; reflexivity]. }
    destruct (H (sc_fields k)) as [Hs|Hs]; rewrite Hs; [left; reflexivity | right; reflexivity].
  Qed.

  Corollary nd_unpack_is_ref_strict d c : ref_dec_nd E P d c <> Exn XTooFew -> uk_nd E P d c = ref_dec_nd E P d c.
  Proof.
    intros H. rewrite nd_unpack_is_ref. destruct (nd_strict_or_same d c) as [Hs|Hs]; [symmetry; exact Hs | contradiction].
  Qed.

  (* C03, second half: results conform to the class *)
  Theorem nd_dec_conforms o : forallb (cls_wf o E) E = true ->
    forall d c r, ref_dec_nd_l E P d c = Ok r -> conf_g o E r (SNamed c) = true.
  Proof.
    intros HW d c r H. unfold ref_dec_nd_g in H.
    destruct (sfind E KNamed c) as [k|] eqn:Ef; [|discriminate H].
    match type of H with (bind ?X _ = _) => destruct X as [r0|] eqn:Em end; [|discriminate H]. cbn [bind] in H. inversion H; subst.
    rewrite conf_unfold. rewrite String.eqb_refl, Ef. cbn [andb].
    apply (nd_fields_all _ _ _ (fun f y => conf_g o E y (sf_ty f)) _ _) with (2 := Em).
    intros f y Hf Hy.
    pose proof (Forall_In _ _ (nt_fields_ok o E HW c k Ef) f Hf) as Hd. cbv beta in Hd. unfold default_ok in Hd.
    assert (Hread: forall inp, inp = nd_input_of (fun x => ref_dec_g E P false x) d ->
              nd_read (fun g (dx: sty -> res pv) => dx g.(sf_ty)) (konst_t E) inp f = Ok y -> conf_g o E y (sf_ty f) = true).
    { intros inp Hi Hr. unfold nd_read in Hr. destruct (konst_t E f) as [c0|] eqn:Ec.
      - inversion Hr; subst. apply (const_ty_conf o E _ _ Ec).
      - subst inp. destruct d; cbn [nd_input_of] in Hr; try discriminate Hr.
        rewrite look_map in Hr. destruct (look kvs (sf_name f)) as [x|]; cbn [option_map] in Hr; [|discriminate Hr].
        apply (ref_dec_conforms o E P HW x (sf_ty f) y Hr). }
    unfold nd_field in Hy. destruct (sf_default f) as [dv|].
    - destruct (nd_has _ (sf_name f)) as [b|]; [|discriminate Hy]. cbn [bind] in Hy. destruct b.
      + apply (Hread _ eq_refl Hy).
      + inversion Hy; subst. exact Hd.
    - apply (Hread _ eq_refl Hy).
  Qed.

  (* C02, first sentence: only basic values come out *)
  Theorem nd_enc_basic o :
    forallb (fun c => forallb (fun f => jsonable f.(sf_ty)) c.(sc_fields)) E = true ->
    (forall k w, scalar_basic (P.(p_render) k w) = true) ->
    (forall e m val, P.(p_enum_value) e m = Some val -> scalar_basic val = true) ->
    forall v c w, conf_g o E v (SNamed c) = true -> ref_enc_nd E P v c = Ok w -> basic w = true.
  Proof.
    intros HJ H2 H3 v c w HC H. destruct (conf_named_inv o v c HC) as [l [k [Hv [Ef HA]]]]. subst v.
    unfold ref_enc_nd, nd_pack in H. rewrite Ef in H.
    match type of H with (bind ?X _ = _) => destruct X as [r|] eqn:Em end; [|discriminate H]. cbn [bind] in H. inversion H; subst.
    cbn [basic]. apply nd_zip_basic.
    apply (nt_items_forallb basic (fun f x => conf_g o E x (sf_ty f)) _ _ _ _ _ _ HA) with (2 := Em).
    intros f x y Hf _ Hq Hy.
    pose proof (sfind_jsonable E HJ KNamed c k Ef) as Hjs. rewrite forallb_forall in Hjs.
    apply (ref_enc_basic o E P HJ H2 H3 x (sf_ty f) y Hq (Hjs f Hf) Hy).
  Qed.

  (* C01: by-name round trip through the reference pair *)
  Theorem nd_ref_roundtrip : forallb cls_ok E = true ->
    forall v c w, conf_ord E v (SNamed c) = true -> vals_ok P v = true ->
      ref_enc_nd E P v c = Ok w -> ref_dec_nd E P w c = Ok v.
  Proof.
    intros HE v c w HC HV H. destruct (conf_named_inv true v c HC) as [l [k [Hv [Ef HA]]]]. subst v.
    unfold ref_enc_nd, nd_pack in H. rewrite Ef in H.
    match type of H with (bind ?X _ = _) => destruct X as [r|] eqn:Em end; [|discriminate H]. cbn [bind] in H. inversion H; subst.
    unfold ref_dec_nd_g. rewrite Ef. cbn [nd_input_of].
    rewrite forallb_forall in HE. pose proof (HE k (proj1 (sfind_In E KNamed c k Ef))) as Hk.
    unfold cls_ok in Hk. apply andb_prop in Hk. destruct Hk as [Hnd Hll]. rewrite forallb_forall in Hll.
    rewrite vals_ok_unfold in HV. apply andb_prop in HV. destruct HV as [_ HV]. rewrite forallb_forall in HV.
    assert (Hgo: nd_fields (fun f (dx: sty -> res pv) => dx (sf_ty f)) (konst_t E)
                   (NDict (map (fun p => match p with (key, y) => (key, ref_dec_g E P true y) end) ([] ++ nd_zip (sc_fields k) r)))
                   (sc_fields k) = Ok l).
    { apply (nd_fields_rt (fun y => ref_dec_g E P true y)
               (fun f x => conf_ord E x (sf_ty f) && vals_ok P x)
               (fun f x => ref_enc E P x (sf_ty f)) _ (konst_t E) (fun _ => Exn XIndexError) l (sc_fields k) r [] Hnd).
      - intros f _. reflexivity.
      - clear Em HC H. revert HA HV. generalize (sc_fields k). induction l as [|x l IH]; intros fds HA HV.
        + destruct fds; [reflexivity | discriminate HA].
        + destruct fds as [|f rest]; [discriminate HA|]. cbn [nt_all] in *. apply andb_prop in HA. destruct HA as [Hq HA].
          rewrite Hq, (HV x (or_introl eq_refl)). cbn [andb]. apply IH; [exact HA|]. intros z Hz. apply HV. right. exact Hz.
      - intros f x y Hf Hq Hy. apply andb_prop in Hq. destruct Hq as [Hq Hvx].
        apply (ref_roundtrip E P (proj2 (forallb_forall _ _) HE) x (sf_ty f) y Hq (Hll f Hf) Hvx Hy).
      - intros f c0 x Hf Hc Hq. apply andb_prop in Hq. destruct Hq as [Hq _]. apply (const_ty_conf_eq E _ _ _ Hc Hq).
      - exact Em. }
    cbn [app] in Hgo. rewrite Hgo. reflexivity.
  Qed.

  (* the reference encoder is total on conforming instances *)
  Theorem nd_ref_enc_total o v c : conf_g o E v (SNamed c) = true -> vals_ok P v = true -> exists w, ref_enc_nd E P v c = Ok w.
  Proof.
    intros HC HV. destruct (conf_named_inv o v c HC) as [l [k [Hv [Ef HA]]]]. subst v.
    unfold ref_enc_nd, nd_pack. rewrite Ef.
    rewrite vals_ok_unfold in HV. apply andb_prop in HV. destruct HV as [_ HV]. rewrite forallb_forall in HV.
    assert (Hex: exists r, nt_items (fun f x => ref_enc E P x (sf_ty f)) (fun _ => None) (fun _ => Exn XIndexError) (sc_fields k) l = Ok r).
    { clear HC. revert HA HV. generalize (sc_fields k). induction l as [|x l IH]; intros fds HA HV.
      - destruct fds; [exists []; reflexivity | discriminate HA].
      - destruct fds as [|f rest]; [discriminate HA|]. cbn [nt_all] in HA. apply andb_prop in HA. destruct HA as [Hq HA].
        destruct (ref_enc_total o E P x (sf_ty f) Hq (HV x (or_introl eq_refl))) as [y Hy].
        destruct (IH rest HA (fun z Hz => HV z (or_intror Hz))) as [ys Hys].
        exists (y :: ys). cbn [nt_items]. rewrite Hy, Hys. reflexivity. }
    destruct Hex as [r Hr]. rewrite Hr. cbn [bind]. eexists. reflexivity.
  Qed.
End NdTheorems.
