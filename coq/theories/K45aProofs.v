(* C02 / C03, K45a: the helper emitted by the (translated) loops of pack_typed_dict / unpack_typed_dict computes
   TyModel.td_go over TyModel.td_order.  Re-checked on every run against coq/gen/K45a.v. *)
From Coq Require Import List Bool ZArith String Lia.
From Verif Require Import Core TupleIdx TyModel TyProofs TdEmit.
From VerifGen Require Import K45a.
Import ListNotations.

Lemma find_field_in fds f : names_nodup fds = true -> In f fds -> find_field fds f.(sf_name) = Some f.
Proof.
  unfold find_field. induction fds as [|g rest IH]; intros Hnd Hf; [destruct Hf|].
  cbn [names_nodup] in Hnd. apply andb_prop in Hnd. destruct Hnd as [Hng Hnd]. apply negb_true_iff in Hng.
  cbn [find]. destruct Hf as [Hf|Hf].
  - subst g. rewrite String.eqb_refl. reflexivity.
  - rewrite (names_nodup_notin g rest f Hng Hf). apply (IH Hnd Hf).
Qed.

Lemma filter_map_names (q: string -> bool) (p: sfield -> bool) fds :
  (forall f, In f fds -> q f.(sf_name) = p f) -> filter q (map sf_name fds) = map sf_name (filter p fds).
Proof.
  induction fds as [|f rest IH]; intros H; [reflexivity|].
  cbn [map filter]. rewrite (H f (or_introl eq_refl)). rewrite IH by (intros g Hg; apply H; right; exact Hg).
  destruct (p f); reflexivity.
Qed.

Section Lines.
  Context {D: Type}.
  Variable run : sfield -> D -> res pv.
  Variable konst : sfield -> option pv.
  Variable miss : exn.
  Variable fld : string -> option sfield.
  Variable es : list (pv * D).

  Lemma run_lines_req L : forall tl_lines tl_fds,
    (forall f, In f L -> fld f.(sf_name) = Some f /\ f.(sf_opt) = false) ->
    run_td_lines run konst miss fld es tl_lines = td_go run konst miss es tl_fds ->
    run_td_lines run konst miss fld es (map TLReq (map sf_name L) ++ tl_lines) = td_go run konst miss es (L ++ tl_fds).
  Proof.
    induction L as [|f rest IH]; intros tl_lines tl_fds HL Ht; [exact Ht|].
    cbn [map app run_td_lines td_go]. unfold run_td_line, td_field.
    destruct (HL f (or_introl eq_refl)) as [Hf Ho]. rewrite Hf, Ho.
    rewrite (IH tl_lines tl_fds (fun g Hg => HL g (or_intror Hg)) Ht).
    destruct (konst f) as [c|]; [reflexivity|].
    destruct (look es (sf_name f)) as [d|]; [|reflexivity].
    destruct (run f d) as [y|e]; reflexivity.
  Qed.

  Lemma run_lines_opt L :
    (forall f, In f L -> fld f.(sf_name) = Some f /\ f.(sf_opt) = true) ->
    run_td_lines run konst miss fld es (map TLOpt (map sf_name L)) = td_go run konst miss es L.
  Proof.
    induction L as [|f rest IH]; intros HL; [reflexivity|].
    cbn [map run_td_lines td_go]. unfold run_td_line, td_field.
    destruct (HL f (or_introl eq_refl)) as [Hf Ho]. rewrite Hf, Ho.
    rewrite (IH (fun g Hg => HL g (or_intror Hg))).
    destruct (look es (sf_name f)) as [d|]; [|cbn [bind]; destruct (td_go run konst miss es rest); reflexivity].
    destruct (run f d) as [y|e]; reflexivity.
  Qed.
End Lines.

Section K45a.
  Context {D: Type}.
  Variable run : sfield -> D -> res pv.
  Variable konst : sfield -> option pv.
  Variable miss : exn.
  Variable es : list (pv * D).

  Lemma lines_are_td_go (fds: list sfield) (is_required is_optional: string -> bool) :
    names_nodup fds = true ->
    (forall f, In f fds -> is_required f.(sf_name) = negb f.(sf_opt)) ->
    (forall f, In f fds -> is_optional f.(sf_name) = f.(sf_opt)) ->
    run_td_lines run konst miss (find_field fds) es
       (map TLReq (filter is_required (map sf_name fds)) ++ map TLOpt (filter is_optional (map sf_name fds)))
      = td_go run konst miss es (td_order fds).
  Proof.
    intros Hnd Hr Ho. unfold td_order.
    rewrite (filter_map_names is_required (fun f => negb f.(sf_opt)) fds Hr).
    rewrite (filter_map_names is_optional (fun f => f.(sf_opt)) fds Ho).
    apply run_lines_req.
    - intros f Hf. apply filter_In in Hf. destruct Hf as [Hf Hq]. split; [apply find_field_in; assumption|].
      apply negb_true_iff in Hq. exact Hq.
    - apply run_lines_opt. intros f Hf. apply filter_In in Hf. destruct Hf as [Hf Hq]. split; [apply find_field_in; assumption | exact Hq].
  Qed.

  Theorem k45a_unpack_is_td_go fds is_required is_optional :
    names_nodup fds = true ->
    (forall f, In f fds -> is_required f.(sf_name) = negb f.(sf_opt)) ->
    (forall f, In f fds -> is_optional f.(sf_name) = f.(sf_opt)) ->
    run_td_lines run konst miss (find_field fds) es (k45a_unpack_lines (map sf_name fds) is_required is_optional)
      = td_go run konst miss es (td_order fds).
  Proof. unfold k45a_unpack_lines. apply lines_are_td_go. Qed.

  Theorem k45a_pack_is_td_go fds is_required is_optional :
    names_nodup fds = true ->
    (forall f, In f fds -> is_required f.(sf_name) = negb f.(sf_opt)) ->
    (forall f, In f fds -> is_optional f.(sf_name) = f.(sf_opt)) ->
    run_td_lines run konst miss (find_field fds) es (k45a_pack_lines (map sf_name fds) is_required is_optional)
      = td_go run konst miss es (td_order fds).
  Proof. unfold k45a_pack_lines. apply lines_are_td_go. Qed.
End K45a.
