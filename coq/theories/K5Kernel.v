(* Names for the functions translated from /repo (VerifGen.K5) applied to an encoded source
   record; no proofs here, so that the harness can evaluate them even when a proof breaks. *)
From Coq Require Import List String Ascii ZArith Bool.
From Verif Require Import Regex PyK PyK_strat Strategies.
From VerifGen Require Import K5.
Import ListNotations.

(* one name for "the translated kernel of direction d" *)
Definition kernel (d: dir) (S: sources) (An T O: kv) : res kv :=
  match d with
  | Ser => get_overridden_serialization_method (enc_dialect (t_call S)) (enc_cfg S) (enc_dialect (t_dflt S)) (enc_meta S) An T O
  | De => get_overridden_deserialization_method (enc_dialect (t_call S)) (enc_cfg S) (enc_dialect (t_dflt S)) (enc_meta S) An T O
  end.


(* the first registry handler: what is emitted for the field *)
Definition codegen (d: dir) (S: sources) (An T O e: kv) : res kv :=
  match d with
  | Ser => pack_type_with_overridden_serialization (enc_dialect (t_call S)) (enc_cfg S) (enc_dialect (t_dflt S)) (enc_meta S) An T O e
  | De => unpack_type_with_overridden_deserialization (enc_dialect (t_call S)) (enc_cfg S) (enc_dialect (t_dflt S)) (enc_meta S) An T O e
  end.


(* ---- Registry.get: the ValueSpec as a namespace, and the first handler applied to the prepared spec ---- *)
Definition mk_spec (t o a: kv) : kv :=
  KNs [("type", t); ("origin_type", o); ("annotated_type", a)]%string.

Definition first_handler (d: dir) (S: sources) (rt org: kv -> kv) (isann: kv -> bool) (spec e: kv) : res kv :=
  sp <- registry_prepare rt org isann spec ;;
  a <- k_getattr2 sp (KStr "annotated_type") ;;
  t <- k_getattr2 sp (KStr "type") ;;
  o <- k_getattr2 sp (KStr "origin_type") ;;
  codegen d S a t o e.
