(* C11 / K43: comparing the translated dispatch with what the real (un)pack_special_typing_primitive
   returned for the same ValueSpec (harness: k43_part). *)
From Coq Require Import List Bool Arith.
From Verif Require Import UnionModel UnionDispatch.
From VerifGen Require Import K43.
Import ListNotations.

Record k43case := K43C {
  kc_t : dty;                       (* spec.type *)
  kc_rtp : list (nat * dty);        (* resolved_type_params: type variable number -> type *)
  kc_cbn : bool;                    (* spec.could_be_none *)
  kc_cands : list dty;              (* union arguments / [bound; default]: where the registry argument is located *)
  kc_unpack : bool;                 (* direction *)
  kc_obs : xcode                    (* what the real function returned *)
}.

Definition rtp_of (l: list (nat * dty)) : rtp_t :=
  fun n => match find (fun p => Nat.eqb (fst p) n) l with Some p => Some (snd p) | None => None end.

Definition k43_model (c: k43case) : xcode :=
  let s := DS (kc_t c) (kc_cbn c) false in
  code_of (kc_cands c)
    (if kc_unpack c then unpack_special_typing_primitive (rtp_of (kc_rtp c)) s
     else pack_special_typing_primitive (rtp_of (kc_rtp c)) s).

Definition k43case_ok (c: k43case) : bool := xcode_eqb (k43_model c) (kc_obs c).
