(* C11 / kernel K19: vocabulary and semantics of the code that UnionUnpackerBuilder._add_body emits.

   The emission loop of unpack.py is translated to Gallina on every run (coq/gen/K19.v,
   tools/kernels/k19_union_emit.py): it maps the union's members -- abstracted to what the loop looks
   at: is the unpacker TypeMatchEligible, is it the expression "value", which expression is it --
   to a list of abstract lines.  This file gives those lines a meaning; K19Proofs.v proves that the
   emitted program computes UnionModel.union_dec. *)
From Coq Require Import List Bool Arith.
From Verif Require Import UnionModel.
Import ListNotations.

(* a union member as the emission loop sees it, with the behaviour of its unpacker expression *)
Inductive mspec :=
| SM (k: skind)                                        (* TypeMatchEligibleExpression: int(value), ..., None *)
| NM (e: nat) (isval: bool) (dec: uv -> option uv).    (* any other expression; isval: it is "value" *)

Definition is_tme (m: mspec) : bool := match m with SM _ => true | NM _ _ _ => false end.
Definition is_value (m: mspec) : bool := match m with SM _ => false | NM _ v _ => v end.
Definition to_member (m: mspec) : member := match m with SM k => MS k | NM e _ dec => MN e dec end.

(* the `condition` string *)
Inductive cond := CEmpty | CVt (m: mspec) | CTy (m: mspec).   (* "" | "__value_type is T" | "type(value) is T" *)
Definition cond_tag (c: cond) : nat := match c with CEmpty => 0 | CVt _ => 1 | CTy _ => 2 end.

(* (condition, unpacker) pairs are compared as strings: the condition text is determined by its form
   and the member's type name, the unpacker text by the member's expression *)
Definition pair_eqb (c1: cond) (m1: mspec) (c2: cond) (m2: mspec) : bool :=
  Nat.eqb (cond_tag c1) (cond_tag c2) && mkey_eqb (member_key (to_member m1)) (member_key (to_member m2)).

(* lines of a block / of the method *)
Inductive bline := BIfRet (c: cond) | BRet (m: mspec).        (* `if <c>: return value` | `return <expr>` *)
Inductive line :=
| LPlain (b: bline)
| LTry (bs: list bline)          (* try: <bs> / except Exception: pass *)
| LTryRet (m: mspec)             (* fallback: try: return <expr> / except Exception: pass *)
| LRaise
| LValueType.                    (* __value_type = type(value) *)

Record est := { e_lines : list line; e_seen : list (cond * mspec); e_fbs : list mspec }.
Definition est0 : est := {| e_lines := []; e_seen := []; e_fbs := [] |}.

Definition seen_mem (c: cond) (m: mspec) (s: est) : bool :=
  existsb (fun p => pair_eqb c m (fst p) (snd p)) (e_seen s).
Definition add_seen (c: cond) (m: mspec) (s: est) : est :=
  {| e_lines := e_lines s; e_seen := e_seen s ++ [(c, m)]; e_fbs := e_fbs s |}.
Definition add_fb (m: mspec) (s: est) : est :=
  {| e_lines := e_lines s; e_seen := e_seen s; e_fbs := e_fbs s ++ [m] |}.
Definition add_lines (ls: list line) (s: est) : est :=
  {| e_lines := e_lines s ++ ls; e_seen := e_seen s; e_fbs := e_fbs s |}.

Definition count_tme (ms: list mspec) : nat := length (filter is_tme ms).

(* ------------------------------------------------------------------ *)
(* meaning of the lines.  Result of a line: Some r = the method returns / raises with outcome r
   (r = None: an exception leaves the method), None = fall through to the next line *)
Section Run.
  Variable co : skind -> uv -> option uv.

  Definition expr_of (m: mspec) (d: uv) : option uv :=
    match m with SM k => coerce co k d | NM _ _ dec => dec d end.

  Definition cond_holds (c: cond) (d: uv) : bool :=
    match c with
    | CEmpty => true
    | CVt m | CTy m => match m with SM k => has_kind k d | NM _ _ _ => false end
    end.

  Definition run_bline (b: bline) (d: uv) : option (option uv) :=
    match b with
    | BIfRet c => if cond_holds c d then Some (Some d) else None
    | BRet m => Some (expr_of m d)                 (* returns, or the exception propagates *)
    end.

  Fixpoint run_block (bs: list bline) (d: uv) : option (option uv) :=
    match bs with
    | [] => None
    | b :: r => match run_bline b d with Some o => Some o | None => run_block r d end
    end.

  Definition run_line (l: line) (d: uv) : option (option uv) :=
    match l with
    | LPlain b => run_bline b d
    | LTry bs => match run_block bs d with
                 | Some (Some x) => Some (Some x)
                 | Some None => None            (* except Exception: pass *)
                 | None => None end
    | LTryRet m => match expr_of m d with Some x => Some (Some x) | None => None end
    | LRaise => Some None
    | LValueType => None
    end.

  Fixpoint run_lines (ls: list line) (d: uv) : option uv :=
    match ls with
    | [] => None                                   (* a method that falls off its end; never emitted *)
    | l :: r => match run_line l d with Some o => o | None => run_lines r d end
    end.
End Run.

(* the expression "value" never raises *)
Definition wf_mspec (m: mspec) : Prop :=
  match m with NM _ true dec => forall d, dec d = Some d | _ => True end.

(* ------------------------------------------------------------------ *)
(* the same semantics with the class of an exception that leaves the method:
   XValueError = the method's own final raise (ValueError(value) / InvalidFieldValue, a ValueError),
   XForeign = an exception of a member expression escaping (any class) *)
Inductive xres := XRet (v: uv) | XValueError | XForeign.

Section RunX.
  Variable co : skind -> uv -> option uv.

  Definition run_bline_x (b: bline) (d: uv) : option xres :=
    match b with
    | BIfRet c => if cond_holds c d then Some (XRet d) else None
    | BRet m => match expr_of co m d with Some x => Some (XRet x) | None => Some XForeign end
    end.

  Fixpoint run_block_x (bs: list bline) (d: uv) : option xres :=
    match bs with
    | [] => None
    | b :: r => match run_bline_x b d with Some o => Some o | None => run_block_x r d end
    end.

  Definition run_line_x (l: line) (d: uv) : option xres :=
    match l with
    | LPlain b => run_bline_x b d
    | LTry bs => match run_block_x bs d with
                 | Some (XRet x) => Some (XRet x)
                 | _ => None end                      (* except Exception: pass *)
    | LTryRet m => match expr_of co m d with Some x => Some (XRet x) | None => None end
    | LRaise => Some XValueError
    | LValueType => None
    end.

  Fixpoint run_lines_x (ls: list line) (d: uv) : xres :=
    match ls with
    | [] => XForeign
    | l :: r => match run_line_x l d with Some o => o | None => run_lines_x r d end
    end.
End RunX.

Definition xres_opt (r: xres) : option uv := match r with XRet v => Some v | _ => None end.
