(* C07 — model of the constructor-argument binding of mashumaro's generated from_dict.

   Source modelled (mashumaro/core/meta/code/builder.py):
     * dataclass_fields / get_field_default            (lines 236-277)  -> dc_field, seen_default
     * field filtering, kw_only detection              (lines 436-452)  -> filtered, seen_kw, flag mk
     * FieldUnpackerCodeBlockBuilder.build             (lines 1308-1414) -> field_block
     * pos_args / kw_args / **kwargs assembly          (lines 499-529)  -> plan (flag ik), pos_of/kws_of/kwargs_of
   CPython semantics modelled, not verified (exercised by the correspondence on every run):
     * parameter binding of a dataclass __init__       -> bind
     * how __init__ materialises defaults / factories  -> step, walk
   The model file contains no proofs (BindProofs.v has them). *)
From Coq Require Import List String ZArith Bool Arith.
Import ListNotations.
Open Scope string_scope.
Open Scope list_scope.

(* ---------- values ---------- *)
Inductive pv :=
| PNone | PBool (b: bool) | PInt (z: Z) | PFloat (z: Z) | PStr (s: string) | PList (l: list Z)
| PDec (s: string)                      (* decimal.Decimal, by its str() *)
| PTd (z: Z)                            (* datetime.timedelta of z seconds *)
| PTup (l: list Z)                      (* tuple of ints *)
| PEnum (z: Z)                          (* member of the IntEnum Color with that value *)
| PFresh (n: nat).                      (* object made by a default_factory, n = allocation label *)

Definition is_none (v: pv) : bool := match v with PNone => true | _ => false end.
Definition basic (v: pv) : bool := match v with PFresh _ => false | _ => true end.

Definition inp := list (string * pv).   (* the input dict (keys unique) *)

Fixpoint lookup {V} (k: string) (l: list (string * V)) : option V :=
  match l with
  | [] => None
  | (k', v) :: r => if String.eqb k k' then Some v else lookup k r
  end.

Fixpoint mem (s: string) (l: list string) : bool :=
  match l with [] => false | x :: r => String.eqb s x || mem s r end.
Fixpoint nodupb (l: list string) : bool :=
  match l with [] => true | x :: r => negb (mem x r) && nodupb r end.

(* ---------- class layout ---------- *)
Inductive dflt := DNone | DVal (v: pv) | DFac.     (* MISSING | default value | default_factory *)
Definition has_dflt (d: dflt) : bool := match d with DNone => false | _ => true end.
Definition dflt_is_none (d: dflt) : bool := match d with DVal PNone => true | _ => false end.

(* a dataclasses.Field object as the builder can see it: raw (kw_only possibly MISSING = None)
   or processed (kw_only a bool) *)
Record bfield := { bf_def: dflt; bf_init: bool; bf_kw: option bool }.
(* cls.__dict__.get(name) at the time the builder runs *)
Inductive nsval := NsNone | NsField (f: bfield) | NsValue (v: pv).
(* kind of the resolved type hint *)
Inductive mkind := KNormal | KInitVar | KClassVar | KSentinel.

(* One entry of typing.get_type_hints(cls), in that order. *)
Record member := {
  m_name : string;
  m_kind : mkind;
  (* truth = what the dataclass machinery made of it (dataclasses.fields, __init__ signature) *)
  m_field : bool;            (* a real dataclass field: __init__ sets the attribute *)
  m_param : bool;            (* parameter of __init__ *)
  m_kw    : bool;            (* ... keyword-only *)
  m_def   : dflt;            (* default of the parameter / field; class attribute for ClassVar *)
  (* facts the builder reads *)
  m_anc : option bfield;     (* last Field of that name among the dataclass ancestors cls.__mro__[-1:0:-1] *)
  m_own : bool;              (* name in cls.__dict__['__annotations__'] *)
  m_ns  : nsval;             (* cls.__dict__.get(name) *)
  m_df  : option bfield;     (* cls.__dict__.get('__dataclass_fields__', {}).get(name) *)
  m_nullty : bool;           (* type in (Any, None, NoneType) / Optional / unbound TypeVar *)
  m_ident  : bool;           (* the unpacker expression is the bare "value" *)
  m_alias  : option string;  (* resolved alias of the field (field_options / Annotated Alias / Config.aliases) *)
  m_unull  : bool            (* the Optional is hidden behind a wrapper (Annotated / Final / PEP 695 alias): the field
                                block sees a non-nullable type and the unpacker expression itself maps None to None
                                (expr_or_maybe_none, could_be_none=True) *)
}.
Definition layout := list member.

(* ---------- builder.py 236-277 ---------- *)
Definition dc_field (m: member) : option bfield :=
  if m_own m then match m_ns m with NsField f => Some f | _ => m_df m end
  else m_anc m.

Definition seen_default (m: member) : dflt :=
  match dc_field m with
  | Some f => bf_def f
  | None => match m_ns m with
            | NsValue v => DVal v
            | NsField _ => DFac        (* a Field object itself taken as default: not MISSING, not None *)
            | NsNone => DNone
            end
  end.
Definition seen_init (m: member) : bool :=
  match dc_field m with Some f => bf_init f | None => true end.
Definition seen_kw (m: member) : option bool :=
  match dc_field m with Some f => bf_kw f | None => None end.

Definition hinted (m: member) : bool :=       (* line 188 *)
  match m_kind m with KNormal => true | _ => false end.
Definition filtered (m: member) : bool := hinted m && seen_init m.   (* line 439 *)
Definition nullable (m: member) : bool := m_nullty m || dflt_is_none (seen_default m).

(* ---------- field block, builder.py 1308-1414 ---------- *)
Inductive fb := FbMissing | FbInvalid | FbSkip | FbSet (v: pv).
(* what a field block raises *)
Inductive err := EMissing (f: string) | EInvalid (f: string).
Inductive passing := PSkip | PPos | PKw | PKwargs.

Section WithConv.
Variable conv : string -> pv -> option pv.   (* the converting unpacker expression of a field; None = it raises
                                                (any exception: the generated `except:` is bare) *)
Variable nba : bool.                    (* Config.allow_deserialization_not_by_alias *)
Variable st : bool.                     (* true = the in_kwargs flag of the assembly loop is sticky (the real code);
                                           false = it is reset by every block (proved equivalent below) *)

(* builder.py 1348-1381: which key of the input a field is read from.  d.get(k, MISSING): a key holding
   null is PRESENT *)
Definition rd (m: member) (d: inp) : option pv :=
  match m_alias m with
  | Some a =>
      if nba then match lookup a d with Some v => Some v | None => lookup (m_name m) d end
      else lookup a d
  | None => lookup (m_name m) d
  end.
Definition keys_of (m: member) : list string :=
  match m_alias m with
  | Some a => if nba then [a; m_name m] else [a]
  | None => [m_name m]
  end.

(* the unpacker expression applied to a value that reaches it *)
Definition uconv (m: member) (v: pv) : option pv :=
  if m_unull m && is_none v then Some PNone else conv (m_name m) v.

Definition field_block (m: member) (d: inp) : fb :=
  let df := seen_default m in
  match rd m d with
  | None => if has_dflt df then FbSkip else FbMissing
  | Some v =>
      if m_ident m then FbSet v
      else if nullable m && is_none v
           then (if has_dflt df && dflt_is_none df then FbSkip else FbSet PNone)
           else match uconv m v with            (* try: .. except: raise InvalidFieldValue(f, ..) *)
                | Some w => FbSet w
                | None => FbInvalid
                end
  end.

(* one pass over the type hints: mk = missing_kw_only (sticky), ik = in_kwargs (sticky);
   inl e = the first block that raises: MissingField(f) / InvalidFieldValue(f) *)
Fixpoint plan (ms: list member) (mk ik: bool) (d: inp) : err + list (member * passing * fb) :=
  match ms with
  | [] => inr []
  | m :: r =>
    if filtered m then
      let kwo := mk || match seen_kw m with Some b => b | None => true end in
      let mk' := mk || match seen_kw m with None => true | Some _ => false end in
      match field_block m d with
      | FbMissing => inl (EMissing (m_name m))
      | FbInvalid => inl (EInvalid (m_name m))
      | x =>
        let dfl := has_dflt (seen_default m) in
        let p := if dfl then PKwargs else if kwo || ik then PKw else PPos in
        match plan r mk' (st && (dfl || ik)) d with
        | inl f => inl f
        | inr l => inr ((m, p, x) :: l)
        end
      end
    else
      match plan r mk ik d with
      | inl f => inl f
      | inr l => inr ((m, PSkip, FbSkip) :: l)
      end
  end.

Notation trip := (member * passing * fb)%type (only parsing).
Definition sel_pos (t: trip) : option pv :=
  match t with (_, PPos, FbSet v) => Some v | _ => None end.
Definition sel_kw (t: trip) : option pv :=
  match t with (_, PKw, FbSet v) => Some v | _ => None end.
Definition sel_kwargs (t: trip) : option pv :=
  match t with (_, PKwargs, FbSet v) => Some v | _ => None end.
Definition tname (t: trip) : string := match t with (m, _, _) => m_name m end.

Definition selmap {A} (key: A -> string) (sel: A -> option pv) (l: list A) : list (string * pv) :=
  flat_map (fun t => match sel t with Some v => [(key t, v)] | None => [] end) l.

Definition pos_of (pl: list trip) : list pv := map snd (selmap tname sel_pos pl).
Definition kws_of (pl: list trip) := selmap tname sel_kw pl.
Definition kwargs_of (pl: list trip) := selmap tname sel_kwargs pl.

(* ---------- dataclass __init__ (CPython, modelled) ---------- *)
Definition is_posparam (m: member) : bool := m_param m && negb (m_kw m).
Definition pos_params (L: layout) : list member := filter is_posparam L.
Definition all_param_names (L: layout) : list string := map m_name (filter m_param L).

(* the call cls( *pos, **kw ) : TypeError (None) on too many positionals, unknown keyword, duplicate binding *)
Definition bind (L: layout) (pos: list pv) (kw: list (string * pv)) : option (list (string * pv)) :=
  let pn := map m_name (pos_params L) in
  let bn := firstn (List.length pos) pn ++ map fst kw in
  if (List.length pos <=? List.length pn)%nat
     && forallb (fun n => mem n (all_param_names L)) (map fst kw)
     && nodupb bn
  then Some (combine pn pos ++ kw) else None.

(* attribute of the new instance for one member; c = allocation counter; None = TypeError
   (missing required argument); attribute None = not set *)
Definition step (b: list (string * pv)) (m: member) (c: nat) : option (option pv * nat) :=
  let from_default := match m_def m with
                      | DVal v => Some (Some v, c)
                      | DFac => Some (Some (PFresh c), S c)
                      | DNone => None
                      end in
  let class_attr := match m_def m with DVal v => Some v | _ => None end in
  match m_kind m with
  | KNormal =>
      if m_field m then
        if m_param m then
          match lookup (m_name m) b with Some v => Some (Some v, c) | None => from_default end
        else match m_def m with DNone => Some (None, c) | _ => from_default end
      else Some (class_attr, c)
  | KInitVar =>
      match lookup (m_name m) b with
      | Some _ => Some (class_attr, c)
      | None => match m_def m with
                | DNone => None
                | DVal _ => Some (class_attr, c)
                | DFac => Some (None, S c)
                end
      end
  | KClassVar => Some (class_attr, c)
  | KSentinel => Some (None, c)
  end.

Fixpoint walk (b: list (string * pv)) (L: layout) (c: nat)
  : option (list (string * option pv) * nat) :=
  match L with
  | [] => Some ([], c)
  | m :: r =>
    match step b m c with
    | None => None
    | Some (a, c1) =>
      match walk b r c1 with
      | None => None
      | Some (l, c2) => Some ((m_name m, a) :: l, c2)
      end
    end
  end.

Inductive outcome :=
| OMissing (f: string)                               (* MissingField(f) *)
| OInvalid (f: string)                               (* InvalidFieldValue(f) *)
| OTypeError                                         (* TypeError out of cls(...) *)
| OOk (a: list (string * option pv)) (c: nat).       (* attributes, next allocation label *)

Definition outcome_of_err (e: err) : outcome :=
  match e with EMissing f => OMissing f | EInvalid f => OInvalid f end.

(* the generated from_dict *)
Definition decode (L: layout) (d: inp) (c: nat) : outcome :=
  match plan L false false d with
  | inl e => outcome_of_err e
  | inr pl =>
    match bind L (pos_of pl) (kws_of pl ++ kwargs_of pl) with
    | None => OTypeError
    | Some b => match walk b L c with
                | None => OTypeError
                | Some (a, c') => OOk a c'
                end
    end
  end.

(* ---------- reference semantics (README: absent -> default, present -> converted value) ---------- *)
Definition required (m: member) : bool :=
  hinted m && m_field m && m_param m && negb (has_dflt (m_def m)).
Definition tnullable (m: member) : bool := m_nullty m || m_unull m || dflt_is_none (m_def m).
Definition eff_conv (m: member) (v: pv) : option pv :=
  if m_ident m then Some v else if tnullable m && is_none v then Some PNone else conv (m_name m) v.

(* the documented key rule: the alias key, with allow_deserialization_not_by_alias the field name as
   fall-back when the alias key is absent; a key holding null is present *)
Definition has_key (m: member) (d: inp) : bool :=
  match rd m d with Some _ => true | None => false end.

(* the first field, in declaration order, whose required key is absent (MissingField) or whose present
   value cannot be converted (InvalidFieldValue) *)
Fixpoint first_error (L: layout) (d: inp) : option err :=
  match L with
  | [] => None
  | m :: r =>
    if hinted m && m_param m then
      match rd m d with
      | None => if required m then Some (EMissing (m_name m)) else first_error r d
      | Some v => match eff_conv m v with
                  | None => Some (EInvalid (m_name m))
                  | Some _ => first_error r d
                  end
      end
    else first_error r d
  end.

Definition ref_sel (d: inp) (m: member) : option pv :=
  if hinted m && m_param m
  then match rd m d with Some v => eff_conv m v | None => None end
  else None.
Definition ref_bound (L: layout) (d: inp) : list (string * pv) := selmap m_name (ref_sel d) L.

Definition ref_decode (L: layout) (d: inp) (c: nat) : outcome :=
  match first_error L d with
  | Some e => outcome_of_err e
  | None => match walk (ref_bound L d) L c with
            | None => OTypeError
            | Some (a, c') => OOk a c'
            end
  end.

End WithConv.

(* ---------- domain predicates (computable; evaluated per case by the harness) ---------- *)

(* what Python itself accepts: no positional parameter without default after one with default *)
Fixpoint pos_ok (sd: bool) (L: layout) : bool :=
  match L with
  | [] => true
  | m :: r =>
    if is_posparam m then
      if has_dflt (m_def m) then pos_ok true r else negb sd && pos_ok false r
    else pos_ok sd r
  end.

(* kinds and truth are consistent; an InitVar has a plain default (mashumaro never supplies it) *)
Definition kind_ok (m: member) : bool :=
  match m_kind m with
  | KNormal => if m_field m then true else negb (m_param m)
  | KInitVar => m_param m && match m_def m with DVal _ => true | _ => false end
  | KClassVar | KSentinel => negb (m_param m)
  end.

Definition layout_ok (L: layout) : bool :=
  nodupb (map m_name L) && forallb kind_ok L && pos_ok false L.

(* the builder's view of a hinted member agrees with the truth *)
Definition view_okm (m: member) : bool :=
  match m_kind m with
  | KNormal =>
      m_field m && Bool.eqb (seen_init m) (m_param m) &&
      (if m_param m then
         Bool.eqb (has_dflt (seen_default m)) (has_dflt (m_def m))
         && Bool.eqb (dflt_is_none (seen_default m)) (dflt_is_none (m_def m))
         && match seen_kw m with Some b => Bool.eqb b (m_kw m) | None => true end
       else true)
  | _ => true
  end.
Definition view_ok (L: layout) : bool := forallb view_okm L.

(* labels of factory-made objects among the attributes *)
Definition labels (a: list (string * option pv)) : list nat :=
  flat_map (fun p => match snd p with Some (PFresh n) => [n] | _ => [] end) a.
Definition attr_of (n: string) (a: list (string * option pv)) : option (option pv) := lookup n a.

Definition input_basic (d: inp) : bool := forallb (fun p => basic (snd p)) d.
Definition defaults_basic (L: layout) : bool :=
  forallb (fun m => match m_def m with DVal v => basic v | _ => true end) L.
