(* C05 / kernel K105a: the TEXT of the statements of FieldEmit.v, with the field's own texts replaced by
   placeholders (F = field name, ALIAS / KEY = the key literal, TYPE = the rendered field type, UNPACK = the unpacker
   expression).  The harness normalises every field block of every generated from_dict the same way and compares
   it with the rendering of K105a.fblock for the field's five facts (correspondence c05_field_block_text). *)
From Coq Require Import List String Bool.
From Verif Require Import FieldEmit.
Import ListNotations.
Open Scope string_scope.

Definition tgt_text (t: tgt) : string := match t with TValue => "value" | TField => "__F" end.
Definition ksel_text (k: ksel) : string := match k with KAlias => "ALIAS" | KName => "'F'" | KKey => "KEY" end.
Definition sexpr_text (e: sexpr) : string := match e with EUnpack => "UNPACK" | ETgt t => tgt_text t | ENone => "None" end.

Fixpoint render (ind: string) (s: fstmt) {struct s} : list string :=
  let ind' := ind ++ "    " in
  match s with
  | SGet t k => [ind ++ tgt_text t ++ " = d.get(" ++ ksel_text k ++ ", MISSING)"]
  | SIfMissing t b => (ind ++ "if " ++ tgt_text t ++ " is MISSING:") :: flat_map (render ind') b
  | SIfNotMissing t b => (ind ++ "if " ++ tgt_text t ++ " is not MISSING:") :: flat_map (render ind') b
  | SIfNotNone t b => (ind ++ "if " ++ tgt_text t ++ " is not None:") :: flat_map (render ind') b
  | SElse b => (ind ++ "else:") :: flat_map (render ind') b
  | SRaiseMissing => [ind ++ "raise MissingField('F',TYPE,cls) from None"]
  | STry b => (ind ++ "try:") :: flat_map (render ind') b
              ++ [ind ++ "except:"; ind' ++ "raise InvalidFieldValue('F',TYPE,value,cls)"]
  | SSetKw e => [ind ++ "kwargs['F'] = " ++ sexpr_text e]
  | SSetField e => [ind ++ "__F = " ++ sexpr_text e]
  end.

Definition render_block (b: list fstmt) : list string := flat_map (render "") b.

Fixpoint lines_eqb (a b: list string) : bool :=
  match a, b with
  | [], [] => true
  | x :: r, y :: r' => String.eqb x y && lines_eqb r r'
  | _, _ => false end.
