(* C07 — (T) tie of the nullability test of Bind.v to the translated source: Bind.nullable (the
   `could_be_none` of FieldUnpackerCodeBlockBuilder.build, i.e. CodeBuilder.is_field_nullable) is the
   predicate translated from /repo into VerifGen.K17 on every run.  Uses C08's type-shape grammar
   (OptProj.fty) and its kernel theorem K17Proofs.K17_nullable_lemma; nothing of C08 is changed. *)
From Coq Require Import List String ZArith Bool.
From Verif Require Import PyK PyK_c08.
From Verif Require OptProj K17Proofs Bind.
From VerifGen Require K17.
Import ListNotations.
Open Scope string_scope.

(* the default as get_field_default() returns it, in C08's vocabulary *)
Definition odflt (d: Bind.dflt) : OptProj.dflt :=
  match d with
  | Bind.DNone => OptProj.DNo
  | Bind.DVal Bind.PNone => OptProj.DVal OptProj.PNone
  | Bind.DVal _ => OptProj.DVal (OptProj.POpq 0)
  | Bind.DFac => OptProj.DFac (OptProj.POpq 0)
  end.

(* the type part of the test, computed BY THE TRANSLATED CODE (default: some object that is not None) *)
Definition nullty_code (t: OptProj.fty) : bool :=
  match K17.is_field_nullable (KObj 7) (K17Proofs.enc_fty t) with
  | Ok (KBool b) => b
  | _ => false
  end.

Definition plan_of (d: Bind.dflt) (t: OptProj.fty) : OptProj.fplan :=
  {| OptProj.p_name := ""; OptProj.p_alias := None; OptProj.p_ty := t; OptProj.p_trivial := false;
     OptProj.p_default := odflt d; OptProj.p_omit := false |}.

Lemma nullty_code_spec : forall t, nullty_code t = OptProj.ty_nullable t.
Proof.
  intros t. unfold nullty_code.
  pose proof (K17Proofs.K17_nullable_lemma (plan_of (Bind.DVal (Bind.PInt 0)) t)) as H.
  cbn in H. rewrite H. unfold OptProj.nullable, OptProj.p_tynull. cbn. now rewrite orb_false_r.
Qed.

(* the whole test of the field block is the translated function applied to the field's type shape and to
   the default the builder sees *)
Theorem nullable_is_code : forall (m: Bind.member) (t: OptProj.fty),
  Bind.m_nullty m = nullty_code t ->
  K17.is_field_nullable (K17Proofs.enc_default (odflt (Bind.seen_default m))) (K17Proofs.enc_fty t)
  = Ok (KBool (Bind.nullable m)).
Proof.
  intros m t H.
  pose proof (K17Proofs.K17_nullable_lemma (plan_of (Bind.seen_default m) t)) as HK.
  cbn [plan_of OptProj.p_default OptProj.p_ty] in HK. rewrite HK.
  f_equal. f_equal. unfold OptProj.nullable, Bind.nullable, OptProj.p_tynull. cbn.
  rewrite H, nullty_code_spec. f_equal.
  destruct (Bind.seen_default m) as [|v|]; try reflexivity. destruct v; reflexivity.
Qed.
