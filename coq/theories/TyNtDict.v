(* The as_dict form of a NamedTuple class (pack.py pack_named_tuple / unpack.py unpack_named_tuple with
   as_dict = True): an EXTENSION of TyModel.v in a file of its own (TyModel.v is imported by other
   properties and is not changed).

   The form is selected
     * for ONE class by a serialization strategy of a dialect / Config:
         serialization_strategy = {C: {"serialize": "as_dict", "deserialize": "as_dict"}}
       (the item types keep the default forms: their own NamedTuples are lists), or
     * for every NamedTuple at once by the dialect / Config option namedtuple_as_dict = True.
   Modelled here: one flagged class [c] at the top of a codec (BasicEncoder(C, default_dialect=D) /
   BasicDecoder(C, default_dialect=D)); its items are (un)packed by the generated (un)packers of
   TyModel.v ([pk (cp true t)], [uk (cu true t)]).  With the class-specific strategy the item types are
   arbitrary types of the grammar; with the global option the statement describes the classes whose
   item types reach no further NamedTuple ([nt_free]).

   Generated code (after fix 28df7ca):
     pack     {'a': p_a(value[0]), 'b': p_b(value[1]), ...}
     unpack   no field has a default:   C(u_a(value['a']), u_b(value['b']), ...)
              some field has a default: fields = {}
                                        fields['a'] = u_a(value['a'])                    (field without default)
                                        if 'b' in value: fields['b'] = u_b(value['b'])   (field with a default)
                                        return C( **fields )
   A constant unpacker expression ("None", "()", ...: [konst]) does not mention value[...]: the key is not
   read.  No proofs here (the model must still run when a proof breaks): TyNtDictProofs.v. *)
From Coq Require Import List String Ascii ZArith Bool.
From Verif Require Import Core TupleIdx TyModel.
Import ListNotations.
Open Scope string_scope.

(* 'a' in "xaz": substring test of str.__contains__ (UTF-8 is self-synchronising: on well-formed
   strings the byte-level test is the code-point-level test) *)
Fixpoint str_prefix (a b: string) : bool :=
  match a with
  | EmptyString => true
  | String x a' => match b with
                   | String y b' => Ascii.eqb x y && str_prefix a' b'
                   | EmptyString => false end
  end.
Fixpoint str_in (a b: string) : bool :=
  str_prefix a b || match b with EmptyString => false | String _ b' => str_in a b' end.

(* the dict display: field names (pairwise distinct in a NamedTuple) with the packed items, in field order *)
Definition nd_zip (fds: list sfield) (ys: list pv) : list (pv * pv) :=
  combine (map (fun f => VStr f.(sf_name)) fds) ys.

Section NdPack.
  Context {X: Type}.
  Variable run : sfield -> X -> res pv.
  (* value[i] for every field in turn (IndexError on a short value, surplus items ignored) *)
  Definition nd_pack (fds: list sfield) (l: list X) : res pv :=
    r <- nt_items run (fun _ => None) (fun _ => Exn XIndexError) fds l ;;
    Ok (VDict (nd_zip fds r)).
End NdPack.

(* what the unpacker can observe of its input: value['name'] and 'name' in value.
   [NDict]: a dict (entries carry the closure "decoder of that value", as in TyModel.uk);
   [NCont]: something that supports "in" but is not subscriptable by a str (list / tuple / set: membership,
            str: substring); [NBad]: neither (None, numbers, bytes: "in" raises TypeError as well) *)
Inductive nd_input (D: Type) :=
| NDict (es: list (pv * D))
| NCont (has: string -> bool)
| NBad.
Arguments NDict {D} es.
Arguments NCont {D} has.
Arguments NBad {D}.

Definition nd_input_of {D} (mk: pv -> D) (d: pv) : nd_input D :=
  match d with
  | VDict kvs => NDict (map (fun p => match p with (key, x) => (key, mk x) end) kvs)
  | VList l | VTuple l | VSet _ l | VNT _ l => NCont (fun n => existsb (fun x => py_eq x (VStr n)) l)
  | VStr s => NCont (fun n => str_in n s)
  | _ => NBad end.

Section NdUnpack.
  Context {D: Type}.
  Variable run : sfield -> D -> res pv.            (* the item unpacker of a field applied to the entry found *)
  Variable konst : sfield -> option pv.            (* the unpacker expression is a constant: value['name'] is not evaluated *)

  (* u(value['name']) *)
  Definition nd_read (inp: nd_input D) (f: sfield) : res pv :=
    match konst f with
    | Some c => Ok c
    | None =>
        match inp with
        | NDict es => match look es f.(sf_name) with Some d => run f d | None => Exn XKeyError end
        | _ => Exn XTypeError end
    end.

  (* 'name' in value *)
  Definition nd_has (inp: nd_input D) (n: string) : res bool :=
    match inp with
    | NDict es => Ok (match look es n with Some _ => true | None => false end)
    | NCont has => Ok (has n)
    | NBad => Exn XTypeError end.

  Definition nd_field (inp: nd_input D) (f: sfield) : res pv :=
    match f.(sf_default) with
    | Some dv => b <- nd_has inp f.(sf_name) ;; if b then nd_read inp f else Ok dv    (* C( **fields ) fills the default *)
    | None => nd_read inp f end.

  (* statements / arguments are evaluated in field order: the first failure is the outcome *)
  Fixpoint nd_fields (inp: nd_input D) (fds: list sfield) : res (list pv) :=
    match fds with
    | [] => Ok []
    | f :: rest => y <- nd_field inp f ;; ys <- nd_fields inp rest ;; Ok (y :: ys)
    end.
End NdUnpack.

Section RunNd.
  Variable E : senv.
  Variable P : prims.

  (* generated packer of the flagged class [c] *)
  Definition pk_nd (v: pv) (c: string) : res pv :=
    match sfind E KNamed c with
    | None => Exn XAttributeError
    | Some k =>
        match v with
        | VNT _ l | VTuple l | VList l => nd_pack (fun f x => pk E P x (cp true f.(sf_ty))) k.(sc_fields) l
        | _ => Exn XTypeError end
    end.

  (* reference: a dict with one converted item per field under the field's name, in field order *)
  Definition ref_enc_nd (v: pv) (c: string) : res pv :=
    match sfind E KNamed c with
    | None => Exn XAttributeError
    | Some k =>
        match v with
        | VNT _ l | VTuple l | VList l => nd_pack (fun f x => ref_enc E P x f.(sf_ty)) k.(sc_fields) l
        | _ => Exn XTypeError end
    end.

  (* generated unpacker of the flagged class *)
  Definition uk_nd (d: pv) (c: string) : res pv :=
    match sfind E KNamed c with
    | None => Exn XAttributeError
    | Some k =>
        r <- nd_fields (fun f (dx: pdec -> res pv) => dx (cu true f.(sf_ty))) (konst_u E)
                       (nd_input_of (fun x => uk E P x) d) k.(sc_fields) ;;
        Ok (VNT c r)
    end.

  (* reference: the class applied to one converted item per field, looked up by field name; a missing key is
     legal exactly for a field with a default (which it then takes); unknown keys are ignored; a type whose
     constructor takes no information from the input ([konst_t]) does not need its key.
     [strict]: the two readings of tuples with an unpacked segment inside the items (TyModel.v, Section Mode) *)
  Definition ref_dec_nd_g (strict: bool) (d: pv) (c: string) : res pv :=
    match sfind E KNamed c with
    | None => Exn XAttributeError
    | Some k =>
        r <- nd_fields (fun f (dx: sty -> res pv) => dx f.(sf_ty)) (konst_t E)
                       (nd_input_of (fun x => ref_dec_g E P strict x) d) k.(sc_fields) ;;
        Ok (VNT c r)
    end.
End RunNd.

Notation ref_dec_nd E P := (ref_dec_nd_g E P true).
Notation ref_dec_nd_l E P := (ref_dec_nd_g E P false).

(* the global option namedtuple_as_dict flags every NamedTuple class: the statements about one flagged
   class then describe the classes whose item types reach no other NamedTuple.  Reachability through
   dataclasses / TypedDicts of the class table: every reachable class is reachable along a path of
   pairwise distinct classes, i.e. of at most [List.length E] classes; when the fuel [List.length E] is used
   up the path has just repeated a class (recursive dataclass), whose fields are examined where it was
   entered first -- hence [true] there.  (Used as the domain predicate of the correspondence for the global
   option only; no theorem depends on it.) *)
Section NtFree.
  Variable E : senv.
  Fixpoint nt_free_n (n: nat) {struct n} : sty -> bool :=
    fix on_t (t: sty) {struct t} : bool :=
      match t with
      | SNamed _ => false
      | SList t' | SSet _ t' | STupleVar t' | SOpt t' | SSeq t' | SBox _ t' => on_t t'
      | STupleFix ts => forallb on_t ts
      | STupleU pre mid post => forallb on_t pre && on_t mid && forallb on_t post
      | SDict kt vt | SMap kt vt => on_t kt && on_t vt
      | SData c =>
          match n with
          | O => true
          | S n' => match sfind E KData c with
                    | Some k => forallb (fun f => nt_free_n n' f.(sf_ty)) k.(sc_fields)
                    | None => true end
          end
      | STyped c =>
          match n with
          | O => true
          | S n' => match sfind E KTyped c with
                    | Some k => forallb (fun f => nt_free_n n' f.(sf_ty)) k.(sc_fields)
                    | None => true end
          end
      | _ => true end.
  Definition nt_free (t: sty) : bool := nt_free_n (List.length E) t.
End NtFree.
