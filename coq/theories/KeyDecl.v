(* C09 -- where the alias data comes from.

   KeyModel.collect says which declaration of a field a class sees (nearest declaration, replaced in
   place).  Here this is *proved equal to what the library computes*: CodeBuilder.dataclass_fields,
   translated from /repo on every run as VerifGen.K5.dataclass_fields (tied to FieldDecl.ref_fields by
   C10), is run on the encoding of a hierarchy; `metadatas.get(fname, {}).get("alias")` of its result is
   the metadata alias of the declaration KeyModel.collect selects, and hence K4.get_field_alias applied
   to it is KeyModel.alias_of.

   Modelled (CPython `dataclasses`, compared with the real classes on every run by the harness):
   the `__dataclass_fields__` of an ancestor is cumulative = collect of the hierarchy up to it. *)
From Coq Require Import List String Ascii ZArith Bool Arith Lia.
From Verif Require Import Regex PyK PyK_strat PyK_alias FieldDecl FieldDeclProofs KeyModel KeyImpl KeyProofs.
From VerifGen Require Import K4 K5.
Import ListNotations.
Open Scope string_scope.
Open Scope list_scope.

Section Source.

(* the metadata mapping written in a declaration: anything whose "alias" entry is the declared alias
   (other keys, e.g. serialization options, may be present) *)
Variable mdf : fld -> kv.
Hypothesis mdf_alias : forall f, k_dict_get (mdf f) (KStr "alias") = Ok (enc_ostr (f_meta f)).

(* __dataclass_fields__ of a class whose collected declarations are ds: name -> metadata *)
Definition cum (ds: list (fld * bool)) : list (string * kv) := map (fun p => (dname p, mdf (fst p))) ds.

(* the dataclass ancestors, nearest first; r = the classes above the class itself, nearest first *)
Fixpoint anc (r: list level) : list pyclass :=
  match r with
  | [] => []
  | l :: r' => Some (cum (collect (rev (l :: r')))) :: anc r'
  end.

(* classes of the MRO that contribute no field: not dataclasses (object, the mixins) or field-less ones *)
Definition fieldless (c: pyclass) : Prop := c = None \/ c = Some [].

(* metadatas.get(fname, {}).get("alias") *)
Definition alias_md (o: option kv) : res kv :=
  match o with
  | Some fo => md <- k_getattr2 fo (KStr "metadata") ;; k_dict_get md (KStr "alias")
  | None => k_dict_get (KDict []) (KStr "alias")
  end.

Definition decl_alias (ds: list (fld * bool)) (n: string) : option string :=
  match lookup_decl n ds with Some (f, _) => f_meta f | None => None end.

(* what the loop over the class's own annotations leaves for an own name *)
Definition own_result (nsd: sdict) (ownf: option sdict) (n: string) : option kv :=
  let v1 := or_missing (sd_get nsd n) in
  if k_is_field v1 then Some v1 else
  let v2 := match ownf with Some f => or_missing (sd_get f n) | None => KMissing end in
  if k_is_field v2 then Some v2 else None.

(* ---- facts about dictionaries ---- *)

Lemma sd_get_remove_same d n : NoDup (map fst d) -> sd_get (sd_remove d n) n = None.
Proof.
  induction d as [|[k x] r IH]; intro H; [reflexivity|]. cbn [sd_remove].
  inversion H as [|? ? Hk Hr]; subst.
  destruct (String.eqb k n) eqn:E.
  - apply String.eqb_eq in E. subst k. clear IH H Hr.
    induction r as [|[k' x'] r' IH']; [reflexivity|]. cbn [sd_get].
    destruct (String.eqb k' n) eqn:E'.
    + apply String.eqb_eq in E'. subst k'. exfalso. apply Hk. now left.
    + apply IH'. intro Hin. apply Hk. now right.
  - cbn [sd_get]. rewrite E. now apply IH.
Qed.

Lemma sd_set_keys d n v : NoDup (map fst d) -> NoDup (map fst (sd_set d n v)).
Proof.
  induction d as [|[k x] r IH]; intro H; cbn [sd_set map fst].
  - constructor; [intros []|constructor].
  - inversion H as [|? ? Hk Hr]; subst. destruct (String.eqb k n) eqn:E; cbn [map fst].
    + assumption.
    + constructor; [|now apply IH]. intro Hin.
      assert (Hsub: forall d, In k (map fst (sd_set d n v)) -> In k (map fst d) \/ k = n).
      { clear. induction d as [|[k' x'] r' IH']; cbn [sd_set map fst In].
        - intros [H|[]]; right; now symmetry.
        - destruct (String.eqb k' n); cbn [map fst In]; intros [H|H]; auto.
          destruct (IH' H); auto. }
      destruct (Hsub _ Hin) as [H1|H1]; [contradiction|]. subst. now rewrite String.eqb_refl in E.
Qed.

Lemma sd_remove_keys d n : NoDup (map fst d) -> NoDup (map fst (sd_remove d n)).
Proof.
  induction d as [|[k x] r IH]; intro H; cbn [sd_remove map fst]; [constructor|].
  inversion H as [|? ? Hk Hr]; subst. destruct (String.eqb k n); [assumption|].
  cbn [map fst]. constructor; [|now apply IH]. intro Hin. apply Hk.
  clear - Hin. induction r as [|[k' x'] r' IH']; [contradiction|]. cbn [sd_remove] in Hin.
  destruct (String.eqb k' n); cbn [map fst In] in *; [now right|]. destruct Hin; auto.
Qed.

Lemma upd_class_keys c d : NoDup (map fst d) -> NoDup (map fst (upd_class d c)).
Proof.
  destruct c as [fs|]; cbn [upd_class]; [|auto]. revert d.
  induction fs as [|p r IH]; intros d H; cbn [fold_left]; [assumption|]. apply IH. now apply sd_set_keys.
Qed.

Lemma inherited_keys rest : NoDup (map fst (inherited rest)).
Proof.
  unfold inherited. generalize (rev rest) as cs. intro cs.
  assert (H: forall cs d, NoDup (map fst d) -> NoDup (map fst (fold_left upd_class cs d))).
  { clear. induction cs as [|c r IH]; intros d H; cbn [fold_left]; [assumption|]. apply IH. now apply upd_class_keys. }
  apply H. constructor.
Qed.

Lemma own_step_keys nsd ownf d n : NoDup (map fst d) -> NoDup (map fst (own_step nsd ownf d n)).
Proof.
  intro H. unfold own_step.
  destruct (k_is_field _); [now apply sd_set_keys|].
  destruct (k_is_field _); [now apply sd_set_keys | now apply sd_remove_keys].
Qed.

Lemma own_step_same nsd ownf d n : NoDup (map fst d) ->
  sd_get (own_step nsd ownf d n) n = own_result nsd ownf n.
Proof.
  intro H. unfold own_step, own_result.
  destruct (k_is_field (or_missing (sd_get nsd n))); [now rewrite sd_get_set, String.eqb_refl|].
  destruct (k_is_field _); [now rewrite sd_get_set, String.eqb_refl | now apply sd_get_remove_same].
Qed.

(* an own name ends up with what its (last) step wrote *)
Lemma ref_fields_own rest own nsd ownf n : In n own ->
  sd_get (ref_fields rest own nsd ownf) n = own_result nsd ownf n.
Proof.
  unfold ref_fields. generalize (inherited_keys rest). generalize (inherited rest) as d.
  induction own as [|k r IH]; intros d Hd Hin; [contradiction|]. cbn [fold_left].
  destruct (in_dec string_dec n r) as [Hr|Hr].
  - apply IH; [now apply own_step_keys | assumption].
  - destruct Hin as [->|Hin]; [|contradiction].
    assert (Hrest: forall r d, ~ In n r -> sd_get (fold_left (own_step nsd ownf) r d) n = sd_get d n).
    { clear. induction r as [|k r IH]; intros d H; [reflexivity|]. cbn [fold_left].
      rewrite IH by (intro; apply H; now right). apply own_step_other. apply String.eqb_neq.
      intros ->. apply H. now left. }
    rewrite Hrest by assumption. now apply own_step_same.
Qed.

(* ---- the inherited part: the nearest dataclass ancestor is cumulative ---- *)

Lemma flast_cum ds n : NoDup (map dname ds) ->
  flast (cum ds) n = option_map (fun p => mdf (fst p)) (lookup_decl n ds).
Proof.
  intro H. unfold flast, cum, lookup_decl.
  assert (G: forall ds acc, NoDup (map dname ds) ->
             fold_left (fun acc p => if String.eqb (fst p) n then Some (snd p) else acc)
                       (map (fun p => (dname p, mdf (fst p))) ds) acc
             = match find (fun p => String.eqb (f_name (fst p)) n) ds with
               | Some p => Some (mdf (fst p)) | None => acc end).
  { clear. induction ds as [|p r IH]; intros acc H; cbn [map fold_left find fst snd]; [reflexivity|].
    inversion H as [|? ? Hp Hr]; subst. rewrite IH by assumption.
    change (f_name (fst p)) with (dname p).
    destruct (String.eqb (dname p) n) eqn:E; [|reflexivity].
    apply String.eqb_eq in E. subst n.
    destruct (find (fun q => String.eqb (f_name (fst q)) (dname p)) r) as [q|] eqn:F; [|reflexivity].
    exfalso. apply find_some in F as [Hin Hq]. apply String.eqb_eq in Hq. apply Hp.
    apply in_map_iff. exists q. split; assumption. }
  rewrite G by assumption. destruct (find _ ds); reflexivity.
Qed.

Lemma nearest_fieldless extra n : Forall fieldless extra -> nearest extra n = None.
Proof.
  induction 1 as [|c r Hc _ IH]; [reflexivity|]. cbn [nearest].
  destruct Hc as [->| ->]; [exact IH|]. cbn. exact IH.
Qed.

Lemma nearest_app a b n : nearest (a ++ b) n = match nearest a n with Some m => Some m | None => nearest b n end.
Proof.
  induction a as [|c r IH]; [reflexivity|]. cbn [app nearest].
  destruct c as [fs|]; [|exact IH]. destruct (flast fs n); [reflexivity|exact IH].
Qed.

(* a field of a farther dataclass ancestor is a field of every nearer one *)
Lemma lookup_collect_mono ls l n :
  lookup_decl n (collect ls) <> None -> lookup_decl n (collect (ls ++ [l])) <> None.
Proof.
  intro H. rewrite nearest_declaration. destruct (lookup_decl n (rev (l_decls l))); [discriminate|exact H].
Qed.

Lemma nearest_anc r n :
  nearest (anc r) n = option_map (fun p => mdf (fst p)) (lookup_decl n (collect (rev r))).
Proof.
  induction r as [|l r' IH]; [reflexivity|]. cbn [anc nearest].
  rewrite flast_cum by apply collect_nodup.
  destruct (lookup_decl n (collect (rev (l :: r')))) as [p|] eqn:E; [reflexivity|].
  rewrite IH. cbn [rev] in E.
  destruct (lookup_decl n (collect (rev r'))) eqn:E'; [|reflexivity].
  exfalso. apply (lookup_collect_mono (rev r') l n); [congruence|exact E].
Qed.

(* ---- the source theorem, on FieldDecl.ref_fields ---- *)

(* rest: the MRO of the class after the class itself, as the builder sees it (each entry: the
   __dataclass_fields__ of that class, or None); it resolves names like the hierarchy ls of the ancestors *)
Definition mro_of (rest: list pyclass) (ls: list level) : Prop :=
  forall n, nearest rest n = option_map (fun p => mdf (fst p)) (lookup_decl n (collect ls)).

Theorem ref_fields_alias : forall (ls: list level) (l: level) (rest: list pyclass) nsd ownf,
  mro_of rest ls ->
  (forall n f i, lookup_decl n (rev (l_decls l)) = Some (f, i) ->
     alias_md (own_result nsd ownf n) = Ok (enc_ostr (f_meta f))) ->
  forall n,
    alias_md (sd_get (ref_fields rest (map dname (l_decls l)) nsd ownf) n)
    = Ok (enc_ostr (decl_alias (collect (ls ++ [l])) n)).
Proof.
  intros ls l rest nsd ownf Hrest Hown n.
  unfold decl_alias. rewrite nearest_declaration.
  destruct (in_dec string_dec n (map dname (l_decls l))) as [Hin|Hin].
  - rewrite ref_fields_own by assumption.
    destruct (lookup_decl n (rev (l_decls l))) as [[f i]|] eqn:E; [now apply (Hown n f i)|].
    exfalso. apply in_map_iff in Hin as [p [Hp Hin]].
    unfold lookup_decl in E. pose proof (find_none _ _ E p (proj1 (in_rev _ _) Hin)) as Hc.
    cbn beta in Hc. change (f_name (fst p)) with (dname p) in Hc. rewrite Hp, String.eqb_refl in Hc. discriminate.
  - rewrite ref_fields_inherited by assumption.
    assert (E: lookup_decl n (rev (l_decls l)) = None).
    { unfold lookup_decl. destruct (find _ (rev (l_decls l))) as [p|] eqn:F; [|reflexivity].
      exfalso. apply find_some in F as [Hp Hq]. apply String.eqb_eq in Hq. apply Hin.
      apply in_map_iff. exists p. split; [exact Hq | now apply in_rev]. }
    rewrite E. rewrite (Hrest n).
    destruct (lookup_decl n (collect ls)) as [[f i]|]; cbn [option_map alias_md fst].
    + unfold mk_field. cbn. apply mdf_alias.
    + reflexivity.
Qed.

(* ---- two shapes of MRO ---- *)

(* single inheritance K(B), B(A): every ancestor's __dataclass_fields__ is cumulative *)
Lemma mro_chain : forall ls extra, Forall fieldless extra -> mro_of (anc (rev ls) ++ extra) ls.
Proof.
  intros ls extra Hex n. rewrite nearest_app, nearest_anc, rev_involutive, (nearest_fieldless extra n Hex).
  destruct (lookup_decl n (collect ls)); reflexivity.
Qed.

(* multiple inheritance from unrelated classes K(B, A): the MRO lists them nearest first, each with the
   fields of its own body only *)
Definition roots (ls: list level) : list pyclass := map (fun l => Some (cum (collect [l]))) (rev ls).

Lemma mro_roots : forall ls extra, Forall fieldless extra -> mro_of (roots ls ++ extra) ls.
Proof.
  intros ls extra Hex n. rewrite nearest_app, (nearest_fieldless extra n Hex). unfold roots.
  induction ls as [|l r IH] using rev_ind; [reflexivity|].
  rewrite rev_app_distr. cbn [rev app map nearest].
  rewrite flast_cum by apply collect_nodup.
  change [l] with ([] ++ [l]) at 1. rewrite !nearest_declaration.
  destruct (lookup_decl n (rev (l_decls l))) as [p|]; [reflexivity|].
  cbn [collect fold_left lookup_decl find option_map]. exact IH.
Qed.

(* ---- the two views the builder has of the class's own body ---- *)

(* (a) the class is finished (@dataclass has run; codecs, and every later compilation): its own
   __dict__ holds no Field objects any more, and its own __dataclass_fields__ is cumulative *)
Lemma own_view_finished : forall ls l nsd,
  (forall n, In n (map dname (l_decls l)) -> k_is_field (or_missing (sd_get nsd n)) = false) ->
  forall n f i, lookup_decl n (rev (l_decls l)) = Some (f, i) ->
    alias_md (own_result nsd (Some (fields_dict (cum (collect (ls ++ [l]))))) n) = Ok (enc_ostr (f_meta f)).
Proof.
  intros ls l nsd Hns n f i E. unfold own_result.
  assert (Hin: In n (map dname (l_decls l))).
  { unfold lookup_decl in E. apply find_some in E as [Hp Hq]. apply String.eqb_eq in Hq.
    apply in_map_iff. exists (f, i). split; [exact Hq | now apply in_rev]. }
  rewrite (Hns n Hin).
  assert (G: sd_get (fields_dict (cum (collect (ls ++ [l])))) n = Some (mk_field n (mdf f))).
  { assert (L: lookup_decl n (collect (ls ++ [l])) = Some (f, i)) by (now rewrite nearest_declaration, E).
    revert L. generalize (collect_nodup (ls ++ [l])). generalize (collect (ls ++ [l])) as ds.
    unfold fields_dict, cum, lookup_decl. induction ds as [|p r IH]; intros Hnd L; [discriminate|].
    cbn [map fst snd sd_get find] in *. change (f_name (fst p)) with (dname p) in L.
    destruct (String.eqb (dname p) n) eqn:Ep.
    - inversion L; subst p. apply String.eqb_eq in Ep. now rewrite <- Ep.
    - inversion Hnd; subst. now apply IH. }
  rewrite G. cbn [or_missing]. unfold mk_field at 1. cbn [k_is_field ns_get String.eqb Ascii.eqb].
  cbn. apply mdf_alias.
Qed.

(* (b) the mixin compiles inside __init_subclass__, *before* @dataclass runs: the class has no own
   __dataclass_fields__ yet; a declaration written with field(...) sits in __dict__ as a Field object
   (its name is still None) carrying the metadata; any other declaration is a plain value or absent,
   and then the declaration has no metadata *)
Lemma own_view_raw : forall (l: level) nsd,
  (forall n f i, lookup_decl n (rev (l_decls l)) = Some (f, i) ->
     sd_get nsd n = Some (KNs [("name", KNone); ("metadata", mdf f)])
     \/ (k_is_field (or_missing (sd_get nsd n)) = false /\ f_meta f = None)) ->
  forall n f i, lookup_decl n (rev (l_decls l)) = Some (f, i) ->
    alias_md (own_result nsd None n) = Ok (enc_ostr (f_meta f)).
Proof.
  intros l nsd H n f i E. unfold own_result. destruct (H n f i E) as [Hs|[Hs Hm]].
  - rewrite Hs. cbn. apply mdf_alias.
  - rewrite Hs, Hm. reflexivity.
Qed.

End Source.

(* ---- from the translated sources to KeyModel.alias_of ---- *)

(* metadatas.get(fname, {}) *)
Definition md_lookup (d: sdict) (n: string) : res kv :=
  match sd_get d n with Some fo => k_getattr2 fo (KStr "metadata") | None => Ok (KDict []) end.

Lemma effective_lookup ls f : In f (effective ls) -> lookup_decl (f_name f) (collect ls) = Some (f, true).
Proof.
  unfold effective. intro H. apply in_map_iff in H as [[g b] [Hg Hin]]. cbn in Hg. subst g.
  apply filter_In in Hin as [Hin Hb]. cbn in Hb. subst b.
  generalize (collect_nodup ls). revert Hin. generalize (collect ls) as ds.
  unfold lookup_decl. induction ds as [|p r IH]; intros Hin Hnd; [contradiction|]. cbn [find].
  inversion Hnd as [|? ? Hp Hr]; subst. destruct Hin as [->|Hin].
  - cbn [fst]. now rewrite String.eqb_refl.
  - destruct (String.eqb (f_name (fst p)) (f_name f)) eqn:E; [|now apply IH].
    exfalso. apply String.eqb_eq in E. apply Hp. apply in_map_iff. exists (f, true). split; [now symmetry|assumption].
Qed.

(* CodeBuilder.dataclass_fields (K5) run on the hierarchy, then metadatas.get / __get_field_alias (K4),
   gives KeyModel.alias_of of the class the hierarchy denotes -- for both views of the class body *)
Theorem alias_from_sources :
  forall (mdf: fld -> kv), (forall f, k_dict_get (mdf f) (KStr "alias") = Ok (enc_ostr (f_meta f))) ->
  forall (ls: list level) (l: level) (rest: list pyclass) (c0: pyclass) nsd ownf discr,
  mro_of mdf rest ls ->
  sd_get nsd "__dataclass_fields__" = None -> ~ In "__dataclass_fields__" (map dname (l_decls l)) ->
  (forall n f i, lookup_decl n (rev (l_decls l)) = Some (f, i) ->
     alias_md (own_result nsd ownf n) = Ok (enc_ostr (f_meta f))) ->
  exists d,
    dataclass_fields (KTuple (enc_class c0 :: map enc_class rest))
                     (KList (map KStr (map dname (l_decls l)))) (enc_namespace nsd ownf)
    = Ok (KDict (enc_sd d))
    /\ forall f, In f (effective (ls ++ [l])) ->
       exists md, md_lookup d (f_name f) = Ok md
         /\ get_field_alias (KStr (f_name f)) md
              (KBool (match f_ann f with Some _ => true | None => false end))
              (match f_ann f with Some a => KTuple (map enc_ann a) | None => KNone end)
              (enc_aliases (c_aliases (class_of (ls ++ [l]) discr)))
            = Ok (enc_ostr (alias_of (class_of (ls ++ [l]) discr) f)).
Proof.
  intros mdf Hmdf ls l rest c0 nsd ownf discr Hex Hns Hown Hview.
  exists (ref_fields rest (map dname (l_decls l)) nsd ownf).
  split; [apply dataclass_fields_ref; assumption|].
  intros f Hf.
  pose proof (ref_fields_alias mdf Hmdf ls l rest nsd ownf Hex Hview (f_name f)) as HA.
  unfold decl_alias in HA. rewrite (effective_lookup _ _ Hf) in HA.
  unfold md_lookup, alias_md in *.
  destruct (sd_get (ref_fields rest (map dname (l_decls l)) nsd ownf) (f_name f)) as [fo|].
  - destruct (k_getattr2 fo (KStr "metadata")) as [md|e]; [|discriminate HA]. cbn [bind] in HA.
    exists md. split; [reflexivity|].
    unfold alias_of, ann_alias. destruct (f_ann f) as [a|].
    + apply (get_field_alias_spec _ _ _ _ true a); [exact HA | reflexivity].
    + apply (get_field_alias_spec _ _ _ _ false []); [exact HA | discriminate].
  - exists (KDict []). split; [reflexivity|].
    unfold alias_of, ann_alias. destruct (f_ann f) as [a|].
    + apply (get_field_alias_spec _ _ _ _ true a); [exact HA | reflexivity].
    + apply (get_field_alias_spec _ _ _ _ false []); [exact HA | discriminate].
Qed.
