(* C11: union / optional positions at any depth of the surrounding type.

   Type grammar [cty] = scalars, leaves (by the behaviour of their unpacker), unions, Optional and
   the container forms around them: List[T] / Sequence[T], Tuple[T, ...], Tuple[T1, .., Tn],
   Dict[str, T].  [ydec] is the unpacker the generator emits (union positions = the generated union
   method of UnionModel.union_dec; containers = the comprehension / indexing expressions of
   unpack.py: `[u(value) for value in value]`, `tuple([...])`, `tuple([u0(value[0]), ...])`,
   `{str(key): u(value) for key, value in value.items()}`, every item with the
   `... if value is not None else None` test of an Optional).  [yref] is the reference: the same
   container plumbing with the property's ref_union at every union position.
   No proofs here.  Proofs: UnionDeepProofs.v. *)
From Coq Require Import List String Ascii ZArith Bool.
From Verif Require Import UnionModel.
Import ListNotations.
Open Scope string_scope.

(* ------------------------------------------------------------------ *)
(* CPython primitives used by the container expressions (modelled, not verified) *)

Definition chars (s: string) : list uv := map (fun c => UStr (String c "")) (list_ascii_of_string s).

(* `for value in d` *)
Definition iter_of (d: uv) : option (list uv) :=
  match d with
  | UList l | UTuple l => Some l
  | UStr s => Some (chars s)             (* one-character strings (ASCII inputs) *)
  | UDict kvs => Some (map fst kvs)      (* keys *)
  | _ => None end.

(* `d[i]` for a non-negative constant i *)
Definition index_of (d: uv) (i: nat) : option uv :=
  match d with
  | UList l | UTuple l => nth_error l i
  | UStr s => nth_error (chars s) i
  | UDict kvs => match find (fun p => uv_eqb (fst p) (UInt (Z.of_nat i))) kvs with Some p => Some (snd p) | None => None end
  | _ => None end.

(* `d.items()` *)
Definition items_of (d: uv) : option (list (uv * uv)) :=
  match d with UDict kvs => Some kvs | _ => None end.

Section MapO.
  Context {A B: Type} (f: A -> option B).
  Fixpoint mapO (l: list A) : option (list B) :=
    match l with
    | [] => Some []
    | x :: r => match f x with
                | None => None
                | Some y => match mapO r with Some ys => Some (y :: ys) | None => None end
                end
    end.
End MapO.

(* comprehension over the input *)
Definition seq_run (wrap: list uv -> uv) (f: uv -> option uv) (d: uv) : option uv :=
  match iter_of d with
  | None => None
  | Some l => option_map wrap (mapO f l) end.

(* `tuple([u0(value[0]), u1(value[1]), ...])` *)
Fixpoint tup_items (fs: list (uv -> option uv)) (d: uv) (i: nat) : option (list uv) :=
  match fs with
  | [] => Some []
  | f :: r => match index_of d i with
              | None => None
              | Some x => match f x with
                          | None => None
                          | Some y => match tup_items r d (S i) with Some ys => Some (y :: ys) | None => None end
                          end
              end
  end.
Definition tup_run (fs: list (uv -> option uv)) (d: uv) : option uv := option_map UTuple (tup_items fs d 0).

(* `{str(key): u(value) for key, value in value.items()}` (no two keys of the input collide after str()) *)
Definition dict_run (kf f: uv -> option uv) (d: uv) : option uv :=
  match items_of d with
  | None => None
  | Some kvs => option_map UDict (mapO (fun kv => match kv with (k, x) =>
                   match kf k, f x with Some k', Some y => Some (k', y) | _, _ => None end end) kvs)
  end.

(* ------------------------------------------------------------------ *)
Inductive cty :=
| YS (k: skind)
| YLeaf (f: uv -> option uv)
| YU (l: list (nat * cty))            (* members with the identity of their unpacker expression *)
| YOpt (t: cty)
| YList (t: cty)
| YTupV (t: cty)
| YTupF (l: list cty)
| YDict (t: cty).

Section Deep.
  Variable co : skind -> uv -> option uv.

  Section Gen.
    (* the union method used at union positions: union_dec (generated code) or ref_union (reference) *)
    Variable U : list member -> uv -> option uv.
    (* unpacker of a bare None type: the constant None (generated) / only None (reference) *)
    Variable N : skind -> uv -> option uv.

    Fixpoint ygen (t: cty) : uv -> option uv :=
      match t with
      | YS k => N k
      | YLeaf f => f
      | YU l => U (map (fun p => match p with (e, t') =>
                         match t' with YS k => MS k | _ => MN e (ygen t') end end) l)
      | YOpt t' => opt_dec (ygen t')
      | YList t' => seq_run UList (ygen t')
      | YTupV t' => seq_run UTuple (ygen t')
      | YTupF l => tup_run (map ygen l)
      | YDict t' => dict_run (co KStr) (ygen t')
      end.

    Definition ymember (p: nat * cty) : member :=
      match p with (e, t') => match t' with YS k => MS k | _ => MN e (ygen t') end end.
  End Gen.

  Definition ydec : cty -> uv -> option uv := ygen (union_dec co) (coerce co).
  Definition yref : cty -> uv -> option uv := ygen (ref_union co) (ref_coerce co).

  (* ---------------- domain: every union visited while decoding d is in the partial theorem's domain ---- *)
  Definition seq_all (p: uv -> bool) (d: uv) : bool :=
    match iter_of d with Some l => forallb p l | None => true end.
  Fixpoint tup_all (ps: list (uv -> bool)) (d: uv) (i: nat) : bool :=
    match ps with
    | [] => true
    | p :: r => match index_of d i with
                | None => true
                | Some x => p x && tup_all r d (S i) end
    end.
  Definition dict_all (p: uv -> bool) (d: uv) : bool :=
    match items_of d with Some kvs => forallb (fun kv => p (snd kv)) kvs | None => true end.

  Fixpoint ysafe (t: cty) : uv -> bool :=
    match t with
    | YS KNone => is_none
    | YS _ => fun _ => true
    | YLeaf _ => fun _ => true
    | YU l => fun d => none_safe (map (ymember (union_dec co) (coerce co)) l) d
                       && no_shadow (map (ymember (union_dec co) (coerce co)) l) d
                       && forallb (fun p => match p with (_, t') => match t' with YS _ => true | _ => ysafe t' d end end) l
    | YOpt t' => fun d => is_none d || ysafe t' d
    | YList t' | YTupV t' => seq_all (ysafe t')
    | YTupF l => fun d => tup_all (map ysafe l) d 0
    | YDict t' => dict_all (ysafe t')
    end.
End Deep.

(* ------------------------------------------------------------------ *)
(* finite tables: behaviour of a leaf unpacker / scalar coercion observed on the real code *)
Definition tb (l: list (uv * option uv)) (d: uv) : option uv :=
  match find (fun p => uv_eqb (fst p) d) l with Some p => snd p | None => None end.

Definition co_tb (l: list (skind * list (uv * option uv))) (k: skind) (d: uv) : option uv :=
  match find (fun p => skind_eqb (fst p) k) l with Some p => tb (snd p) d | None => None end.

Record dcase := DCA {
  dc_t : cty;
  dc_co : list (skind * list (uv * option uv));
  dc_d : uv;
  dc_obs : option uv;      (* the real decoder *)
  dc_ref : option uv       (* the Python reference interpreter *)
}.
Definition dcase_ok_model (c: dcase) : bool := ouv_eqb (ydec (co_tb (dc_co c)) (dc_t c) (dc_d c)) (dc_obs c).
Definition dcase_ok_ref (c: dcase) : bool := ouv_eqb (yref (co_tb (dc_co c)) (dc_t c) (dc_d c)) (dc_ref c).
Definition dcase_ok (c: dcase) : bool := dcase_ok_model c && dcase_ok_ref c.
(* the implementation follows the reference where the faithful model deviates (a repaired finding) *)
Definition dcase_stale (c: dcase) : bool :=
  negb (dcase_ok_model c) && dcase_ok_ref c && ouv_eqb (dc_obs c) (dc_ref c).
(* in the theorem's domain model and reference coincide: evaluated per case as a sanity check of the statement *)
Definition dcase_thm (c: dcase) : bool :=
  implb (ysafe (co_tb (dc_co c)) (dc_t c) (dc_d c))
        (ouv_eqb (ydec (co_tb (dc_co c)) (dc_t c) (dc_d c)) (yref (co_tb (dc_co c)) (dc_t c) (dc_d c))).
